(* Glue between the Go harness (harness/cmd/walk) and the model/spec: the record the harness prints for every
   case, the configuration it denotes, boolean equality on observations, and the per-case verdict functions
   evaluated by vm_compute in the generated cases files.  No proofs in this file. *)
From Coq Require Import List ZArith NArith Bool Arith.
From Scalibr Require Import Lib.SortSearch Walk.Model Walk.Spec Walk.Perm Walk.Sched Walk.Faults.
Import ListNotations.

(* ------------------------------------------------------------------ observations *)
Inductive oclass := OOk | OErr (a : abort) | OPanic.

Inductive sobs := SNone | SPanic | SDone (failed : bool) (inv : list tpkg) (sts : list (ext * status)) (fnd : list finding).

Record obs := {
  o_class : oclass;                     (* filesystem.Run: returned nil error / which error / panicked *)
  o_events : list event;                (* AfterInodeVisited, FileRequired and Extract calls, in order *)
  o_inv : list tpkg;                    (* returned Inventory.Packages: (Extractor.Name(), name, version, locations) *)
  o_status : list (ext * status);       (* returned []*plugin.Status: name, enum, failure reason split into items *)
  o_scan : sobs }.                      (* scalibr.Scan on the same input: status failed?, sorted packages, sorted plugin statuses *)

(* shorthands used by the harness printer *)
Definition Fc (n : N) (k : kind) (size : Z) (data : N) : node := File n k size data no_ff.
Definition Ff (n : N) (k : kind) (size : Z) (data : N) (o f s : bool) : node :=
  File n k size data {| ff_open := o; ff_fstat := f; ff_stat := s |}.
Definition Dc (n : N) (ch : list node) : node := Dir n ch no_df.
Definition Df (n : N) (ch : list node) (o : bool) (ra : option nat) (s : bool) : node :=
  Dir n ch {| df_open := o; df_read_at := ra; df_stat := s |}.
Definition Pk (n v : bytes) (l : list bytes) : pkg := {| p_name := n; p_version := v; p_locs := l |}.

(* ------------------------------------------------------------------ case record *)
Record wcase := {
  w_roots : list node;
  w_exts : list ext;
  w_req : list (ext * path);                       (* FileRequired table: listed pairs are true *)
  w_statreq : list (ext * Z);                      (* extractors whose FileRequired also wants api.Stat().Size() >= threshold *)
  w_xt : list (ext * path * xres);                 (* Extract table: default XRes [] false *)
  w_pat : list (N * path * bool);                  (* go-git Match table: listed triples are true *)
  w_skip : list path;
  w_re : option (list path);                       (* regex set: paths it matches *)
  w_glob : option (list path);
  w_gi : bool;
  w_isd : bool;
  w_paths : list path;
  w_sym : bool;
  w_maxi : Z;
  w_maxs : Z;
  w_fatal : bool;
  w_abs : option (list N);                         (* StoreAbsolutePath: the scan root's path *)
  w_cancel : cancel;
  w_dets : list (list N * list finding);            (* detectors given to scalibr.Scan: name, findings returned *)
  w_group : N;                                     (* C08: cases with the same non-zero group are listings of the same content *)
  w_obs : obs }.

Fixpoint list_eqb {A} (f : A -> A -> bool) (a b : list A) : bool :=
  match a, b with
  | [], [] => true
  | x :: a', y :: b' => f x y && list_eqb f a' b'
  | _, _ => false
  end.

Definition ep_eqb (a b : ext * path) : bool := ln_eqb (fst a) (fst b) && ln_eqb (snd a) (snd b).

Definition lookup_xt (tb : list (ext * path * xres)) (e : ext) (p : path) : xres :=
  match find (fun x => ep_eqb (fst x) (e, p)) tb with
  | Some x => snd x
  | None => XRes [] false
  end.

Definition cfg_of_case (w : wcase) : cfg := {|
  c_exts := w_exts w;
  c_required := fun e p => existsb (ep_eqb (e, p)) (w_req w);
  c_statreq := fun e => option_map snd (find (fun x => ln_eqb (fst x) e) (w_statreq w));
  c_extract := lookup_xt (w_xt w);
  c_pat := fun pf rel isdir =>
             existsb (fun x => N.eqb (fst (fst x)) pf && ln_eqb (snd (fst x)) rel && Bool.eqb (snd x) isdir) (w_pat w);
  c_skip_list := w_skip w;
  c_re := option_map (fun l p => mem_path p l) (w_re w);
  c_glob := option_map (fun l p => mem_path p l) (w_glob w);
  c_gitignore := w_gi w;
  c_ignore_subdirs := w_isd w;
  c_paths := w_paths w;
  c_symlinks := w_sym w;
  c_max_inodes := w_maxi w;
  c_max_size := w_maxs w;
  c_fatal := w_fatal w;
  c_abs := w_abs w;
  c_cancel := w_cancel w |}.

(* ------------------------------------------------------------------ boolean equalities *)
Definition event_eqb (a b : event) : bool :=
  match a, b with
  | EVisit p, EVisit q => ln_eqb p q
  | EReq e p, EReq f q => ln_eqb e f && ln_eqb p q
  | EExtract e p, EExtract f q => ln_eqb e f && ln_eqb p q
  | _, _ => false
  end.

Definition pkg_eqb (a b : pkg) : bool :=
  ln_eqb (p_name a) (p_name b) && ln_eqb (p_version a) (p_version b) && list_eqb ln_eqb (p_locs a) (p_locs b).
Definition tpkg_eqb (a b : tpkg) : bool := ln_eqb (fst a) (fst b) && pkg_eqb (snd a) (snd b).

Definition errkind_eqb (a b : errkind) : bool :=
  match a, b with EkOpen, EkOpen | EkFstat, EkFstat | EkExtract, EkExtract => true | _, _ => false end.
Definition erritem_eqb (a b : erritem) : bool := errkind_eqb (fst a) (fst b) && ln_eqb (snd a) (snd b).

Definition status_eqb (a b : status) : bool :=
  match a, b with
  | StSucceeded, StSucceeded => true
  | StPartial x, StPartial y => list_eqb erritem_eqb x y
  | StFailed x, StFailed y => list_eqb erritem_eqb x y
  | _, _ => false
  end.
Definition est_eqb (a b : ext * status) : bool := ln_eqb (fst a) (fst b) && status_eqb (snd a) (snd b).

Definition abort_eqb (a b : abort) : bool :=
  match a, b with
  | AbInodes, AbInodes | AbCtx, AbCtx | AbFs, AbFs | AbGi, AbGi | AbSize, AbSize => true
  | _, _ => false
  end.
Definition oclass_eqb (a b : oclass) : bool :=
  match a, b with
  | OOk, OOk | OPanic, OPanic => true
  | OErr x, OErr y => abort_eqb x y
  | _, _ => false
  end.

Definition finding_eqb (a b : finding) : bool :=
  ln_eqb (f_pub a) (f_pub b) && ln_eqb (f_ref a) (f_ref b) && ln_eqb (f_extra a) (f_extra b).

Definition sobs_eqb (a b : sobs) : bool :=
  match a, b with
  | SNone, _ | _, SNone => true                 (* Scan not run for this case *)
  | SPanic, SPanic => true
  | SDone f i s x, SDone g j t y => Bool.eqb f g && list_eqb tpkg_eqb i j && list_eqb est_eqb s t && list_eqb finding_eqb x y
  | _, _ => false
  end.

Definition obs_eqb (a b : obs) : bool :=
  oclass_eqb (o_class a) (o_class b) && list_eqb event_eqb (o_events a) (o_events b)
  && list_eqb tpkg_eqb (o_inv a) (o_inv b) && list_eqb est_eqb (o_status a) (o_status b)
  && sobs_eqb (o_scan a) (o_scan b).

(* ------------------------------------------------------------------ what the model predicts *)
Definition model_scan (c : cfg) (dets : list (list N * list finding)) (roots : list node) : sobs :=
  match scan c dets roots with
  | ScanPanic _ => SPanic
  | ScanDone r => SDone (sr_failed r) (sr_inv r) (sr_status r) (sr_findings r)
  end.

Definition model_obs_d (c : cfg) (dets : list (list N * list finding)) (roots : list node) : obs :=
  match run c roots with
  | RPanic st _ => {| o_class := OPanic; o_events := filter observable (s_events st); o_inv := []; o_status := []; o_scan := model_scan c dets roots |}
  | RErr inv a st => {| o_class := OErr a; o_events := filter observable (s_events st); o_inv := inv; o_status := []; o_scan := model_scan c dets roots |}
  | ROk inv sts st => {| o_class := OOk; o_events := filter observable (s_events st); o_inv := inv; o_status := sts; o_scan := model_scan c dets roots |}
  end.

Definition model_obs (c : cfg) (roots : list node) : obs := model_obs_d c [] roots.

Definition case_model_ok (w : wcase) : bool := obs_eqb (model_obs_d (cfg_of_case w) (w_dets w) (w_roots w)) (w_obs w).

Fixpoint bad_indices {A} (f : A -> bool) (l : list A) (i : nat) : list nat :=
  match l with
  | [] => []
  | x :: l' => if f x then bad_indices f l' (S i) else i :: bad_indices f l' (S i)
  end.

Definition count_true {A} (f : A -> bool) (l : list A) : nat := length (filter f l).

(* ------------------------------------------------------------------ C01 oracle *)
Fixpoint nodup_b {A} (f : A -> A -> bool) (l : list A) : bool :=
  match l with [] => true | x :: l' => negb (existsb (f x) l') && nodup_b f l' end.

Definition xt_no_panic (w : wcase) : bool :=
  forallb (fun x => match snd x with XPanic => false | _ => true end) (w_xt w).

(* the inputs the whole-tree C01 statement speaks about: one fault-free well-formed root scanned without
   explicit paths, no inode limit, no cancellation, no panicking extractor, extractor names unique *)
Definition c01_base_domain (w : wcase) : bool :=
  match w_roots w with
  | [t] =>
      wf_tree t && fault_free t && no_limits (cfg_of_case w) && xt_no_panic w
      && nodup_b ln_eqb (w_exts w)
      && match w_paths w with [] => true | _ => false end
  | _ => false
  end.

Definition c01_domain (w : wcase) : bool := c01_base_domain w.

(* the specification evaluated on the implementation's own observable behaviour *)
Definition c01_spec_on_obs (w : wcase) : bool :=
  match w_roots w with
  | [t] =>
      let c := cfg_of_case w in
      let o := w_obs w in
      let exp := expected_calls c t in
      oclass_eqb (o_class o) OOk
      && list_eqb ep_eqb (calls (o_events o)) exp
      && nodup_b ep_eqb (calls (o_events o))
      && list_eqb tpkg_eqb (o_inv o) (inventory_of_calls c exp)
      && list_eqb est_eqb (o_status o) (map (fun e => (e, expected_status c exp e)) (c_exts c))
  | _ => true
  end.

Definition case_spec_ok_C01 (w : wcase) : bool := negb (c01_domain w) || c01_spec_on_obs w.

(* ------------------------------------------------------------------ C01 oracle, requested paths *)
(* requested-path statement: claimed when every requested directory is one the whole-tree scan reaches *)
Definition c01_paths_domain (w : wcase) : bool :=
  match w_roots w with
  | [t] =>
      let c := cfg_of_case w in
      wf_tree t && fault_free t && no_limits c && xt_no_panic w && nodup_b ln_eqb (w_exts w)
      && negb (match w_paths w with [] => true | _ => false end)
      && forallb canonical_path (w_paths w)          (* requested_paths_exact: no further condition *)
  | _ => false
  end.

Definition c01_paths_spec_on_obs (w : wcase) : bool :=
  match w_roots w with
  | [t] =>
      let c := cfg_of_case w in
      let o := w_obs w in
      let exp := expected_paths c t in
      oclass_eqb (o_class o) OOk
      && list_eqb ep_eqb (calls (o_events o)) exp
      && list_eqb tpkg_eqb (o_inv o) (inventory_of_calls c exp)
      && list_eqb est_eqb (o_status o) (map (fun e => (e, expected_status c exp e)) (c_exts c))
  | _ => true
  end.

Definition case_spec_ok_C01_paths (w : wcase) : bool := negb (c01_paths_domain w) || c01_paths_spec_on_obs w.

(* ------------------------------------------------------------------ C08 oracles *)
(* multiset equality by removing one occurrence at a time *)
Fixpoint remove_one {A} (f : A -> A -> bool) (x : A) (l : list A) : option (list A) :=
  match l with
  | [] => None
  | y :: l' => if f x y then Some l' else option_map (cons y) (remove_one f x l')
  end.
Fixpoint perm_b {A} (f : A -> A -> bool) (a b : list A) : bool :=
  match a with
  | [] => match b with [] => true | _ => false end
  | x :: a' => match remove_one f x b with Some b' => perm_b f a' b' | None => false end
  end.

Definition status_perm_b (a b : status) : bool :=
  match a, b with
  | StSucceeded, StSucceeded => true
  | StPartial x, StPartial y => perm_b erritem_eqb x y
  | StFailed x, StFailed y => perm_b erritem_eqb x y
  | _, _ => false
  end.
Definition est_perm_b (a b : list N * status) : bool := ln_eqb (fst a) (fst b) && status_perm_b (snd a) (snd b).

Definition pkey_eqb (a b : list N * pkg) : bool :=
  ln_eqb (p_name (snd a)) (p_name (snd b)) && ln_eqb (p_version (snd a)) (p_version (snd b))
  && ln_eqb (fst a) (fst b) && ln_eqb (sprint_locs (p_locs (snd a))) (sprint_locs (p_locs (snd b))).

Definition sobs_perm_equiv (a b : sobs) : bool :=
  match a, b with
  | SPanic, SPanic => true
  | SDone f i s x, SDone g j t y => Bool.eqb f g && list_eqb pkey_eqb i j && list_eqb est_perm_b s t
                                    && list_eqb (fun a b => ln_eqb (f_ref a) (f_ref b) && ln_eqb (f_extra a) (f_extra b)) x y
  | SNone, SNone => true
  | _, _ => false
  end.

(* two observations of the same content under different listing orders: same outcome, same multiset of
   Extract calls and packages, same plugin statuses up to the order of failure items, and the same
   sorted Scan output (sequence of sort keys) *)
Definition obs_perm_equiv (a b : obs) : bool :=
  oclass_eqb (o_class a) (o_class b)
  && perm_b ep_eqb (calls (o_events a)) (calls (o_events b))
  && perm_b tpkg_eqb (o_inv a) (o_inv b)
  && list_eqb est_perm_b (o_status a) (o_status b)
  && sobs_perm_equiv (o_scan a) (o_scan b).

(* indices of grouped cases whose observation is not equivalent to the first case of their group in the list *)
Fixpoint group_bad_from (all : list wcase) (l : list wcase) (i : nat) : list nat :=
  match l with
  | [] => []
  | w :: l' =>
      let rest := group_bad_from all l' (S i) in
      if N.eqb (w_group w) 0 then rest
      else match find (fun v => N.eqb (w_group v) (w_group w)) all with
           | Some v => if obs_perm_equiv (w_obs v) (w_obs w) then rest else i :: rest
           | None => rest
           end
  end.
Definition group_bad (l : list wcase) : list nat := group_bad_from l l 0.

(* the sorted order of Scan's output: locations inside a package, packages, statuses *)
Definition sorted_leb {A} (cmp : A -> A -> comparison) : list A -> bool :=
  fix go l := match l with
              | [] => true
              | x :: l' => match l' with [] => true | y :: _ => leb cmp x y && go l' end
              end.

Definition scan_sorted (o : obs) : bool :=
  match o_scan o with
  | SDone _ inv sts fnd =>
      sorted_leb cmp_packages inv && sorted_leb cmp_status sts && sorted_leb cmp_findings fnd
      && forallb (fun x => sorted_leb bcmp (tl (p_locs (snd x)))) inv      (* Locations[0] stays first, the rest sorted *)
  | _ => true
  end.

(* Run over several roots: the union of the single-root results, no package twice, one status per plugin *)
Definition c08_multi_base (w : wcase) : bool :=
  let c := cfg_of_case w in
  (1 <? length (w_roots w))%nat
  && forallb (fun t => wf_tree t && fault_free t) (w_roots w)
  && no_limits c && xt_no_panic w && nodup_b ln_eqb (w_exts w)
  && match w_paths w with [] => true | _ => false end.

Definition c08_union_on_obs (w : wcase) : bool :=
  let c := cfg_of_case w in
  oclass_eqb (o_class (w_obs w)) OOk
  && perm_b tpkg_eqb (o_inv (w_obs w))
            (flat_map (fun t => inventory_of_calls c (expected_calls c t)) (w_roots w)).

(* one status per plugin, and it is the one the calls of all roots together dictate *)
Definition c08_status_once_on_obs (w : wcase) : bool :=
  let c := cfg_of_case w in
  nodup_b ln_eqb (map fst (o_status (w_obs w)))
  && list_eqb est_eqb (o_status (w_obs w))
       (map (fun e => (e, expected_status c (flat_map (expected_calls c) (w_roots w)) e)) (c_exts c)).

Definition c08_multi_domain (w : wcase) : bool := c08_multi_base w.

Definition case_spec_ok_C08 (w : wcase) : bool :=
  scan_sorted (w_obs w) && (negb (c08_multi_domain w) || (c08_union_on_obs w && c08_status_once_on_obs w)).

(* ------------------------------------------------------------------ C09 oracle *)
(* every directory on the way to segs opens and lists the next segment before its read failure *)
Fixpoint reach_ok (nd : node) (segs : list N) : bool :=
  match segs with
  | [] => true
  | s :: rest =>
      match nd with
      | File _ _ _ _ _ => false
      | Dir _ ch df =>
          negb (df_open df) &&
          match find_child s (listed ch df) with Some c1 => reach_ok c1 rest | None => false end
      end
  end.

(* declaratively: some directory the fault-free scan enters, and the faulty scan still reaches, cannot be opened
   or fails while being listed; or the root cannot be stat'ed *)
Definition trav_fault_spec (c : cfg) (t : node) : bool :=
  node_stat_fails t ||
  existsb (fun q => reached c (erase_faults t) q && negb (skipped_dir c (erase_faults t) q) && reach_ok t q &&
                    match lookup_from t q with
                    | Some (Dir _ ch df) =>
                        df_open df || match df_read_at df with Some k => (k <=? length ch)%nat | None => false end
                        || (c_gitignore c && negb (gi_child_ok ch))    (* its .gitignore cannot be read *)
                    | _ => false
                    end) (dirs_of [] t).

(* what each expected call of the fault-free scan turns into *)
Definition call_outcome (c : cfg) (t : node) (ep : list N * list N) : option (option (list N * erritem)) :=
  (* None: lost; Some None: extracted without error; Some (Some item): an error item of the plugin *)
  let q := spath (snd ep) in
  if negb (node_stat_fails t) && reach_ok t q then
    match lookup_from t q with
    | Some (File _ _ _ _ ff) =>
        if (0 <? c_max_size c)%Z && ff_stat ff then None          (* size unknown: the file is skipped *)
        else if ff_open ff then Some (Some (fst ep, (EkOpen, snd ep)))
        else if ff_fstat ff then Some (Some (fst ep, (EkFstat, snd ep)))
        else if errs_flag (c_extract c (fst ep) (snd ep)) then Some (Some (fst ep, (EkExtract, snd ep)))
        else Some None
    | _ => None
    end
  else None.

Definition expected_status_faulty (c : cfg) (t : node) (exp : list (list N * list N)) (e : list N) : status :=
  let errs := flat_map (fun ep => match call_outcome c t ep with
                                  | Some (Some (e', it)) => if ln_eqb e' e then [it] else []
                                  | _ => []
                                  end) exp in
  let found := existsb (fun ep => ln_eqb (fst ep) e && not_lost c t (snd ep) &&
                                  match pkgs_of (c_extract c (fst ep) (snd ep)) with [] => false | _ => true end) exp in
  match errs with
  | [] => StSucceeded
  | _ => if found then StPartial errs else StFailed errs
  end.

Definition c09_domain (w : wcase) : bool :=
  match w_roots w with
  | [t] =>
      let c := cfg_of_case w in
      wf_tree t && no_limits c && xt_no_panic w && nodup_b ln_eqb (w_exts w)
      && match w_paths w with [] => true | _ => false end
      && tree_quiet c t
  | _ => false
  end.

Definition c09_spec_on_obs (w : wcase) : bool :=
  match w_roots w with
  | [t] =>
      let c := cfg_of_case w in
      let o := w_obs w in
      let exp := expected_calls c (erase_faults t) in
      if c_fatal c then
        (* fatal on request: the scan fails iff a traversal fault is reached; never a panic *)
        if trav_fault_spec c t then oclass_eqb (o_class o) (OErr AbFs) else oclass_eqb (o_class o) OOk
      else
        oclass_eqb (o_class o) OOk
        && (negb (gi_readable c t)          (* an unreadable .gitignore contributes no patterns: no comparison claimed *)
            || (list_eqb ep_eqb (calls (o_events o)) (filter (fun ep => not_lost c t (snd ep)) exp)
                && list_eqb tpkg_eqb (o_inv o) (inventory_of_calls c (filter (fun ep => not_lost c t (snd ep)) exp))
                && list_eqb est_eqb (o_status o) (map (fun e => (e, expected_status_faulty c t exp e)) (c_exts c))))
  | _ => true
  end.

Definition case_spec_ok_C09 (w : wcase) : bool := negb (c09_domain w) || c09_spec_on_obs w.

(* size-limit clause of C09 ("a file cannot be ... stat'ed", lazy stat for the size check): the only faults of the
   tree are failing fs.Stat calls on files, a size limit is set, and at least one file the fault-free scan hands to
   an extractor that does not itself consult Stat() is among them. Then filesystem.Run fails iff fatal errors were
   requested - whatever error value the failing Stat returned. *)
Fixpoint only_file_stat_faults (nd : node) : bool :=
  match nd with
  | File _ _ _ _ ff => negb (ff_open ff) && negb (ff_fstat ff)
  | Dir _ ch df => negb (df_open df) && is_none (df_read_at df) && negb (df_stat df) && forallb only_file_stat_faults ch
  end.

Definition stat_hit (c : cfg) (t : node) : bool :=
  existsb (fun ep => is_none (c_statreq c (fst ep)) &&
                     match lookup_from t (spath (snd ep)) with
                     | Some (File _ _ _ _ ff) => ff_stat ff
                     | _ => false
                     end) (expected_calls c (erase_faults t)).

Definition c09_size_domain (w : wcase) : bool :=
  match w_roots w with
  | [t] =>
      let c := cfg_of_case w in
      wf_tree t && is_dir t && (0 <? c_max_size c)%Z && no_limits c && xt_no_panic w && nodup_b ln_eqb (w_exts w)
      && match w_paths w with [] => true | _ => false end
      && only_file_stat_faults t && stat_hit c t
  | _ => false
  end.

Definition c09_size_spec_on_obs (w : wcase) : bool :=
  if c_fatal (cfg_of_case w) then match o_class (w_obs w) with OErr _ => true | _ => false end
  else oclass_eqb (o_class (w_obs w)) OOk.

Definition case_spec_ok_C09_size (w : wcase) : bool := negb (c09_size_domain w) || c09_size_spec_on_obs w.

(* the statement without the domain restriction tree_quiet: used to recognise the known findings *)
Definition c09_base_domain (w : wcase) : bool :=
  match w_roots w with
  | [t] =>
      let c := cfg_of_case w in
      wf_tree t && no_limits c && xt_no_panic w && nodup_b ln_eqb (w_exts w)
      && match w_paths w with [] => true | _ => false end
  | _ => false
  end.

(* ------------------------------------------------------------------ C10 oracle *)
Fixpoint extracts_before (evs : list event) (nv nx : nat) (f : nat -> nat -> list N -> bool) : bool :=
  (* f (visits so far) (extract calls so far) path  for every Extract event *)
  match evs with
  | [] => true
  | EVisit _ :: l => extracts_before l (S nv) nx f
  | EExtract _ p :: l => f nv nx p && extracts_before l nv (S nx) f
  | _ :: l => extracts_before l nv nx f
  end.

Definition file_size_ok (c : cfg) (roots : list node) (p : list N) : bool :=
  (c_max_size c <=? 0)%Z ||
  existsb (fun t => match lookup_from t (spath p) with
                    | Some (File _ _ sz _ _) => (sz <=? c_max_size c)%Z
                    | _ => false
                    end) roots.

(* the Extract calls of a whole-tree Run over several roots, attributed to their root: a root's walk starts with the
   visit of "." *)
Fixpoint split_roots (evs : list event) (cur : list (list N * list N)) (started : bool) : list (list (list N * list N)) :=
  match evs with
  | [] => if started then [rev cur] else []
  | EVisit p :: l =>
      if ln_eqb p [DOT] then (if started then rev cur :: split_roots l [] true else split_roots l [] true)
      else split_roots l cur started
  | EExtract e p :: l => split_roots l ((e, p) :: cur) started
  | _ :: l => split_roots l cur started
  end.

Fixpoint forallb2 {A B} (f : A -> B -> bool) (a : list A) (b : list B) : bool :=
  match a, b with
  | x :: a', y :: b' => f x y && forallb2 f a' b'
  | _, _ => true
  end.

(* every extracted file is within the size limit in ITS OWN root *)
Definition sizes_per_root_ok (w : wcase) : bool :=
  let c := cfg_of_case w in
  (c_max_size c <=? 0)%Z ||
  negb (forallb fault_free (w_roots w) && match w_paths w with [] => true | _ => false end) ||
  forallb2 (fun cs t => forallb (fun ep => match lookup_from t (spath (snd ep)) with
                                           | Some (File _ _ sz _ _) => (sz <=? c_max_size c)%Z
                                           | _ => false
                                           end) cs)
           (split_roots (o_events (w_obs w)) [] false) (w_roots w).

Definition c10_bounds_on_obs (w : wcase) : bool :=
  let c := cfg_of_case w in
  let o := w_obs w in
  let cs := calls (o_events o) in
  ((c_max_inodes c <=? 0)%Z || (Z.of_nat (length (visits (o_events o))) <=? c_max_inodes c)%Z)
  && forallb (fun ep => file_size_ok c (w_roots w) (snd ep)) cs
  && sizes_per_root_ok w
  && match c_cancel c with
     | NoCancel => true
     | CancelAtVisit k => extracts_before (o_events o) 0 0 (fun nv _ _ => (nv <? k)%nat)
     | CancelAtExtract j =>
         (j =? 0)%nat ||
         extracts_before (o_events o) 0 0
           (fun _ nx p => (nx <? j)%nat || match nth_error cs (j - 1) with Some ep => ln_eqb (snd ep) p | None => false end)
     end
  && negb (oclass_eqb (o_class o) OPanic).

(* fails exactly when work remained: single root, whole-tree scan, non-fatal, quiet tree *)
Definition c10_iff_domain (w : wcase) : bool :=
  match w_roots w with
  | [t] =>
      let c := cfg_of_case w in
      negb (c_fatal c) && xt_no_panic w && tree_quiet c t && match w_paths w with [] => true | _ => false end
      && match c_cancel c with
         | NoCancel => (0 <? c_max_inodes c)%Z
         | CancelAtVisit _ => (c_max_inodes c <=? 0)%Z
         | CancelAtExtract _ => false
         end
  | _ => false
  end.

Definition c10_iff_on_obs (w : wcase) : bool :=
  match w_roots w with
  | [t] =>
      let c := cfg_of_case w in
      let need := visits_needed c t in
      match c_cancel c with
      | NoCancel =>
          if (Z.of_nat need <=? c_max_inodes c)%Z then oclass_eqb (o_class (w_obs w)) OOk
          else oclass_eqb (o_class (w_obs w)) (OErr AbInodes)
      | CancelAtVisit k =>
          if (need <? k)%nat then oclass_eqb (o_class (w_obs w)) OOk else oclass_eqb (o_class (w_obs w)) (OErr AbCtx)
      | CancelAtExtract _ => true
      end
      && match o_scan (w_obs w) with
         | SDone failed _ _ _ => Bool.eqb failed (negb (oclass_eqb (o_class (w_obs w)) OOk))
         | _ => true
         end
  | _ => true
  end.

Definition case_spec_ok_C10 (w : wcase) : bool :=
  c10_bounds_on_obs w && (negb (c10_iff_domain w) || c10_iff_on_obs w).

(* the iff statement without the UseGitignore restriction: to recognise the known panic *)
Definition c10_panics_on_obs (w : wcase) : bool := oclass_eqb (o_class (w_obs w)) OPanic.

(* ------------------------------------------------------------------ C01 oracle, several roots *)
(* per scan root: the Extract calls of a Run over several roots are the concatenation of what each root owes *)
Definition c01_multi_domain (w : wcase) : bool :=
  let c := cfg_of_case w in
  (1 <? length (w_roots w))%nat
  && forallb (fun t => wf_tree t && fault_free t) (w_roots w)
  && no_limits c && xt_no_panic w && nodup_b ln_eqb (w_exts w)
  && match w_paths w with [] => true | _ => false end.

Definition c01_multi_spec_on_obs (w : wcase) : bool :=
  let c := cfg_of_case w in
  oclass_eqb (o_class (w_obs w)) OOk
  && list_eqb ep_eqb (calls (o_events (w_obs w))) (flat_map (expected_calls c) (w_roots w)).

Definition case_spec_ok_C01_multi (w : wcase) : bool := negb (c01_multi_domain w) || c01_multi_spec_on_obs w.

(* ------------------------------------------------------------------ C09 oracle, requested paths *)
(* every requested path that can be stat'ed is scanned as in the fault-free run, minus what is lost below it; a requested
   path that cannot be stat'ed contributes nothing and does not affect the paths after it *)
Definition expected_paths_faulty (c : cfg) (t : node) : list (list N * list N) :=
  flat_map (fun p => match lookup_from t (spath p) with
                     | None => []
                     | Some nd =>
                         if node_stat_fails nd then []
                         else filter (fun ep => survives c nd (skipn (length (spath p)) (spath (snd ep))))
                                     (expected_for_path c (erase_faults t) p)
                     end) (c_paths c).

Definition c09_paths_domain (w : wcase) : bool :=
  match w_roots w with
  | [t] =>
      let c := cfg_of_case w in
      wf_tree t && no_limits c && xt_no_panic w && nodup_b ln_eqb (w_exts w)
      && negb (match w_paths w with [] => true | _ => false end)
      && negb (c_fatal c) && tree_quiet c t && gi_readable c t
      && forallb (fun p => canonical_path p &&
                           match lookup_from t (spath p) with
                           | Some (Dir _ _ _) => reached (whole_tree c) (erase_faults t) (spath p)
                           | _ => true
                           end) (w_paths w)
  | _ => false
  end.

Definition c09_paths_spec_on_obs (w : wcase) : bool :=
  match w_roots w with
  | [t] =>
      let c := cfg_of_case w in
      let exp := expected_paths_faulty c t in
      oclass_eqb (o_class (w_obs w)) OOk
      && list_eqb ep_eqb (calls (o_events (w_obs w))) exp
      && list_eqb tpkg_eqb (o_inv (w_obs w)) (inventory_of_calls c exp)
  | _ => true
  end.

Definition case_spec_ok_C09_paths (w : wcase) : bool := negb (c09_paths_domain w) || c09_paths_spec_on_obs w.

(* ------------------------------------------------------------------ C09 oracle, several roots with faults *)
Definition errs_faulty (c : cfg) (t : node) (exp : list (list N * list N)) (e : list N) : list erritem :=
  flat_map (fun ep => match call_outcome c t ep with
                      | Some (Some (e', it)) => if ln_eqb e' e then [it] else []
                      | _ => []
                      end) exp.
Definition found_faulty (c : cfg) (t : node) (exp : list (list N * list N)) (e : list N) : bool :=
  existsb (fun ep => ln_eqb (fst ep) e && not_lost c t (snd ep) &&
                     match pkgs_of (c_extract c (fst ep) (snd ep)) with [] => false | _ => true end) exp.

Definition c09_multi_domain (w : wcase) : bool :=
  let c := cfg_of_case w in
  (1 <? length (w_roots w))%nat
  && forallb (fun t => wf_tree t && tree_quiet c t && gi_readable c t) (w_roots w)
  && no_limits c && xt_no_panic w && nodup_b ln_eqb (w_exts w) && negb (c_fatal c)
  && match w_paths w with [] => true | _ => false end.

Definition c09_multi_spec_on_obs (w : wcase) : bool :=
  let c := cfg_of_case w in
  let o := w_obs w in
  let per_root := map (fun t => (t, expected_calls c (erase_faults t))) (w_roots w) in
  let exp := flat_map (fun te => filter (fun ep => not_lost c (fst te) (snd ep)) (snd te)) per_root in
  oclass_eqb (o_class o) OOk
  && list_eqb ep_eqb (calls (o_events o)) exp
  && list_eqb tpkg_eqb (o_inv o) (inventory_of_calls c exp)
  && list_eqb est_eqb (o_status o)
       (map (fun e => (e, let errs := flat_map (fun te => errs_faulty c (fst te) (snd te) e) per_root in
                          match errs with
                          | [] => StSucceeded
                          | _ => if existsb (fun te => found_faulty c (fst te) (snd te) e) per_root then StPartial errs else StFailed errs
                          end)) (c_exts c)).

Definition case_spec_ok_C09_multi (w : wcase) : bool := negb (c09_multi_domain w) || c09_multi_spec_on_obs w.

(* Glue between the Go harness (harness/cmd/walk) and the model/spec: the record the harness prints for every
   case, the configuration it denotes, boolean equality on observations, and the per-case verdict functions
   evaluated by vm_compute in the generated cases files.  No proofs in this file. *)
From Coq Require Import List ZArith NArith Bool Arith.
From Scalibr Require Import Lib.SortSearch Walk.Model Walk.Spec.
Import ListNotations.

(* ------------------------------------------------------------------ observations *)
Inductive oclass := OOk | OErr (a : abort) | OPanic.

Inductive sobs := SNone | SPanic | SDone (failed : bool) (inv : list tpkg) (sts : list (ext * status)).

Record obs := {
  o_class : oclass;                     (* filesystem.Run: returned nil error / which error / panicked *)
  o_events : list event;                (* AfterInodeVisited, FileRequired and Extract calls, in order *)
  o_inv : list tpkg;                    (* returned Inventory.Packages: (Extractor.Name(), name, version, locations) *)
  o_status : list (ext * status);       (* returned []*plugin.Status: name, enum, failure reason split into items *)
  o_scan : sobs }.                      (* scalibr.Scan on the same input: status failed?, sorted packages, sorted plugin statuses *)

(* ------------------------------------------------------------------ case record *)
Record wcase := {
  w_roots : list node;
  w_exts : list ext;
  w_req : list (ext * path);                       (* FileRequired table: listed pairs are true *)
  w_xt : list (ext * path * xres);                 (* Extract table: default XRes [] false *)
  w_pat : list (N * path * bool);                  (* go-git Match table: listed triples are true *)
  w_skip : list path;
  w_re : option (list path);                       (* regex set: paths it matches *)
  w_glob : option (list path);
  w_gi : bool;
  w_isd : bool;
  w_paths : list path;
  w_sym : bool;
  w_maxi : Z;
  w_maxs : Z;
  w_fatal : bool;
  w_cancel : cancel;
  w_obs : obs }.

Fixpoint list_eqb {A} (f : A -> A -> bool) (a b : list A) : bool :=
  match a, b with
  | [], [] => true
  | x :: a', y :: b' => f x y && list_eqb f a' b'
  | _, _ => false
  end.

Definition ep_eqb (a b : ext * path) : bool := ln_eqb (fst a) (fst b) && ln_eqb (snd a) (snd b).

Definition lookup_xt (tb : list (ext * path * xres)) (e : ext) (p : path) : xres :=
  match find (fun x => ep_eqb (fst x) (e, p)) tb with
  | Some x => snd x
  | None => XRes [] false
  end.

Definition cfg_of_case (w : wcase) : cfg := {|
  c_exts := w_exts w;
  c_required := fun e p => existsb (ep_eqb (e, p)) (w_req w);
  c_extract := lookup_xt (w_xt w);
  c_pat := fun pf rel isdir =>
             existsb (fun x => N.eqb (fst (fst x)) pf && ln_eqb (snd (fst x)) rel && Bool.eqb (snd x) isdir) (w_pat w);
  c_skip_list := w_skip w;
  c_re := option_map (fun l p => mem_path p l) (w_re w);
  c_glob := option_map (fun l p => mem_path p l) (w_glob w);
  c_gitignore := w_gi w;
  c_ignore_subdirs := w_isd w;
  c_paths := w_paths w;
  c_symlinks := w_sym w;
  c_max_inodes := w_maxi w;
  c_max_size := w_maxs w;
  c_fatal := w_fatal w;
  c_cancel := w_cancel w |}.

(* ------------------------------------------------------------------ boolean equalities *)
Definition event_eqb (a b : event) : bool :=
  match a, b with
  | EVisit p, EVisit q => ln_eqb p q
  | EReq e p, EReq f q => ln_eqb e f && ln_eqb p q
  | EExtract e p, EExtract f q => ln_eqb e f && ln_eqb p q
  | _, _ => false
  end.

Definition pkg_eqb (a b : pkg) : bool :=
  ln_eqb (p_name a) (p_name b) && ln_eqb (p_version a) (p_version b) && list_eqb ln_eqb (p_locs a) (p_locs b).
Definition tpkg_eqb (a b : tpkg) : bool := ln_eqb (fst a) (fst b) && pkg_eqb (snd a) (snd b).

Definition errkind_eqb (a b : errkind) : bool :=
  match a, b with EkOpen, EkOpen | EkFstat, EkFstat | EkExtract, EkExtract => true | _, _ => false end.
Definition erritem_eqb (a b : erritem) : bool := errkind_eqb (fst a) (fst b) && ln_eqb (snd a) (snd b).

Definition status_eqb (a b : status) : bool :=
  match a, b with
  | StSucceeded, StSucceeded => true
  | StPartial x, StPartial y => list_eqb erritem_eqb x y
  | StFailed x, StFailed y => list_eqb erritem_eqb x y
  | _, _ => false
  end.
Definition est_eqb (a b : ext * status) : bool := ln_eqb (fst a) (fst b) && status_eqb (snd a) (snd b).

Definition abort_eqb (a b : abort) : bool :=
  match a, b with
  | AbInodes, AbInodes | AbCtx, AbCtx | AbFs, AbFs | AbGi, AbGi | AbSize, AbSize => true
  | _, _ => false
  end.
Definition oclass_eqb (a b : oclass) : bool :=
  match a, b with
  | OOk, OOk | OPanic, OPanic => true
  | OErr x, OErr y => abort_eqb x y
  | _, _ => false
  end.

Definition sobs_eqb (a b : sobs) : bool :=
  match a, b with
  | SNone, _ | _, SNone => true                 (* Scan not run for this case *)
  | SPanic, SPanic => true
  | SDone f i s, SDone g j t => Bool.eqb f g && list_eqb tpkg_eqb i j && list_eqb est_eqb s t
  | _, _ => false
  end.

Definition obs_eqb (a b : obs) : bool :=
  oclass_eqb (o_class a) (o_class b) && list_eqb event_eqb (o_events a) (o_events b)
  && list_eqb tpkg_eqb (o_inv a) (o_inv b) && list_eqb est_eqb (o_status a) (o_status b)
  && sobs_eqb (o_scan a) (o_scan b).

(* ------------------------------------------------------------------ what the model predicts *)
Definition model_scan (c : cfg) (roots : list node) : sobs :=
  match scan c roots with
  | ScanPanic _ => SPanic
  | ScanDone r => SDone (sr_failed r) (sr_inv r) (sr_status r)
  end.

Definition model_obs (c : cfg) (roots : list node) : obs :=
  match run c roots with
  | RPanic st _ => {| o_class := OPanic; o_events := s_events st; o_inv := []; o_status := []; o_scan := model_scan c roots |}
  | RErr inv a st => {| o_class := OErr a; o_events := s_events st; o_inv := inv; o_status := []; o_scan := model_scan c roots |}
  | ROk inv sts st => {| o_class := OOk; o_events := s_events st; o_inv := inv; o_status := sts; o_scan := model_scan c roots |}
  end.

Definition case_model_ok (w : wcase) : bool := obs_eqb (model_obs (cfg_of_case w) (w_roots w)) (w_obs w).

Fixpoint bad_indices {A} (f : A -> bool) (l : list A) (i : nat) : list nat :=
  match l with
  | [] => []
  | x :: l' => if f x then bad_indices f l' (S i) else i :: bad_indices f l' (S i)
  end.

Definition count_true {A} (f : A -> bool) (l : list A) : nat := length (filter f l).

(* ------------------------------------------------------------------ C01 oracle *)
Fixpoint nodup_b {A} (f : A -> A -> bool) (l : list A) : bool :=
  match l with [] => true | x :: l' => negb (existsb (f x) l') && nodup_b f l' end.

Definition xt_no_panic (w : wcase) : bool :=
  forallb (fun x => match snd x with XPanic => false | _ => true end) (w_xt w).

(* the inputs on which the whole-tree C01 statement is claimed: one fault-free well-formed root scanned
   without explicit paths, no inode limit, no cancellation, no panicking extractor, and dom_C01 *)
Definition c01_domain (w : wcase) : bool :=
  match w_roots w with
  | [t] =>
      wf_tree t && fault_free t && no_limits (cfg_of_case w) && xt_no_panic w
      && match w_paths w with [] => true | _ => false end
      && dom_C01 (cfg_of_case w) t
  | _ => false
  end.

(* the specification evaluated on the implementation's own observable behaviour *)
Definition c01_spec_on_obs (w : wcase) : bool :=
  match w_roots w with
  | [t] =>
      let c := cfg_of_case w in
      let o := w_obs w in
      let exp := expected_calls c t in
      oclass_eqb (o_class o) OOk
      && list_eqb ep_eqb (calls (o_events o)) exp
      && nodup_b ep_eqb (calls (o_events o))
      && list_eqb tpkg_eqb (o_inv o) (inventory_of_calls c exp)
      && list_eqb est_eqb (o_status o) (map (fun e => (e, expected_status c exp e)) (c_exts c))
  | _ => true
  end.

Definition case_spec_ok_C01 (w : wcase) : bool := negb (c01_domain w) || c01_spec_on_obs w.

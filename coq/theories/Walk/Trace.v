(* Proofs, part 2: the walk context is a function of the event trace; a schedule of quiet calls never
   aborts and its effect is the replay of the calls' pure events. *)
From Coq Require Import List ZArith NArith Bool Arith Lia Permutation.
From Scalibr Require Import Walk.Model Walk.Spec Walk.Sched Walk.Proofs.
Import ListNotations.

(* ------------------------------------------------------------------ apply_events algebra *)
Lemma apply_events_app c a b st : apply_events c (a ++ b) st = apply_events c b (apply_events c a st).
Proof. unfold apply_events. apply fold_left_app. Qed.

Lemma apply_event_stack c st ev : s_stack (apply_event c st ev) = s_stack st.
Proof.
  destruct ev as [p|e p|e p|e p|e p]; cbn [apply_event]; try (destruct st; reflexivity).
  destruct (c_extract c e p) as [pk err|]; [|destruct st; reflexivity].
  destruct err, pk; destruct st; reflexivity.
Qed.

Lemma apply_events_stack c evs : forall st, s_stack (apply_events c evs st) = s_stack st.
Proof.
  induction evs as [|ev evs IH]; intros st; [reflexivity|].
  cbn [apply_events fold_left]. fold (apply_events c evs (apply_event c st ev)). rewrite IH. apply apply_event_stack.
Qed.

Lemma apply_event_set_stack c st ev ms : apply_event c (set_stack st ms) ev = set_stack (apply_event c st ev) ms.
Proof.
  destruct ev as [p|e p|e p|e p|e p]; cbn [apply_event]; try (destruct st; reflexivity).
  destruct (c_extract c e p) as [pk err|]; [|destruct st; reflexivity].
  destruct err, pk; destruct st; reflexivity.
Qed.

Lemma apply_events_set_stack c evs : forall st ms,
  apply_events c evs (set_stack st ms) = set_stack (apply_events c evs st) ms.
Proof.
  induction evs as [|ev evs IH]; intros st ms; [reflexivity|].
  cbn [apply_events fold_left]. fold (apply_events c evs (apply_event c (set_stack st ms) ev)).
  fold (apply_events c evs (apply_event c st ev)). rewrite apply_event_set_stack. apply IH.
Qed.

Lemma ns_set_stack st ms : ns (set_stack st ms) = ns st.
Proof. unfold ns. apply set_stack_twice. Qed.

Lemma ns_idem st : ns (ns st) = ns st.
Proof. apply ns_set_stack. Qed.

Lemma ns_apply_events c evs st : ns (apply_events c evs st) = apply_events c evs (ns st).
Proof. unfold ns. symmetry. apply apply_events_set_stack. Qed.

Lemma ns_inc_inodes st : ns (inc_inodes st) = inc_inodes (ns st).
Proof. destruct st; reflexivity. Qed.

Lemma ns_apply_call c st h : ns (apply_call c st h) = apply_call c (ns st) h.
Proof. unfold apply_call. rewrite ns_apply_events, ns_inc_inodes. reflexivity. Qed.

Lemma ns_run_calls c l : forall st, ns (run_calls c l st) = run_calls c l (ns st).
Proof.
  induction l as [|h l IH]; intros st; [reflexivity|].
  cbn [run_calls fold_left]. fold (run_calls c l (apply_call c st h)). fold (run_calls c l (apply_call c (ns st) h)).
  rewrite IH, ns_apply_call. reflexivity.
Qed.

Lemma run_calls_app c a b st : run_calls c (a ++ b) st = run_calls c b (run_calls c a st).
Proof. unfold run_calls. apply fold_left_app. Qed.

(* ------------------------------------------------------------------ projections of a replay *)
Lemma apply_event_events c st ev : s_events (apply_event c st ev) = s_events st ++ [ev].
Proof.
  destruct ev as [p|e p|e p|e p|e p]; cbn [apply_event]; try (destruct st; reflexivity).
  destruct (c_extract c e p) as [pk err|]; [|destruct st; reflexivity].
  destruct err, pk; destruct st; reflexivity.
Qed.

Lemma apply_events_events c evs : forall st, s_events (apply_events c evs st) = s_events st ++ evs.
Proof.
  induction evs as [|ev evs IH]; intros st; [cbn; rewrite app_nil_r; reflexivity|].
  cbn [apply_events fold_left]. fold (apply_events c evs (apply_event c st ev)).
  rewrite IH, apply_event_events, <- app_assoc. reflexivity.
Qed.

Lemma apply_event_inv c st ev : s_inv (apply_event c st ev) = s_inv st ++ inv_of_event c ev.
Proof.
  destruct ev as [p|e p|e p|e p|e p]; cbn [apply_event inv_of_event]; try (destruct st; cbn; rewrite app_nil_r; reflexivity).
  destruct (c_extract c e p) as [pk err|]; cbn [pkgs_of]; [|destruct st; cbn; rewrite app_nil_r; reflexivity].
  destruct err, pk; destruct st; cbn; rewrite ?app_nil_r; reflexivity.
Qed.

Lemma apply_event_errors c st ev : s_errors (apply_event c st ev) = s_errors st ++ err_of_event c ev.
Proof.
  destruct ev as [p|e p|e p|e p|e p]; cbn [apply_event err_of_event]; try (destruct st; cbn; rewrite ?app_nil_r; reflexivity).
  destruct (c_extract c e p) as [pk err|]; cbn [errs_flag]; [|destruct st; cbn; rewrite app_nil_r; reflexivity].
  destruct err, pk; destruct st; cbn; rewrite ?app_nil_r; reflexivity.
Qed.

Lemma apply_event_found c st ev : s_found (apply_event c st ev) = s_found st ++ found_of_event c ev.
Proof.
  destruct ev as [p|e p|e p|e p|e p]; cbn [apply_event found_of_event]; try (destruct st; cbn; rewrite ?app_nil_r; reflexivity).
  destruct (c_extract c e p) as [pk err|]; cbn [pkgs_of]; [|destruct st; cbn; rewrite app_nil_r; reflexivity].
  destruct err, pk; destruct st; cbn; rewrite ?app_nil_r; reflexivity.
Qed.

(* the context maps are functions of the trace *)
Definition tinv (c : cfg) (st : state) : Prop :=
  s_inv st = flat_map (inv_of_event c) (s_events st) /\
  s_errors st = flat_map (err_of_event c) (s_events st) /\
  s_found st = flat_map (found_of_event c) (s_events st) /\
  s_nvisit st = length (visits (s_events st)) /\
  s_nextract st = length (calls (s_events st)).

Lemma visits_app a b : visits (a ++ b) = visits a ++ visits b.
Proof. induction a as [|[p|e p|e p|e p|e p] a IH]; cbn; rewrite ?IH; reflexivity. Qed.
Lemma calls_app a b : calls (a ++ b) = calls a ++ calls b.
Proof. induction a as [|[p|e p|e p|e p|e p] a IH]; cbn; rewrite ?IH; reflexivity. Qed.

Lemma apply_event_nvisit c st ev : s_nvisit (apply_event c st ev) = (s_nvisit st + length (visits [ev]))%nat.
Proof.
  destruct ev as [p|e p|e p|e p|e p]; cbn [apply_event visits length]; try (destruct st; cbn; lia).
  destruct (c_extract c e p) as [pk err|]; [|destruct st; cbn; lia].
  destruct err, pk; destruct st; cbn; lia.
Qed.
Lemma apply_event_nextract c st ev : s_nextract (apply_event c st ev) = (s_nextract st + length (calls [ev]))%nat.
Proof.
  destruct ev as [p|e p|e p|e p|e p]; cbn [apply_event calls length]; try (destruct st; cbn; lia).
  destruct (c_extract c e p) as [pk err|]; [|destruct st; cbn; lia].
  destruct err, pk; destruct st; cbn; lia.
Qed.

Lemma tinv_apply_event c st ev : tinv c st -> tinv c (apply_event c st ev).
Proof.
  intros (I1 & I2 & I3 & I4 & I5). unfold tinv.
  rewrite apply_event_events, apply_event_inv, apply_event_errors, apply_event_found, apply_event_nvisit, apply_event_nextract.
  rewrite !flat_map_app, visits_app, calls_app, !app_length. cbn [flat_map]. rewrite !app_nil_r.
  rewrite I1, I2, I3, I4, I5. repeat split; reflexivity.
Qed.

Lemma tinv_apply_events c evs : forall st, tinv c st -> tinv c (apply_events c evs st).
Proof.
  induction evs as [|ev evs IH]; intros st H; [exact H|].
  cbn [apply_events fold_left]. fold (apply_events c evs (apply_event c st ev)). apply IH, tinv_apply_event, H.
Qed.

Lemma tinv_stack c st ms : tinv c st <-> tinv c (set_stack st ms).
Proof. destruct st; reflexivity. Qed.
Lemma tinv_inc c st : tinv c st <-> tinv c (inc_inodes st).
Proof. destruct st; reflexivity. Qed.
Lemma tinv_init c : tinv c init_state.
Proof. repeat split. Qed.

(* ------------------------------------------------------------------ one call = replay of its events *)
Lemma run_extractor_replay c e p ff st :
  c_extract c e p <> XPanic ->
  run_extractor c e p ff st =
  WOk (apply_events c (if ff_open ff then [EOpenErr e p] else if ff_fstat ff then [EFstatErr e p] else [EExtract e p]) st) Continue.
Proof.
  intros NP. unfold run_extractor. destruct (ff_open ff); [reflexivity|]. destruct (ff_fstat ff); [reflexivity|].
  cbn [apply_events fold_left apply_event]. destruct (c_extract c e p) as [pk err|]; [reflexivity|congruence].
Qed.

Lemma run_exts_replay c p size ff : no_xpanic c ->
  (c_fatal c && (0 <? c_max_size c)%Z && ff_stat ff = false) -> forall es checked st,
  run_exts c p size ff es checked st = WOk (apply_events c (ext_events c p size ff es checked) st) Continue.
Proof.
  intros NP Q. induction es as [|e es IH]; intros checked st; cbn [run_exts ext_events]; [reflexivity|].
  change (apply_events c (EReq e p :: ?l) st) with (apply_events c l (add_event st (EReq e p))).
  destruct (req c e p size ff); [|apply IH].
  destruct (0 <? c_max_size c)%Z eqn:M; cbn [andb orb] in *.
  - destruct checked; cbn [negb andb].
    + rewrite run_extractor_replay by apply NP. rewrite IH, apply_events_app. reflexivity.
    + destruct (ff_stat ff); cbn [orb].
      * rewrite !andb_true_r in Q. rewrite Q. reflexivity.
      * destruct (c_max_size c <? size)%Z; [reflexivity|].
        rewrite run_extractor_replay by apply NP. rewrite IH, apply_events_app. reflexivity.
  - rewrite run_extractor_replay by apply NP. rewrite IH, apply_events_app. reflexivity.
Qed.

Definition sig_ok (sg : signal) : Prop := match sg with Abort _ => False | _ => True end.

(* a quiet call that passes the inode limit and the context check does not abort and has exactly its pure effect *)
Lemma handle_file_quiet_gen c ms p nd b st :
  ((0 <? c_max_inodes c)%Z && (c_max_inodes c <? s_inodes (inc_inodes (set_stack st ms)))%Z) = false ->
  cancelled c (visit (inc_inodes (set_stack st ms)) p) = false ->
  no_xpanic c -> call_quiet c (HC ms p nd b) = true ->
  exists st' sg, handle_file c p nd b (set_stack st ms) = WOk st' sg /\ sig_ok sg /\
                 ns st' = ns (apply_call c st (HC ms p nd b)).
Proof.
  intros L CC NP Q.
  unfold handle_file, hf_prelude.
  rewrite L.
  rewrite CC. unfold apply_call, call_events.
  change (apply_events c (EVisit p :: ?l) ?s) with (apply_events c l (visit s p)).
  cbn [call_quiet] in Q.
  destruct b.
  - apply negb_true_iff in Q. rewrite Q. eexists _, Continue. split; [reflexivity|]. split; [exact I|].
    cbn [apply_events fold_left]. destruct st; reflexivity.
  - destruct nd as [n k size d ff|n ch df].
    + (* file *)
      unfold hf_file. fold (kind_accepted c k).
      assert (SS : s_stack (visit (inc_inodes (set_stack st ms)) p) = ms) by (destruct st; reflexivity).
      rewrite SS.
      destruct (kind_accepted c k); cbn [negb andb].
      * destruct (c_gitignore c && gi_match_stack c ms p false); cbn [negb].
        -- eexists _, Continue. split; [reflexivity|]. split; [exact I|]. destruct st; reflexivity.
        -- rewrite run_exts_replay; [|exact NP|apply negb_true_iff in Q; exact Q].
           eexists _, Continue. split; [reflexivity|]. split; [exact I|].
           rewrite !ns_apply_events. f_equal; destruct st; reflexivity.
      * eexists _, Continue. split; [reflexivity|]. split; [exact I|]. destruct st; reflexivity.
    + (* directory *)
      rewrite hf_dir_decision.
      assert (SS : s_stack (visit (inc_inodes (set_stack st ms)) p) = ms) by (destruct st; reflexivity).
      rewrite SS. destruct (dir_decision c ms p ch) as [| |ms'].
      * eexists _, SkipDir. split; [reflexivity|]. split; [exact I|].
        destruct (c_gitignore c); destruct st; reflexivity.
      * discriminate.
      * eexists _, Continue. split; [reflexivity|]. split; [exact I|]. destruct st; reflexivity.
Qed.

Lemma handle_file_quiet c ms p nd b st :
  no_limits c = true -> no_xpanic c -> call_quiet c (HC ms p nd b) = true ->
  exists st' sg, handle_file c p nd b (set_stack st ms) = WOk st' sg /\ sig_ok sg /\
                 ns st' = ns (apply_call c st (HC ms p nd b)).
Proof.
  intros NL NP Q. unfold no_limits in NL. apply andb_true_iff in NL as [NI NC].
  apply handle_file_quiet_gen; try assumption.
  - apply Z.leb_le in NI. destruct (0 <? c_max_inodes c)%Z eqn:E; [apply Z.ltb_lt in E; lia|reflexivity].
  - unfold cancelled. destruct (c_cancel c); [reflexivity|discriminate|discriminate].
Qed.

Lemma exec_quiet c : no_limits c = true -> no_xpanic c -> forall l st,
  forallb (call_quiet c) l = true ->
  exists st', exec c l st = EDone st' /\ ns st' = ns (run_calls c l st).
Proof.
  intros NL NP. induction l as [|[ms p nd b] l IH]; intros st Q.
  - exists st. split; reflexivity.
  - cbn [forallb] in Q. apply andb_true_iff in Q as [Q1 Q2].
    destruct (handle_file_quiet c ms p nd b st NL NP Q1) as (st1 & sg & H & SG & E).
    cbn [exec]. rewrite H.
    destruct (IH st1 Q2) as (st' & H' & E').
    exists st'. split.
    + destruct sg; [exact H'|exact H'|contradiction].
    + rewrite E'. cbn [run_calls fold_left]. fold (run_calls c l (apply_call c st (HC ms p nd b))).
      rewrite !ns_run_calls. rewrite E. reflexivity.
Qed.

(* ------------------------------------------------------------------ consequences for run_calls *)
Lemma run_calls_events c l : forall st,
  s_events (run_calls c l st) = s_events st ++ flat_map (call_events c) l.
Proof.
  induction l as [|h l IH]; intros st; [cbn; rewrite app_nil_r; reflexivity|].
  cbn [run_calls fold_left flat_map]. fold (run_calls c l (apply_call c st h)). rewrite IH.
  unfold apply_call. rewrite apply_events_events.
  replace (s_events (inc_inodes st)) with (s_events st) by (destruct st; reflexivity).
  rewrite <- app_assoc. reflexivity.
Qed.

Lemma tinv_run_calls c l : forall st, tinv c st -> tinv c (run_calls c l st).
Proof.
  induction l as [|h l IH]; intros st H; [exact H|].
  cbn [run_calls fold_left]. fold (run_calls c l (apply_call c st h)). apply IH.
  unfold apply_call. apply tinv_apply_events. apply tinv_inc. exact H.
Qed.

Lemma tinv_ns c st : tinv c (ns st) <-> tinv c st.
Proof. unfold ns. symmetry. apply tinv_stack. Qed.

Lemma ns_events st : s_events (ns st) = s_events st.
Proof. destruct st; reflexivity. Qed.
Lemma ns_inv st : s_inv (ns st) = s_inv st.
Proof. destruct st; reflexivity. Qed.
Lemma ns_errors st : s_errors (ns st) = s_errors st.
Proof. destruct st; reflexivity. Qed.
Lemma ns_found st : s_found (ns st) = s_found st.
Proof. destruct st; reflexivity. Qed.

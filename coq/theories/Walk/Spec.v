(* Declarative specification of what a scan has to extract (property C01), written over root-relative
   paths and tree lookups only: no traversal, no gitignore stack, no counters.  No proofs in this file. *)
From Coq Require Import List ZArith NArith Bool Arith.
From Scalibr Require Import Walk.Model.
Import ListNotations.

(* Spec-side paths are root-relative segment lists (the root is []); mpath renders them the way the
   engine's callbacks and options see them ("." for the root). *)
Definition mpath (q : path) : path := match q with [] => [DOT] | _ => q end.

(* every non-directory of the tree with its root-relative path, in listing order *)
Fixpoint files_of (q : path) (nd : node) : list (path * kind * Z) :=
  match nd with
  | File _ k size _ _ => [(q, k, size)]
  | Dir _ ch _ =>
      (fix go (l : list node) : list (path * kind * Z) :=
         match l with
         | [] => []
         | c :: l' => files_of (q ++ [node_name c]) c ++ go l'
         end) ch
  end.

(* every directory of the tree (root-relative path), in listing order, the node itself first *)
Fixpoint dirs_of (q : path) (nd : node) : list path :=
  match nd with
  | File _ _ _ _ _ => []
  | Dir _ ch _ =>
      q :: (fix go (l : list node) : list path :=
              match l with
              | [] => []
              | c :: l' => dirs_of (q ++ [node_name c]) c ++ go l'
              end) ch
  end.

(* the pattern file of <a>/.gitignore, if a is a directory that holds a non-directory of that name *)
Definition gi_of (t : node) (a : path) : option N :=
  match lookup_from t a with
  | Some (Dir _ ch _) =>
      match find_child GI ch with
      | Some (File _ _ _ data _) => Some data
      | _ => None
      end
  | _ => None
  end.

(* all proper prefixes of q, the root [] included *)
Fixpoint proper_prefixes (q : path) : list path :=
  match q with
  | [] => []
  | s :: q' => [] :: map (cons s) (proper_prefixes q')
  end.

(* q is ignored by the .gitignore of one of its proper ancestors -- the root's included *)
Definition gitignored (c : cfg) (t : node) (q : path) (isdir : bool) : bool :=
  c_gitignore c &&
  existsb (fun a => match gi_of t a with
                    | Some pf => c_pat c pf (skipn (length a) q) isdir
                    | None => false
                    end) (proper_prefixes q).

Definition opt_match (f : option (path -> bool)) (p : path) : bool :=
  match f with Some g => g p | None => false end.

(* directory q is excluded by a configured skip rule: skip list, sub-directory cut-off, gitignore,
   regex, glob -- each of them on its own *)
Definition skipped_dir (c : cfg) (t : node) (q : path) : bool :=
  mem_path (mpath q) (c_skip_list c)
  || (c_ignore_subdirs c && negb (mem_path (mpath q) (c_paths c)))
  || gitignored c t q true
  || opt_match (c_re c) (mpath q)
  || opt_match (c_glob c) (mpath q).

(* every proper ancestor directory of q is scanned *)
Definition reached (c : cfg) (t : node) (q : path) : bool :=
  forallb (fun a => negb (skipped_dir c t a)) (proper_prefixes q).

Definition kind_accepted (c : cfg) (k : kind) : bool :=
  (* extracted iff regular, or a symlink when symlink reading is on -- nothing else, whatever other type bits say *)
  match k with Reg => true | Sym => c_symlinks c | Special _ => false end.

Definition size_ok (c : cfg) (size : Z) : bool := (c_max_size c <=? 0)%Z || (size <=? c_max_size c)%Z.

Definition wanted (c : cfg) (t : node) (e : ext) (f : path * kind * Z) : bool :=
  let '(q, k, size) := f in
  reached c t q && kind_accepted c k && negb (gitignored c t q false)
  && req c e (mpath q) size no_ff && size_ok c size.

(* the Extract calls a whole-tree scan of t has to make: files in listing order, extractors in
   configuration order *)
Definition expected_calls (c : cfg) (t : node) : list (ext * path) :=
  flat_map (fun f => map (fun e => (e, mpath (fst (fst f)))) (filter (fun e => wanted c t e f) (c_exts c)))
           (files_of [] t).

(* ------------------------------------------------------------------ explicitly requested paths *)
(* ancestors of q' at or below q: the part of the tree a walk started at q traverses before reaching q' *)
Definition prefixes_between (q q' : path) : list path :=
  filter (fun a => (length q <=? length a)%nat) (proper_prefixes q').

Definition reached_from (c : cfg) (t : node) (q q' : path) : bool :=
  forallb (fun a => negb (skipped_dir c t a)) (prefixes_between q q').

Definition wanted_from (c : cfg) (t : node) (q : path) (e : ext) (f : path * kind * Z) : bool :=
  let '(q', k, size) := f in
  reached_from c t q q' && kind_accepted c k && negb (gitignored c t q' false)
  && req c e (mpath q') size no_ff && size_ok c size.

(* the calls owed for the sub-tree nd found at q *)
Definition expected_from (c : cfg) (t : node) (q : path) (nd : node) : list (ext * path) :=
  flat_map (fun f => map (fun e => (e, mpath (fst (fst f)))) (filter (fun e => wanted_from c t q e f) (c_exts c)))
           (files_of q nd).

Definition spath (p : path) : path := if ln_eqb p [DOT] then [] else p.

(* one requested path: a directory is scanned like the whole tree would scan it; a file is dispatched to
   the extractors that require it (kind and size limit permitting), whatever rules apply to its ancestors *)
Definition expected_for_path (c : cfg) (t : node) (p : path) : list (ext * path) :=
  match lookup_from t (spath p) with
  | None => []
  | Some (Dir n ch df) => expected_from c t (spath p) (Dir n ch df)
  | Some (File _ k size _ _) =>
      if kind_accepted c k && size_ok c size
      then map (fun e => (e, p)) (filter (fun e => req c e p size no_ff) (c_exts c)) else []
  end.

Definition expected_paths (c : cfg) (t : node) : list (ext * path) :=
  flat_map (expected_for_path c t) (c_paths c).

(* the same configuration as a whole-tree scan *)
Definition whole_tree (c : cfg) : cfg := {|
  c_exts := c_exts c; c_required := c_required c; c_statreq := c_statreq c; c_extract := c_extract c; c_pat := c_pat c;
  c_skip_list := c_skip_list c; c_re := c_re c; c_glob := c_glob c; c_gitignore := c_gitignore c;
  c_ignore_subdirs := false; c_paths := []; c_symlinks := c_symlinks c;
  c_max_inodes := c_max_inodes c; c_max_size := c_max_size c; c_fatal := c_fatal c; c_abs := c_abs c; c_cancel := c_cancel c |}.

(* the same configuration with other requested paths *)
Definition set_paths (c : cfg) (ps : list path) : cfg := {|
  c_exts := c_exts c; c_required := c_required c; c_statreq := c_statreq c; c_extract := c_extract c; c_pat := c_pat c;
  c_skip_list := c_skip_list c; c_re := c_re c; c_glob := c_glob c; c_gitignore := c_gitignore c;
  c_ignore_subdirs := c_ignore_subdirs c; c_paths := ps; c_symlinks := c_symlinks c;
  c_max_inodes := c_max_inodes c; c_max_size := c_max_size c; c_fatal := c_fatal c; c_abs := c_abs c; c_cancel := c_cancel c |}.

(* clean relative paths: "." alone, or segments none of which is "." *)
Definition canonical_path (p : path) : bool :=
  ln_eqb p [DOT] || (negb (match p with [] => true | _ => false end) && forallb (fun s => negb (N.eqb s DOT)) p).

(* what the calls return, attributed *)
Definition pkgs_of (x : xres) : list pkg := match x with XRes pk _ => pk | XPanic => [] end.
Definition errs_flag (x : xres) : bool := match x with XRes _ err => err | XPanic => false end.

Definition inventory_of_calls (c : cfg) (l : list (ext * path)) : list tpkg :=
  (* with StoreAbsolutePath every location is the root-joined path, exactly once *)
  flat_map (fun ep => map (fun x => (fst ep, x)) (map (abs_pkg c) (pkgs_of (c_extract c (fst ep) (snd ep))))) l.

(* plugin status as the property words it: failed / partially succeeded when some call of e erred,
   partial iff some call of e returned packages *)
Definition expected_status (c : cfg) (l : list (ext * path)) (e : ext) : status :=
  let mine := filter (fun ep => ln_eqb (fst ep) e) l in
  let errs := map (fun ep => (EkExtract, snd ep))
                  (filter (fun ep => errs_flag (c_extract c (fst ep) (snd ep))) mine) in
  match errs with
  | [] => StSucceeded
  | _ => if existsb (fun ep => match pkgs_of (c_extract c (fst ep) (snd ep)) with [] => false | _ => true end) mine
         then StPartial errs else StFailed errs
  end.

(* ------------------------------------------------------------------ well-formedness, domains *)
(* names of one directory are pairwise different and none is "." -- what every real file system gives *)
Fixpoint names_ok (l : list name) : bool :=
  match l with
  | [] => true
  | n :: l' => negb (N.eqb n DOT) && negb (existsb (N.eqb n) l') && names_ok l'
  end.

Fixpoint wf_tree (nd : node) : bool :=
  match nd with
  | File _ _ _ _ _ => true
  | Dir _ ch _ =>
      names_ok (map node_name ch) &&
      (fix go (l : list node) : bool := match l with [] => true | c :: l' => wf_tree c && go l' end) ch
  end.

Definition ff_clean (ff : ffault) : bool := negb (ff_open ff) && negb (ff_fstat ff) && negb (ff_stat ff).
Definition df_clean (df : dfault) : bool :=
  negb (df_open df) && match df_read_at df with None => true | Some _ => false end && negb (df_stat df).

Fixpoint fault_free (nd : node) : bool :=
  match nd with
  | File _ _ _ _ ff => ff_clean ff
  | Dir _ ch df =>
      df_clean df &&
      (fix go (l : list node) : bool := match l with [] => true | c :: l' => fault_free c && go l' end) ch
  end.

Definition no_limits (c : cfg) : bool :=
  (c_max_inodes c <=? 0)%Z && match c_cancel c with NoCancel => true | _ => false end.

Definition is_none {A} (o : option A) : bool := match o with None => true | Some _ => false end.

(* C09/C10 definitions: which trees cannot make a non-fatal walk abort, traversal faults, surviving paths.
   Definitions only. *)
From Coq Require Import List ZArith NArith Bool Arith.
From Scalibr Require Import Walk.Model Walk.Spec Walk.Sched.
Import ListNotations.

(* <dir>/.gitignore, if present, can be opened *)
Definition gi_child_ok (ch : list node) : bool :=
  match find_child GI ch with
  | Some (File _ _ _ _ ff) => negb (ff_open ff)
  | Some (Dir _ _ df) => negb (df_open df)
  | None => true
  end.

(* some configured extractor's FileRequired consults api.Stat() *)
Definition stat_used (c : cfg) : bool :=
  existsb (fun e => match c_statreq c e with Some _ => true | None => false end) (c_exts c).

(* no Stat fault on a file when some FileRequired consults api.Stat() (the loss is then per extractor); and, when
   filesystem errors are fatal, no lazy-stat fault under a size limit (whether it is reached depends on FileRequired) *)
Fixpoint tree_quiet (c : cfg) (nd : node) : bool :=
  match nd with
  | File _ _ _ _ ff => negb (ff_stat ff && (stat_used c || (c_fatal c && (0 <? c_max_size c)%Z)))
  | Dir _ ch _ =>
      (fix go (l : list node) : bool := match l with [] => true | c1 :: l' => tree_quiet c c1 && go l' end) ch
  end.

(* every .gitignore that UseGitignore would read can be opened: only then do its patterns apply, and only then
   can the scan be compared with the scan of the fault-erased tree *)
Fixpoint gi_readable (c : cfg) (nd : node) : bool :=
  match nd with
  | File _ _ _ _ _ => true
  | Dir _ ch _ =>
      (negb (c_gitignore c) || gi_child_ok ch) &&
      (fix go (l : list node) : bool := match l with [] => true | c1 :: l' => gi_readable c c1 && go l' end) ch
  end.

Definition is_fserr (h : hcall) : bool := let '(HC _ _ _ b) := h in b.

(* a directory the walk enters whose .gitignore cannot be read, filesystem errors being fatal *)
Definition gi_err_call (c : cfg) (h : hcall) : bool :=
  match h with
  | HC ms p (Dir _ ch _) false => match dir_decision c ms p ch with DGiErr => true | _ => false end
  | _ => false
  end.

Definition abort_site (c : cfg) (h : hcall) : bool := is_fserr h || gi_err_call c h.

(* some directory the walk enters cannot be opened, fails while being listed, or holds an unreadable .gitignore
   (UseGitignore); or the root cannot be stat'ed *)
Definition traversal_fault (c : cfg) (t : node) : bool :=
  node_stat_fails t || existsb (abort_site c) (schedule c [] [DOT] t).

(* the tree with every fault annotation removed *)
Fixpoint erase_faults (nd : node) : node :=
  match nd with
  | File n k s d _ => File n k s d no_ff
  | Dir n ch _ => Dir n (map erase_faults ch) no_df
  end.

(* the entries a directory lists before its read failure *)
Definition listed (ch : list node) (df : dfault) : list node :=
  match df_read_at df with None => ch | Some k => firstn k ch end.

(* the entry reached by following segs below nd is not lost to a fault: every directory on the way opens and
   lists the next segment before its read failure; the entry itself, if a file, opens and stats (and can be
   stat'ed for the size check when a size limit is set) *)
Fixpoint survives (c : cfg) (nd : node) (segs : list N) : bool :=
  match segs with
  | [] => match nd with
          | File _ _ _ _ ff => negb (ff_open ff) && negb (ff_fstat ff) && negb ((0 <? c_max_size c)%Z && ff_stat ff)
          | Dir _ _ _ => true
          end
  | s :: rest =>
      match nd with
      | File _ _ _ _ _ => false
      | Dir _ ch df =>
          negb (df_open df) &&
          match find_child s (listed ch df) with
          | Some c1 => survives c c1 rest
          | None => false
          end
      end
  end.

(* ... and the root itself can be stat'ed *)
Definition not_lost (c : cfg) (t : node) (p : list N) : bool := negb (node_stat_fails t) && survives c t (spath p).

(* the visits a walk needs: handleFile invocations, second calls included *)
Definition visits_needed (c : cfg) (t : node) : nat :=
  if node_stat_fails t then 1%nat else length (schedule c [] [DOT] t).

(* every inode of the tree with its engine path *)
Fixpoint nodes_of (p : list N) (nd : node) : list (list N * node) :=
  (p, nd) ::
  match nd with
  | File _ _ _ _ _ => []
  | Dir _ ch _ =>
      (fix go (l : list node) : list (list N * node) :=
         match l with [] => [] | c1 :: l' => nodes_of (child_path p (node_name c1)) c1 ++ go l' end) ch
  end.

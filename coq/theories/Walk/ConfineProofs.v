(* Proofs (C02, engine part): what an extractor returns for one file cannot influence anything but the
   inventory contribution and the status of that extractor. *)
From Coq Require Import List ZArith NArith Bool Arith Lia Permutation.
From Scalibr Require Import Walk.Model Walk.Spec Walk.Sched Walk.Proofs Walk.Trace Walk.SpecProofs Walk.C01Proofs
  Walk.Invariant.
Import ListNotations.

(* the same configuration with other Extract results *)
Definition with_extract (c : cfg) (f : list N -> list N -> xres) : cfg := {|
  c_exts := c_exts c; c_required := c_required c; c_statreq := c_statreq c; c_extract := f; c_pat := c_pat c;
  c_skip_list := c_skip_list c; c_re := c_re c; c_glob := c_glob c; c_gitignore := c_gitignore c;
  c_ignore_subdirs := c_ignore_subdirs c; c_paths := c_paths c; c_symlinks := c_symlinks c;
  c_max_inodes := c_max_inodes c; c_max_size := c_max_size c; c_fatal := c_fatal c; c_abs := c_abs c; c_cancel := c_cancel c |}.

(* everything of the walk context except the three result maps *)
Definition sk (st : state) := (s_inodes st, s_nvisit st, s_nextract st, s_stack st, s_events st).

Definition sim_res (r r' : wres) : Prop :=
  match r, r' with
  | WOk s g, WOk s' g' => g = g' /\ sk s = sk s'
  | WPanic s pc, WPanic s' pc' => pc = pc' /\ sk s = sk s'
  | _, _ => False
  end.

Ltac sk_solve :=
  match goal with
  | H : sk ?a = sk ?b |- _ => destruct a, b; unfold sk in *; cbn in *; inversion H; subst; try reflexivity
  end.

Section Confine.
  Variable c : cfg.
  Variable f : list N -> list N -> xres.
  Hypothesis NPc : no_xpanic c.
  Hypothesis NPf : forall e p, f e p <> XPanic.
  Let c' := with_extract c f.

  Lemma sk_set_stack st st' ms : sk st = sk st' -> sk (set_stack st ms) = sk (set_stack st' ms).
  Proof. intros H. sk_solve. Qed.

  Lemma run_extractor_sim e p ff st st' : sk st = sk st' ->
    sim_res (run_extractor c e p ff st) (run_extractor c' e p ff st').
  Proof.
    intros H. unfold run_extractor. destruct (ff_open ff); [split; [reflexivity|sk_solve]|].
    destruct (ff_fstat ff); [split; [reflexivity|sk_solve]|].
    change (c_extract c' e p) with (f e p).
    destruct (c_extract c e p) as [pk err|] eqn:E1; [|exfalso; exact (NPc e p E1)].
    destruct (f e p) as [pk' err'|] eqn:E2; [|exfalso; exact (NPf e p E2)].
    split; [reflexivity|]. destruct err, err', pk, pk'; sk_solve.
  Qed.

  Lemma run_exts_sim p size ff : forall es checked st st', sk st = sk st' ->
    sim_res (run_exts c p size ff es checked st) (run_exts c' p size ff es checked st').
  Proof.
    induction es as [|e es IH]; intros checked st st' H; cbn [run_exts]; [split; [reflexivity|exact H]|].
    change (req c' e p size ff) with (req c e p size ff). change (c_max_size c') with (c_max_size c).
    assert (H0 : sk (add_event st (EReq e p)) = sk (add_event st' (EReq e p))) by sk_solve.
    pose proof (run_extractor_sim e p ff _ _ H0) as RX.
    destruct (req c e p size ff); [|apply IH; exact H0].
    destruct ((0 <? c_max_size c)%Z && negb checked).
    - change (c_fatal c') with (c_fatal c). destruct (ff_stat ff); [destruct (c_fatal c); (split; [reflexivity|exact H0])|].
      destruct (c_max_size c <? size)%Z; [split; [reflexivity|exact H0]|].
      destruct (run_extractor c e p ff (add_event st (EReq e p))) as [s1 g1|s1 pc1],
               (run_extractor c' e p ff (add_event st' (EReq e p))) as [s2 g2|s2 pc2]; cbn [sim_res] in RX; try contradiction.
      + apply IH. apply RX.
      + exact RX.
    - destruct (run_extractor c e p ff (add_event st (EReq e p))) as [s1 g1|s1 pc1],
               (run_extractor c' e p ff (add_event st' (EReq e p))) as [s2 g2|s2 pc2]; cbn [sim_res] in RX; try contradiction.
      + apply IH. apply RX.
      + exact RX.
  Qed.

  Lemma should_skip_dir_same ms p : should_skip_dir c' ms p = should_skip_dir c ms p.
  Proof. reflexivity. Qed.

  Lemma handle_file_sim p nd b st st' : sk st = sk st' ->
    sim_res (handle_file c p nd b st) (handle_file c' p nd b st').
  Proof.
    intros H. unfold handle_file, hf_prelude.
    change (c_max_inodes c') with (c_max_inodes c). change (c_fatal c') with (c_fatal c).
    assert (H1 : sk (inc_inodes st) = sk (inc_inodes st')) by sk_solve.
    assert (I1 : s_inodes (inc_inodes st) = s_inodes (inc_inodes st')) by (unfold sk in H1; congruence).
    rewrite <- I1.
    destruct ((0 <? c_max_inodes c)%Z && (c_max_inodes c <? s_inodes (inc_inodes st))%Z); [split; [reflexivity|exact H1]|].
    assert (H2 : sk (visit (inc_inodes st) p) = sk (visit (inc_inodes st') p)) by sk_solve.
    assert (CE : cancelled c' (visit (inc_inodes st') p) = cancelled c (visit (inc_inodes st) p)).
    { assert (NV : s_nvisit (visit (inc_inodes st') p) = s_nvisit (visit (inc_inodes st) p)) by (unfold sk in H2; congruence).
      assert (NX : s_nextract (visit (inc_inodes st') p) = s_nextract (visit (inc_inodes st) p)) by (unfold sk in H2; congruence).
      unfold cancelled. change (c_cancel c') with (c_cancel c). rewrite NV, NX. reflexivity. }
    rewrite CE. destruct (cancelled c (visit (inc_inodes st) p)); [split; [reflexivity|exact H2]|].
    destruct b; [destruct (c_fatal c); (split; [reflexivity|exact H2])|].
    assert (SS : s_stack (visit (inc_inodes st') p) = s_stack (visit (inc_inodes st) p)) by (unfold sk in H2; congruence).
    destruct nd as [n k sz d ff|n ch df].
    - unfold hf_file. change (c_symlinks c') with (c_symlinks c). change (c_gitignore c') with (c_gitignore c).
      change (c_exts c') with (c_exts c). rewrite SS.
      destruct (negb _); [split; [reflexivity|exact H2]|].
      change (gi_match_stack c' ?a ?b ?d) with (gi_match_stack c a b d).
      destruct (c_gitignore c && _); [split; [reflexivity|exact H2]|].
      apply run_exts_sim. exact H2.
    - unfold hf_dir. change (c_gitignore c') with (c_gitignore c). rewrite !should_skip_dir_same. rewrite SS.
      destruct (should_skip_dir c (s_stack (visit (inc_inodes st) p)) p); destruct (c_gitignore c);
        try (split; [reflexivity|exact H2]); try (split; [reflexivity|apply sk_set_stack; exact H2]).
      change (c_fatal c') with (c_fatal c).
      destruct (parse_dir_gi p ch) as [|m]; [destruct (c_fatal c)|]; (split; [reflexivity|]); [exact H2|apply sk_set_stack; exact H2|apply sk_set_stack; exact H2].
  Qed.

  Lemma post_sim nd r r' : sim_res r r' -> sim_res (post c nd r) (post c' nd r').
  Proof.
    destruct r as [s g|s pc], r' as [s' g'|s' pc']; cbn [sim_res]; try contradiction; intros [E H]; [|split; assumption].
    unfold post. change (c_gitignore c') with (c_gitignore c). destruct (c_gitignore c && is_dir nd); [|split; assumption].
    assert (SS : s_stack s = s_stack s') by (unfold sk in H; congruence). rewrite <- SS.
    destruct (s_stack s) as [|m ms]; cbn [sim_res]; (split; [try assumption; reflexivity|]); [exact H|].
    destruct s, s'; unfold sk in *; cbn in *; inversion H; subst; reflexivity.
  Qed.

  Lemma second_call_sim p nd st st' : sk st = sk st' -> sim_res (second_call c p nd st) (second_call c' p nd st').
  Proof.
    intros H. unfold second_call. pose proof (handle_file_sim p nd true st st' H) as S.
    destruct (handle_file c p nd true st) as [s [| |a]|s pc], (handle_file c' p nd true st') as [s' [| |a']|s' pc'];
      cbn [sim_res] in *; try contradiction; destruct S as [E S]; try discriminate; try (split; [reflexivity|exact S]); split; assumption.
  Qed.

  Lemma walk_children_sim p nd : forall l,
    Forall (fun ch1 => forall p1 st st', sk st = sk st' -> sim_res (walk_node c p1 ch1 st) (walk_node c' p1 ch1 st')) l ->
    forall ra st st', sk st = sk st' ->
    sim_res (walk_children c p nd l ra st) (walk_children c' p nd l ra st').
  Proof.
    induction l as [|ch1 l IH]; intros HF ra st st' H.
    - destruct ra as [[|k]|]; cbn [walk_children]; try (split; [reflexivity|exact H]). apply second_call_sim. exact H.
    - inversion HF as [|? ? H1 HF']; subst.
      assert (Step : forall ra', sim_res
          (match walk_node c (child_path p (node_name ch1)) ch1 st with
           | WPanic s pc => WPanic s pc | WOk s (Abort a) => WOk s (Abort a)
           | WOk s _ => walk_children c p nd l ra' s end)
          (match walk_node c' (child_path p (node_name ch1)) ch1 st' with
           | WPanic s pc => WPanic s pc | WOk s (Abort a) => WOk s (Abort a)
           | WOk s _ => walk_children c' p nd l ra' s end)).
      { intros ra'. pose proof (H1 (child_path p (node_name ch1)) st st' H) as S.
        destruct (walk_node c (child_path p (node_name ch1)) ch1 st) as [s [| |a]|s pc],
                 (walk_node c' (child_path p (node_name ch1)) ch1 st') as [s' [| |a']|s' pc'];
          cbn [sim_res] in S; try contradiction; destruct S as [E S]; try discriminate;
          try (apply IH; assumption); split; assumption. }
      destruct ra as [[|k]|]; cbn [walk_children]; [apply second_call_sim; exact H|apply Step|apply Step].
  Qed.

  Lemma walk_node_sim : forall nd p st st', sk st = sk st' -> sim_res (walk_node c p nd st) (walk_node c' p nd st').
  Proof.
    induction nd as [n k s d ff|n ch df IH] using node_ind2; intros p st st' H.
    - rewrite !walk_node_file. apply handle_file_sim. exact H.
    - rewrite !walk_node_dir. apply post_sim.
      pose proof (handle_file_sim p (Dir n ch df) false st st' H) as S.
      destruct (handle_file c p (Dir n ch df) false st) as [s [| |a]|s pc],
               (handle_file c' p (Dir n ch df) false st') as [s' [| |a']|s' pc'];
        cbn [sim_res] in S; try contradiction; destruct S as [E S]; try discriminate; try (split; assumption).
      + destruct (df_open df); [apply second_call_sim; exact S|]. apply walk_children_sim; assumption.
      + split; [reflexivity|exact S].
  Qed.

  Lemma walk_dir_unsorted_sim t p st st' : sk st = sk st' ->
    sim_res (walk_dir_unsorted c t p st) (walk_dir_unsorted c' t p st').
  Proof.
    intros H. unfold walk_dir_unsorted. destruct (lookup t p) as [nd|]; [|apply handle_file_sim; exact H].
    destruct (node_stat_fails nd); [apply handle_file_sim|apply walk_node_sim]; exact H.
  Qed.

  Lemma walk_individual_paths_sim t : forall ps st st', sk st = sk st' ->
    sim_res (walk_individual_paths c t ps st) (walk_individual_paths c' t ps st').
  Proof.
    induction ps as [|p ps IH]; intros st st' H; cbn [walk_individual_paths]; [split; [reflexivity|exact H]|].
    change (c_gitignore c') with (c_gitignore c).
    destruct (match lookup t p with Some nd => node_stat_fails nd | None => true end).
    - pose proof (handle_file_sim p dummy_node true st st' H) as S.
      destruct (handle_file c p dummy_node true st) as [s [| |a]|s pc], (handle_file c' p dummy_node true st') as [s' [| |a']|s' pc'];
        cbn [sim_res] in S; try contradiction; destruct S as [E S]; try discriminate; try (apply IH; exact S); split; assumption.
    - destruct (lookup t p) as [[n k s0 d ff|n ch df]|]; [| |split; [reflexivity|exact H]].
      + pose proof (handle_file_sim p (File n k s0 d ff) false st st' H) as S.
        destruct (handle_file c p (File n k s0 d ff) false st) as [s [| |a]|s pc],
                 (handle_file c' p (File n k s0 d ff) false st') as [s' [| |a']|s' pc'];
          cbn [sim_res] in S; try contradiction; destruct S as [E S]; try discriminate; try (apply IH; exact S); split; assumption.
      + destruct (c_gitignore c).
        * change (c_fatal c') with (c_fatal c).
          assert (G : forall ms, sim_res
              (match walk_dir_unsorted c t p (set_stack st ms) with
               | WPanic s pc => WPanic s pc | WOk s (Abort a) => WOk (set_stack s []) (Abort a)
               | WOk s _ => walk_individual_paths c t ps (set_stack s []) end)
              (match walk_dir_unsorted c' t p (set_stack st' ms) with
               | WPanic s pc => WPanic s pc | WOk s (Abort a) => WOk (set_stack s []) (Abort a)
               | WOk s _ => walk_individual_paths c' t ps (set_stack s []) end)).
          { intros ms. pose proof (walk_dir_unsorted_sim t p _ _ (sk_set_stack st st' ms H)) as S.
            destruct (walk_dir_unsorted c t p (set_stack st ms)) as [s [| |a]|s pc],
                     (walk_dir_unsorted c' t p (set_stack st' ms)) as [s' [| |a']|s' pc'];
              cbn [sim_res] in S; try contradiction; destruct S as [E S]; try discriminate;
              try (apply IH; apply sk_set_stack; exact S); try (split; [assumption|apply sk_set_stack; exact S]); split; assumption. }
          destruct (parse_parent_gitignores t p) as [ms|]; [apply G|].
          destruct (c_fatal c); [split; [reflexivity|exact H]|apply G].
        * pose proof (walk_dir_unsorted_sim t p _ _ H) as S.
          destruct (walk_dir_unsorted c t p st) as [s [| |a]|s pc],
                   (walk_dir_unsorted c' t p st') as [s' [| |a']|s' pc'];
            cbn [sim_res] in S; try contradiction; destruct S as [E S]; try discriminate;
            try (apply IH; apply sk_set_stack; exact S); try (split; [assumption|apply sk_set_stack; exact S]); split; assumption.
  Qed.

  Lemma run_fs_sim t st st' : sk st = sk st' -> sim_res (run_fs c t st) (run_fs c' t st').
  Proof.
    intros H. unfold run_fs. change (c_paths c') with (c_paths c).
    destruct (c_paths c); [apply walk_dir_unsorted_sim|apply walk_individual_paths_sim]; exact H.
  Qed.

  (* outcome of Run and its trace are the same under both configurations *)
  Definition sim_run (r r' : rres) : Prop :=
    match r, r' with
    | RPanic s pc, RPanic s' pc' => pc = pc' /\ sk s = sk s'
    | RErr _ a s, RErr _ a' s' => a = a' /\ sk s = sk s'
    | ROk _ _ s, ROk _ _ s' => sk s = sk s'
    | _, _ => False
    end.

  Lemma run_roots_sim : forall roots st st' inv inv' sts sts', sk st = sk st' ->
    sim_run (run_roots c roots st inv sts) (run_roots c' roots st' inv' sts').
  Proof.
    induction roots as [|t roots IH]; intros st st' inv inv' sts sts' H; cbn [run_roots]; [exact H|].
    pose proof (run_fs_sim t st st' H) as S.
    destruct (run_fs c t st) as [s [| |a]|s pc], (run_fs c' t st') as [s' [| |a']|s' pc'];
      cbn [sim_res] in S; try contradiction; destruct S as [E S]; try discriminate; try (apply IH; exact S).
    - inversion E; subst. split; [reflexivity|exact S].
    - split; assumption.
  Qed.

  Lemma run_sim roots : sim_run (run c roots) (run c' roots).
  Proof.
    unfold run. change (c_exts c') with (c_exts c). destruct (c_exts c); [reflexivity|].
    apply run_roots_sim. reflexivity.
  Qed.
End Confine.

Lemma filter_flat_map {A B} (g : B -> bool) (h : A -> list B) l :
  filter g (flat_map h l) = flat_map (fun x => filter g (h x)) l.
Proof. induction l as [|x l IH]; [reflexivity|]. cbn [flat_map]. rewrite filter_app, IH. reflexivity. Qed.

(* Replacing what Extract returns (any packages, any error, no panic) on any set of (extractor, file) pairs:
   - the scan takes exactly the same course: same outcome (completion / error / which), same visits, same
     FileRequired and Extract calls in the same order;
   - a single-root Run that completes reports, for every extractor whose results were not replaced, the same
     status and the same packages. *)
Theorem extract_failure_confined_lemma c f t :
  no_xpanic c -> (forall e p, f e p <> XPanic) ->
  sim_run (run c [t]) (run (with_extract c f) [t]) /\
  forall inv sts st inv' sts' st',
    run c [t] = ROk inv sts st -> run (with_extract c f) [t] = ROk inv' sts' st' ->
    s_events st = s_events st' /\
    inv = inventory_of_calls c (calls (s_events st)) /\ inv' = inventory_of_calls (with_extract c f) (calls (s_events st)) /\
    forall e, (forall p, f e p = c_extract c e p) ->
      filter (fun x => ln_eqb (fst x) e) inv = filter (fun x => ln_eqb (fst x) e) inv' /\
      (exists s, In (e, s) sts /\ In (e, s) sts') \/ ~ In e (c_exts c).
Proof.
  intros NPc NPf. pose proof (run_sim c f NPc NPf [t]) as S. split; [exact S|].
  intros inv sts st inv' sts' st' R R'. rewrite R, R' in S. cbn [sim_run] in S.
  assert (EV : s_events st = s_events st') by (unfold sk in S; congruence).
  pose proof (run_inventory_of_trace _ _ _ _ _ R) as I. pose proof (run_inventory_of_trace _ _ _ _ _ R') as I'.
  rewrite <- EV in I'. split; [exact EV|]. split; [exact I|]. split; [exact I'|].
  intros e Same.
  destruct (in_dec (list_eq_dec N.eq_dec) e (c_exts c)) as [Hin|Hnot]; [left|right; exact Hnot].
  split.
  - rewrite I, I'. unfold inventory_of_calls. rewrite !filter_flat_map. apply flat_map_ext_in. intros [e1 p1] _.
    cbn [fst snd]. destruct (ln_eqb e1 e) eqn:E.
    + apply ln_eqb_eq in E. subst e1. change (c_extract (with_extract c f) e p1) with (f e p1). rewrite Same. reflexivity.
    + clear -E. induction (pkgs_of (c_extract c e1 p1)) as [|x l IHl]; cbn [map filter fst]; rewrite ?E.
      * induction (pkgs_of (c_extract (with_extract c f) e1 p1)) as [|y l' IHl']; [reflexivity|]. cbn [map filter fst]. rewrite E. exact IHl'.
      * exact IHl.
  - (* statuses *)
    rewrite run_single in R, R'. change (c_exts (with_extract c f)) with (c_exts c) in R'.
    destruct (c_exts c) as [|e0 es] eqn:EX; [destruct Hin|].
    unfold fs_result in *.
    pose proof (run_fs_tinv c t init_state (tinv_init c)) as T.
    pose proof (run_fs_tinv (with_extract c f) t init_state (tinv_init _)) as T'.
    destruct (run_fs c t init_state) as [s [| |a]|s pc]; inversion R; subst;
    destruct (run_fs (with_extract c f) t init_state) as [s' [| |a']|s' pc']; inversion R'; subst; cbn [wres_state] in *.
    all: exists (status_of st e); split;
      [unfold statuses; rewrite EX; apply in_map_iff; exists e; split; [reflexivity|exact Hin]|].
    all: assert (SE : status_of st e = status_of st' e);
      [|rewrite SE; unfold statuses; change (c_exts (with_extract c f)) with (c_exts c); rewrite EX; apply in_map_iff; exists e; split; [reflexivity|exact Hin]].
    all: destruct T as (_ & T2 & T3 & _), T' as (_ & T2' & T3' & _);
      unfold status_of, errs_of; rewrite T2, T2', T3, T3', <- EV.
    all: assert (E1 : filter (fun x => ln_eqb (fst x) e) (flat_map (err_of_event c) (s_events st)) =
                      filter (fun x => ln_eqb (fst x) e) (flat_map (err_of_event (with_extract c f)) (s_events st)));
      [rewrite !filter_flat_map; apply flat_map_ext_in; intros ev _;
       destruct ev as [q|e1 q|e1 q|e1 q|e1 q]; cbn [err_of_event]; try reflexivity;
       change (c_extract (with_extract c f) e1 q) with (f e1 q);
       destruct (ln_eqb e1 e) eqn:E; [apply ln_eqb_eq in E; subst e1; rewrite Same; reflexivity|];
       destruct (errs_flag (c_extract c e1 q)), (errs_flag (f e1 q)); cbn [filter fst]; rewrite ?E; reflexivity|].
    all: assert (E2 : existsb (ln_eqb e) (flat_map (found_of_event c) (s_events st)) =
                      existsb (ln_eqb e) (flat_map (found_of_event (with_extract c f)) (s_events st)));
      [clear -Same; induction (s_events st) as [|ev evs IHe]; [reflexivity|];
       cbn [flat_map]; rewrite !existsb_app, IHe; f_equal;
       destruct ev as [q|e1 q|e1 q|e1 q|e1 q]; cbn [found_of_event]; try reflexivity;
       change (c_extract (with_extract c f) e1 q) with (f e1 q);
       destruct (ln_eqb e e1) eqn:E; [apply ln_eqb_eq in E; subst e1; rewrite Same; reflexivity|];
       destruct (pkgs_of (c_extract c e1 q)), (pkgs_of (f e1 q)); cbn [existsb]; rewrite ?E; reflexivity|].
    all: rewrite E1, E2; reflexivity.
Qed.

(* Proofs (C09): faults in scans over several roots. *)
From Coq Require Import List ZArith NArith Bool Arith Lia Permutation.
From Scalibr Require Import Walk.Model Walk.Spec Walk.Sched Walk.Proofs Walk.Trace Walk.SpecProofs Walk.C01Proofs
  Walk.Invariant Walk.Faults Walk.FaultProofs Walk.ConfineProofs Walk.ContainProofs Walk.Perm.
Import ListNotations.

(* the events one (possibly faulty) root contributes to a non-fatal whole-tree Run *)
Definition root_events_q (c : cfg) (t : node) : list event :=
  if node_stat_fails t then call_events c (HC [] [DOT] t true)
  else flat_map (call_events c) (schedule c [] [DOT] t).

Lemma run_fs_quiet_from c t st :
  c_fatal c = false -> no_limits c = true -> no_xpanic c -> c_paths c = [] -> tree_quiet c t = true -> s_stack st = [] ->
  exists st', run_fs c t st = WOk st' Continue /\ s_stack st' = [] /\ s_events st' = s_events st ++ root_events_q c t.
Proof.
  intros F NL NP P Q S. rewrite run_fs_root by exact P. unfold root_events_q. destruct (node_stat_fails t).
  - rewrite handle_file_fserr_result by exact NL. rewrite F. eexists. split; [reflexivity|].
    split; [destruct st; exact S|]. destruct st; reflexivity.
  - pose proof (quiet_all c _ F (schedule_quiet_or_fserr c t Q (s_stack st) [DOT])) as QA.
    destruct (walk_node_quiet c [DOT] t st NL NP QA) as (st' & W & S' & N).
    exists st'. split; [exact W|]. split; [congruence|].
    rewrite <- (ns_events st'), N, ns_events, run_calls_events, S. reflexivity.
Qed.

Lemma fs_calls_root_events_q c t :
  c_fatal c = false -> no_limits c = true -> no_xpanic c -> c_paths c = [] -> tree_quiet c t = true ->
  fs_calls c t = calls (root_events_q c t).
Proof.
  intros F NL NP P Q. destruct (run_fs_quiet_from c t init_state F NL NP P Q eq_refl) as (st' & R & _ & E).
  unfold fs_calls, fs_result. rewrite R. cbn [wres_state]. rewrite E. reflexivity.
Qed.

Lemma run_roots_quiet c : c_fatal c = false -> no_limits c = true -> no_xpanic c -> c_paths c = [] ->
  forall roots st inv sts, forallb (tree_quiet c) roots = true -> s_stack st = [] ->
  exists inv' sts' st', run_roots c roots st inv sts = ROk inv' sts' st' /\
                        s_events st' = s_events st ++ flat_map (root_events_q c) roots.
Proof.
  intros F NL NP P. induction roots as [|t roots IH]; intros st inv sts Q S.
  - exists inv, sts, st. cbn. rewrite app_nil_r. split; reflexivity.
  - cbn [forallb] in Q. apply andb_true_iff in Q as [Q1 Q2].
    destruct (run_fs_quiet_from c t st F NL NP P Q1 S) as (st1 & R & S1 & E).
    cbn [run_roots flat_map]. rewrite R.
    destruct (IH st1 (s_inv st1) (statuses c st1) Q2 S1) as (inv' & sts' & st' & R' & E').
    exists inv', sts', st'. split; [exact R'|]. rewrite E', E, <- app_assoc. reflexivity.
Qed.

(* what Run returns is what the shared walk context holds at the end -- for any trees, faults, options *)
Lemma run_roots_shape c : forall roots st inv sts inv' sts' st',
  run_roots c roots st inv sts = ROk inv' sts' st' ->
  match roots with [] => inv' = inv /\ sts' = sts /\ st' = st | _ => inv' = s_inv st' /\ sts' = statuses c st' end.
Proof.
  induction roots as [|t roots IH]; intros st inv sts inv' sts' st' H.
  - cbn in H. inversion H. repeat split; reflexivity.
  - cbn [run_roots] in H. destruct (run_fs c t st) as [st1 [| |a]|st1 pc]; try discriminate;
      specialize (IH _ _ _ _ _ _ H); (destruct roots as [|t2 roots]; [destruct IH as (-> & -> & ->); split; reflexivity|exact IH]).
Qed.

(* Several roots, ErrorOnFSErrors off: the Run completes, and its Extract calls are, root by root, those of the
   fault-free scan of that root whose path is not lost to a fault of THAT root -- a fault in one root changes
   nothing in another *)
Theorem multiroot_faults_contained_lemma c roots :
  c_fatal c = false -> no_limits c = true -> no_xpanic c -> c_paths c = [] ->
  forallb (fun t => tree_quiet c t && gi_readable c t && wf_tree t) roots = true ->
  exists inv sts st,
    run c roots = ROk inv sts st /\
    (c_exts c <> [] ->
     calls (s_events st) =
     flat_map (fun t => filter (fun ep => not_lost c t (snd ep)) (fs_calls c (erase_faults t))) roots).
Proof.
  intros F NL NP P H. unfold run. destruct (c_exts c) as [|e0 es] eqn:EX.
  - exists [], [], init_state. split; [reflexivity|intros X; contradiction].
  - assert (Q : forallb (tree_quiet c) roots = true).
    { apply forallb_forall. intros t Ht. rewrite forallb_forall in H. specialize (H t Ht).
      apply andb_true_iff in H as [H _]. apply andb_true_iff in H as [H _]. exact H. }
    destruct (run_roots_quiet c F NL NP P roots init_state [] [] Q eq_refl) as (inv' & sts' & st' & R & E).
    exists inv', sts', st'. split; [exact R|]. intros _. rewrite E. cbn [s_events init_state app].
    rewrite calls_flat_map. apply flat_map_ext_in. intros t Ht.
    rewrite forallb_forall in H. specialize (H t Ht).
    apply andb_true_iff in H as [H W]. apply andb_true_iff in H as [TQ GR].
    rewrite <- (fs_calls_root_events_q c t F NL NP P TQ).
    apply faults_contained_lemma; assumption.
Qed.

(* ... and for any roots, faults, options: every failure in any root is an item of the owning plugin's status, and the
   reported statuses and inventory are those of the shared context at the end *)
Theorem multiroot_faults_surface_lemma c roots inv sts st e :
  run c roots = ROk inv sts st ->
  (forall ev item, In ev (s_events st) -> In (e, item) (err_of_event c ev) ->
     exists errs, In item errs /\
       (status_of st e = if existsb (ln_eqb e) (s_found st) then StPartial errs else StFailed errs)) /\
  (status_of st e <> StSucceeded -> exists ev item, In ev (s_events st) /\ In (e, item) (err_of_event c ev)) /\
  (c_exts c <> [] -> roots <> [] -> sts = statuses c st /\ inv = s_inv st).
Proof.
  intros R.
  assert (T : tinv c st).
  { pose proof (run_P c (tinv c) (fun s ms X => proj1 (tinv_stack c s ms) X)
                  (fun p nd b s => handle_file_tinv c p nd b s) roots (tinv_init c)) as T. rewrite R in T. exact T. }
  destruct (faults_surface_lemma c st e T) as [A B]. split; [exact A|]. split; [exact B|].
  intros NE NR. unfold run in R. destruct (c_exts c); [contradiction|].
  apply run_roots_shape in R. destruct roots; [contradiction|]. destruct R as [-> ->]. split; reflexivity.
Qed.

(* C08 - scan results depend only on content, not on enumeration order or root count.
   Only statements here; proofs are in PermProofs.v, SortProofs.v, MultiProofs.v. *)
From Coq Require Import List ZArith NArith Bool Permutation.
From Scalibr Require Import Lib.SortSearch Walk.Model Walk.Spec Walk.Sched Walk.Perm Walk.SortProofs Walk.PermProofs
  Walk.MultiProofs Walk.Witness Walk.Cases.
Import ListNotations.

(* Listing order: for every tree t, every re-listing t' of it (every directory at every depth in any order),
   every configuration without inode limit / cancellation, on fault-free trees: the same multiset of Extract
   calls, the same multiset of packages, and per plugin the same status with the same multiset of failure
   items (the failure-reason string concatenates them in visit order, so only the multiset is invariant). *)
Theorem walk_perm_invariant : forall c t t',
  tperm t t' -> wf_tree t = true -> fault_free t = true ->
  no_limits c = true -> no_xpanic c -> c_paths c = [] ->
  Permutation (fs_calls c t) (fs_calls c t') /\
  exists inv sts st inv' sts' st',
    run c [t] = ROk inv sts st /\ run c [t'] = ROk inv' sts' st' /\
    Permutation inv inv' /\ statuses_equiv sts sts'.
Proof. exact perm_invariant. Qed.
Print Assumptions walk_perm_invariant.

(* CmpPackages is a total preorder (three-way comparator: antisymmetric as a comparator, transitive) *)
Theorem cmp_packages_total_preorder :
  (forall a b, cmp_packages b a = CompOpp (cmp_packages a b)) /\
  (forall a b c, cmp_packages a b <> Gt -> cmp_packages b c <> Gt -> cmp_packages a c <> Gt).
Proof. split; [exact cmp_packages_antisym|exact cmp_packages_trans]. Qed.
Print Assumptions cmp_packages_total_preorder.

(* sortResults: whatever order the packages were collected in, the emitted list is sorted by CmpPackages
   and carries the same sequence of the four sort keys (name, version, extractor, printed locations) *)
Theorem sorted_output_canonical : forall inv inv',
  Permutation inv inv' ->
  map pkey (sort_packages inv) = map pkey (sort_packages inv') /\
  sorted_b cmp_packages (sort_packages inv) = true.
Proof. intros inv inv' H. split; [apply sort_packages_canonical; exact H|apply sort_packages_sorted]. Qed.
Print Assumptions sorted_output_canonical.

Theorem sorted_statuses_canonical : forall sts sts',
  Permutation sts sts' ->
  map fst (sort_statuses sts) = map fst (sort_statuses sts') /\ sorted_b cmp_status (sort_statuses sts) = true.
Proof. intros sts sts' H. split; [apply sort_statuses_canonical; exact H|apply sort_statuses_sorted]. Qed.
Print Assumptions sorted_statuses_canonical.

(* findings: sorted by (reference, extra); the sequence of these keys depends on the multiset only *)
Theorem sorted_findings_canonical : forall fs fs',
  Permutation fs fs' ->
  map fkey (sort_findings fs) = map fkey (sort_findings fs') /\ sorted_b cmp_findings (sort_findings fs) = true.
Proof. intros fs fs' H. split; [apply sort_findings_canonical; exact H|apply sort_findings_sorted]. Qed.
Print Assumptions sorted_findings_canonical.

(* Several roots: filesystem.Run over any number of (fault-free) roots reports exactly the union of the single-root
   runs -- every package once -- and one status per plugin. *)
Theorem multiroot_is_union : forall c roots,
  forallb fault_free roots = true -> no_limits c = true -> no_xpanic c -> c_paths c = [] ->
  exists sts st, run c roots = ROk (concat (map (single_inv c) roots)) sts st /\
                 (c_exts c <> [] -> roots <> [] -> map fst sts = c_exts c).
Proof. exact multiroot_union_lemma. Qed.
Print Assumptions multiroot_is_union.

(* ... the status of every plugin is the one the Extract calls of all roots together dictate (a failure in any root,
   not only the last, is listed) ... *)
Theorem multiroot_statuses : forall c roots,
  forallb fault_free roots = true -> no_limits c = true -> no_xpanic c -> c_paths c = [] ->
  roots <> [] -> c_exts c <> [] ->
  run_statuses (run c roots) = map (fun e => (e, expected_status c (flat_map (fs_calls c) roots) e)) (c_exts c).
Proof. exact multiroot_statuses_lemma. Qed.
Print Assumptions multiroot_statuses.

(* ... and does not depend on the order in which the roots are given *)
Theorem multiroot_status_order_invariant : forall c roots roots',
  Permutation roots roots' -> forallb fault_free roots = true -> no_limits c = true -> no_xpanic c -> c_paths c = [] ->
  roots <> [] -> c_exts c <> [] ->
  statuses_equiv (run_statuses (run c roots)) (run_statuses (run c roots')).
Proof. exact multiroot_status_order_lemma. Qed.
Print Assumptions multiroot_status_order_invariant.

(* non-vacuity *)
Definition t_ab : node := Dc DOT [Dc nA [Fc nZ Reg 1 0; Fc nB Reg 1 0]; Fc nC Reg 1 0].
Definition t_ba : node := Dc DOT [Fc nC Reg 1 0; Dc nA [Fc nB Reg 1 0; Fc nZ Reg 1 0]].

Example tperm_example : tperm t_ab t_ba.
Proof.
  unfold t_ab, t_ba, Dc, Fc.
  eapply tp_dir with (ch1 := [Dir nA [File nB Reg 1 0 no_ff; File nZ Reg 1 0 no_ff] no_df; File nC Reg 1 0 no_ff]).
  - constructor; [|constructor; [constructor|constructor]].
    eapply tp_dir with (ch1 := [File nZ Reg 1 0 no_ff; File nB Reg 1 0 no_ff]).
    + repeat constructor.
    + apply perm_swap.
  - apply perm_swap.
Qed.

Example perm_calls_example :
  fs_calls base_cfg t_ab = [(e0, [nA; nZ]); (e0, [nA; nB]); (e0, [nC])] /\
  fs_calls base_cfg t_ba = [(e0, [nC]); (e0, [nA; nB]); (e0, [nA; nZ])].
Proof. vm_compute. split; reflexivity. Qed.

Example multiroot_example :
  run_inv (run base_cfg [t_one_file; t_empty]) = [(e0, pk1 [nA])] /\
  run_inv (run base_cfg [t_one_file; t_one_file]) = [(e0, pk1 [nA]); (e0, pk1 [nA])] /\
  map fst (run_statuses (run base_cfg [t_one_file; t_empty])) = [e0].
Proof. vm_compute. repeat split; reflexivity. Qed.

(* Proofs (C08): sortResults.  Byte-wise string order is a total order; CmpPackages is the lexicographic
   order on the four sort keys; insertion sort over a total order yields the same list for every
   permutation of its input, and the result is sorted. *)
From Coq Require Import List ZArith NArith Bool Arith Lia Permutation.
From Scalibr Require Import Lib.SortSearch Walk.Model.
Import ListNotations.

(* ------------------------------------------------------------------ a total order given by a comparator *)
Section TotalOrder.
  Context {A : Type}.
  Variable cmp : A -> A -> comparison.
  Hypothesis cmp_antisym : forall a b, cmp b a = CompOpp (cmp a b).
  Hypothesis cmp_trans : forall a b c, cmp a b <> Gt -> cmp b c <> Gt -> cmp a c <> Gt.
  Hypothesis cmp_eq : forall a b, cmp a b = Eq -> a = b.

  Lemma leb_total a b : leb cmp a b = false -> leb cmp b a = true.
  Proof. unfold leb. rewrite (cmp_antisym a b). destruct (cmp a b); cbn; congruence. Qed.

  Lemma leb_trans a b c : leb cmp a b = true -> leb cmp b c = true -> leb cmp a c = true.
  Proof.
    unfold leb. intros H1 H2.
    assert (cmp a c <> Gt) by (apply (cmp_trans a b c); [destruct (cmp a b)|destruct (cmp b c)]; congruence).
    destruct (cmp a c); congruence.
  Qed.

  Lemma leb_antisym a b : leb cmp a b = true -> leb cmp b a = true -> a = b.
  Proof.
    unfold leb. rewrite (cmp_antisym a b). intros H1 H2. apply cmp_eq.
    destruct (cmp a b); cbn in *; congruence.
  Qed.

  Lemma insert_comm x y l : insert cmp x (insert cmp y l) = insert cmp y (insert cmp x l).
  Proof.
    induction l as [|z l IH]; cbn [insert].
    - destruct (leb cmp x y) eqn:Exy, (leb cmp y x) eqn:Eyx; try reflexivity.
      + rewrite (leb_antisym x y Exy Eyx). reflexivity.
      + apply leb_total in Exy. congruence.
    - destruct (leb cmp y z) eqn:Eyz, (leb cmp x z) eqn:Exz; cbn [insert].
      + destruct (leb cmp x y) eqn:Exy, (leb cmp y x) eqn:Eyx; rewrite ?Exz, ?Eyz; try reflexivity.
        * rewrite (leb_antisym x y Exy Eyx). reflexivity.
        * apply leb_total in Exy. congruence.
      + (* y <= z < x *)
        assert (Exy : leb cmp x y = false).
        { destruct (leb cmp x y) eqn:E; [|reflexivity]. rewrite (leb_trans x y z E Eyz) in Exz. discriminate. }
        rewrite Exy, Exz, Eyz. reflexivity.
      + (* x <= z < y *)
        assert (Eyx : leb cmp y x = false).
        { destruct (leb cmp y x) eqn:E; [|reflexivity]. rewrite (leb_trans y x z E Exz) in Eyz. discriminate. }
        rewrite Eyx, Exz, Eyz. reflexivity.
      + rewrite Exz, Eyz, IH. reflexivity.
  Qed.

  (* the sorted output depends on the multiset only *)
  Theorem isort_perm_eq l l' : Permutation l l' -> isort cmp l = isort cmp l'.
  Proof.
    induction 1 as [|x l l' _ IH|x y l|l l' l'' _ IH1 _ IH2]; cbn [isort].
    - reflexivity.
    - rewrite IH. reflexivity.
    - apply insert_comm.
    - congruence.
  Qed.

  Fixpoint sorted_b (l : list A) : bool :=
    match l with
    | [] => true
    | x :: l' => match l' with [] => true | y :: _ => leb cmp x y && sorted_b l' end
    end.

  Lemma insert_sorted x l : sorted_b l = true -> sorted_b (insert cmp x l) = true.
  Proof.
    induction l as [|y l IH]; intros S; [reflexivity|]. cbn [insert].
    destruct (leb cmp x y) eqn:E.
    - cbn [sorted_b]. rewrite E. exact S.
    - apply leb_total in E. destruct l as [|z l].
      + cbn [insert sorted_b]. rewrite E. reflexivity.
      + cbn [sorted_b] in S. apply andb_true_iff in S as [S1 S2].
        specialize (IH S2). cbn [insert] in *. destruct (leb cmp x z) eqn:Exz.
        * cbn [sorted_b] in *. rewrite E, Exz. exact S2.
        * change (sorted_b (y :: z :: insert cmp x l)) with (leb cmp y z && sorted_b (z :: insert cmp x l)).
          rewrite S1. exact IH.
  Qed.

  Theorem isort_sorted l : sorted_b (isort cmp l) = true.
  Proof. induction l as [|x l IH]; [reflexivity|]. cbn [isort]. apply insert_sorted. exact IH. Qed.
End TotalOrder.

(* insertion sort commutes with a key projection when the comparator compares keys *)
Lemma insert_map {A K} (key : A -> K) (kcmp : K -> K -> comparison) x l :
  map key (insert (fun a b => kcmp (key a) (key b)) x l) = insert kcmp (key x) (map key l).
Proof.
  induction l as [|y l IH]; [reflexivity|]. cbn [insert map]. unfold leb.
  destruct (kcmp (key x) (key y)); cbn [map]; try reflexivity. f_equal. exact IH.
Qed.

Lemma isort_map {A K} (key : A -> K) (kcmp : K -> K -> comparison) l :
  map key (isort (fun a b => kcmp (key a) (key b)) l) = isort kcmp (map key l).
Proof. induction l as [|x l IH]; [reflexivity|]. cbn [isort map]. rewrite insert_map, IH. reflexivity. Qed.

(* ------------------------------------------------------------------ byte strings *)
Lemma bcmp_antisym : forall a b, bcmp b a = CompOpp (bcmp a b).
Proof.
  induction a as [|x a IH]; intros [|y b]; cbn [bcmp CompOpp]; try reflexivity.
  rewrite (N.compare_antisym x y). destruct (N.compare x y); cbn [CompOpp]; [apply IH|reflexivity|reflexivity].
Qed.

Lemma bcmp_eq : forall a b, bcmp a b = Eq -> a = b.
Proof.
  induction a as [|x a IH]; intros [|y b]; cbn [bcmp]; try discriminate; [reflexivity|].
  destruct (N.compare x y) eqn:E; try discriminate. intros H. apply N.compare_eq in E. apply IH in H. congruence.
Qed.

Lemma bcmp_refl a : bcmp a a = Eq.
Proof. induction a as [|x a IH]; [reflexivity|]. cbn [bcmp]. rewrite N.compare_refl. exact IH. Qed.

Lemma bcmp_trans : forall a b c, bcmp a b <> Gt -> bcmp b c <> Gt -> bcmp a c <> Gt.
Proof.
  induction a as [|x a IH]; intros [|y b] [|z c]; cbn [bcmp]; try congruence.
  destruct (N.compare x y) eqn:Exy; try congruence; destruct (N.compare y z) eqn:Eyz; try congruence; intros H1 H2.
  - apply N.compare_eq in Exy, Eyz. subst. rewrite N.compare_refl. apply (IH b c); assumption.
  - apply N.compare_eq in Exy. subst. rewrite Eyz. congruence.
  - apply N.compare_eq in Eyz. subst. rewrite Exy. congruence.
  - rewrite N.compare_lt_iff in Exy, Eyz. assert (E : (x ?= z)%N = Lt) by (apply N.compare_lt_iff; lia).
    rewrite E. congruence.
Qed.

(* ------------------------------------------------------------------ the four sort keys of a package *)
Definition pkey (x : list N * pkg) : list N * list N * list N * list N :=
  (p_name (snd x), p_version (snd x), fst x, sprint_locs (p_locs (snd x))).

Definition kcmp (a b : list N * list N * list N * list N) : comparison :=
  let '(a1, a2, a3, a4) := a in
  let '(b1, b2, b3, b4) := b in
  cmp_or (bcmp a1 b1) (cmp_or (bcmp a2 b2) (cmp_or (bcmp a3 b3) (bcmp a4 b4))).

Lemma cmp_packages_key a b : cmp_packages a b = kcmp (pkey a) (pkey b).
Proof. reflexivity. Qed.

Lemma cmp_or_opp a b : CompOpp (cmp_or a b) = cmp_or (CompOpp a) (CompOpp b).
Proof. destruct a; reflexivity. Qed.

Lemma kcmp_antisym a b : kcmp b a = CompOpp (kcmp a b).
Proof.
  destruct a as [[[a1 a2] a3] a4], b as [[[b1 b2] b3] b4]. cbn [kcmp].
  rewrite !cmp_or_opp, <- !bcmp_antisym. reflexivity.
Qed.

Lemma kcmp_eq a b : kcmp a b = Eq -> a = b.
Proof.
  destruct a as [[[a1 a2] a3] a4], b as [[[b1 b2] b3] b4]. cbn [kcmp]. unfold cmp_or.
  destruct (bcmp a1 b1) eqn:E1; try discriminate. destruct (bcmp a2 b2) eqn:E2; try discriminate.
  destruct (bcmp a3 b3) eqn:E3; try discriminate. intros E4.
  apply bcmp_eq in E1, E2, E3, E4. congruence.
Qed.

(* one level of the lexicographic comparison *)
Lemma lex_step (x y z : list N) (X Y Z : comparison) :
  (X <> Gt -> Y <> Gt -> Z <> Gt) ->
  cmp_or (bcmp x y) X <> Gt -> cmp_or (bcmp y z) Y <> Gt -> cmp_or (bcmp x z) Z <> Gt.
Proof.
  intros HR. destruct (bcmp x y) eqn:E1; destruct (bcmp y z) eqn:E2; cbn [cmp_or]; try congruence.
  - apply bcmp_eq in E1, E2. subst. rewrite bcmp_refl. exact HR.
  - apply bcmp_eq in E1. subst. rewrite E2. cbn. congruence.
  - apply bcmp_eq in E2. subst. rewrite E1. cbn. congruence.
  - intros _ _. destruct (bcmp x z) eqn:E3; cbn; try congruence.
    + apply bcmp_eq in E3. subst. rewrite (bcmp_antisym z y), E1 in E2. discriminate.
    + exfalso. apply (bcmp_trans x y z); congruence.
Qed.

Lemma kcmp_trans a b c : kcmp a b <> Gt -> kcmp b c <> Gt -> kcmp a c <> Gt.
Proof.
  destruct a as [[[a1 a2] a3] a4], b as [[[b1 b2] b3] b4], c as [[[c1 c2] c3] c4]. cbn [kcmp].
  apply lex_step. apply lex_step. apply lex_step. apply bcmp_trans.
Qed.

(* ------------------------------------------------------------------ sortResults on packages *)
(* whatever order the packages were collected in, the sorted output carries the same sequence of sort keys *)
Theorem sort_packages_canonical inv inv' :
  Permutation inv inv' -> map pkey (sort_packages inv) = map pkey (sort_packages inv').
Proof.
  intros HP. unfold sort_packages.
  change (isort cmp_packages) with (isort (fun a b => kcmp (pkey a) (pkey b))).
  rewrite !isort_map. apply (isort_perm_eq kcmp kcmp_antisym kcmp_trans kcmp_eq).
  apply Permutation_map. apply Permutation_map. exact HP.
Qed.

Lemma cmp_packages_antisym a b : cmp_packages b a = CompOpp (cmp_packages a b).
Proof. rewrite !cmp_packages_key. apply kcmp_antisym. Qed.

Lemma cmp_packages_trans a b c : cmp_packages a b <> Gt -> cmp_packages b c <> Gt -> cmp_packages a c <> Gt.
Proof. rewrite !cmp_packages_key. apply kcmp_trans. Qed.

Lemma leb_total_gen {A} (cmp : A -> A -> comparison) :
  (forall a b, cmp b a = CompOpp (cmp a b)) -> forall a b, leb cmp a b = false -> leb cmp b a = true.
Proof. intros H a b. unfold leb. rewrite (H a b). destruct (cmp a b); cbn; congruence. Qed.

(* sortedness needs totality only *)
Lemma insert_sorted_gen {A} (cmp : A -> A -> comparison) :
  (forall a b, cmp b a = CompOpp (cmp a b)) ->
  forall x l, sorted_b cmp l = true -> sorted_b cmp (insert cmp x l) = true.
Proof.
  intros HA x l. induction l as [|y l IH]; intros S; [reflexivity|]. cbn [insert].
  destruct (leb cmp x y) eqn:E.
  - cbn [sorted_b]. rewrite E. exact S.
  - apply (leb_total_gen cmp HA) in E. destruct l as [|z l].
    + cbn [insert sorted_b]. rewrite E. reflexivity.
    + cbn [sorted_b] in S. apply andb_true_iff in S as [S1 S2].
      specialize (IH S2). cbn [insert] in *. destruct (leb cmp x z) eqn:Exz.
      * cbn [sorted_b] in *. rewrite E, Exz. exact S2.
      * change (sorted_b cmp (y :: z :: insert cmp x l)) with (leb cmp y z && sorted_b cmp (z :: insert cmp x l)).
        rewrite S1. exact IH.
Qed.

Lemma isort_sorted_gen {A} (cmp : A -> A -> comparison) :
  (forall a b, cmp b a = CompOpp (cmp a b)) -> forall l, sorted_b cmp (isort cmp l) = true.
Proof. intros HA l. induction l as [|x l IH]; [reflexivity|]. cbn [isort]. apply insert_sorted_gen; assumption. Qed.

Theorem sort_packages_sorted inv : sorted_b cmp_packages (sort_packages inv) = true.
Proof. apply isort_sorted_gen. apply cmp_packages_antisym. Qed.

Lemma cmp_status_antisym (a b : list N * status) : cmp_status b a = CompOpp (cmp_status a b).
Proof. apply bcmp_antisym. Qed.

Theorem sort_statuses_sorted sts : sorted_b cmp_status (sort_statuses sts) = true.
Proof. apply isort_sorted_gen. apply cmp_status_antisym. Qed.

(* statuses are ordered by plugin name only; with pairwise different names the output is canonical *)
Theorem sort_statuses_canonical sts sts' :
  Permutation sts sts' -> map fst (sort_statuses sts) = map fst (sort_statuses sts').
Proof.
  intros HP. unfold sort_statuses.
  change (isort cmp_status) with (isort (fun a b : list N * status => bcmp (fst a) (fst b))).
  rewrite !isort_map. apply (isort_perm_eq bcmp bcmp_antisym bcmp_trans bcmp_eq).
  apply Permutation_map. exact HP.
Qed.

(* ------------------------------------------------------------------ sortResults on findings *)
Definition fkey (f : finding) : list N * list N := (f_ref f, f_extra f).
Definition fkcmp (a b : list N * list N) : comparison := cmp_or (bcmp (fst a) (fst b)) (bcmp (snd a) (snd b)).

Lemma fkcmp_antisym a b : fkcmp b a = CompOpp (fkcmp a b).
Proof. unfold fkcmp. rewrite cmp_or_opp, <- !bcmp_antisym. reflexivity. Qed.

Lemma fkcmp_trans a b c : fkcmp a b <> Gt -> fkcmp b c <> Gt -> fkcmp a c <> Gt.
Proof. unfold fkcmp. apply lex_step. apply bcmp_trans. Qed.

Lemma fkcmp_eq a b : fkcmp a b = Eq -> a = b.
Proof.
  destruct a as [a1 a2], b as [b1 b2]. unfold fkcmp, cmp_or. cbn [fst snd].
  destruct (bcmp a1 b1) eqn:E1; try discriminate. intros E2. apply bcmp_eq in E1, E2. congruence.
Qed.

(* whatever order the detectors' findings arrive in, the emitted list is sorted by cmpFindings and carries the
   same sequence of (reference, extra) keys *)
Theorem sort_findings_canonical fs fs' :
  Permutation fs fs' -> map fkey (sort_findings fs) = map fkey (sort_findings fs').
Proof.
  intros HP. unfold sort_findings.
  change (isort cmp_findings) with (isort (fun a b => fkcmp (fkey a) (fkey b))).
  rewrite !isort_map. apply (isort_perm_eq fkcmp fkcmp_antisym fkcmp_trans fkcmp_eq).
  apply Permutation_map. exact HP.
Qed.

Lemma cmp_findings_antisym a b : cmp_findings b a = CompOpp (cmp_findings a b).
Proof. apply (fkcmp_antisym (fkey a) (fkey b)). Qed.

Theorem sort_findings_sorted fs : sorted_b cmp_findings (sort_findings fs) = true.
Proof. apply isort_sorted_gen. apply cmp_findings_antisym. Qed.

(* Proof device: the walk as "a pure schedule of handleFile invocations, executed until the first abort".
   schedule lists, for a node and the gitignore stack in force on entering it, every handleFile call the
   engine would make if nothing aborted (stack context included); exec runs such a list through the
   model's handle_file.  Proofs.v shows walk_node = exec (schedule ...).  Definitions only. *)
From Coq Require Import List ZArith NArith Bool Arith.
From Scalibr Require Import Walk.Model Walk.Spec.
Import ListNotations.

Notation stack := (list (option (list N * N))) (only parsing).

Inductive hcall := HC (ms : stack) (p : path) (nd : node) (fserr : bool).

Inductive dir_dec := DSkip | DGiErr | DEnter (ms' : stack).

(* what the directory branch of handleFile decides, as a function of the stack in force *)
Definition dir_decision (c : cfg) (ms : stack) (p : path) (ch : list node) : dir_dec :=
  if should_skip_dir c ms p then DSkip
  else if c_gitignore c then
    match parse_dir_gi p ch with
    | GiErr => if c_fatal c then DGiErr else DEnter (None :: ms)
    | GiOk m => DEnter (m :: ms)
    end
  else DEnter ms.

(* top-level copies of the nested fixpoints of walk_node / schedule *)
Fixpoint walk_children (c : cfg) (p : path) (nd : node) (l : list node) (ra : option nat) (st : state) : wres :=
  match ra with
  | Some O => second_call c p nd st
  | _ =>
      match l with
      | [] => WOk st Continue
      | ch1 :: l' =>
          match walk_node c (child_path p (node_name ch1)) ch1 st with
          | WPanic st' pc => WPanic st' pc
          | WOk st' (Abort a) => WOk st' (Abort a)
          | WOk st' _ => walk_children c p nd l' (option_map pred ra) st'
          end
      end
  end.

Fixpoint schedule (c : cfg) (ms : stack) (p : path) (nd : node) {struct nd} : list hcall :=
  HC ms p nd false ::
  match nd with
  | File _ _ _ _ _ => []
  | Dir _ ch df =>
      match dir_decision c ms p ch with
      | DSkip | DGiErr => []
      | DEnter ms' =>
          if df_open df then [HC ms' p nd true]
          else
            (fix go (l : list node) (ra : option nat) {struct l} : list hcall :=
               match ra with
               | Some O => [HC ms' p nd true]
               | _ =>
                   match l with
                   | [] => []
                   | c1 :: l' => schedule c ms' (child_path p (node_name c1)) c1 ++ go l' (option_map pred ra)
                   end
               end) ch (df_read_at df)
      end
  end.

Fixpoint sched_children (c : cfg) (ms' : stack) (p : path) (nd : node) (l : list node) (ra : option nat) : list hcall :=
  match ra with
  | Some O => [HC ms' p nd true]
  | _ =>
      match l with
      | [] => []
      | c1 :: l' => schedule c ms' (child_path p (node_name c1)) c1 ++ sched_children c ms' p nd l' (option_map pred ra)
      end
  end.

Inductive eres := EDone (st : state) | EAbort (st : state) (a : abort) | EPanic (st : state) (pc : pcause).

Fixpoint exec (c : cfg) (l : list hcall) (st : state) : eres :=
  match l with
  | [] => EDone st
  | HC ms p nd b :: l' =>
      match handle_file c p nd b (set_stack st ms) with
      | WOk st' (Abort a) => EAbort st' a
      | WOk st' _ => exec c l' st'
      | WPanic st' pc => EPanic st' pc
      end
  end.

Definition eres_state (e : eres) : state :=
  match e with EDone st => st | EAbort st _ => st | EPanic st _ => st end.

(* ------------------------------------------------------------------ pure effect of one call
   (no inode limit, no cancellation, no fatal errors: the regime in which nothing aborts) *)
Fixpoint ext_events (c : cfg) (p : path) (size : Z) (ff : ffault) (es : list ext) (checked : bool) : list event :=
  match es with
  | [] => []
  | e :: es' =>
      EReq e p ::
      if req c e p size ff then
        if (0 <? c_max_size c)%Z && negb checked && (ff_stat ff || (c_max_size c <? size)%Z) then []
        else (if ff_open ff then [EOpenErr e p] else if ff_fstat ff then [EFstatErr e p] else [EExtract e p])
             ++ ext_events c p size ff es' ((0 <? c_max_size c)%Z || checked)
      else ext_events c p size ff es' checked
  end.

Definition call_events (c : cfg) (h : hcall) : list event :=
  let '(HC ms p nd b) := h in
  EVisit p ::
  if b then []
  else match nd with
       | Dir _ _ _ => []
       | File _ k size _ ff =>
           if kind_accepted c k && negb (c_gitignore c && gi_match_stack c ms p false)
           then ext_events c p size ff (c_exts c) false else []
       end.

(* the maps of the walk context as functions of the trace *)
Definition inv_of_event (c : cfg) (ev : event) : list tpkg :=
  match ev with EExtract e p => map (fun x => (e, x)) (map (abs_pkg c) (pkgs_of (c_extract c e p))) | _ => [] end.
Definition err_of_event (c : cfg) (ev : event) : list (ext * erritem) :=
  match ev with
  | EExtract e p => if errs_flag (c_extract c e p) then [(e, (EkExtract, p))] else []
  | EOpenErr e p => [(e, (EkOpen, p))]
  | EFstatErr e p => [(e, (EkFstat, p))]
  | _ => []
  end.
Definition found_of_event (c : cfg) (ev : event) : list ext :=
  match ev with
  | EExtract e p => match pkgs_of (c_extract c e p) with [] => [] | _ => [e] end
  | _ => []
  end.

(* ------------------------------------------------------------------ replaying a trace on a state *)
(* what the engine does to its context when the given event happens (stack and inode counter aside) *)
Definition apply_event (c : cfg) (st : state) (ev : event) : state :=
  match ev with
  | EVisit p => visit st p
  | EReq _ _ => add_event st ev
  | EExtract e p =>
      let st1 := begin_extract st e p in
      match c_extract c e p with
      | XPanic => st1
      | XRes pk err =>
          let st2 := if err then add_error st1 e EkExtract p else st1 in
          match pk with [] => st2 | _ => add_results st2 e (map (abs_pkg c) pk) end
      end
  | EOpenErr e p => add_error (add_event st ev) e EkOpen p
  | EFstatErr e p => add_error (add_event st ev) e EkFstat p
  end.

Definition apply_events (c : cfg) (evs : list event) (st : state) : state := fold_left (apply_event c) evs st.

(* the whole effect of one non-aborting call, stack aside *)
Definition apply_call (c : cfg) (st : state) (h : hcall) : state := apply_events c (call_events c h) (inc_inodes st).
Definition run_calls (c : cfg) (l : list hcall) (st : state) : state := fold_left (apply_call c) l st.

Definition ns (st : state) : state := set_stack st [].

(* calls that cannot make a walk without inode limit and cancellation abort *)
Definition call_quiet (c : cfg) (h : hcall) : bool :=
  let '(HC ms p nd b) := h in
  if b then negb (c_fatal c)
  else match nd with
       | Dir _ ch _ => match dir_decision c ms p ch with DGiErr => false | _ => true end
       | File _ _ _ _ ff => negb (c_fatal c && (0 <? c_max_size c)%Z && ff_stat ff)
       end.

Definition no_xpanic (c : cfg) : Prop := forall e p, c_extract c e p <> XPanic.

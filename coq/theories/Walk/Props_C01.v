(* C01 - every required file is extracted exactly once, and nothing else is.
   Only statements here; proofs are in Proofs.v, Trace.v, SpecProofs.v, C01Proofs.v, SubdirProofs.v.
   (Model and theorems describe the code after the fix commits c6e92489, 9b0c17fd, 47f6ad08: no domain restriction left.) *)
From Coq Require Import List ZArith NArith Bool Permutation.
From Scalibr Require Import Walk.Model Walk.Spec Walk.Sched Walk.Proofs Walk.Trace Walk.SpecProofs Walk.C01Proofs
  Walk.SubdirProofs Walk.PathsProofs Walk.Witness.
Import ListNotations.

(* For every finite tree t (well-formed: entry names pairwise different, none "."), every configuration c
   (any extractors, any FileRequired / Extract callbacks -- FileRequired may consult api.Stat() --, any go-git /
   regexp / glob oracle, any skip list, regex and glob alone or together, .gitignore files at any depth including
   the scan root, symlink and size options) without inode limit and cancellation, scanning the fault-free tree as
   a whole: the Extract calls of the engine are exactly the specified ones, in order, and none is made twice. *)
Theorem walk_calls_exact : forall c t,
  wf_tree t = true -> fault_free t = true -> no_limits c = true -> no_xpanic c -> c_paths c = [] ->
  NoDup (c_exts c) ->
  fs_calls c t = expected_calls c t /\ NoDup (fs_calls c t).
Proof.
  intros c t WF FF NL NP P NE. pose proof (whole_tree_calls c t WF FF NL NP P) as E.
  split; [exact E|]. rewrite E. apply expected_calls_nodup; assumption.
Qed.
Print Assumptions walk_calls_exact.

(* The reported inventory is the concatenation of what the Extract calls returned, each package attributed to
   the extractor that produced it -- for every tree, faulty or not, and every configuration. *)
Theorem walk_inventory_exact : forall c t inv sts st,
  run c [t] = ROk inv sts st -> inv = inventory_of_calls c (calls (s_events st)).
Proof. exact run_inventory_of_trace. Qed.
Print Assumptions walk_inventory_exact.

(* Inventory and plugin statuses of filesystem.Run are exactly the specified ones. *)
Theorem walk_status_exact : forall c t,
  wf_tree t = true -> fault_free t = true -> no_limits c = true -> no_xpanic c -> c_paths c = [] ->
  exists st, run c [t] = ROk (inventory_of_calls c (expected_calls c t))
                             (map (fun e => (e, expected_status c (expected_calls c t) e)) (c_exts c)) st.
Proof. exact whole_tree_results. Qed.
Print Assumptions walk_status_exact.

(* Explicitly requesting a sub-directory d that the whole-tree scan reaches yields the extractions of that
   whole-tree scan restricted to d (ParseParentGitignores rebuilds what the whole-tree walk holds on entering d). *)
Theorem subdir_request_equiv : forall c t d n ch df,
  c_paths c = [d] -> c_ignore_subdirs c = false ->
  wf_tree t = true -> fault_free t = true -> no_limits c = true -> no_xpanic c ->
  d <> [] -> ~ In DOT d -> lookup_from t d = Some (Dir n ch df) -> reached (whole_tree c) t d = true ->
  fs_calls c t = filter (fun ep => is_prefix d (snd ep)) (fs_calls (whole_tree c) t).
Proof. exact subdir_request_lemma. Qed.
Print Assumptions subdir_request_equiv.

(* An explicitly requested file is dispatched to exactly the extractors that require it (file kind and size
   limit permitting), whatever skip rules or .gitignore files apply to its ancestors. *)
Theorem requested_file_direct : forall c t p n k sz d ff,
  c_paths c = [p] -> lookup t p = Some (File n k sz d ff) -> ff_clean ff = true ->
  no_limits c = true -> no_xpanic c ->
  fs_calls c t = if kind_accepted c k && size_ok c sz
                 then map (fun e => (e, p)) (filter (fun e => req c e p sz no_ff) (c_exts c)) else [].
Proof. exact requested_file_lemma. Qed.
Print Assumptions requested_file_direct.

(* A request for several paths is served path by path without interference: its Extract calls are the
   concatenation, in request order, of the calls of the single-path requests -- whatever was requested before
   (a directory with .gitignore files above it, a file, a missing path) leaves nothing behind in the walk context.
   (Without the sub-directory cut-off, whose rule speaks about the whole list of requested paths.) *)
Theorem requested_paths_independent : forall c t ps,
  c_ignore_subdirs c = false -> fault_free t = true -> no_limits c = true -> no_xpanic c -> ps <> [] ->
  (c_fatal c = false \/ forall p, In p ps -> lookup t p <> None) ->
  fs_calls (set_paths c ps) t = flat_map (fun p => fs_calls (set_paths c [p]) t) ps.
Proof. exact requested_paths_independent_lemma. Qed.
Print Assumptions requested_paths_independent.

(* The general statement for requested paths: files and directories mixed, missing paths, the sub-directory cut-off
   on or off.  The Extract calls are exactly the specified ones: per requested path, in request order, a directory
   as the whole-tree rules prescribe from that directory down (with the .gitignore files of all its ancestors and
   the cut-off rule over the whole request list), a file iff required (kind and size permitting).  Subsumes
   subdir_request_equiv, requested_file_direct and requested_paths_independent. *)
Theorem requested_paths_exact : forall c t,
  c_paths c <> [] -> wf_tree t = true -> fault_free t = true -> no_limits c = true -> no_xpanic c ->
  (forall p, In p (c_paths c) -> canonical_path p = true) ->
  (c_fatal c = false \/ forall p, In p (c_paths c) -> lookup t p <> None) ->
  fs_calls c t = expected_paths c t.
Proof. exact requested_paths_exact_lemma. Qed.
Print Assumptions requested_paths_exact.

(* non-vacuity, and the former defects as regression examples: a nested .gitignore; regex and glob both set
   (./a by the regex, ./b by the glob: nothing is scanned); a .gitignore in the scan root ("a": ./a and ./b/a ignored) *)
Example repaired_examples :
  fs_calls (with_gitignore base_cfg pat_a) t_sub_gi = [(e0, [nB; GI]); (e0, [nB; nC; nZ]); (e0, [nB; nZ])] /\
  expected_calls (with_gitignore base_cfg pat_a) t_sub_gi = [(e0, [nB; GI]); (e0, [nB; nC; nZ]); (e0, [nB; nZ])] /\
  fs_calls c_re_glob t_two_dirs = [] /\ expected_calls c_re_glob t_two_dirs = [] /\
  fs_calls c_gi t_root_gi = [(e0, [GI])] /\ expected_calls c_gi t_root_gi = [(e0, [GI])].
Proof. vm_compute. repeat split; reflexivity. Qed.

(* non-vacuity of the sub-directory statement: ./b/.gitignore ("a") applies inside the requested ./b/c *)
Example subdir_example :
  reached (whole_tree (with_paths (with_gitignore base_cfg pat_a) [[nB; nC]] false)) t_sub_gi [nB; nC] = true /\
  fs_calls (with_paths (with_gitignore base_cfg pat_a) [[nB; nC]] false) t_sub_gi = [(e0, [nB; nC; nZ])] /\
  fs_calls (with_gitignore base_cfg pat_a) t_sub_gi = [(e0, [nB; GI]); (e0, [nB; nC; nZ]); (e0, [nB; nZ])].
Proof. vm_compute. repeat split; reflexivity. Qed.

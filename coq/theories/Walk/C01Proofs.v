(* Proofs, part 4 (C01): assembling the whole-tree theorems. *)
From Coq Require Import List ZArith NArith Bool Arith Lia Permutation.
From Scalibr Require Import Walk.Model Walk.Spec Walk.Sched Walk.Proofs Walk.Trace Walk.SpecProofs Walk.Cases Walk.Witness.
Import ListNotations.

(* ------------------------------------------------------------------ tinv is preserved by every call, quiet or not *)
Lemma run_extractor_state c e p ff st :
  wres_state (run_extractor c e p ff st) =
  apply_events c (if ff_open ff then [EOpenErr e p] else if ff_fstat ff then [EFstatErr e p] else [EExtract e p]) st.
Proof.
  unfold run_extractor. destruct (ff_open ff); [reflexivity|]. destruct (ff_fstat ff); [reflexivity|].
  cbn [apply_events fold_left apply_event]. destruct (c_extract c e p) as [pk err|]; reflexivity.
Qed.

Lemma run_exts_tinv c p size ff : forall es checked st,
  tinv c st -> tinv c (wres_state (run_exts c p size ff es checked st)).
Proof.
  induction es as [|e es IH]; intros checked st T; cbn [run_exts]; [exact T|].
  assert (T0 : tinv c (add_event st (EReq e p))) by (apply (tinv_apply_event c st (EReq e p)); exact T).
  assert (TX : tinv c (wres_state (run_extractor c e p ff (add_event st (EReq e p))))).
  { rewrite run_extractor_state. apply tinv_apply_events. exact T0. }
  destruct (req c e p size ff); [|apply IH; exact T0].
  destruct ((0 <? c_max_size c)%Z && negb checked).
  - destruct (ff_stat ff); [destruct (c_fatal c); exact T0|]. destruct (c_max_size c <? size)%Z; [exact T0|].
    destruct (run_extractor c e p ff (add_event st (EReq e p))) as [st1 sg|st1 pc]; cbn [wres_state] in *; [apply IH|]; exact TX.
  - destruct (run_extractor c e p ff (add_event st (EReq e p))) as [st1 sg|st1 pc]; cbn [wres_state] in *; [apply IH|]; exact TX.
Qed.

Lemma handle_file_tinv c p nd b st : tinv c st -> tinv c (wres_state (handle_file c p nd b st)).
Proof.
  intros T. unfold handle_file, hf_prelude.
  assert (T1 : tinv c (inc_inodes st)) by (apply tinv_inc; exact T).
  assert (T2 : tinv c (visit (inc_inodes st) p)) by (apply (tinv_apply_event c _ (EVisit p)); exact T1).
  destruct ((0 <? c_max_inodes c)%Z && (c_max_inodes c <? s_inodes (inc_inodes st))%Z); [exact T1|].
  destruct (cancelled c (visit (inc_inodes st) p)); [exact T2|].
  destruct b; [destruct (c_fatal c); exact T2|].
  destruct nd as [n k size d ff|n ch df].
  - unfold hf_file. destruct (negb _); [exact T2|]. destruct (c_gitignore c && _); [exact T2|].
    apply run_exts_tinv. exact T2.
  - rewrite hf_dir_decision. destruct (dir_decision c _ p ch); cbn [wres_state]; [|exact T2|apply tinv_stack; exact T2].
    destruct (c_gitignore c); [apply tinv_stack|]; exact T2.
Qed.

Lemma exec_tinv c l : forall st, tinv c st -> tinv c (eres_state (exec c l st)).
Proof.
  induction l as [|[ms p nd b] l IH]; intros st T; [exact T|]. cbn [exec].
  pose proof (handle_file_tinv c p nd b (set_stack st ms) (proj1 (tinv_stack c st ms) T)) as T'.
  destruct (handle_file c p nd b (set_stack st ms)) as [st' [| |a]|st' pc]; cbn [wres_state eres_state] in *;
    try exact T'; apply IH; exact T'.
Qed.

Lemma walk_node_state c p nd st :
  exists ms, wres_state (walk_node c p nd st) = set_stack (eres_state (exec c (schedule c (s_stack st) p nd) st)) ms.
Proof.
  pose proof (walk_node_exec c nd p st) as A.
  destruct (exec c (schedule c (s_stack st) p nd) st) as [st'|st' a|st' pc]; cbn [agrees eres_state] in *.
  - rewrite A. eexists; reflexivity.
  - destruct A as [ms A]; rewrite A; eexists; reflexivity.
  - destruct A as [ms A]. rewrite A. eexists; reflexivity.
Qed.

Lemma walk_node_tinv c p nd st : tinv c st -> tinv c (wres_state (walk_node c p nd st)).
Proof.
  intros T. destruct (walk_node_state c p nd st) as [ms ->]. apply tinv_stack. apply exec_tinv. exact T.
Qed.

Lemma walk_dir_unsorted_tinv c t p st : tinv c st -> tinv c (wres_state (walk_dir_unsorted c t p st)).
Proof.
  intros T. unfold walk_dir_unsorted. destruct (lookup t p) as [nd|]; [|apply handle_file_tinv; exact T].
  destruct (node_stat_fails nd); [apply handle_file_tinv|apply walk_node_tinv]; exact T.
Qed.

Lemma walk_individual_paths_tinv c t : forall ps st, tinv c st -> tinv c (wres_state (walk_individual_paths c t ps st)).
Proof.
  induction ps as [|p ps IH]; intros st T; cbn [walk_individual_paths]; [exact T|].
  destruct (match lookup t p with Some nd => node_stat_fails nd | None => true end).
  - pose proof (handle_file_tinv c p dummy_node true st T) as T'.
    destruct (handle_file c p dummy_node true st) as [st' [| |a]|st' pc]; cbn [wres_state] in *; try exact T'; apply IH; exact T'.
  - destruct (lookup t p) as [[n k s d ff|n ch df]|]; [| |exact T].
    + pose proof (handle_file_tinv c p (File n k s d ff) false st T) as T'.
      destruct (handle_file c p (File n k s d ff) false st) as [st' [| |a]|st' pc]; cbn [wres_state] in *; try exact T'; apply IH; exact T'.
    + destruct (if c_gitignore c then match parse_parent_gitignores t p with Some ms => Some (set_stack st ms) | None => if c_fatal c then None else Some (set_stack st []) end else Some st)
        as [st0|] eqn:E0; [|exact T].
      assert (T0 : tinv c st0).
      { destruct (c_gitignore c); [|inversion E0; subst; exact T].
        destruct (parse_parent_gitignores t p); [|destruct (c_fatal c)]; inversion E0; subst; apply tinv_stack; exact T. }
      pose proof (walk_dir_unsorted_tinv c t p st0 T0) as T'.
      destruct (walk_dir_unsorted c t p st0) as [st' [| |a]|st' pc]; cbn [wres_state] in *; try exact T';
        try (apply tinv_stack; exact T'); apply IH; apply tinv_stack; exact T'.
Qed.

Lemma run_fs_tinv c t st : tinv c st -> tinv c (wres_state (run_fs c t st)).
Proof.
  intros T. unfold run_fs. destruct (c_paths c); [apply walk_dir_unsorted_tinv|apply walk_individual_paths_tinv]; exact T.
Qed.

(* ------------------------------------------------------------------ inventory and statuses from the trace *)
Lemma inv_of_events_calls c evs : flat_map (inv_of_event c) evs = inventory_of_calls c (calls evs).
Proof.
  induction evs as [|[p|e p|e p|e p|e p] evs IH]; cbn [flat_map inv_of_event calls app]; try exact IH; [reflexivity|].
  unfold inventory_of_calls in *. cbn [flat_map fst snd]. rewrite IH. reflexivity.
Qed.

(* ------------------------------------------------------------------ whole-tree scan of a fault-free tree *)
Lemma forallb_flat_map {A B} (f : B -> bool) (g : A -> list B) l :
  forallb f (flat_map g l) = forallb (fun x => forallb f (g x)) l.
Proof. induction l as [|x l IH]; cbn [flat_map forallb]; [reflexivity|]. rewrite forallb_app, IH. reflexivity. Qed.

Lemma schedule_quiet_ff c : forall nd, fault_free nd = true -> forall ms p,
  forallb (call_quiet c) (schedule c ms p nd) = true.
Proof.
  induction nd as [n k sz d ff|n ch df IH] using node_ind2; intros FF ms p.
  - cbn [schedule forallb call_quiet]. cbn [fault_free] in FF. unfold ff_clean in FF.
    apply andb_true_iff in FF as [_ FS]. apply negb_true_iff in FS. rewrite FS, !andb_false_r. reflexivity.
  - rewrite schedule_dir. cbn [forallb call_quiet].
    rewrite fault_free_dir in FF. apply andb_true_iff in FF as [FD FC].
    unfold df_clean in FD. apply andb_true_iff in FD as [FD _]. apply andb_true_iff in FD as [FO FR].
    apply negb_true_iff in FO. destruct (df_read_at df) eqn:RA; [discriminate|].
    unfold dir_decision. destruct (should_skip_dir c ms p); [reflexivity|].
    assert (H : exists ms', (if c_gitignore c then match parse_dir_gi p ch with GiErr => if c_fatal c then DGiErr else DEnter (None :: ms) | GiOk m => DEnter (m :: ms) end else DEnter ms) = DEnter ms').
    { destruct (c_gitignore c); [|eexists; reflexivity]. destruct (parse_dir_gi_ff p ch FC) as [m ->]. eexists; reflexivity. }
    destruct H as [ms' ->]. cbn [andb]. rewrite FO, sched_children_none, forallb_flat_map.
    apply forallb_forall. intros c1 Hin. rewrite Forall_forall in IH. apply IH; [exact Hin|].
    rewrite forallb_forall in FC. apply FC. exact Hin.
Qed.

Lemma fault_free_stat nd : fault_free nd = true -> node_stat_fails nd = false.
Proof.
  destruct nd as [n k sz d ff|n ch df]; intros FF.
  - cbn in *. unfold ff_clean in FF. apply andb_true_iff in FF as [_ FS]. apply negb_true_iff in FS. exact FS.
  - rewrite fault_free_dir in FF. apply andb_true_iff in FF as [FD _]. unfold df_clean in FD.
    apply andb_true_iff in FD as [_ FS]. apply negb_true_iff in FS. exact FS.
Qed.

(* a walk of a fault-free subtree without limits: completes, and its state is the replay of the schedule *)
Lemma walk_node_quiet c p nd st :
  no_limits c = true -> no_xpanic c -> forallb (call_quiet c) (schedule c (s_stack st) p nd) = true ->
  exists st', walk_node c p nd st = WOk st' Continue /\ s_stack st' = s_stack st /\
              ns st' = ns (run_calls c (schedule c (s_stack st) p nd) st).
Proof.
  intros NL NP Q. pose proof (walk_node_exec c nd p st) as A.
  destruct (exec_quiet c NL NP _ st Q) as (st1 & E & N). rewrite E in A. cbn [agrees] in A.
  exists (set_stack st1 (s_stack st)). split; [exact A|]. split; [apply s_stack_set|].
  rewrite ns_set_stack. exact N.
Qed.

Lemma expected_from_root c t : expected_from c t [] t = expected_calls c t.
Proof.
  unfold expected_from, expected_calls. apply flat_map_ext_in. intros [[q' k] sz] _. f_equal.
  apply filter_ext. intros e. unfold wanted_from, wanted, reached_from, reached. rewrite prefixes_between_nil. reflexivity.
Qed.

Lemma stack_rep_nil c t : stack_rep c t [] [].
Proof. intros _ s isdir. reflexivity. Qed.

Lemma run_fs_whole c t st : c_paths c = [] -> fault_free t = true ->
  run_fs c t st = walk_node c [DOT] t st.
Proof.
  intros P FF. unfold run_fs. rewrite P. unfold walk_dir_unsorted, lookup. cbn [ln_eqb].
  rewrite N.eqb_refl. cbn [andb]. rewrite fault_free_stat by exact FF. reflexivity.
Qed.



Lemma ext_events_observable c p sz ff : ff_open ff = false -> ff_fstat ff = false -> forall es checked,
  forallb observable (ext_events c p sz ff es checked) = true.
Proof.
  intros FO FS. induction es as [|e es IHe]; intros checked; [reflexivity|].
  cbn [ext_events forallb observable]. destruct (req c e p sz ff); [|apply IHe].
  destruct ((0 <? c_max_size c)%Z && negb checked && (ff_stat ff || (c_max_size c <? sz)%Z)); [reflexivity|].
  rewrite FO, FS. cbn [app forallb observable]. apply IHe.
Qed.

(* every scheduled call of a fault-free tree produces observable events only *)
Lemma schedule_observable_ff c : forall nd, fault_free nd = true -> forall ms p h,
  In h (schedule c ms p nd) -> forallb observable (call_events c h) = true.
Proof.
  induction nd as [n k sz d ff|n ch df IH] using node_ind2; intros FF ms p h Hin.
  - cbn [schedule In] in Hin. destruct Hin as [<-|[]].
    cbn [call_events forallb observable]. cbn [fault_free] in FF. unfold ff_clean in FF.
    apply andb_true_iff in FF as [FF _]. apply andb_true_iff in FF as [FO FS]. apply negb_true_iff in FO, FS.
    destruct (kind_accepted c k && _); [|reflexivity]. apply ext_events_observable; assumption.
  - rewrite schedule_dir in Hin. destruct Hin as [<-|Hin]; [reflexivity|].
    rewrite fault_free_dir in FF. apply andb_true_iff in FF as [FD FC].
    unfold df_clean in FD. apply andb_true_iff in FD as [FD _]. apply andb_true_iff in FD as [FO FR].
    apply negb_true_iff in FO. destruct (df_read_at df) eqn:RA; [discriminate FR|].
    destruct (dir_decision c ms p ch) as [| |ms']; [destruct Hin|destruct Hin|].
    rewrite FO, sched_children_none in Hin. apply in_flat_map in Hin as (c1 & Hc & Hin).
    rewrite Forall_forall in IH. rewrite forallb_forall in FC. eapply IH; [exact Hc|apply FC; exact Hc|exact Hin].
Qed.

(* a whole-tree scan of a fault-free tree without limits completes; its trace is the replay of the schedule *)
Theorem whole_tree_run c t :
  fault_free t = true -> no_limits c = true -> no_xpanic c -> c_paths c = [] ->
  exists st, fs_result c t = WOk st Continue /\ s_stack st = [] /\ tinv c st /\
             s_events st = flat_map (call_events c) (schedule c [] [DOT] t) /\
             forallb observable (s_events st) = true.
Proof.
  intros FF NL NP P.
  unfold fs_result. rewrite run_fs_whole by assumption.
  destruct (walk_node_quiet c [DOT] t init_state NL NP (schedule_quiet_ff c t FF _ _)) as (st & W & S & N).
  exists st. split; [exact W|]. split; [exact S|].
  assert (EV : s_events st = flat_map (call_events c) (schedule c [] [DOT] t)).
  { rewrite <- (ns_events st), N, ns_events, run_calls_events. reflexivity. }
  split.
  { pose proof (walk_node_tinv c [DOT] t init_state (tinv_init c)) as T. rewrite W in T. exact T. }
  split; [exact EV|].
  rewrite EV. rewrite forallb_flat_map. apply forallb_forall. intros h Hin.
  eapply schedule_observable_ff; eassumption.
Qed.

Theorem whole_tree_calls c t :
  wf_tree t = true -> fault_free t = true -> no_limits c = true -> no_xpanic c -> c_paths c = [] ->
  fs_calls c t = expected_calls c t.
Proof.
  intros WF FF NL NP P.
  destruct (whole_tree_run c t FF NL NP P) as (st & R & _ & _ & EV & _).
  unfold fs_calls. rewrite R. cbn [wres_state]. rewrite EV.
  change (calls (flat_map (call_events c) (schedule c [] [DOT] t))) with (sched_calls c [] (mpath []) t).
  rewrite (sched_calls_spec c t t [] []); [apply expected_from_root|reflexivity|intros []|exact WF|exact FF|apply stack_rep_nil].
Qed.

(* ------------------------------------------------------------------ no call is made twice *)
Lemma nodup_app {A} (a b : list A) : NoDup a -> NoDup b -> (forall x, In x a -> ~ In x b) -> NoDup (a ++ b).
Proof.
  induction a as [|x a IH]; intros Ha Hb Hd; [exact Hb|]. cbn [app]. inversion Ha; subst. constructor.
  - intros H. apply in_app_or in H as [H|H]; [contradiction|]. apply (Hd x); [left; reflexivity|exact H].
  - apply IH; [assumption|assumption|]. intros y Hy. apply Hd. right. exact Hy.
Qed.

Lemma nodup_map_inj {A B} (f : A -> B) l : (forall x y, f x = f y -> x = y) -> NoDup l -> NoDup (map f l).
Proof.
  intros Hinj. induction 1 as [|x l Hx Hl IH]; cbn [map]; constructor; [|exact IH].
  intros H. apply in_map_iff in H as (y & E & Hy). apply Hinj in E. subst. contradiction.
Qed.

Lemma nodup_filter {A} (f : A -> bool) l : NoDup l -> NoDup (filter f l).
Proof.
  induction 1 as [|x l Hx Hl IH]; cbn [filter]; [constructor|]. destruct (f x); [|exact IH].
  constructor; [|exact IH]. intros H. apply filter_In in H as [H _]. contradiction.
Qed.

Definition fpath (f : list N * kind * Z) : list N := fst (fst f).

Lemma files_paths_nodup : forall nd q, wf_tree nd = true -> NoDup (map fpath (files_of q nd)).
Proof.
  induction nd as [n k sz d ff|n ch df IH] using node_ind2; intros q WF.
  - cbn. constructor; [intros []|constructor].
  - rewrite files_of_dir. rewrite wf_tree_dir in WF. apply andb_true_iff in WF as [WN WC].
    induction ch as [|c1 ch IHch]; [constructor|].
    cbn [flat_map]. rewrite map_app. inversion IH as [|? ? H1 H2]; subst.
    cbn [map] in WN. apply names_ok_cons in WN as (N1 & N2 & N3).
    cbn [forallb] in WC. apply andb_true_iff in WC as [W1 W2].
    apply nodup_app; [apply H1; exact W1|apply IHch; assumption|].
    intros p Hp Hp'. apply in_map_iff in Hp as (f & <- & Hf). apply in_map_iff in Hp' as (f' & E & Hf').
    apply in_flat_map in Hf' as (c2 & Hc2 & Hf').
    destruct (files_of_paths _ _ _ Hf) as (s & Es & _). destruct (files_of_paths _ _ _ Hf') as (s' & Es' & _).
    unfold fpath in E. rewrite Es, Es', <- !app_assoc in E. apply app_inv_head in E. inversion E as [En].
    apply N2. rewrite <- En. apply in_map. exact Hc2.
Qed.

Lemma files_paths_no_dot : forall nd q, wf_tree nd = true -> ~ In DOT q ->
  forall f, In f (files_of q nd) -> ~ In DOT (fpath f).
Proof.
  induction nd as [n k sz d ff|n ch df IH] using node_ind2; intros q WF ND f Hf.
  - cbn in Hf. destruct Hf as [<-|[]]. exact ND.
  - rewrite files_of_dir in Hf. apply in_flat_map in Hf as (c1 & Hc & Hf).
    rewrite wf_tree_dir in WF. apply andb_true_iff in WF as [WN WC].
    rewrite Forall_forall in IH. rewrite forallb_forall in WC.
    apply (IH c1 Hc (q ++ [node_name c1])); [apply WC; exact Hc| |exact Hf].
    intros H. apply in_app_or in H as [H|[H|[]]]; [exact (ND H)|].
    apply (names_ok_not_dot _ WN (node_name c1)); [apply in_map; exact Hc|exact H].
Qed.

Lemma mpath_inj q1 q2 : ~ In DOT q1 -> ~ In DOT q2 -> mpath q1 = mpath q2 -> q1 = q2.
Proof.
  intros N1 N2 E. destruct q1 as [|x q1], q2 as [|y q2]; cbn [mpath] in E; try reflexivity; try exact E.
  - exfalso. apply N2. rewrite <- E. left. reflexivity.
  - exfalso. apply N1. rewrite E. left. reflexivity.
Qed.

Lemma expected_calls_nodup c t : wf_tree t = true -> NoDup (c_exts c) -> NoDup (expected_calls c t).
Proof.
  intros WF NE. unfold expected_calls.
  pose proof (files_paths_nodup t [] WF) as NP.
  pose proof (files_paths_no_dot t [] WF (fun H => H)) as ND.
  induction (files_of [] t) as [|f l IH]; [constructor|].
  cbn [flat_map]. cbn [map] in NP. inversion NP as [|? ? Hf Hl]; subst.
  apply nodup_app.
  - apply nodup_map_inj; [intros x y E; inversion E; reflexivity|]. apply nodup_filter. exact NE.
  - apply IH; [exact Hl|]. intros f' Hf'. apply ND. right. exact Hf'.
  - intros [e p] H1 H2. apply in_map_iff in H1 as (e1 & E1 & _). inversion E1; subst.
    apply in_flat_map in H2 as (f' & Hf' & H2). apply in_map_iff in H2 as (e2 & E2 & _). inversion E2 as [[Ee Ep]].
    apply mpath_inj in Ep; [|apply ND; right; exact Hf'|apply ND; left; reflexivity].
    apply Hf. unfold fpath at 1. rewrite <- Ep. apply (in_map fpath). exact Hf'.
Qed.

(* ------------------------------------------------------------------ statuses from the trace *)
Lemma ln_eqb_sym a b : ln_eqb a b = ln_eqb b a.
Proof.
  destruct (ln_eqb a b) eqn:E.
  - apply ln_eqb_eq in E. subst. symmetry. apply ln_eqb_refl.
  - symmetry. apply ln_eqb_neq. apply ln_eqb_neq in E. congruence.
Qed.

Lemma errs_of_trace c e evs : forallb observable evs = true ->
  map snd (filter (fun x => ln_eqb (fst x) e) (flat_map (err_of_event c) evs)) =
  map (fun ep => (EkExtract, snd ep))
      (filter (fun ep => errs_flag (c_extract c (fst ep) (snd ep))) (filter (fun ep => ln_eqb (fst ep) e) (calls evs))).
Proof.
  induction evs as [|[p|e' p|e' p|e' p|e' p] evs IH]; intros O; cbn [forallb observable andb] in O; try discriminate;
    cbn [flat_map err_of_event calls app]; try (apply IH; exact O); [reflexivity|].
  rewrite filter_app, map_app. cbn [filter fst snd]. rewrite (IH O).
  destruct (ln_eqb e' e) eqn:E.
  - cbn [filter fst snd]. destruct (errs_flag (c_extract c e' p)); cbn [filter fst snd map app]; rewrite ?E; reflexivity.
  - destruct (errs_flag (c_extract c e' p)); cbn [filter fst snd map app]; rewrite ?E; reflexivity.
Qed.

Lemma found_of_trace c e evs :
  existsb (ln_eqb e) (flat_map (found_of_event c) evs) =
  existsb (fun ep => match pkgs_of (c_extract c (fst ep) (snd ep)) with [] => false | _ => true end)
          (filter (fun ep => ln_eqb (fst ep) e) (calls evs)).
Proof.
  induction evs as [|[p|e' p|e' p|e' p|e' p] evs IH]; cbn [flat_map found_of_event calls app]; try exact IH; [reflexivity|].
  rewrite existsb_app, IH. cbn [filter fst snd].
  destruct (ln_eqb e' e) eqn:E.
  - cbn [existsb fst snd]. destruct (pkgs_of (c_extract c e' p)); cbn [existsb orb]; [reflexivity|].
    rewrite ln_eqb_sym, E. reflexivity.
  - destruct (pkgs_of (c_extract c e' p)); cbn [existsb orb]; [reflexivity|]. rewrite ln_eqb_sym, E. reflexivity.
Qed.

Lemma status_of_trace c st e : tinv c st -> forallb observable (s_events st) = true ->
  status_of st e = expected_status c (calls (s_events st)) e.
Proof.
  intros (I1 & I2 & I3 & _) O. unfold status_of, expected_status, errs_of.
  rewrite I2, (errs_of_trace c e _ O), I3, found_of_trace.
  destruct (map _ (filter _ (filter _ (calls (s_events st))))); reflexivity.
Qed.

(* ------------------------------------------------------------------ Run over one root *)
Lemma run_single c t :
  run c [t] = match c_exts c with
              | [] => ROk [] [] init_state
              | _ => match fs_result c t with
                     | WPanic st pc => RPanic st pc
                     | WOk st (Abort a) => RErr (s_inv st) a st
                     | WOk st _ => ROk (s_inv st) (statuses c st) st
                     end
              end.
Proof.
  unfold run, fs_result. destruct (c_exts c); [reflexivity|]. cbn [run_roots].
  destruct (run_fs c t init_state) as [st [| |a]|st pc]; reflexivity.
Qed.

Theorem run_inventory_of_trace c t inv sts st :
  run c [t] = ROk inv sts st -> inv = inventory_of_calls c (calls (s_events st)).
Proof.
  rewrite run_single. destruct (c_exts c) eqn:EX.
  - intros H; inversion H; subst. reflexivity.
  - pose proof (run_fs_tinv c t init_state (tinv_init c)) as T. unfold fs_result.
    destruct (run_fs c t init_state) as [st' [| |a]|st' pc]; intros H; inversion H; subst; cbn [wres_state] in T;
      destruct T as (I1 & _); rewrite I1; apply inv_of_events_calls.
Qed.

Lemma expected_calls_no_exts c t : c_exts c = [] -> expected_calls c t = [].
Proof. intros E. unfold expected_calls. rewrite E. apply flat_map_nil_in. reflexivity. Qed.

Theorem whole_tree_results c t :
  wf_tree t = true -> fault_free t = true -> no_limits c = true -> no_xpanic c -> c_paths c = [] ->
  exists st, run c [t] = ROk (inventory_of_calls c (expected_calls c t))
                             (map (fun e => (e, expected_status c (expected_calls c t) e)) (c_exts c)) st.
Proof.
  intros WF FF NL NP P. rewrite run_single.
  destruct (c_exts c) as [|e0 es] eqn:EX.
  - rewrite expected_calls_no_exts by exact EX. exists init_state. reflexivity.
  - pose proof (whole_tree_calls c t WF FF NL NP P) as C.
    destruct (whole_tree_run c t FF NL NP P) as (st & R & _ & T & _ & O).
    unfold fs_calls in C. rewrite R in *. cbn [wres_state] in C. exists st. f_equal.
    + destruct T as (I1 & _). rewrite I1, inv_of_events_calls, C. reflexivity.
    + unfold statuses. rewrite EX. apply map_ext. intros e. rewrite (status_of_trace c st e T O), C. reflexivity.
Qed.


(* Proofs: state predicates preserved by every handleFile call are preserved by the whole engine;
   where panics can come from. *)
From Coq Require Import List ZArith NArith Bool Arith Lia Permutation.
From Scalibr Require Import Walk.Model Walk.Spec Walk.Sched Walk.Proofs Walk.Trace Walk.SpecProofs Walk.C01Proofs.
Import ListNotations.

Section Preserve.
  Variable c : cfg.
  Variable P : state -> Prop.
  Hypothesis P_stack : forall st ms, P st -> P (set_stack st ms).
  Hypothesis P_hf : forall p nd b st, P st -> P (wres_state (handle_file c p nd b st)).

  Lemma exec_P l : forall st, P st -> P (eres_state (exec c l st)).
  Proof.
    induction l as [|[ms p nd b] l IH]; intros st H; [exact H|]. cbn [exec].
    pose proof (P_hf p nd b (set_stack st ms) (P_stack st ms H)) as H'.
    destruct (handle_file c p nd b (set_stack st ms)) as [st' [| |a]|st' pc]; cbn [wres_state eres_state] in *;
      try exact H'; apply IH; exact H'.
  Qed.

  Lemma walk_node_P p nd st : P st -> P (wres_state (walk_node c p nd st)).
  Proof. intros H. destruct (walk_node_state c p nd st) as [ms ->]. apply P_stack. apply exec_P. exact H. Qed.

  Lemma walk_dir_unsorted_P t p st : P st -> P (wres_state (walk_dir_unsorted c t p st)).
  Proof.
    intros H. unfold walk_dir_unsorted. destruct (lookup t p) as [nd|]; [|apply P_hf; exact H].
    destruct (node_stat_fails nd); [apply P_hf|apply walk_node_P]; exact H.
  Qed.

  Lemma walk_individual_paths_P t : forall ps st, P st -> P (wres_state (walk_individual_paths c t ps st)).
  Proof.
    induction ps as [|p ps IH]; intros st H; cbn [walk_individual_paths]; [exact H|].
    destruct (match lookup t p with Some nd => node_stat_fails nd | None => true end).
    - pose proof (P_hf p dummy_node true st H) as H'.
      destruct (handle_file c p dummy_node true st) as [st' [| |a]|st' pc]; cbn [wres_state] in *; try exact H'; apply IH; exact H'.
    - destruct (lookup t p) as [[n k s d ff|n ch df]|]; [| |exact H].
      + pose proof (P_hf p (File n k s d ff) false st H) as H'.
        destruct (handle_file c p (File n k s d ff) false st) as [st' [| |a]|st' pc]; cbn [wres_state] in *; try exact H'; apply IH; exact H'.
      + destruct (if c_gitignore c then match parse_parent_gitignores t p with Some ms => Some (set_stack st ms) | None => if c_fatal c then None else Some (set_stack st []) end else Some st)
          as [st0|] eqn:E0; [|exact H].
        assert (H0 : P st0).
        { destruct (c_gitignore c); [|inversion E0; subst; exact H].
          destruct (parse_parent_gitignores t p); [|destruct (c_fatal c)]; inversion E0; subst; apply P_stack; exact H. }
        pose proof (walk_dir_unsorted_P t p st0 H0) as H'.
        destruct (walk_dir_unsorted c t p st0) as [st' [| |a]|st' pc]; cbn [wres_state] in *; try exact H';
          try (apply P_stack; exact H'); apply IH; apply P_stack; exact H'.
  Qed.

  Lemma run_fs_P t st : P st -> P (wres_state (run_fs c t st)).
  Proof.
    intros H. unfold run_fs. destruct (c_paths c); [apply walk_dir_unsorted_P|apply walk_individual_paths_P]; exact H.
  Qed.

  Lemma run_roots_P : forall roots st inv sts, P st -> P (rres_state (run_roots c roots st inv sts)).
  Proof.
    induction roots as [|t roots IH]; intros st inv sts H; cbn [run_roots]; [exact H|].
    pose proof (run_fs_P t st H) as H'.
    destruct (run_fs c t st) as [st' [| |a]|st' pc]; cbn [wres_state rres_state] in *; try exact H'; apply IH; exact H'.
  Qed.

  Lemma run_P roots : P init_state -> P (rres_state (run c roots)).
  Proof. intros H. unfold run. destruct (c_exts c); [exact H|]. apply run_roots_P. exact H. Qed.
End Preserve.

(* ------------------------------------------------------------------ where panics come from *)
Lemma run_extractor_panic c e p ff st st' pc :
  run_extractor c e p ff st = WPanic st' pc -> pc = PcExtract /\ c_extract c e p = XPanic.
Proof.
  unfold run_extractor. destruct (ff_open ff); [discriminate|]. destruct (ff_fstat ff); [discriminate|].
  destruct (c_extract c e p); [discriminate|]. intros H; inversion H. split; reflexivity.
Qed.

Lemma run_exts_panic c p size ff : forall es checked st st' pc,
  run_exts c p size ff es checked st = WPanic st' pc -> pc = PcExtract /\ exists e, c_extract c e p = XPanic.
Proof.
  induction es as [|e es IH]; intros checked st st' pc; cbn [run_exts]; [discriminate|].
  destruct (req c e p size ff); [|apply IH].
  destruct ((0 <? c_max_size c)%Z && negb checked).
  - destruct (ff_stat ff); [destruct (c_fatal c); discriminate|]. destruct (c_max_size c <? size)%Z; [discriminate|].
    destruct (run_extractor c e p ff (add_event st (EReq e p))) as [st1 sg|st1 pc1] eqn:E; [apply IH|].
    intros H; inversion H; subst. apply run_extractor_panic in E as [-> E]. split; [reflexivity|exists e; exact E].
  - destruct (run_extractor c e p ff (add_event st (EReq e p))) as [st1 sg|st1 pc1] eqn:E; [apply IH|].
    intros H; inversion H; subst. apply run_extractor_panic in E as [-> E]. split; [reflexivity|exists e; exact E].
Qed.

Lemma handle_file_panic c p nd b st st' pc :
  handle_file c p nd b st = WPanic st' pc -> pc = PcExtract /\ exists e, c_extract c e p = XPanic.
Proof.
  unfold handle_file. destruct (hf_prelude c p b st) as [st1 sg|st2]; [discriminate|].
  destruct nd as [n k sz d ff|n ch df].
  - unfold hf_file. destruct (negb _); [discriminate|]. destruct (c_gitignore c && _); [discriminate|].
    apply run_exts_panic.
  - rewrite hf_dir_decision. destruct (dir_decision c (s_stack st2) p ch); discriminate.
Qed.

Lemma exec_panic c l : forall st st' pc, exec c l st = EPanic st' pc -> pc = PcExtract /\ ~ no_xpanic c.
Proof.
  induction l as [|[ms p nd b] l IH]; intros st st' pc; cbn [exec]; [discriminate|].
  destruct (handle_file c p nd b (set_stack st ms)) as [st1 [| |a]|st1 pc1] eqn:E; try (apply IH); [discriminate|].
  intros H; inversion H; subst. apply handle_file_panic in E as [-> [e E]]. split; [reflexivity|].
  intros NP. exact (NP e p E).
Qed.

(* the only panic of the walk is the extractor's *)
Lemma walk_node_panic c p nd st st' pc : walk_node c p nd st = WPanic st' pc -> ~ no_xpanic c.
Proof.
  intros H. pose proof (walk_node_exec c nd p st) as A. rewrite H in A.
  destruct (exec c (schedule c (s_stack st) p nd) st) as [st1|st1 a|st1 pc1] eqn:E; cbn [agrees] in A.
  - discriminate.
  - destruct A as [ms A]. discriminate.
  - eapply exec_panic. exact E.
Qed.

Lemma handle_file_no_slice c p nd b st st' pc : handle_file c p nd b st = WPanic st' pc -> ~ no_xpanic c.
Proof. intros H. apply handle_file_panic in H as [_ [e E]]. intros NP. exact (NP e p E). Qed.

Lemma walk_dir_unsorted_panic c t p st st' pc : walk_dir_unsorted c t p st = WPanic st' pc -> ~ no_xpanic c.
Proof.
  unfold walk_dir_unsorted. destruct (lookup t p) as [nd|]; [|apply handle_file_no_slice].
  destruct (node_stat_fails nd); [apply handle_file_no_slice|apply walk_node_panic].
Qed.

Lemma walk_individual_paths_panic c t : forall ps st st' pc,
  walk_individual_paths c t ps st = WPanic st' pc -> ~ no_xpanic c.
Proof.
  induction ps as [|p ps IH]; intros st st' pc; cbn [walk_individual_paths]; [discriminate|].
  destruct (match lookup t p with Some nd => node_stat_fails nd | None => true end).
  - destruct (handle_file c p dummy_node true st) as [st1 [| |a]|st1 pc1] eqn:E; try apply IH; [discriminate|].
    intros H; inversion H; subst. eapply handle_file_no_slice. exact E.
  - destruct (lookup t p) as [[n k s d ff|n ch df]|]; [| |discriminate].
    + destruct (handle_file c p (File n k s d ff) false st) as [st1 [| |a]|st1 pc1] eqn:E; try apply IH; [discriminate|].
      intros H; inversion H; subst. eapply handle_file_no_slice. exact E.
    + destruct (if c_gitignore c then match parse_parent_gitignores t p with Some ms => Some (set_stack st ms) | None => if c_fatal c then None else Some (set_stack st []) end else Some st)
        as [st0|]; [|discriminate].
      destruct (walk_dir_unsorted c t p st0) as [st1 [| |a]|st1 pc1] eqn:E; try apply IH; [discriminate|].
      intros H; inversion H; subst. eapply walk_dir_unsorted_panic. exact E.
Qed.

Lemma run_fs_panic c t st st' pc : run_fs c t st = WPanic st' pc -> ~ no_xpanic c.
Proof. unfold run_fs. destruct (c_paths c); [apply walk_dir_unsorted_panic|apply walk_individual_paths_panic]. Qed.

Lemma run_roots_panic c : forall roots st inv sts st' pc,
  run_roots c roots st inv sts = RPanic st' pc -> ~ no_xpanic c.
Proof.
  induction roots as [|t roots IH]; intros st inv sts st' pc; cbn [run_roots]; [discriminate|].
  destruct (run_fs c t st) as [st1 [| |a]|st1 pc1] eqn:E; try apply IH; [discriminate|].
  intros H; inversion H; subst. eapply run_fs_panic. exact E.
Qed.

(* With extractors that do not panic, the engine never panics: whatever the trees, faults, limits, cancellation
   point, requested paths, number of roots, and with or without UseGitignore. *)
Theorem run_never_panics c roots : no_xpanic c -> forall st pc, run c roots <> RPanic st pc.
Proof.
  intros NP st pc H. unfold run in H. destruct (c_exts c); [discriminate|].
  apply run_roots_panic in H. exact (H NP).
Qed.

(* the engine calls Extract without recover: a panicking extractor takes the scan down *)
Theorem engine_propagates_panic_lemma c p n k sz d ff e st :
  c_extract c e p = XPanic -> c_exts c = [e] -> req c e p sz ff = true -> kind_accepted c k = true ->
  c_gitignore c = false -> no_limits c = true -> ff_clean ff = true -> (c_max_size c <= 0)%Z ->
  exists st', handle_file c p (File n k sz d ff) false st = WPanic st' PcExtract.
Proof.
  intros X E R K G NL FC MS. unfold no_limits in NL. apply andb_true_iff in NL as [NI NC].
  unfold handle_file, hf_prelude.
  assert (L : ((0 <? c_max_inodes c)%Z && (c_max_inodes c <? s_inodes (inc_inodes st))%Z) = false).
  { apply Z.leb_le in NI. destruct (0 <? c_max_inodes c)%Z eqn:E0; [apply Z.ltb_lt in E0; lia|reflexivity]. }
  rewrite L.
  assert (CC : cancelled c (visit (inc_inodes st) p) = false).
  { unfold cancelled. destruct (c_cancel c); [reflexivity|discriminate|discriminate]. }
  rewrite CC. unfold hf_file. fold (kind_accepted c k). rewrite K, G, E. cbn [negb andb run_exts]. rewrite R.
  assert (M : (0 <? c_max_size c)%Z = false) by (destruct (0 <? c_max_size c)%Z eqn:E0; [apply Z.ltb_lt in E0; lia|reflexivity]).
  rewrite M. cbn [andb]. unfold run_extractor. unfold ff_clean in FC.
  apply andb_true_iff in FC as [FC _]. apply andb_true_iff in FC as [FO FS]. apply negb_true_iff in FO, FS.
  rewrite FO, FS, X. eexists. reflexivity.
Qed.

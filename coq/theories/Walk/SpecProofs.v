(* Proofs, part 3 (C01): on fault-free trees the calls of the schedule are the declaratively specified ones. *)
From Coq Require Import List ZArith NArith Bool Arith Lia Permutation.
From Scalibr Require Import Walk.Model Walk.Spec Walk.Sched Walk.Proofs Walk.Trace.
Import ListNotations.

(* ------------------------------------------------------------------ list helpers *)
Lemma flat_map_flat_map {A B C} (f : B -> list C) (g : A -> list B) l :
  flat_map f (flat_map g l) = flat_map (fun x => flat_map f (g x)) l.
Proof. induction l as [|x l IH]; cbn; [reflexivity|]. rewrite flat_map_app, IH. reflexivity. Qed.

Lemma flat_map_ext_in {A B} (f g : A -> list B) l :
  (forall x, In x l -> f x = g x) -> flat_map f l = flat_map g l.
Proof.
  induction l as [|x l IH]; intros H; cbn; [reflexivity|].
  rewrite H by (left; reflexivity). rewrite IH; [reflexivity|]. intros y Hy. apply H. right. exact Hy.
Qed.

Lemma flat_map_nil_in {A B} (f : A -> list B) l : (forall x, In x l -> f x = []) -> flat_map f l = [].
Proof.
  induction l as [|x l IH]; intros H; cbn; [reflexivity|].
  rewrite H by (left; reflexivity). apply IH. intros y Hy. apply H. right. exact Hy.
Qed.

Lemma filter_conj {A} (a b : bool) (f : A -> bool) l :
  filter (fun e => a && f e && b) l = if a && b then filter f l else [].
Proof.
  destruct a, b; cbn [andb].
  - apply filter_ext. intros x. rewrite andb_true_r. reflexivity.
  - induction l as [|x l IH]; cbn; [reflexivity|]. rewrite andb_false_r. exact IH.
  - induction l as [|x l IH]; cbn; [reflexivity|]. exact IH.
  - induction l as [|x l IH]; cbn; [reflexivity|]. exact IH.
Qed.

Lemma calls_flat_map {A} (f : A -> list event) l : calls (flat_map f l) = flat_map (fun x => calls (f x)) l.
Proof. induction l as [|x l IH]; cbn [flat_map]; [reflexivity|]. rewrite calls_app, IH. reflexivity. Qed.

(* ------------------------------------------------------------------ unfolding the nested fixpoints of Spec *)
Lemma files_of_dir q n ch df :
  files_of q (Dir n ch df) = flat_map (fun c1 => files_of (q ++ [node_name c1]) c1) ch.
Proof. reflexivity. Qed.

Lemma wf_tree_dir n ch df : wf_tree (Dir n ch df) = names_ok (map node_name ch) && forallb wf_tree ch.
Proof. reflexivity. Qed.

Lemma fault_free_dir n ch df : fault_free (Dir n ch df) = df_clean df && forallb fault_free ch.
Proof. reflexivity. Qed.

Lemma sched_children_none c ms' p nd l :
  sched_children c ms' p nd l None = flat_map (fun c1 => schedule c ms' (child_path p (node_name c1)) c1) l.
Proof. induction l as [|c1 l IH]; cbn [sched_children flat_map option_map]; [reflexivity|]. rewrite IH. reflexivity. Qed.

(* ------------------------------------------------------------------ names *)
Lemma names_ok_cons n l : names_ok (n :: l) = true ->
  n <> DOT /\ ~ In n l /\ names_ok l = true.
Proof.
  cbn [names_ok]. intros H. apply andb_true_iff in H as [H H3]. apply andb_true_iff in H as [H1 H2].
  apply negb_true_iff in H1, H2. split; [apply N.eqb_neq; exact H1|]. split; [|exact H3].
  intros Hin. assert (existsb (N.eqb n) l = true) by (apply existsb_exists; exists n; split; [exact Hin|apply N.eqb_refl]).
  congruence.
Qed.

Lemma find_child_unique ch : names_ok (map node_name ch) = true ->
  forall c1, In c1 ch -> find_child (node_name c1) ch = Some c1.
Proof.
  induction ch as [|x ch IH]; intros H c1 Hin; [destruct Hin|].
  cbn [map] in H. apply names_ok_cons in H as (H1 & H2 & H3).
  unfold find_child. cbn [find]. destruct Hin as [->|Hin].
  - rewrite N.eqb_refl. reflexivity.
  - destruct (N.eqb (node_name x) (node_name c1)) eqn:E.
    + apply N.eqb_eq in E. exfalso. apply H2. rewrite E. apply in_map. exact Hin.
    + apply IH; assumption.
Qed.

Lemma names_ok_not_dot l : names_ok l = true -> forall n, In n l -> n <> DOT.
Proof.
  induction l as [|x l IH]; intros H n Hin; [destruct Hin|].
  apply names_ok_cons in H as (H1 & H2 & H3). destruct Hin as [<-|Hin]; [exact H1|apply IH; assumption].
Qed.

(* ------------------------------------------------------------------ paths *)
Lemma mpath_nonempty q : q <> [] -> mpath q = q.
Proof. destruct q; [contradiction|reflexivity]. Qed.

Lemma child_path_mpath q n : ~ In DOT q -> child_path (mpath q) n = mpath (q ++ [n]).
Proof.
  intros ND. unfold child_path. destruct q as [|x q].
  - cbn. reflexivity.
  - cbn [mpath app]. destruct (ln_eqb (x :: q) [DOT]) eqn:E; [|reflexivity].
    apply ln_eqb_eq in E. inversion E; subst. exfalso. apply ND. left. reflexivity.
Qed.

Lemma proper_prefixes_snoc q n : proper_prefixes (q ++ [n]) = proper_prefixes q ++ [q].
Proof.
  induction q as [|x q IH]; cbn [proper_prefixes app map]; [reflexivity|].
  rewrite IH, map_app. reflexivity.
Qed.

Lemma proper_prefixes_length q : forall a, In a (proper_prefixes q) -> (length a < length q)%nat.
Proof.
  induction q as [|x q IH]; intros a H; [destruct H|].
  cbn [proper_prefixes] in H. destruct H as [<-|H]; [cbn; lia|].
  apply in_map_iff in H as (b & <- & Hb). cbn. apply IH in Hb. lia.
Qed.

Lemma proper_prefixes_app q s : s <> [] -> In q (proper_prefixes (q ++ s)).
Proof.
  induction q as [|x q IH]; intros Hs; cbn [app].
  - destruct s; [contradiction|]. left. reflexivity.
  - cbn [proper_prefixes]. right. apply in_map. apply IH. exact Hs.
Qed.

Lemma proper_prefixes_app_l q s : incl (proper_prefixes q) (proper_prefixes (q ++ s)).
Proof.
  induction q as [|x q IH]; intros a H; [destruct H|].
  cbn [proper_prefixes app] in *. destruct H as [<-|H]; [left; reflexivity|].
  right. apply in_map_iff in H as (b & <- & Hb). apply in_map. apply IH. exact Hb.
Qed.

Lemma filter_len_map_cons (x : N) (q : path) l :
  filter (fun a => (length (x :: q) <=? length a)%nat) (map (cons x) l) =
  map (cons x) (filter (fun a => (length q <=? length a)%nat) l).
Proof.
  induction l as [|a l IHl]; [reflexivity|]. cbn [map filter].
  change (length (x :: q) <=? length (x :: a))%nat with (length q <=? length a)%nat.
  destruct (length q <=? length a)%nat; cbn [map]; rewrite IHl; reflexivity.
Qed.

Lemma filter_all {A} (f : A -> bool) l : (forall x, In x l -> f x = true) -> filter f l = l.
Proof.
  induction l as [|x l IH]; intros H; cbn; [reflexivity|].
  rewrite H by (left; reflexivity). f_equal. apply IH. intros y Hy. apply H. right. exact Hy.
Qed.

Lemma prefixes_between_cons x q q' :
  prefixes_between (x :: q) (x :: q') = map (cons x) (prefixes_between q q').
Proof.
  unfold prefixes_between. cbn [proper_prefixes].
  change (filter ?f (?y :: ?l)) with (if f y then y :: filter f l else filter f l).
  replace (length (x :: q) <=? length (@nil N))%nat with false by reflexivity.
  apply filter_len_map_cons.
Qed.

Lemma prefixes_between_nil q' : prefixes_between [] q' = proper_prefixes q'.
Proof. unfold prefixes_between. apply filter_all. reflexivity. Qed.

(* the proper prefixes of q ++ [n] ++ s at or below q are q itself and those at or below q ++ [n] *)
Lemma prefixes_between_step q n s :
  prefixes_between q (q ++ [n] ++ s) = q :: prefixes_between (q ++ [n]) (q ++ [n] ++ s).
Proof.
  induction q as [|x q IH].
  - cbn [app]. rewrite prefixes_between_nil, prefixes_between_cons, prefixes_between_nil. reflexivity.
  - cbn [app] in *. rewrite !prefixes_between_cons, IH. reflexivity.
Qed.

(* ------------------------------------------------------------------ calls of a file call *)
Lemma size_ok_alt c size : size_ok c size = negb ((0 <? c_max_size c)%Z && (c_max_size c <? size)%Z).
Proof. unfold size_ok. rewrite negb_andb, !Z.leb_antisym. reflexivity. Qed.

Lemma req_no_stat_fault c e p size ff : ff_stat ff = false -> req c e p size ff = req c e p size no_ff.
Proof. intros H. unfold req. rewrite H. reflexivity. Qed.

Lemma ext_events_calls c p size ff : ff_open ff = false -> ff_fstat ff = false -> ff_stat ff = false -> forall es checked,
  calls (ext_events c p size ff es checked) =
  if checked || size_ok c size then map (fun e => (e, p)) (filter (fun e => req c e p size ff) es) else [].
Proof.
  intros FO FS FT. rewrite size_ok_alt.
  induction es as [|e es IH]; intros checked; cbn [ext_events calls filter map]; rewrite ?FT; cbn [orb].
  - destruct (checked || _); reflexivity.
  - destruct (req c e p size ff).
    + rewrite FO, FS.
      destruct (0 <? c_max_size c)%Z, checked, (c_max_size c <? size)%Z; cbn [andb negb orb app calls map];
        try reflexivity; rewrite IH; cbn [andb negb orb]; reflexivity.
    + apply IH.
Qed.

Lemma file_call_calls c ms p n k size d ff : ff_clean ff = true ->
  calls (call_events c (HC ms p (File n k size d ff) false)) =
  if kind_accepted c k && negb (c_gitignore c && gi_match_stack c ms p false) && size_ok c size
  then map (fun e => (e, p)) (filter (fun e => req c e p size no_ff) (c_exts c)) else [].
Proof.
  intros FC. unfold ff_clean in FC. apply andb_true_iff in FC as [FC FT]. apply andb_true_iff in FC as [FO FS].
  apply negb_true_iff in FO, FS, FT.
  cbn [call_events calls].
  destruct (kind_accepted c k && negb (c_gitignore c && gi_match_stack c ms p false)); cbn [andb]; [|reflexivity].
  rewrite ext_events_calls by assumption. destruct (size_ok c size); [|reflexivity]. cbn [orb]. f_equal.
  apply filter_ext. intros e. apply req_no_stat_fault. exact FT.
Qed.

Lemma dir_call_calls c ms p n ch df b : calls (call_events c (HC ms p (Dir n ch df) b)) = [].
Proof. cbn [call_events calls]. destruct b; reflexivity. Qed.

(* ------------------------------------------------------------------ the stack represents the ancestors' .gitignore files *)
Definition gi_anc (c : cfg) (t : node) (anc : list path) (q' : path) (isdir : bool) : bool :=
  existsb (fun a => match gi_of t a with
                    | Some pf => c_pat c pf (skipn (length a) q') isdir
                    | None => false
                    end) anc.

Definition stack_rep (c : cfg) (t : node) (ms : stack) (q : path) : Prop :=
  c_gitignore c = true -> forall s isdir,
  gi_match_stack c ms (mpath (q ++ s)) isdir = gi_anc c t (proper_prefixes q) (q ++ s) isdir.

Lemma should_skip_eq c t ms q :
  stack_rep c t ms q ->
  should_skip_dir c ms (mpath q) = skipped_dir c t q.
Proof.
  intros SR. unfold should_skip_dir, skipped_dir, gitignored.
  fold (gi_anc c t (proper_prefixes q) q true).
  assert (G : c_gitignore c && gi_match_stack c ms (mpath q) true = c_gitignore c && gi_anc c t (proper_prefixes q) q true).
  { destruct (c_gitignore c) eqn:E; [|reflexivity]. cbn [andb].
    specialize (SR E [] true). rewrite app_nil_r in SR. exact SR. }
  rewrite G.
  destruct (mem_path (mpath q) (c_skip_list c)); [reflexivity|].
  destruct (c_ignore_subdirs c && negb (mem_path (mpath q) (c_paths c))); [reflexivity|].
  destruct (c_gitignore c && gi_anc c t (proper_prefixes q) q true); [reflexivity|].
  cbn [orb]. unfold opt_match. destruct (c_re c) as [re|]; [destruct (re (mpath q)); reflexivity|reflexivity].
Qed.

Lemma is_prefix_app a b : is_prefix a (a ++ b) = true.
Proof. induction a; cbn; [reflexivity|]. rewrite N.eqb_refl. exact IHa. Qed.

Lemma skipn_app_exact {A} (a b : list A) : skipn (length a) (a ++ b) = b.
Proof. induction a; cbn; [reflexivity|exact IHa]. Qed.

(* entering directory q (children ch) with matcher m parsed from it keeps the representation for each child *)
Lemma gi_domain_mpath q : ~ In DOT q -> gi_domain (mpath q) = q.
Proof.
  intros ND. unfold gi_domain. destruct q as [|x q]; [reflexivity|]. cbn [mpath].
  destruct (ln_eqb (x :: q) [DOT]) eqn:E; [|reflexivity]. apply ln_eqb_eq in E. inversion E; subst. exfalso. apply ND. left. reflexivity.
Qed.

Lemma stack_rep_child c t ms q n0 ch df m (n : N) :
  lookup_from t q = Some (Dir n0 ch df) ->
  ~ In DOT q -> n <> DOT ->
  fault_free (Dir n0 ch df) = true ->
  parse_dir_gi (mpath q) ch = GiOk m ->
  stack_rep c t ms q -> stack_rep c t (m :: ms) (q ++ [n]).
Proof.
  intros HL ND Hn FF PG SR G s isdir.
  rewrite proper_prefixes_snoc. unfold gi_anc. rewrite existsb_app. fold (gi_anc c t (proper_prefixes q) ((q ++ [n]) ++ s) isdir).
  cbn [existsb]. rewrite orb_false_r.
  unfold gi_match_stack. cbn [existsb]. fold (gi_match_stack c ms (mpath ((q ++ [n]) ++ s)) isdir).
  rewrite <- app_assoc. rewrite (SR G ([n] ++ s) isdir). rewrite orb_comm. f_equal.
  assert (NE : q ++ [n] ++ s <> []) by (destruct q; discriminate).
  rewrite (mpath_nonempty _ NE).
  unfold gi_of. rewrite HL. unfold parse_dir_gi in PG. rewrite (gi_domain_mpath q ND) in PG.
  rewrite fault_free_dir in FF. apply andb_true_iff in FF as [_ FF].
  destruct (find_child GI ch) as [[gn gk gs gd gff|gn gl gdf]|] eqn:FC.
  - (* .gitignore is a file *)
    assert (Hin : In (File gn gk gs gd gff) ch) by (unfold find_child in FC; apply find_some in FC; tauto).
    rewrite forallb_forall in FF. specialize (FF _ Hin). cbn [fault_free] in FF. unfold ff_clean in FF.
    apply andb_true_iff in FF as [FF _]. apply andb_true_iff in FF as [FO _]. apply negb_true_iff in FO.
    rewrite FO in PG. inversion PG; subst m. unfold gi_match.
    assert (L : (length q <? length (q ++ [n] ++ s))%nat = true).
    { apply Nat.ltb_lt. rewrite app_length. cbn [length app]. lia. }
    rewrite L, is_prefix_app, skipn_app_exact. reflexivity.
  - destruct (df_open gdf); [discriminate|]. inversion PG; reflexivity.
  - inversion PG; reflexivity.
Qed.

(* ------------------------------------------------------------------ tree facts *)
Lemma parse_dir_gi_ff p ch : forallb fault_free ch = true -> exists m, parse_dir_gi p ch = GiOk m.
Proof.
  intros FF. unfold parse_dir_gi.
  destruct (find_child GI ch) as [[gn gk gs gd gff|gn gl gdf]|] eqn:FC; [| |eexists; reflexivity].
  - assert (Hin : In (File gn gk gs gd gff) ch) by (unfold find_child in FC; apply find_some in FC; tauto).
    rewrite forallb_forall in FF. specialize (FF _ Hin). cbn [fault_free] in FF. unfold ff_clean in FF.
    apply andb_true_iff in FF as [FF _]. apply andb_true_iff in FF as [FO _]. apply negb_true_iff in FO.
    rewrite FO. eexists; reflexivity.
  - assert (Hin : In (Dir gn gl gdf) ch) by (unfold find_child in FC; apply find_some in FC; tauto).
    rewrite forallb_forall in FF. specialize (FF _ Hin). rewrite fault_free_dir in FF.
    apply andb_true_iff in FF as [FF _]. unfold df_clean in FF.
    apply andb_true_iff in FF as [FF _]. apply andb_true_iff in FF as [FO _]. apply negb_true_iff in FO.
    rewrite FO. eexists; reflexivity.
Qed.

Lemma lookup_from_snoc : forall q t n ch df nm c1,
  lookup_from t q = Some (Dir n ch df) -> find_child nm ch = Some c1 -> lookup_from t (q ++ [nm]) = Some c1.
Proof.
  induction q as [|x q IH]; intros t n ch df nm c1 HL FC.
  - cbn [lookup_from] in HL. inversion HL; subst t. cbn [app lookup_from]. rewrite FC. reflexivity.
  - cbn [app lookup_from] in *. destruct t as [|tn tch tdf]; [discriminate|].
    destruct (find_child x tch) as [c0|]; [|discriminate]. eapply IH; eassumption.
Qed.

Lemma files_of_paths : forall nd q f, In f (files_of q nd) ->
  exists s, fst (fst f) = q ++ s /\ (is_dir nd = true -> s <> []).
Proof.
  induction nd as [n k sz d ff|n ch df IH] using node_ind2; intros q f Hf.
  - cbn [files_of] in Hf. destruct Hf as [<-|[]]. exists []. cbn. rewrite app_nil_r. split; [reflexivity|discriminate].
  - rewrite files_of_dir in Hf. apply in_flat_map in Hf as (c1 & Hc & Hf).
    rewrite Forall_forall in IH. destruct (IH c1 Hc _ _ Hf) as (s & E & _).
    exists ([node_name c1] ++ s). rewrite E, <- app_assoc. split; [reflexivity|]. intros _. discriminate.
Qed.

Lemma in_prefixes_between_self q s : s <> [] -> In q (prefixes_between q (q ++ s)).
Proof.
  destruct s as [|n s]; [contradiction|]. intros _.
  change (q ++ n :: s) with (q ++ [n] ++ s). rewrite prefixes_between_step. left. reflexivity.
Qed.

Lemma reached_from_step c t q (n : N) s :
  reached_from c t q (q ++ [n] ++ s) = negb (skipped_dir c t q) && reached_from c t (q ++ [n]) (q ++ [n] ++ s).
Proof. unfold reached_from. rewrite prefixes_between_step. reflexivity. Qed.

(* ------------------------------------------------------------------ schedule calls = specification *)
Definition sched_calls (c : cfg) (ms : stack) (p : path) (nd : node) : list (ext * path) :=
  calls (flat_map (call_events c) (schedule c ms p nd)).

Lemma expected_from_skipped c t q n ch df :
  skipped_dir c t q = true -> expected_from c t q (Dir n ch df) = [].
Proof.
  intros SK. unfold expected_from. apply flat_map_nil_in. intros f Hf.
  destruct (files_of_paths _ _ _ Hf) as (s & E & NE). specialize (NE eq_refl).
  destruct f as [[q' k] sz]. cbn [fst] in *. subst q'.
  assert (R : reached_from c t q (q ++ s) = false).
  { unfold reached_from. apply not_true_is_false. intros H. rewrite forallb_forall in H.
    specialize (H q (in_prefixes_between_self q s NE)). rewrite SK in H. discriminate. }
  assert (F : filter (fun e => wanted_from c t q e (q ++ s, k, sz)) (c_exts c) = []).
  { induction (c_exts c) as [|e l IHl]; [reflexivity|]. cbn [filter]. unfold wanted_from at 1. rewrite R. exact IHl. }
  rewrite F. reflexivity.
Qed.

Lemma expected_from_child c t q (nm : N) c1 :
  skipped_dir c t q = false ->
  flat_map (fun f => map (fun e => (e, mpath (fst (fst f)))) (filter (fun e => wanted_from c t q e f) (c_exts c)))
           (files_of (q ++ [nm]) c1) = expected_from c t (q ++ [nm]) c1.
Proof.
  intros SK. unfold expected_from. apply flat_map_ext_in. intros f Hf.
  destruct (files_of_paths _ _ _ Hf) as (s & E & _).
  destruct f as [[q' k] sz]. cbn [fst] in *. subst q'. f_equal. apply filter_ext. intros e.
  unfold wanted_from. rewrite <- app_assoc, reached_from_step, SK. reflexivity.
Qed.

Theorem sched_calls_spec c t :
  forall nd q ms,
  lookup_from t q = Some nd -> ~ In DOT q -> wf_tree nd = true -> fault_free nd = true ->
  stack_rep c t ms q ->
  sched_calls c ms (mpath q) nd = expected_from c t q nd.
Proof.
  induction nd as [n k sz d ff|n ch df IH] using node_ind2; intros q ms HL ND WF FF SR.
  - (* file *)
    unfold sched_calls. cbn [schedule flat_map]. rewrite app_nil_r.
    cbn [fault_free] in FF. rewrite file_call_calls by exact FF.
    unfold expected_from. cbn [files_of flat_map fst]. rewrite app_nil_r.
    assert (R : reached_from c t q q = true).
    { unfold reached_from, prefixes_between. rewrite forallb_forall. intros a Ha.
      apply filter_In in Ha as [Ha Hl]. apply proper_prefixes_length in Ha. apply Nat.leb_le in Hl. lia. }
    assert (G : c_gitignore c && gi_match_stack c ms (mpath q) false = gitignored c t q false).
    { unfold gitignored. fold (gi_anc c t (proper_prefixes q) q false).
      destruct (c_gitignore c) eqn:E; [|reflexivity]. cbn [andb].
      specialize (SR E [] false). rewrite app_nil_r in SR. exact SR. }
    rewrite G.
    assert (F : filter (fun e => wanted_from c t q e (q, k, sz)) (c_exts c) =
                filter (fun e => (kind_accepted c k && negb (gitignored c t q false)) && req c e (mpath q) sz no_ff && size_ok c sz) (c_exts c)).
    { apply filter_ext. intros e. unfold wanted_from. rewrite R. reflexivity. }
    rewrite F, filter_conj.
    destruct (kind_accepted c k && negb (gitignored c t q false) && size_ok c sz); reflexivity.
  - (* directory *)
    unfold sched_calls. rewrite schedule_dir. cbn [flat_map]. rewrite calls_app, dir_call_calls. cbn [app].
    unfold dir_decision. rewrite (should_skip_eq c t ms q SR).
    destruct (skipped_dir c t q) eqn:SK.
    + rewrite expected_from_skipped by exact SK. reflexivity.
    + rewrite wf_tree_dir in WF. apply andb_true_iff in WF as [WN WC].
      assert (FF0 := FF). rewrite fault_free_dir in FF. apply andb_true_iff in FF as [FD FC].
      unfold df_clean in FD. apply andb_true_iff in FD as [FD _]. apply andb_true_iff in FD as [FO FR].
      apply negb_true_iff in FO. destruct (df_read_at df) eqn:RA; [discriminate|].
      assert (Hms : exists ms', (if c_gitignore c then match parse_dir_gi (mpath q) ch with GiErr => if c_fatal c then DGiErr else DEnter (None :: ms) | GiOk m => DEnter (m :: ms) end else DEnter ms) = DEnter ms'
                                /\ forall nm : N, nm <> DOT -> stack_rep c t ms' (q ++ [nm])).
      { destruct (c_gitignore c) eqn:G.
        - destruct (parse_dir_gi_ff (mpath q) ch FC) as [m PG]. rewrite PG. exists (m :: ms). split; [reflexivity|].
          intros nm Hnm. eapply stack_rep_child; try eassumption.
        - exists ms. split; [reflexivity|]. intros nm _ G'. congruence. }
      destruct Hms as (ms' & -> & SR').
      rewrite FO, sched_children_none, flat_map_flat_map, calls_flat_map.
      unfold expected_from. rewrite files_of_dir, flat_map_flat_map.
      apply flat_map_ext_in. intros c1 Hin.
      assert (Hnm : node_name c1 <> DOT).
      { apply (names_ok_not_dot _ WN). apply in_map. exact Hin. }
      rewrite child_path_mpath by exact ND.
      rewrite expected_from_child by exact SK.
      rewrite Forall_forall in IH. rewrite forallb_forall in WC, FC.
      apply (IH c1 Hin (q ++ [node_name c1]) ms').
      * eapply lookup_from_snoc; [exact HL|]. apply find_child_unique; assumption.
      * intros H. apply in_app_or in H as [H|[H|[]]]; [exact (ND H)|]. contradiction.
      * apply WC. exact Hin.
      * apply FC. exact Hin.
      * apply SR'. exact Hnm.
Qed.

(* C08: the "same content, different enumeration order" relation on trees and the equivalence on plugin
   statuses under which results are order independent.  Definitions only. *)
From Coq Require Import List ZArith NArith Bool Permutation.
From Scalibr Require Import Walk.Model.
Import ListNotations.

(* t' lists the same entries as t, every directory (at every depth) possibly in another order *)
Inductive tperm : node -> node -> Prop :=
| tp_file n k s d ff : tperm (File n k s d ff) (File n k s d ff)
| tp_dir n df ch ch1 ch' : tperm_list ch ch1 -> Permutation ch1 ch' -> tperm (Dir n ch df) (Dir n ch' df)
with tperm_list : list node -> list node -> Prop :=
| tpl_nil : tperm_list [] []
| tpl_cons a b l l' : tperm a b -> tperm_list l l' -> tperm_list (a :: l) (b :: l').

Scheme tperm_min := Minimality for tperm Sort Prop
  with tperm_list_min := Minimality for tperm_list Sort Prop.
Combined Scheme tperm_mutind from tperm_min, tperm_list_min.

(* same status enum, same multiset of failure-reason items (the reason string concatenates them in visit order) *)
Definition status_perm (a b : status) : Prop :=
  match a, b with
  | StSucceeded, StSucceeded => True
  | StPartial x, StPartial y => Permutation x y
  | StFailed x, StFailed y => Permutation x y
  | _, _ => False
  end.

Definition statuses_equiv (a b : list (list N * status)) : Prop :=
  Forall2 (fun x y => fst x = fst y /\ status_perm (snd x) (snd y)) a b.

(* Run over several roots as it should be: the union of the single-root runs *)
Definition single_inv (c : cfg) (t : node) : list (list N * pkg) :=
  match run c [t] with ROk inv _ _ => inv | _ => [] end.

Definition run_inv (r : rres) : list (list N * pkg) :=
  match r with ROk inv _ _ => inv | RErr inv _ _ => inv | RPanic _ _ => [] end.
Definition run_statuses (r : rres) : list (list N * status) :=
  match r with ROk _ sts _ => sts | _ => [] end.

(* C20 - Detectors see all extracted packages and their findings are reported intact.
   Only statements here; proofs are in Detect/Proofs.v.  All theorems are for every detector list
   (any length, any finding lists, any error flags) and every inventory. *)
From Coq Require Import List NArith ZArith Bool Permutation.
From Scalibr Require Import Detect.Index Detect.Model Detect.Proofs.
Import ListNotations.
Open Scope N_scope.

(* ---------------------------------------------------------------- the index *)
(* the index contains exactly the packages that have a purl, queryable by type and name, in
   extraction order; packages without purl are absent *)
Theorem index_complete_exact : forall ps n t,
  get_specific (index_new ps) n t = filter (has_purl t n) ps.
Proof. exact index_complete_exact_lemma. Qed.
Print Assumptions index_complete_exact.

(* the two enumerating queries return exactly those packages as well (Go map order: up to permutation) *)
Theorem index_enumerations_exact : forall ps,
  Permutation (get_all (index_new ps)) (filter has_any_purl ps)
  /\ forall t, Permutation (get_all_of_type (index_new ps) t) (filter (has_type t) ps).
Proof. intros ps. split; [apply index_get_all_lemma | intros t; apply index_of_type_lemma]. Qed.
Print Assumptions index_enumerations_exact.

(* ---------------------------------------------------------------- the run *)
(* each enabled detector's Scan is called exactly once, in order, with the index it was given *)
Theorem each_detector_once : forall px dets,
  no_cancel dets = true ->
  rr_calls (detector_run px dets false) = map (fun d => (d_name d, px)) dets.
Proof.
  intros px dets H. rewrite (run_no_cancel px dets H). destruct (advisories_consistent _); reflexivity.
Qed.
Print Assumptions each_detector_once.

(* each detector gets a status entry reflecting whether it failed - also when validation fails *)
Theorem status_per_detector : forall px dets,
  no_cancel dets = true ->
  rr_status (detector_run px dets false) = map status_from_err dets.
Proof.
  intros px dets H. rewrite (run_no_cancel px dets H). destruct (advisories_consistent _); reflexivity.
Qed.
Print Assumptions status_per_detector.

(* validateAdvisories (the loop with the overwritten map) decides exactly the declarative condition *)
Theorem validation_decides_consistency : forall fs,
  validate_advisories fs = None <-> advisories_consistent fs = true.
Proof. exact validate_iff_consistent. Qed.
Print Assumptions validation_decides_consistency.

(* the run fails iff two findings share an advisory ID but differ in content, or a finding lacks an
   advisory or an advisory ID - and then no finding is reported *)
Theorem advisory_conflict_fails : forall px dets,
  no_cancel dets = true ->
  let r := detector_run px dets false in
  (rr_err r = Some ErrAdvisory <->
     (exists f, In f (all_findings dets) /\ (f_adv f = None \/ exists a, f_adv f = Some a /\ a_id a = None))
     \/ (exists f g a b, In f (all_findings dets) /\ In g (all_findings dets) /\
           f_adv f = Some a /\ f_adv g = Some b /\ a_id a = a_id b /\ a <> b))
  /\ (rr_err r <> None -> rr_findings r = [])
  /\ (rr_err r = None \/ rr_err r = Some ErrAdvisory).
Proof.
  intros px dets H r. subst r. rewrite (run_no_cancel px dets H). rewrite <- inconsistent_witness.
  destruct (advisories_consistent (all_findings dets)); cbn [rr_err rr_findings]; repeat split; auto;
    try discriminate; try congruence.
Qed.
Print Assumptions advisory_conflict_fails.

(* findings intact, at full strength (since the fix "detector.Run tags a copy of each finding"; before it
   this was refuted by two detectors returning the same *Finding): for ALL detector lists - including
   lists in which detectors share *Finding pointers - every finding a detector returns appears, once
   per occurrence and in order, tagged with that detector's name *)
Theorem findings_intact : forall px dets,
  no_cancel dets = true -> advisories_consistent (all_findings dets) = true ->
  rr_findings (detector_run px dets false) = expected_findings dets
  /\ rr_err (detector_run px dets false) = None.
Proof.
  intros px dets H C. rewrite (run_no_cancel px dets H), C. cbn [rr_findings rr_err]. split; reflexivity.
Qed.
Print Assumptions findings_intact.

(* the reported entries carry exactly the content the detectors returned *)
Theorem findings_content_intact : forall px dets,
  no_cancel dets = true -> advisories_consistent (all_findings dets) = true ->
  map t_finding (rr_findings (detector_run px dets false)) = all_findings dets.
Proof.
  intros px dets H C. rewrite (run_no_cancel px dets H), C. cbn [rr_findings]. apply expected_content.
Qed.
Print Assumptions findings_content_intact.

(* Run does not mutate the detectors' own Finding values: it writes through none of the returned
   pointers, whatever the detectors return and whether or not the context is cancelled; so every
   such value keeps the Detectors field the detector gave it *)
Theorem detector_findings_not_mutated : forall px dets ctx_cancelled,
  rr_writes (detector_run px dets ctx_cancelled) = []
  /\ forall p, tag_lookup p (rr_writes (detector_run px dets ctx_cancelled)) = [].
Proof.
  intros px dets c. rewrite run_writes_nothing. split; [reflexivity | intros p; reflexivity].
Qed.
Print Assumptions detector_findings_not_mutated.

(* ---------------------------------------------------------------- the scan *)
(* tail of Scanner.Scan: the detectors are handed the index of exactly the merged inventory; statuses
   of extractors and detectors are all reported; the scan fails iff the advisories are inconsistent,
   and then reports no finding; otherwise every finding, tagged *)
Theorem scan_reports : forall fs_pkgs sa_pkgs ext dets,
  no_cancel dets = true ->
  let s := scan_tail fs_pkgs sa_pkgs ext dets in
  so_calls s = map (fun d => (d_name d, index_new (fs_pkgs ++ sa_pkgs))) dets
  /\ so_plugin_status s = ext ++ map status_from_err dets
  /\ so_failed s = negb (advisories_consistent (all_findings dets))
  /\ (so_failed s = true -> so_findings s = [])
  /\ (so_failed s = false -> so_findings s = expected_findings dets).
Proof.
  intros fs_pkgs sa_pkgs ext dets H s. subst s. unfold scan_tail.
  rewrite (run_no_cancel _ dets H).
  destruct (advisories_consistent (all_findings dets)); cbn [rr_calls rr_findings rr_status rr_err so_calls so_findings so_plugin_status so_failed negb];
    repeat split; auto; try discriminate.
Qed.
Print Assumptions scan_reports.

(* what cancellation does (outside the property's quantifier; kept for the correspondence): the
   loop stops before the next detector and Run reports neither findings nor statuses *)
Theorem cancelled_run_reports_nothing : forall px d ds,
  detector_run px (d :: ds) true = mkRun [] [] [] (Some ErrCtx) [].
Proof. reflexivity. Qed.
Print Assumptions cancelled_run_reports_nothing.

(* ---------------------------------------------------------------- non-vacuity *)
Definition ex_pkgs : list pkg :=
  [ mkPkg 1 (Some (0, 0)); mkPkg 2 None; mkPkg 3 (Some (0, 1)); mkPkg 4 (Some (0, 0)); mkPkg 5 (Some (1, 0)) ].
Example index_example :
  map pk_id (get_specific (index_new ex_pkgs) 0 0) = [1; 4]
  /\ map pk_id (get_all (index_new ex_pkgs)) = [1; 4; 3; 5]
  /\ map pk_id (get_all_of_type (index_new ex_pkgs) 0) = [1; 4; 3].
Proof. vm_compute. repeat split; reflexivity. Qed.

Definition advA : advisory := mkAdv (Some (0, 0)) 1 1 (Some (3, Some 7)).
Definition advA' : advisory := mkAdv (Some (0, 0)) 1 1 (Some (3, Some 8)).   (* same ID, other CVSS *)
Definition advB : advisory := mkAdv (Some (0, 1)) 1 2 None.
Definition ex_good : list detector :=
  [ mkDet 1 2 [(1, mkFinding (Some advA) 0 1); (2, mkFinding (Some advB) 1 0)] false false;
    mkDet 2 0 [] true false;
    mkDet 3 1 [(3, mkFinding (Some advA) 2 2)] false false ].
Definition ex_conflict : list detector :=
  [ mkDet 1 2 [(1, mkFinding (Some advA) 0 1)] false false; mkDet 3 1 [(3, mkFinding (Some advA') 2 2)] false false ].

Example good_run_example :
  no_cancel ex_good = true /\ advisories_consistent (all_findings ex_good) = true
  /\ map t_dets (rr_findings (detector_run [] ex_good false)) = [[1]; [1]; [3]]
  /\ map s_status (rr_status (detector_run [] ex_good false)) = [ST_SUCCEEDED; ST_FAILED; ST_SUCCEEDED].
Proof. vm_compute. repeat split; reflexivity. Qed.

Example conflict_example :
  no_cancel ex_conflict = true /\ advisories_consistent (all_findings ex_conflict) = false
  /\ detector_run [] ex_conflict false
     = mkRun [(1, []); (3, [])] [] [mkStatus 1 2 ST_SUCCEEDED; mkStatus 3 1 ST_SUCCEEDED] (Some ErrAdvisory) [].
Proof. vm_compute. repeat split; reflexivity. Qed.

(* the former refutation witness (KNOWN_FINDINGS.d/C20.json, status fixed): two detectors returning the
   SAME *Finding pointer now get one correctly tagged entry each *)
Definition alias_adv : advisory := mkAdv (Some (0, 0)) 1 1 (Some (3, None)).
Definition alias_finding : finding := mkFinding (Some alias_adv) 1 0.
Definition alias_dets : list detector :=
  [ mkDet 1 0 [(1, alias_finding)] false false; mkDet 2 0 [(1, alias_finding)] false false ].
Example alias_example :
  map t_dets (rr_findings (detector_run [] alias_dets false)) = [[1]; [2]]
  /\ rr_findings (detector_run [] alias_dets false) = expected_findings alias_dets.
Proof. vm_compute. repeat split; reflexivity. Qed.

(* C20 - evaluation of observed cases (harness/cmd/detect) against model and spec.  No proofs. *)
From Coq Require Import List NArith ZArith Bool.
From Scalibr Require Import Detect.Index Detect.Model.
Import ListNotations.
Open Scope N_scope.

(* the (type, name) universe the harness queries, type-major *)
Definition U_TYPES : list N := [0; 1; 2].
Definition U_NAMES : list N := [0; 1; 2].
Definition FS_EXT : N := 900.
Definition SA_EXT : N := 901.

Record call_obs := mkCall {
  co_det : N;
  co_specific : list (list N);     (* per (t,n) of the universe: ids in returned order *)
  co_of_type : list (list N);      (* per type: ids sorted *)
  co_all : list N                  (* ids sorted *)
}.
(* ro_heap: for every distinct pointer the detectors returned (sorted), the Detectors field of the detector's OWN
   Finding value after the run *)
Record run_obs := mkRunObs { ro_calls : list call_obs; ro_findings : list tagged; ro_status : list status; ro_err : option run_err;
                             ro_heap : list (N * list N) }.
Record scan_obs := mkScanObs { sc_calls : list call_obs; sc_findings : list tagged; sc_status : list status;
                               sc_failed : bool; sc_pkgs : list N }.
Record dcase := mkCase { c_fs : list pkg; c_sa : list pkg; c_dets : list detector; c_ctx0 : bool;
                         c_run : run_obs; c_scan : option scan_obs }.

Definition ids (ps : list pkg) : list N := map pk_id ps.
Fixpoint insN (a : N) (l : list N) : list N :=
  match l with [] => [a] | b :: l' => if N.leb a b then a :: l else b :: insN a l' end.
Definition sortN (l : list N) : list N := fold_right insN [] l.

Definition list_eqb {A} (eqb : A -> A -> bool) : list A -> list A -> bool :=
  fix go l1 l2 := match l1, l2 with
                  | [], [] => true
                  | a :: l1', b :: l2' => eqb a b && go l1' l2'
                  | _, _ => false
                  end.
Definition llN_eqb := list_eqb listN_eqb.
Definition opt_err_eqb (a b : option run_err) : bool :=
  match a, b with Some x, Some y => run_err_eqb x y | None, None => true | _, _ => false end.

(* what a detector can see of an index through the three query functions, projected like the harness does *)
Definition view_of (name : N) (ix : index) : call_obs :=
  mkCall name
    (flat_map (fun t => map (fun n => ids (get_specific ix n t)) U_NAMES) U_TYPES)
    (map (fun t => sortN (ids (get_all_of_type ix t))) U_TYPES)
    (sortN (ids (get_all ix))).
Definition call_eqb (a b : call_obs) : bool :=
  N.eqb (co_det a) (co_det b) && llN_eqb (co_specific a) (co_specific b) && llN_eqb (co_of_type a) (co_of_type b)
  && listN_eqb (co_all a) (co_all b).

Fixpoint dedupN (l : list N) : list N :=   (* l sorted *)
  match l with
  | a :: ((b :: _) as l') => if N.eqb a b then dedupN l' else a :: dedupN l'
  | _ => l
  end.
Definition all_ptrs (dets : list detector) : list N := dedupN (sortN (flat_map ptrs dets)).
Definition heap_eqb (a b : list (N * list N)) : bool :=
  list_eqb (fun x y => N.eqb (fst x) (fst y) && listN_eqb (snd x) (snd y)) a b.

Definition ext_status : list status := [mkStatus FS_EXT 1 ST_SUCCEEDED; mkStatus SA_EXT 1 ST_SUCCEEDED].

(* ---------------------------------------------------------------- model = observed ? *)
Definition run_model_ok (c : dcase) : bool :=
  let px := index_new (c_fs c ++ c_sa c) in
  let r := detector_run px (c_dets c) (c_ctx0 c) in
  let o := c_run c in
  list_eqb call_eqb (map (fun cl => view_of (fst cl) (snd cl)) (rr_calls r)) (ro_calls o)
  && list_eqb tagged_eqb (rr_findings r) (ro_findings o)
  && list_eqb status_eqb (rr_status r) (ro_status o)
  && opt_err_eqb (rr_err r) (ro_err o)
  && heap_eqb (map (fun p => (p, tag_lookup p (rr_writes r))) (all_ptrs (c_dets c))) (ro_heap o).

Definition scan_model_ok (c : dcase) : bool :=
  match c_scan c with
  | None => true
  | Some o =>
      let s := scan_tail (c_fs c) (c_sa c) ext_status (c_dets c) in
      list_eqb call_eqb (map (fun cl => view_of (fst cl) (snd cl)) (so_calls s)) (sc_calls o)
      && perm_eqb tagged_eqb (so_findings s) (sc_findings o)          (* Go sorts findings (unstable) *)
      && perm_eqb status_eqb (so_plugin_status s) (sc_status o)       (* Go sorts statuses by name (unstable) *)
      && Bool.eqb (so_failed s) (sc_failed o)
      && listN_eqb (sortN (ids (c_fs c ++ c_sa c))) (sc_pkgs o)
  end.

Definition case_model_ok (c : dcase) : bool := run_model_ok c && scan_model_ok c.

(* ---------------------------------------------------------------- spec on the observed output *)
(* the index a detector was handed contains exactly the extracted packages that have a purl,
   queryable by type and name, in extraction order *)
Definition view_spec (name : N) (pkgs : list pkg) (o : call_obs) : bool :=
  N.eqb (co_det o) name
  && llN_eqb (co_specific o) (flat_map (fun t => map (fun n => ids (filter (has_purl t n) pkgs)) U_NAMES) U_TYPES)
  && llN_eqb (co_of_type o) (map (fun t => sortN (ids (filter (has_type t) pkgs))) U_TYPES)
  && listN_eqb (co_all o) (sortN (ids (filter has_any_purl pkgs))).

Fixpoint calls_spec (dets : list detector) (pkgs : list pkg) (os : list call_obs) : bool :=
  match dets, os with
  | [], [] => true
  | d :: ds, o :: os' => view_spec (d_name d) pkgs o && calls_spec ds pkgs os'
  | _, _ => false
  end.

Definition outcome_spec (dets : list detector) (findings : list tagged) (sts : list status)
    (failed : bool) (ordered : bool) (extra_status : list status) : bool :=
  let cmp_f := if ordered then list_eqb tagged_eqb else perm_eqb tagged_eqb in
  let cmp_s := if ordered then list_eqb status_eqb else perm_eqb status_eqb in
  (* a status entry per detector reflecting whether it failed *)
  cmp_s (extra_status ++ expected_status dets) sts
  && (if advisories_consistent (all_findings dets)
      then negb failed && cmp_f (expected_findings dets) findings     (* every finding, tagged with its detector *)
      else failed && match findings with [] => true | _ => false end).

Definition case_spec_ok (c : dcase) : bool :=
  (* the property is claimed for scans whose context is not cancelled; cancelled runs are only
     compared with the model *)
  if c_ctx0 c || negb (no_cancel (c_dets c)) then true
  else
    let pkgs := c_fs c ++ c_sa c in
    let o := c_run c in
    calls_spec (c_dets c) pkgs (ro_calls o)
    && outcome_spec (c_dets c) (ro_findings o) (ro_status o)
         (match ro_err o with Some _ => true | None => false end) true []
    (* the detectors' own Finding values are not touched *)
    && forallb (fun e => match snd e with [] => true | _ => false end) (ro_heap o)
    && match c_scan c with
       | None => true
       | Some s =>
           calls_spec (c_dets c) pkgs (sc_calls s)
           && outcome_spec (c_dets c) (sc_findings s) (sc_status s) (sc_failed s) false ext_status
           && listN_eqb (sortN (ids pkgs)) (sc_pkgs s)
       end.

Definition claimed (c : dcase) : bool := negb (c_ctx0 c) && no_cancel (c_dets c).
(* cases in which a *Finding pointer is returned more than once (the formerly defective situation) *)
Definition has_alias (c : dcase) : bool :=
  negb (Nat.eqb (length (all_ptrs (c_dets c))) (length (flat_map ptrs (c_dets c)))).

Fixpoint bad_indices {A} (ok : A -> bool) (l : list A) (i : N) : list N :=
  match l with
  | [] => []
  | a :: l' => if ok a then bad_indices ok l' (i + 1) else i :: bad_indices ok l' (i + 1)
  end.

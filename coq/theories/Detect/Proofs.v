(* C20 - lemmas and proofs for Detect/Index.v and Detect/Model.v *)
From Coq Require Import List NArith ZArith Bool Permutation Lia.
From Scalibr Require Import Detect.Index Detect.Model.
Import ListNotations.
Open Scope N_scope.

(* ================================================================== package index *)
Lemma inner_get_add m n' p n :
  inner_get (inner_add m n' p) n = inner_get m n ++ (if N.eqb n' n then [p] else []).
Proof.
  induction m as [|[k ps] m IH]; cbn [inner_add inner_get].
  - destruct (N.eqb n' n); reflexivity.
  - destruct (N.eqb k n') eqn:E1; cbn [inner_get].
    + apply N.eqb_eq in E1. subst k. destruct (N.eqb n' n); [reflexivity | rewrite app_nil_r; reflexivity].
    + destruct (N.eqb k n) eqn:E2; [|exact IH].
      apply N.eqb_eq in E2. subst k. rewrite N.eqb_sym, E1, app_nil_r. reflexivity.
Qed.

Lemma get_specific_add ix t' n' p n t :
  get_specific (index_add ix t' n' p) n t = get_specific ix n t ++ (if N.eqb t' t && N.eqb n' n then [p] else []).
Proof.
  unfold get_specific. induction ix as [|[k m] ix IH]; cbn [index_add outer_get].
  - destruct (N.eqb t' t); cbn; [destruct (N.eqb n' n); reflexivity | reflexivity].
  - destruct (N.eqb k t') eqn:E1; cbn [outer_get].
    + apply N.eqb_eq in E1. subst k. destruct (N.eqb t' t); cbn [andb].
      * apply inner_get_add.
      * rewrite app_nil_r. reflexivity.
    + destruct (N.eqb k t) eqn:E2; [|exact IH].
      apply N.eqb_eq in E2. subst k. rewrite N.eqb_sym, E1. cbn. rewrite app_nil_r. reflexivity.
Qed.

Lemma get_specific_step ix p n t :
  get_specific (index_step ix p) n t = get_specific ix n t ++ (if has_purl t n p then [p] else []).
Proof.
  unfold index_step, has_purl. destruct (pk_purl p) as [[t' n']|].
  - apply get_specific_add.
  - rewrite app_nil_r. reflexivity.
Qed.

Lemma get_specific_fold ps : forall ix n t,
  get_specific (fold_left index_step ps ix) n t = get_specific ix n t ++ filter (has_purl t n) ps.
Proof.
  induction ps as [|p ps IH]; intros ix n t; cbn [fold_left filter].
  - rewrite app_nil_r. reflexivity.
  - rewrite IH, get_specific_step, <- app_assoc. destruct (has_purl t n p); reflexivity.
Qed.

Lemma index_complete_exact_lemma ps n t : get_specific (index_new ps) n t = filter (has_purl t n) ps.
Proof. unfold index_new. rewrite get_specific_fold. reflexivity. Qed.

(* --- the unordered views *)
Lemma inner_all_add m n p : Permutation (flat_map snd (inner_add m n p)) (flat_map snd m ++ [p]).
Proof.
  induction m as [|[k ps] m IH]; cbn [inner_add flat_map snd].
  - apply Permutation_refl.
  - destruct (N.eqb k n); cbn [flat_map snd].
    + rewrite <- !app_assoc. apply Permutation_app_head. apply Permutation_app_comm.
    + rewrite <- app_assoc. apply Permutation_app_head. exact IH.
Qed.

Lemma of_type_add ix t' n' p t :
  Permutation (get_all_of_type (index_add ix t' n' p) t) (get_all_of_type ix t ++ (if N.eqb t' t then [p] else [])).
Proof.
  unfold get_all_of_type. induction ix as [|[k m] ix IH]; cbn [index_add outer_get].
  - destruct (N.eqb t' t); cbn; apply Permutation_refl.
  - destruct (N.eqb k t') eqn:E1; cbn [outer_get].
    + apply N.eqb_eq in E1. subst k. destruct (N.eqb t' t).
      * apply inner_all_add.
      * rewrite app_nil_r. apply Permutation_refl.
    + destruct (N.eqb k t) eqn:E2; [|exact IH].
      apply N.eqb_eq in E2. subst k. rewrite N.eqb_sym, E1, app_nil_r. apply Permutation_refl.
Qed.

Lemma get_all_add ix t' n' p : Permutation (get_all (index_add ix t' n' p)) (get_all ix ++ [p]).
Proof.
  unfold get_all. induction ix as [|[k m] ix IH]; cbn [index_add flat_map snd].
  - apply Permutation_refl.
  - destruct (N.eqb k t'); cbn [flat_map snd].
    + rewrite <- app_assoc.
      eapply Permutation_trans; [apply Permutation_app_tail, inner_all_add|].
      rewrite <- !app_assoc. apply Permutation_app_head. apply Permutation_app_comm.
    + rewrite <- app_assoc. apply Permutation_app_head. exact IH.
Qed.

Lemma of_type_fold ps : forall ix t,
  Permutation (get_all_of_type (fold_left index_step ps ix) t) (get_all_of_type ix t ++ filter (has_type t) ps).
Proof.
  induction ps as [|p ps IH]; intros ix t; cbn [fold_left filter].
  - rewrite app_nil_r. apply Permutation_refl.
  - eapply Permutation_trans; [apply IH|].
    unfold index_step, has_type. destruct (pk_purl p) as [[t' n']|].
    + eapply Permutation_trans; [apply Permutation_app_tail, of_type_add|].
      rewrite <- app_assoc. destruct (N.eqb t' t); apply Permutation_refl.
    + apply Permutation_refl.
Qed.

Lemma get_all_fold ps : forall ix,
  Permutation (get_all (fold_left index_step ps ix)) (get_all ix ++ filter has_any_purl ps).
Proof.
  induction ps as [|p ps IH]; intros ix; cbn [fold_left filter].
  - rewrite app_nil_r. apply Permutation_refl.
  - eapply Permutation_trans; [apply IH|].
    unfold index_step, has_any_purl. destruct (pk_purl p) as [[t' n']|].
    + eapply Permutation_trans; [apply Permutation_app_tail, get_all_add|].
      rewrite <- app_assoc. apply Permutation_refl.
    + apply Permutation_refl.
Qed.

Lemma index_of_type_lemma ps t : Permutation (get_all_of_type (index_new ps) t) (filter (has_type t) ps).
Proof. unfold index_new. apply (of_type_fold ps [] t). Qed.
Lemma index_get_all_lemma ps : Permutation (get_all (index_new ps)) (filter has_any_purl ps).
Proof. unfold index_new. apply (get_all_fold ps []). Qed.

(* ================================================================== decidable equalities *)
Lemma pairN_eqb_eq a b : pairN_eqb a b = true <-> a = b.
Proof.
  destruct a as [a1 a2], b as [b1 b2]. unfold pairN_eqb. cbn [fst snd].
  rewrite andb_true_iff, !N.eqb_eq. split; [intros [-> ->]; reflexivity | intros H; injection H; auto].
Qed.
Lemma optN_eqb_eq a b : optN_eqb a b = true <-> a = b.
Proof.
  destruct a, b; cbn; try rewrite N.eqb_eq; split; intros H; try discriminate; try reflexivity; congruence.
Qed.
Lemma optid_eqb_eq a b : optid_eqb a b = true <-> a = b.
Proof.
  destruct a, b; cbn; try rewrite pairN_eqb_eq; split; intros H; try discriminate; try reflexivity; congruence.
Qed.
Lemma sev_eqb_eq a b : sev_eqb a b = true <-> a = b.
Proof.
  destruct a as [[s c]|], b as [[s' c']|]; cbn; try (split; intros H; try discriminate; reflexivity).
  rewrite andb_true_iff, N.eqb_eq, optN_eqb_eq. split; [intros [-> ->]; reflexivity | intros H; injection H; auto].
Qed.
Lemma advisory_eqb_eq a b : advisory_eqb a b = true <-> a = b.
Proof.
  destruct a as [i t ti s], b as [i' t' ti' s']. unfold advisory_eqb. cbn [a_id a_type a_title a_sev].
  rewrite !andb_true_iff, optid_eqb_eq, !N.eqb_eq, sev_eqb_eq. split.
  - intros [[[-> ->] ->] ->]. reflexivity.
  - intros H. injection H as -> -> -> ->. auto.
Qed.
Lemma advisory_eqb_refl a : advisory_eqb a a = true.
Proof. apply advisory_eqb_eq. reflexivity. Qed.

(* ================================================================== validateAdvisories *)
(* Prop reading of the spec *)
Definition complete (f : finding) : Prop := exists a k, f_adv f = Some a /\ a_id a = Some k.
Definition agreeP (f g : finding) : Prop :=
  forall a b, f_adv f = Some a -> f_adv g = Some b -> a_id a = a_id b -> a = b.

Lemma finding_complete_iff f : finding_complete f = true <-> complete f.
Proof.
  unfold finding_complete, complete. destruct (f_adv f) as [a|].
  - destruct (a_id a) as [k|] eqn:E.
    + split; [intros _; exists a, k; auto | reflexivity].
    + split; [discriminate | intros [a' [k [H1 H2]]]; injection H1 as <-; congruence].
  - split; [discriminate | intros [a' [k [H1 _]]]; discriminate].
Qed.

Lemma agree_iff f g : agree f g = true <-> agreeP f g.
Proof.
  unfold agree, agreeP. destruct (f_adv f) as [a|], (f_adv g) as [b|]; try (split; [intros _ ? ? ? ?; discriminate | reflexivity]).
  destruct (optid_eqb (a_id a) (a_id b)) eqn:E.
  - rewrite advisory_eqb_eq. split.
    + intros -> a' b' H1 H2 _. congruence.
    + intros H. apply H; try reflexivity. apply optid_eqb_eq, E.
  - split; [|reflexivity]. intros _ a' b' H1 H2 H3. injection H1 as <-. injection H2 as <-.
    apply optid_eqb_eq in H3. congruence.
Qed.

Lemma consistent_iff fs :
  advisories_consistent fs = true <->
  (forall f, In f fs -> complete f) /\ (forall f g, In f fs -> In g fs -> agreeP f g).
Proof.
  unfold advisories_consistent. rewrite andb_true_iff, !forallb_forall. split.
  - intros [H1 H2]. split.
    + intros f Hf. apply finding_complete_iff, H1, Hf.
    + intros f g Hf Hg. apply agree_iff. specialize (H2 f Hf). rewrite forallb_forall in H2. apply H2, Hg.
  - intros [H1 H2]. split.
    + intros f Hf. apply finding_complete_iff, H1, Hf.
    + intros f Hf. apply forallb_forall. intros g Hg. apply agree_iff, H2; assumption.
Qed.

(* invariant of the ids map: every entry is keyed by its own ID and entries with one key are equal *)
Definition ids_inv (ids : list ((N * N) * advisory)) : Prop :=
  (forall k a, In (k, a) ids -> a_id a = Some k) /\
  (forall k a a', In (k, a) ids -> In (k, a') ids -> a = a').

Lemma ids_get_In ids k a : ids_get ids k = Some a -> In (k, a) ids.
Proof.
  induction ids as [|[k' a'] ids IH]; cbn; [discriminate|].
  destruct (pairN_eqb k' k) eqn:E.
  - intros H. injection H as <-. apply pairN_eqb_eq in E. subst. left. reflexivity.
  - intros H. right. apply IH, H.
Qed.
Lemma ids_get_None ids k : ids_get ids k = None -> forall a, ~ In (k, a) ids.
Proof.
  induction ids as [|[k' a'] ids IH]; cbn; [intros _ a []|].
  destruct (pairN_eqb k' k) eqn:E; [discriminate|].
  intros H a [H1 | H1].
  - injection H1 as -> ->. assert (pairN_eqb k k = true) by (apply pairN_eqb_eq; reflexivity). congruence.
  - exact (IH H a H1).
Qed.

(* the findings seen so far are summarised by ids *)
Definition ids_agree (ids : list ((N * N) * advisory)) (f : finding) : Prop :=
  forall b k a, f_adv f = Some b -> a_id b = Some k -> In (k, a) ids -> a = b.

Lemma validate_loop_iff : forall fs ids, ids_inv ids ->
  (validate_loop fs ids = None <->
   (forall f, In f fs -> complete f) /\ (forall f, In f fs -> ids_agree ids f) /\ (forall f g, In f fs -> In g fs -> agreeP f g)).
Proof.
  induction fs as [|f fs IH]; intros ids Hinv.
  - cbn. split; [intros _|reflexivity]. repeat split; intros; contradiction.
  - cbn [validate_loop]. destruct (f_adv f) as [b|] eqn:Eb.
    2:{ split; [discriminate|]. intros [H _]. destruct (H f (or_introl eq_refl)) as [a [k [H1 _]]]. congruence. }
    destruct (a_id b) as [k|] eqn:Ek.
    2:{ split; [discriminate|]. intros [H _]. destruct (H f (or_introl eq_refl)) as [a [k [H1 H2]]]. congruence. }
    (* the step pushes (k,b) provided the visible entry, if any, equals b *)
    assert (Hpush : forall (Hok : forall a, In (k, a) ids -> a = b),
       validate_loop fs ((k, b) :: ids) = None <->
       (forall f0, In f0 (f :: fs) -> complete f0) /\ (forall f0, In f0 (f :: fs) -> ids_agree ids f0)
       /\ (forall f0 g, In f0 (f :: fs) -> In g (f :: fs) -> agreeP f0 g)).
    { intros Hok.
      assert (Hinv' : ids_inv ((k, b) :: ids)).
      { destruct Hinv as [I1 I2]. split.
        - intros k0 a [H | H]; [injection H as <- <-; exact Ek | apply I1, H].
        - intros k0 a a' [H | H] [H' | H'].
          + congruence.
          + injection H as <- <-. symmetry. apply Hok, H'.
          + injection H' as <- <-. apply Hok, H.
          + eapply I2; eassumption. }
      rewrite (IH _ Hinv'). split.
      - intros [C [A P]]. split; [|split].
        + intros f0 [<- | H0]; [exists b, k; auto | apply C, H0].
        + intros f0 [<- | H0].
          * intros b0 k0 a H1 H2 H3. rewrite Eb in H1. injection H1 as <-. rewrite Ek in H2. injection H2 as <-. apply Hok, H3.
          * intros b0 k0 a H1 H2 H3. apply (A f0 H0 b0 k0 a H1 H2). right. exact H3.
        + assert (Hfg : forall g, In g fs -> agreeP f g /\ agreeP g f).
          { intros g Hg. split.
            - intros a0 b0 H1 H2 H3. rewrite Eb in H1. injection H1 as <-. rewrite Ek in H3.
              apply (A g Hg b0 k b H2 (eq_sym H3)). left. reflexivity.
            - intros a0 b0 H1 H2 H3. rewrite Eb in H2. injection H2 as <-. rewrite Ek in H3. symmetry.
              apply (A g Hg a0 k b H1 H3). left. reflexivity. }
          intros f0 g [<- | H0] [<- | Hg].
          * intros a0 b0 H1 H2 _. congruence.
          * apply Hfg, Hg.
          * apply Hfg, H0.
          * apply P; assumption.
      - intros [C [A P]]. split; [|split].
        + intros f0 H0. apply C. right. exact H0.
        + intros f0 H0 b0 k0 a H1 H2 [H3 | H3].
          * injection H3 as <- <-. apply (P f f0 (or_introl eq_refl) (or_intror H0) b b0 Eb H1). congruence.
          * apply (A f0 (or_intror H0) b0 k0 a H1 H2 H3).
        + intros f0 g H0 Hg. apply P; right; assumption. }
    destruct (ids_get ids k) as [a'|] eqn:Eg.
    + destruct (advisory_eqb a' b) eqn:Ee.
      * apply advisory_eqb_eq in Ee. subst a'. apply Hpush. intros a Ha.
        destruct Hinv as [_ I2]. apply (I2 k a b Ha (ids_get_In _ _ _ Eg)).
      * split; [discriminate|]. intros [_ [A _]]. exfalso.
        assert (a' = b) by (apply (A f (or_introl eq_refl) b k a' Eb Ek), ids_get_In, Eg).
        subst. rewrite advisory_eqb_refl in Ee. discriminate.
    + apply Hpush. intros a Ha. exfalso. exact (ids_get_None _ _ Eg a Ha).
Qed.

Lemma validate_iff_consistent fs : validate_advisories fs = None <-> advisories_consistent fs = true.
Proof.
  unfold validate_advisories. rewrite consistent_iff, (validate_loop_iff fs []).
  - split.
    + intros [C [_ P]]. split; assumption.
    + intros [C P]. split; [exact C|]. split; [|exact P]. intros f _ b k a _ _ [].
  - split; intros; contradiction.
Qed.

(* ================================================================== detector.Run *)
Lemma run_loop_no_cancel px : forall dets st,
  no_cancel dets = true -> run_loop px dets false st = (fold_left (loop_step px) dets st, false).
Proof.
  induction dets as [|d ds IH]; intros st H; cbn [run_loop fold_left]; [reflexivity|].
  cbn [no_cancel forallb] in H. apply andb_true_iff in H as [H1 H2]. apply negb_true_iff in H1.
  rewrite H1. cbn [orb]. apply IH. exact H2.
Qed.

Lemma fold_loop px : forall dets st,
  fold_left (loop_step px) dets st =
  mkLoop (l_calls st ++ map (fun d => (d_name d, px)) dets) (l_acc st ++ flat_map tag_results dets)
         (l_log st) (l_status st ++ map status_from_err dets).
Proof.
  induction dets as [|d ds IH]; intros st; cbn [fold_left map flat_map].
  - rewrite !app_nil_r. destruct st; reflexivity.
  - rewrite IH. unfold loop_step. cbn [l_calls l_acc l_log l_status]. rewrite <- !app_assoc. reflexivity.
Qed.

Lemma map_flat_map {A B C} (f : B -> C) (g : A -> list B) l :
  map f (flat_map g l) = flat_map (fun x => map f (g x)) l.
Proof. induction l as [|a l IH]; cbn; [reflexivity | rewrite map_app, IH; reflexivity]. Qed.

Lemma flat_map_ext_in' {A B} (f g : A -> list B) l :
  (forall x, In x l -> f x = g x) -> flat_map f l = flat_map g l.
Proof.
  induction l as [|a l IH]; intros H; cbn; [reflexivity|].
  rewrite (H a (or_introl eq_refl)), IH; [reflexivity|]. intros x Hx. apply H. right. exact Hx.
Qed.

Lemma expected_is_tag_results dets : flat_map tag_results dets = expected_findings dets.
Proof. reflexivity. Qed.

(* the content of the reported entries is what the detectors returned *)
Lemma expected_content dets : map t_finding (expected_findings dets) = all_findings dets.
Proof.
  unfold expected_findings, all_findings. rewrite map_flat_map. apply flat_map_ext_in'. intros d _.
  rewrite map_map. reflexivity.
Qed.

(* Run never writes through a detector's pointer *)
Lemma run_loop_log px : forall dets c st, l_log (fst (run_loop px dets c st)) = l_log st.
Proof.
  induction dets as [|d ds IH]; intros c st; cbn [run_loop]; [reflexivity|].
  destruct c; [reflexivity|]. rewrite IH. reflexivity.
Qed.

Lemma run_writes_nothing px dets c : rr_writes (detector_run px dets c) = [].
Proof.
  unfold detector_run. pose proof (run_loop_log px dets c loop_init) as H.
  destruct (run_loop px dets c loop_init) as [st ab]. cbn [fst] in H. cbn [loop_init l_log] in H.
  destruct ab; [exact H|]. destruct (validate_advisories _); exact H.
Qed.

(* shape of a run that is never cancelled *)
Lemma run_no_cancel px dets :
  no_cancel dets = true ->
  detector_run px dets false =
  if advisories_consistent (all_findings dets)
  then mkRun (map (fun d => (d_name d, px)) dets) (expected_findings dets) (expected_status dets) None []
  else mkRun (map (fun d => (d_name d, px)) dets) [] (expected_status dets) (Some ErrAdvisory) [].
Proof.
  intros H. unfold detector_run. rewrite (run_loop_no_cancel px dets loop_init H), fold_loop.
  cbn [loop_init l_calls l_acc l_log l_status app]. rewrite expected_is_tag_results, expected_content.
  destruct (validate_advisories (all_findings dets)) as [e|] eqn:E.
  - destruct (advisories_consistent (all_findings dets)) eqn:C; [|reflexivity].
    apply validate_iff_consistent in C. congruence.
  - apply validate_iff_consistent in E. rewrite E. reflexivity.
Qed.

Lemma forallb_false_exists {A} (p : A -> bool) l : forallb p l = false -> exists x, In x l /\ p x = false.
Proof.
  induction l as [|a l IH]; cbn; [discriminate|]. destruct (p a) eqn:E.
  - intros H. destruct (IH H) as [x [H1 H2]]. exists x. auto.
  - intros _. exists a. auto.
Qed.

Lemma inconsistent_witness fs :
  advisories_consistent fs = false <->
  (exists f, In f fs /\ (f_adv f = None \/ exists a, f_adv f = Some a /\ a_id a = None))
  \/ (exists f g a b, In f fs /\ In g fs /\ f_adv f = Some a /\ f_adv g = Some b /\ a_id a = a_id b /\ a <> b).
Proof.
  split.
  - intros H. unfold advisories_consistent in H. apply andb_false_iff in H as [H | H].
    + left. apply forallb_false_exists in H as [f [Hf Hc]]. exists f. split; [exact Hf|].
      unfold finding_complete in Hc. destruct (f_adv f) as [a|]; [|left; reflexivity].
      right. exists a. split; [reflexivity|]. destruct (a_id a); [discriminate | reflexivity].
    + right. apply forallb_false_exists in H as [f [Hf H]]. apply forallb_false_exists in H as [g [Hg H]].
      unfold agree in H. destruct (f_adv f) as [a|] eqn:Ea; [|discriminate]. destruct (f_adv g) as [b|] eqn:Eb; [|discriminate].
      destruct (optid_eqb (a_id a) (a_id b)) eqn:Ei; [|discriminate].
      exists f, g, a, b. repeat split; try assumption; [apply optid_eqb_eq, Ei|].
      intros ->. rewrite advisory_eqb_refl in H. discriminate.
  - intros H. destruct (advisories_consistent fs) eqn:C; [|reflexivity]. exfalso.
    apply consistent_iff in C as [C P]. destruct H as [[f [Hf H]] | [f [g [a [b [Hf [Hg [Ha [Hb [Hi Hne]]]]]]]]]].
    + destruct (C f Hf) as [a [k [H1 H2]]]. destruct H as [H | [a' [H3 H4]]]; congruence.
    + apply Hne. apply (P f g Hf Hg a b Ha Hb Hi).
Qed.

(* C10, plugin-loop half: evaluation of observed cases (harness/cmd/pluginloops).  No proofs. *)
From Coq Require Import List NArith ZArith Bool.
From Scalibr Require Import Detect.Index Detect.Model Detect.PluginLoops.
Import ListNotations.
Open Scope N_scope.

(* the harness's detectors return findings numbered i, each with its own advisory ID *)
Definition pl_fref (i : N) : fref := (i, mkFinding (Some (mkAdv (Some (0, i)) 1 i None)) i 0).

Record scan_pobs := mkScanP { sp_calls : list N; sp_failed : bool; sp_status : list status; sp_pkgs : list N;
                              sp_findings : list (N * N) }.
Record sa_obs := mkSaObs { ao_calls : list N; ao_inv : list N; ao_status : list status; ao_err : bool }.
Record det_obs := mkDetObs { do_calls : list N; do_findings : list (N * N); do_status : list status; do_err : option run_err }.
Record pcase := mkPCase {
  pc_walk_failed : bool; pc_fs_pkgs : list pkg; pc_fs_status : list status;   (* what filesystem.Run returned *)
  pc_c0 : bool;                                                              (* context state after the walk *)
  pc_sas : list sa_ext; pc_dets : list detector;
  pc_scan : scan_pobs; pc_sa : sa_obs; pc_det : det_obs
}.

Definition list_eqb {A} (eqb : A -> A -> bool) : list A -> list A -> bool :=
  fix go l1 l2 := match l1, l2 with
                  | [], [] => true
                  | a :: l1', b :: l2' => eqb a b && go l1' l2'
                  | _, _ => false
                  end.
Definition pair_eqb (a b : N * N) : bool := N.eqb (fst a) (fst b) && N.eqb (snd a) (snd b).
Fixpoint insN (a : N) (l : list N) : list N :=
  match l with [] => [a] | b :: l' => if N.leb a b then a :: l else b :: insN a l' end.
Definition sortN (l : list N) : list N := fold_right insN [] l.
Definition fpairs (ts : list tagged) : list (N * N) := map (fun t => (f_extra (t_finding t), hd 0 (t_dets t))) ts.
Definition opt_err_eqb (a b : option run_err) : bool :=
  match a, b with Some x, Some y => run_err_eqb x y | None, None => true | _, _ => false end.

(* ---------------------------------------------------------------- model = observed ? *)
Definition case_model_ok (c : pcase) : bool :=
  let m := scan_plugins (pc_walk_failed c) (pc_fs_pkgs c) (pc_fs_status c) (pc_c0 c) (pc_sas c) (pc_dets c) in
  let o := pc_scan c in
  listN_eqb (po_calls m) (sp_calls o) && Bool.eqb (po_failed m) (sp_failed o)
  && perm_eqb status_eqb (po_status m) (sp_status o)
  && listN_eqb (sortN (map pk_id (po_pkgs m))) (sp_pkgs o)
  && perm_eqb pair_eqb (fpairs (po_findings m)) (sp_findings o)
  (* standalone.Run on its own *)
  && (let r := standalone_run (pc_sas c) (pc_c0 c) in let a := pc_sa c in
      listN_eqb (sr_calls r) (ao_calls a) && listN_eqb (map pk_id (sr_inv r)) (ao_inv a)
      && list_eqb status_eqb (sr_status r) (ao_status a) && Bool.eqb (sr_err r) (ao_err a))
  (* detector.Run on its own *)
  && (let r := detector_run [] (pc_dets c) (pc_c0 c) in let d := pc_det c in
      listN_eqb (map fst (rr_calls r)) (do_calls d) && list_eqb pair_eqb (fpairs (rr_findings r)) (do_findings d)
      && list_eqb status_eqb (rr_status r) (do_status d) && opt_err_eqb (rr_err r) (do_err d)).

(* ---------------------------------------------------------------- spec on the observed output *)
(* "once its context is cancelled [the scan] runs no further plugin, reporting failure whenever work
   remained"; an uncancelled scan runs every plugin once *)
Definition loop_spec (names : list N) (flags : list bool) (c0 : bool) (invoked : list N) (failed : bool)
    (uncancelled_fails : bool) : bool :=
  (* invoked plugins = an initial segment, each once, in order *)
  listN_eqb invoked (firstn (length invoked) names)
  && (if c0 then match invoked with [] => true | _ => false end
      else match first_true flags with
           | Some k => Nat.leb (length invoked) (S k)          (* no plugin with index > k *)
           | None => Nat.eqb (length invoked) (length names)    (* never cancelled: every plugin *)
           end)
  && (if Nat.ltb (length invoked) (length names) then failed else true)   (* work remained => failure *)
  && (if negb c0 && match first_true flags with None => true | _ => false end then Bool.eqb failed uncancelled_fails else true).

Definition case_spec_ok (c : pcase) : bool :=
  let names := plugin_names (pc_sas c) (pc_dets c) in
  let flags := cancel_flags (pc_sas c) (pc_dets c) in
  let o := pc_scan c in
  (if pc_walk_failed c
   then match sp_calls o with [] => sp_failed o | _ => false end
   else loop_spec names flags (pc_c0 c) (sp_calls o) (sp_failed o) (negb (advisories_consistent (all_findings (pc_dets c)))))
  && loop_spec (map x_name (pc_sas c)) (map x_cancels (pc_sas c)) (pc_c0 c) (ao_calls (pc_sa c)) (ao_err (pc_sa c)) false
  && loop_spec (map d_name (pc_dets c)) (map d_cancels (pc_dets c)) (pc_c0 c) (do_calls (pc_det c))
       (match do_err (pc_det c) with Some _ => true | None => false end)
       (negb (advisories_consistent (all_findings (pc_dets c)))).

Fixpoint bad_indices {A} (ok : A -> bool) (l : list A) (i : N) : list N :=
  match l with
  | [] => []
  | a :: l' => if ok a then bad_indices ok l' (i + 1) else i :: bad_indices ok l' (i + 1)
  end.

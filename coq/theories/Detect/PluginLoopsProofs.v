(* C10, plugin-loop half: proofs *)
From Coq Require Import List NArith ZArith Bool Lia PeanoNat.
From Scalibr Require Import Detect.Index Detect.Model Detect.Proofs Detect.PluginLoops.
Import ListNotations.
Open Scope N_scope.

(* number of plugins a "check, run, maybe get cancelled" loop invokes *)
Fixpoint n_invoked (flags : list bool) (c : bool) : nat :=
  match flags with
  | [] => O
  | f :: fs => if c then O else S (n_invoked fs (c || f))
  end.
Fixpoint ctx_after (flags : list bool) (c : bool) : bool :=
  match flags with [] => c | f :: fs => if c then c else ctx_after fs (c || f) end.

Lemma n_invoked_le flags : forall c, (n_invoked flags c <= length flags)%nat.
Proof. induction flags as [|f fs IH]; intros c; cbn; [lia|]. destruct c; [lia|]. specialize (IH (false || f)). lia. Qed.

Lemma n_invoked_cancelled flags : n_invoked flags true = O.
Proof. destruct flags; reflexivity. Qed.

Lemma n_invoked_app f1 : forall f2 c,
  n_invoked (f1 ++ f2) c =
  if Nat.eqb (n_invoked f1 c) (length f1) then (length f1 + n_invoked f2 (ctx_after f1 c))%nat else n_invoked f1 c.
Proof.
  induction f1 as [|f fs IH]; intros f2 c; cbn [app n_invoked ctx_after length].
  - reflexivity.
  - destruct c; [reflexivity|]. rewrite IH. cbn [Nat.eqb].
    destruct (Nat.eqb (n_invoked fs (false || f)) (length fs)); reflexivity.
Qed.

(* once plugin j got the context cancelled, at most j+1 plugins are invoked *)
Lemma n_invoked_bound flags : forall c j, nth j flags false = true -> (n_invoked flags c <= S j)%nat.
Proof.
  induction flags as [|f fs IH]; intros c j H; [destruct j; discriminate|].
  cbn [n_invoked]. destruct c; [lia|]. destruct j as [|j]; cbn [nth] in H.
  - subst f. cbn. rewrite n_invoked_cancelled. lia.
  - specialize (IH (false || f) j H). lia.
Qed.

Lemma n_invoked_all flags : (forall j, nth j flags false = false) -> n_invoked flags false = length flags.
Proof.
  induction flags as [|f fs IH]; intros H; [reflexivity|]. cbn [n_invoked length].
  assert (f = false) by (apply (H O)). subst f. cbn. f_equal. apply IH. intros j. apply (H (S j)).
Qed.

(* --- the standalone loop *)
Lemma sa_loop_calls : forall xs c st,
  let '(st', ab, c') := sa_loop xs c st in
  ss_calls st' = ss_calls st ++ firstn (n_invoked (map x_cancels xs) c) (map x_name xs)
  /\ ab = negb (Nat.eqb (n_invoked (map x_cancels xs) c) (length xs))
  /\ c' = ctx_after (map x_cancels xs) c.
Proof.
  induction xs as [|x xs IH]; intros c st; cbn [sa_loop map n_invoked ctx_after length firstn].
  - rewrite app_nil_r. auto.
  - destruct c.
    + cbn. rewrite app_nil_r. auto.
    + specialize (IH (false || x_cancels x) (sa_step st x)).
      destruct (sa_loop xs (false || x_cancels x) (sa_step st x)) as [[st' ab] c'].
      destruct IH as [H1 [H2 H3]]. cbn [sa_step ss_calls] in H1. rewrite <- app_assoc in H1. cbn [app] in H1.
      cbn [firstn Nat.eqb]. auto.
Qed.

Lemma standalone_run_shape xs c :
  let n := n_invoked (map x_cancels xs) c in
  sr_calls (standalone_run xs c) = firstn n (map x_name xs)
  /\ sr_err (standalone_run xs c) = negb (Nat.eqb n (length xs))
  /\ sr_ctx (standalone_run xs c) = ctx_after (map x_cancels xs) c.
Proof.
  cbn zeta. unfold standalone_run. pose proof (sa_loop_calls xs c sa_init) as H.
  destruct (sa_loop xs c sa_init) as [[st ab] c']. destruct H as [H1 [H2 H3]]. cbn [sa_init ss_calls app] in H1.
  destruct ab; cbn [sr_calls sr_err sr_ctx]; auto.
Qed.

(* --- the detector loop (Detect/Model.v) *)
Lemma run_loop_calls px : forall dets c st,
  let '(st', ab) := run_loop px dets c st in
  map fst (l_calls st') = map fst (l_calls st) ++ firstn (n_invoked (map d_cancels dets) c) (map d_name dets)
  /\ ab = negb (Nat.eqb (n_invoked (map d_cancels dets) c) (length dets)).
Proof.
  induction dets as [|d ds IH]; intros c st; cbn [run_loop map n_invoked length firstn].
  - rewrite app_nil_r. auto.
  - destruct c.
    + cbn. rewrite app_nil_r. auto.
    + specialize (IH (false || d_cancels d) (loop_step px st d)).
      destruct (run_loop px ds (false || d_cancels d) (loop_step px st d)) as [st' ab].
      destruct IH as [H1 H2]. cbn [loop_step l_calls] in H1. rewrite map_app, <- app_assoc in H1. cbn [map fst app] in H1.
      cbn [firstn Nat.eqb]. auto.
Qed.

Lemma detector_run_shape px dets c :
  let n := n_invoked (map d_cancels dets) c in
  map fst (rr_calls (detector_run px dets c)) = firstn n (map d_name dets)
  /\ (Nat.eqb n (length dets) = false -> rr_err (detector_run px dets c) = Some ErrCtx)
  /\ (Nat.eqb n (length dets) = true -> rr_err (detector_run px dets c) <> Some ErrCtx).
Proof.
  cbn zeta. unfold detector_run. pose proof (run_loop_calls px dets c loop_init) as H.
  destruct (run_loop px dets c loop_init) as [st ab]. destruct H as [H1 H2]. cbn [loop_init l_calls map app] in H1.
  destruct ab.
  - cbn [rr_calls rr_err]. split; [exact H1|]. split; [reflexivity|]. intros E. rewrite E in H2. discriminate.
  - split; [destruct (validate_advisories _); exact H1|]. split.
    + intros E. rewrite E in H2. discriminate.
    + intros _. destruct (validate_advisories _); discriminate.
Qed.

(* --- the whole phase *)
Lemma firstn_app_exact {A} (l1 l2 : list A) n : firstn (length l1 + n) (l1 ++ l2) = l1 ++ firstn n l2.
Proof. induction l1; cbn; [reflexivity | f_equal; assumption]. Qed.
Lemma firstn_app_short {A} (l1 l2 : list A) n : (n <= length l1)%nat -> firstn n (l1 ++ l2) = firstn n l1.
Proof. intros H. rewrite firstn_app. replace (n - length l1)%nat with O by lia. cbn. apply app_nil_r. Qed.

Lemma scan_plugins_shape fs_pkgs fs_status c sas dets :
  let out := scan_plugins false fs_pkgs fs_status c sas dets in
  let n := n_invoked (cancel_flags sas dets) c in
  po_calls out = firstn n (plugin_names sas dets)
  /\ ((n < length (plugin_names sas dets))%nat -> po_failed out = true).
Proof.
  cbn zeta. unfold scan_plugins, cancel_flags, plugin_names.
  destruct (standalone_run_shape sas c) as [S1 [S2 S3]]. cbn zeta in S1, S2, S3.
  rewrite n_invoked_app, !map_length, app_length, !map_length.
  pose proof (n_invoked_le (map x_cancels sas) c) as Hle. rewrite map_length in Hle.
  destruct (Nat.eqb (n_invoked (map x_cancels sas) c) (length sas)) eqn:E.
  - rewrite S2. cbn [negb]. apply Nat.eqb_eq in E.
    destruct (detector_run_shape (index_new (fs_pkgs ++ sr_inv (standalone_run sas c))) dets (sr_ctx (standalone_run sas c))) as [D1 [D2 D3]].
    cbn zeta in D1, D2, D3. rewrite <- S3. cbn [po_calls po_failed]. split.
    + rewrite S1, D1, E. replace (length sas) with (length (map x_name sas)) by apply map_length.
      rewrite firstn_app_exact, firstn_all. reflexivity.
    + intros Hlt.
      assert (Hn : Nat.eqb (n_invoked (map d_cancels dets) (sr_ctx (standalone_run sas c))) (length dets) = false).
      { apply Nat.eqb_neq. lia. }
      rewrite (D2 Hn). reflexivity.
  - rewrite S2. cbn [negb po_calls po_failed]. apply Nat.eqb_neq in E. split; [|reflexivity].
    rewrite S1. symmetry. apply firstn_app_short. rewrite map_length. lia.
Qed.

Lemma cancelled_by_bound c flags k : cancelled_by c flags k -> (n_invoked flags c <= S k)%nat.
Proof.
  intros [-> | [j [Hj H]]]; [rewrite n_invoked_cancelled; lia|].
  pose proof (n_invoked_bound flags c j H). lia.
Qed.

(* --- never cancelled *)
Lemma ctx_after_none flags : (forall j, nth j flags false = false) -> ctx_after flags false = false.
Proof.
  induction flags as [|f fs IH]; intros H; [reflexivity|]. cbn [ctx_after].
  assert (f = false) by (apply (H O)). subst f. cbn. apply IH. intros j. apply (H (S j)).
Qed.

Lemma flags_split (f1 f2 : list bool) :
  (forall j, nth j (f1 ++ f2) false = false) -> (forall j, nth j f1 false = false) /\ (forall j, nth j f2 false = false).
Proof.
  intros H. split; intros j.
  - destruct (Nat.lt_ge_cases j (length f1)) as [L | L].
    + rewrite <- (app_nth1 f1 f2 false L). apply H.
    + apply nth_overflow. exact L.
  - specialize (H (length f1 + j)%nat). rewrite app_nth2_plus in H. exact H.
Qed.

Lemma no_cancel_of_flags dets : (forall j, nth j (map d_cancels dets) false = false) -> no_cancel dets = true.
Proof.
  induction dets as [|d ds IH]; intros H; [reflexivity|]. cbn [no_cancel forallb].
  pose proof (H O) as H0. cbn in H0. rewrite H0. cbn. apply IH. intros j. apply (H (S j)).
Qed.

Lemma scan_plugins_uncancelled fs_pkgs fs_status sas dets :
  (forall j, nth j (cancel_flags sas dets) false = false) ->
  let out := scan_plugins false fs_pkgs fs_status false sas dets in
  po_calls out = plugin_names sas dets
  /\ po_failed out = negb (advisories_consistent (all_findings dets)).
Proof.
  intros H. cbn zeta. split.
  - destruct (scan_plugins_shape fs_pkgs fs_status false sas dets) as [S1 _]. cbn zeta in S1. rewrite S1.
    rewrite (n_invoked_all _ H). unfold cancel_flags, plugin_names. rewrite !app_length, !map_length.
    rewrite <- (map_length x_name sas), <- (map_length d_name dets), <- app_length. apply firstn_all.
  - unfold cancel_flags in H. apply flags_split in H as [Hs Hd].
    unfold scan_plugins. destruct (standalone_run_shape sas false) as [_ [S2 S3]]. cbn zeta in S2, S3.
    rewrite (n_invoked_all _ Hs), map_length, Nat.eqb_refl in S2. cbn in S2. rewrite S2.
    rewrite (ctx_after_none _ Hs) in S3. rewrite S3.
    rewrite (run_no_cancel _ dets (no_cancel_of_flags dets Hd)).
    destruct (advisories_consistent (all_findings dets)); reflexivity.
Qed.

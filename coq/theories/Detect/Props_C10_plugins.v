(* C10, plugin-loop half - "once its context is cancelled [a scan] ... runs no further plugin,
   reporting failure whenever work remained": the per-plugin context checks of standalone.Run and
   detector.Run and the status derivation of Scanner.Scan after the filesystem walk.
   Only statements here; proofs are in Detect/PluginLoopsProofs.v.

   All theorems are for every list of standalone extractors and every list of detectors (any
   length, any results, error flags, any set of plugins during which the context gets cancelled) and
   every state of the context at the end of the walk.  Plugins are numbered 0.. in execution order:
   standalone extractors first, then detectors (plugin_names). *)
From Coq Require Import List NArith ZArith Bool Lia PeanoNat.
From Scalibr Require Import Detect.Index Detect.Model Detect.Proofs Detect.PluginLoops Detect.PluginLoopsProofs.
Import ListNotations.
Open Scope N_scope.

(* the plugins invoked are always an initial segment of the configured sequence (each at most once,
   in order) *)
Theorem invoked_is_prefix : forall fs_pkgs fs_status c0 sas dets,
  exists n, (n <= length (plugin_names sas dets))%nat
    /\ po_calls (scan_plugins false fs_pkgs fs_status c0 sas dets) = firstn n (plugin_names sas dets).
Proof.
  intros. exists (n_invoked (cancel_flags sas dets) c0). split.
  - pose proof (n_invoked_le (cancel_flags sas dets) c0) as H. unfold cancel_flags, plugin_names in *.
    rewrite !app_length, !map_length in *. exact H.
  - apply scan_plugins_shape.
Qed.
Print Assumptions invoked_is_prefix.

(* cancelled during (or after) plugin k => no plugin with index > k is invoked; cancelled before the
   plugin phase => no plugin at all *)
Theorem cancel_runs_no_further_plugin : forall fs_pkgs fs_status c0 sas dets k,
  cancelled_by c0 (cancel_flags sas dets) k ->
  let out := scan_plugins false fs_pkgs fs_status c0 sas dets in
  (exists n, (n <= S k)%nat /\ po_calls out = firstn n (plugin_names sas dets))
  /\ (c0 = true -> po_calls out = []).
Proof.
  intros fs_pkgs fs_status c0 sas dets k H. cbn zeta.
  destruct (scan_plugins_shape fs_pkgs fs_status c0 sas dets) as [S1 _]. cbn zeta in S1. split.
  - exists (n_invoked (cancel_flags sas dets) c0). split; [apply cancelled_by_bound, H | exact S1].
  - intros ->. rewrite S1, n_invoked_cancelled. reflexivity.
Qed.
Print Assumptions cancel_runs_no_further_plugin.

(* whenever a plugin remained un-invoked the scan is reported as failed; in particular when the
   context is cancelled by plugin k and a plugin k+1 exists *)
Theorem cancel_reports_failure_if_work_remained : forall fs_pkgs fs_status c0 sas dets,
  let out := scan_plugins false fs_pkgs fs_status c0 sas dets in
  ((length (po_calls out) < length (plugin_names sas dets))%nat -> po_failed out = true)
  /\ (forall k, cancelled_by c0 (cancel_flags sas dets) k -> (S k < length (plugin_names sas dets))%nat ->
        po_failed out = true).
Proof.
  intros fs_pkgs fs_status c0 sas dets. cbn zeta.
  destruct (scan_plugins_shape fs_pkgs fs_status c0 sas dets) as [S1 S2]. cbn zeta in S1, S2.
  assert (Hlen : length (po_calls (scan_plugins false fs_pkgs fs_status c0 sas dets)) = n_invoked (cancel_flags sas dets) c0).
  { rewrite S1. apply firstn_length_le.
    pose proof (n_invoked_le (cancel_flags sas dets) c0) as H. unfold cancel_flags, plugin_names in *.
    rewrite !app_length, !map_length in *. exact H. }
  split.
  - intros H. apply S2. rewrite <- Hlen. exact H.
  - intros k Hc Hk. apply S2. pose proof (cancelled_by_bound _ _ _ Hc). lia.
Qed.
Print Assumptions cancel_reports_failure_if_work_remained.

(* a scan whose context is never cancelled invokes every plugin exactly once, in order, and fails
   only for the reason C20 describes (inconsistent advisories) *)
Theorem uncancelled_runs_every_plugin_once : forall fs_pkgs fs_status sas dets,
  never_cancelled false (cancel_flags sas dets) ->
  let out := scan_plugins false fs_pkgs fs_status false sas dets in
  po_calls out = plugin_names sas dets
  /\ po_failed out = negb (advisories_consistent (all_findings dets)).
Proof. intros fs_pkgs fs_status sas dets [_ H]. apply scan_plugins_uncancelled, H. Qed.
Print Assumptions uncancelled_runs_every_plugin_once.

(* a failed walk ends the scan: no plugin is invoked, the scan is failed *)
Theorem failed_walk_runs_no_plugin : forall fs_pkgs fs_status c0 sas dets,
  po_calls (scan_plugins true fs_pkgs fs_status c0 sas dets) = []
  /\ po_failed (scan_plugins true fs_pkgs fs_status c0 sas dets) = true.
Proof. intros. split; reflexivity. Qed.
Print Assumptions failed_walk_runs_no_plugin.

(* the two loops on their own *)
Theorem standalone_loop_checks_context : forall xs c k,
  cancelled_by c (map x_cancels xs) k ->
  (exists n, (n <= S k)%nat /\ sr_calls (standalone_run xs c) = firstn n (map x_name xs))
  /\ ((S k < length xs)%nat -> sr_err (standalone_run xs c) = true).
Proof.
  intros xs c k H. destruct (standalone_run_shape xs c) as [S1 [S2 _]]. cbn zeta in S1, S2.
  pose proof (cancelled_by_bound _ _ _ H) as Hb. split.
  - eexists. split; [exact Hb | exact S1].
  - intros Hk. rewrite S2. apply negb_true_iff, Nat.eqb_neq. lia.
Qed.
Print Assumptions standalone_loop_checks_context.

Theorem detector_loop_checks_context : forall px dets c k,
  cancelled_by c (map d_cancels dets) k ->
  (exists n, (n <= S k)%nat /\ map fst (rr_calls (detector_run px dets c)) = firstn n (map d_name dets))
  /\ ((S k < length dets)%nat -> rr_err (detector_run px dets c) = Some ErrCtx).
Proof.
  intros px dets c k H. destruct (detector_run_shape px dets c) as [D1 [D2 _]]. cbn zeta in D1, D2.
  pose proof (cancelled_by_bound _ _ _ H) as Hb. split.
  - eexists. split; [exact Hb | exact D1].
  - intros Hk. apply D2. apply Nat.eqb_neq. lia.
Qed.
Print Assumptions detector_loop_checks_context.

(* ---------------------------------------------------------------- non-vacuity *)
Definition ex_f (i : N) : fref := (i, mkFinding (Some (mkAdv (Some (0, i)) 1 i None)) i 0).
Definition ex_sas : list sa_ext :=
  [ mkSa 11 1 [mkPkg 1 (Some (0, 0))] false false; mkSa 12 1 [mkPkg 2 None] true true; mkSa 13 1 [mkPkg 3 None] false false ].
Definition ex_dets : list detector := [ mkDet 21 0 [ex_f 1] false false; mkDet 22 0 [ex_f 2] false true; mkDet 23 0 [] false false ].

(* cancelled inside the second standalone extractor: the third and all detectors are not run, failed *)
Example cancelled_in_standalone :
  cancelled_by false (cancel_flags ex_sas ex_dets) 1
  /\ po_calls (scan_plugins false [] [] false ex_sas ex_dets) = [11; 12]
  /\ po_failed (scan_plugins false [] [] false ex_sas ex_dets) = true.
Proof. split; [right; exists 1%nat; split; [lia | reflexivity] | vm_compute; split; reflexivity]. Qed.

(* cancelled inside the second detector (standalone part uncancelled) *)
Example cancelled_in_detector :
  let sas := [mkSa 11 1 [mkPkg 1 (Some (0, 0))] false false] in
  po_calls (scan_plugins false [] [] false sas ex_dets) = [11; 21; 22]
  /\ po_failed (scan_plugins false [] [] false sas ex_dets) = true
  /\ po_findings (scan_plugins false [] [] false sas ex_dets) = [].
Proof. vm_compute. repeat split; reflexivity. Qed.

(* cancelled inside the LAST plugin: nothing remained, the scan succeeds with all results *)
Example cancelled_in_last_plugin :
  let dets := [mkDet 21 0 [ex_f 1] false false; mkDet 22 0 [ex_f 2] false true] in
  po_calls (scan_plugins false [] [] false [] dets) = [21; 22]
  /\ po_failed (scan_plugins false [] [] false [] dets) = false
  /\ length (po_findings (scan_plugins false [] [] false [] dets)) = 2%nat.
Proof. vm_compute. repeat split; reflexivity. Qed.

Example uncancelled_example :
  let sas := [mkSa 11 1 [mkPkg 1 (Some (0, 0))] false false; mkSa 12 1 [mkPkg 2 None] true false] in
  let dets := [mkDet 21 0 [ex_f 1] true false; mkDet 23 0 [] false false] in
  never_cancelled false (cancel_flags sas dets)
  /\ po_calls (scan_plugins false [] [] false sas dets) = [11; 12; 21; 23]
  /\ po_failed (scan_plugins false [] [] false sas dets) = false
  /\ map pk_id (po_pkgs (scan_plugins false [] [] false sas dets)) = [1].
Proof.
  cbn zeta. split; [split; [reflexivity | intros [|[|[|[|[|j]]]]]; reflexivity] | vm_compute; repeat split; reflexivity].
Qed.

(* Package index model (packageindex/package_index.go).  Shared: C20 (Detect/Model.v) and, read-only,
   C14.  Model + spec only; proofs are in Detect/Proofs.v.

   Go: pkgMap map[type]map[name][]*Package, filled by appending in input order; packages whose
   extractor's ToPURL returns nil are skipped.  Maps are association lists here, keys in order of
   first appearance (Go's iteration order is unspecified: GetAll / GetAllOfType results are
   compared up to permutation, GetSpecific results exactly). *)
From Coq Require Import List NArith Bool.
Import ListNotations.
Open Scope N_scope.

(* a package: an identity label (the harness encodes it in Name/Version) and what
   p.Extractor.ToPURL(p) returns, projected to (Type, Name); None = nil purl *)
Record pkg := mkPkg { pk_id : N; pk_purl : option (N * N) }.

Definition pkg_eqb (a b : pkg) : bool :=
  N.eqb (pk_id a) (pk_id b) &&
  match pk_purl a, pk_purl b with
  | Some (t, n), Some (t', n') => N.eqb t t' && N.eqb n n'
  | None, None => true
  | _, _ => false
  end.

(* inner map: name -> packages; outer map: type -> inner map *)
Definition inner := list (N * list pkg).
Definition index := list (N * inner).

Fixpoint inner_add (m : inner) (n : N) (p : pkg) : inner :=
  match m with
  | [] => [(n, [p])]
  | (n', ps) :: m' => if N.eqb n' n then (n', ps ++ [p]) :: m' else (n', ps) :: inner_add m' n p
  end.

Fixpoint index_add (ix : index) (t n : N) (p : pkg) : index :=
  match ix with
  | [] => [(t, [(n, [p])])]
  | (t', m) :: ix' => if N.eqb t' t then (t', inner_add m n p) :: ix' else (t', m) :: index_add ix' t n p
  end.

(* packageindex.New: left-to-right over the packages *)
Definition index_step (ix : index) (p : pkg) : index :=
  match pk_purl p with
  | None => ix
  | Some (t, n) => index_add ix t n p
  end.
Definition index_new (ps : list pkg) : index := fold_left index_step ps [].

Fixpoint inner_get (m : inner) (n : N) : list pkg :=
  match m with
  | [] => []
  | (n', ps) :: m' => if N.eqb n' n then ps else inner_get m' n
  end.
Fixpoint outer_get (ix : index) (t : N) : inner :=
  match ix with
  | [] => []
  | (t', m) :: ix' => if N.eqb t' t then m else outer_get ix' t
  end.

(* GetSpecific(name, pkgType) *)
Definition get_specific (ix : index) (n t : N) : list pkg := inner_get (outer_get ix t) n.
(* GetAllOfType(pkgType): concatenation over the inner map (order of keys unspecified in Go) *)
Definition get_all_of_type (ix : index) (t : N) : list pkg := flat_map snd (outer_get ix t).
(* GetAll() *)
Definition get_all (ix : index) : list pkg := flat_map (fun tm => flat_map snd (snd tm)) ix.

(* ---------------------------------------------------------------- spec side *)
Definition has_purl (t n : N) (p : pkg) : bool :=
  match pk_purl p with Some (t', n') => N.eqb t' t && N.eqb n' n | None => false end.
Definition has_type (t : N) (p : pkg) : bool :=
  match pk_purl p with Some (t', _) => N.eqb t' t | None => false end.
Definition has_any_purl (p : pkg) : bool :=
  match pk_purl p with Some _ => true | None => false end.

(* multiset equality of package lists (for the results whose order Go leaves unspecified) *)
Fixpoint remove_first {A} (eqb : A -> A -> bool) (a : A) (l : list A) : option (list A) :=
  match l with
  | [] => None
  | b :: l' => if eqb a b then Some l' else option_map (cons b) (remove_first eqb a l')
  end.
Fixpoint perm_eqb {A} (eqb : A -> A -> bool) (l1 l2 : list A) : bool :=
  match l1 with
  | [] => match l2 with [] => true | _ => false end
  | a :: l1' => match remove_first eqb a l2 with Some l2' => perm_eqb eqb l1' l2' | None => false end
  end.

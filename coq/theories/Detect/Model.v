(* C20 - model of detector.Run / validateAdvisories (detector/detector.go) and of the tail of
   Scanner.Scan (scalibr.go: index construction, detector run, result assembly).
   Model + spec only; proofs are in Detect/Proofs.v.  The package index is in Detect/Index.v. *)
From Coq Require Import List NArith ZArith Bool.
From Scalibr Require Import Detect.Index.
Import ListNotations.
Open Scope N_scope.

(* ------------------------------------------------------------------ advisories, findings *)
(* detector.Advisory.  ID is a pointer (None = nil); Sev is a pointer to a struct that again holds a
   pointer (CVSSV3).  reflect.DeepEqual follows pointers, so advisory equality is structural
   equality of this record.  (Description/Recommendation/CVSSV2 behave like Title/CVSSV3 and are
   folded into them by the harness; NaN scores are excluded, see DESIGN.md C20 limits.) *)
Record advisory := mkAdv {
  a_id : option (N * N);           (* AdvisoryID{Publisher, Reference} *)
  a_type : N;                      (* TypeEnum *)
  a_title : N;
  a_sev : option (N * option N)    (* Severity{Severity, CVSSV3 base score} *)
}.

Definition pairN_eqb (a b : N * N) : bool := N.eqb (fst a) (fst b) && N.eqb (snd a) (snd b).
Definition optN_eqb (a b : option N) : bool :=
  match a, b with Some x, Some y => N.eqb x y | None, None => true | _, _ => false end.
Definition sev_eqb (a b : option (N * option N)) : bool :=
  match a, b with
  | Some (s, c), Some (s', c') => N.eqb s s' && optN_eqb c c'
  | None, None => true
  | _, _ => false
  end.
Definition optid_eqb (a b : option (N * N)) : bool :=
  match a, b with Some x, Some y => pairN_eqb x y | None, None => true | _, _ => false end.
Definition advisory_eqb (a b : advisory) : bool :=
  optid_eqb (a_id a) (a_id b) && N.eqb (a_type a) (a_type b) && N.eqb (a_title a) (a_title b) && sev_eqb (a_sev a) (a_sev b).

(* detector.Finding without the Detectors field (that one is set by Run) *)
Record finding := mkFinding {
  f_adv : option advisory;         (* None = nil *)
  f_extra : N;
  f_target : N                     (* abstract Target payload; 0 = nil *)
}.
Definition optadv_eqb (a b : option advisory) : bool :=
  match a, b with Some x, Some y => advisory_eqb x y | None, None => true | _, _ => false end.
Definition finding_eqb (a b : finding) : bool :=
  optadv_eqb (f_adv a) (f_adv b) && N.eqb (f_extra a) (f_extra b) && N.eqb (f_target a) (f_target b).

(* Scan returns []*Finding: a result element is a POINTER.  fref = (pointer identity, content). *)
Definition fref := (N * finding)%type.

(* a finding as it appears in the output: content + Detectors *)
Record tagged := mkTagged { t_finding : finding; t_dets : list N }.
Definition listN_eqb : list N -> list N -> bool :=
  fix go l1 l2 := match l1, l2 with
                  | [], [] => true
                  | a :: l1', b :: l2' => N.eqb a b && go l1' l2'
                  | _, _ => false
                  end.
Definition tagged_eqb (a b : tagged) : bool := finding_eqb (t_finding a) (t_finding b) && listN_eqb (t_dets a) (t_dets b).

(* ------------------------------------------------------------------ detectors *)
(* a (fake) detector: what its Scan returns, whether it returns an error as well, and whether it
   cancels the scan's context while running *)
Record detector := mkDet {
  d_name : N;
  d_version : Z;
  d_results : list fref;
  d_fails : bool;
  d_cancels : bool
}.

(* plugin.Status, FailureReason dropped; s_status is plugin.ScanStatusEnum (1 = Succeeded, 3 = Failed) *)
Record status := mkStatus { s_name : N; s_version : Z; s_status : N }.
Definition status_eqb (a b : status) : bool :=
  N.eqb (s_name a) (s_name b) && Z.eqb (s_version a) (s_version b) && N.eqb (s_status a) (s_status b).
Definition ST_SUCCEEDED : N := 1.
Definition ST_FAILED : N := 3.

(* plugin.StatusFromErr(d, false, err) *)
Definition status_from_err (d : detector) : status :=
  mkStatus (d_name d) (d_version d) (if d_fails d then ST_FAILED else ST_SUCCEEDED).

(* ------------------------------------------------------------------ validateAdvisories *)
Inductive adv_err := NoAdvisory | NoAdvisoryID | Conflict.

Fixpoint ids_get (ids : list ((N * N) * advisory)) (id : N * N) : option advisory :=
  match ids with
  | [] => None
  | (k, a) :: ids' => if pairN_eqb k id then Some a else ids_get ids' id
  end.

(* ids[*f.Adv.ID] = *f.Adv : the newest entry shadows older ones *)
Fixpoint validate_loop (fs : list finding) (ids : list ((N * N) * advisory)) : option adv_err :=
  match fs with
  | [] => None
  | f :: fs' =>
      match f_adv f with
      | None => Some NoAdvisory
      | Some a =>
          match a_id a with
          | None => Some NoAdvisoryID
          | Some id =>
              match ids_get ids id with
              | Some a' => if advisory_eqb a' a then validate_loop fs' ((id, a) :: ids) else Some Conflict
              | None => validate_loop fs' ((id, a) :: ids)
              end
          end
      end
  end.
Definition validate_advisories (fs : list finding) : option adv_err := validate_loop fs [].

(* ------------------------------------------------------------------ detector.Run *)
(* Since the fix "detector.Run tags a copy of each finding", Run does
     tagged := *f; tagged.Detectors = []string{d.Name()}; findings = append(findings, &tagged)
   i.e. the reported entry is a fresh copy carrying the detector's name, and NOTHING is written
   through the detector's own pointer.  The pointer identity of the results (fref) is kept in the
   model so that this can be stated: l_log is the log of (pointer, name) writes to detector-owned
   Finding values, in chronological order; the value of such a Finding's Detectors field after the
   run is the last write (tag_lookup). *)
Definition taglog := list (N * N).
Definition tag_lookup (p : N) (log : taglog) : list N :=
  match find (fun e => N.eqb (fst e) p) (rev log) with
  | Some e => [snd e]
  | None => []          (* never written: Detectors stays as the detector left it (nil) *)
  end.

Inductive run_err := ErrCtx | ErrAdvisory.
Definition run_err_eqb (a b : run_err) : bool :=
  match a, b with ErrCtx, ErrCtx | ErrAdvisory, ErrAdvisory => true | _, _ => false end.

Definition tag_results (d : detector) : list tagged := map (fun r => mkTagged (snd r) [d_name d]) (d_results d).

Record loop_state := mkLoop {
  l_calls : list (N * index);      (* Scan calls made: (detector name, index it received) *)
  l_acc : list tagged;             (* findings = append(findings, &tagged) *)
  l_log : taglog;                  (* writes through detector-owned pointers *)
  l_status : list status
}.
Definition loop_init : loop_state := mkLoop [] [] [] [].
Definition loop_step (px : index) (st : loop_state) (d : detector) : loop_state :=
  mkLoop (l_calls st ++ [(d_name d, px)]) (l_acc st ++ tag_results d) (l_log st) (l_status st ++ [status_from_err d]).

(* returns the state and whether the loop was left through `if ctx.Err() != nil { return nil, nil, ctx.Err() }` *)
Fixpoint run_loop (px : index) (dets : list detector) (cancelled : bool) (st : loop_state) : loop_state * bool :=
  match dets with
  | [] => (st, false)
  | d :: ds => if cancelled then (st, true) else run_loop px ds (cancelled || d_cancels d) (loop_step px st d)
  end.

Record run_result := mkRun {
  rr_calls : list (N * index);
  rr_findings : list tagged;
  rr_status : list status;
  rr_err : option run_err;
  rr_writes : taglog               (* what Run wrote into the detectors' own Finding values *)
}.

Definition detector_run (px : index) (dets : list detector) (ctx_cancelled : bool) : run_result :=
  let '(st, aborted) := run_loop px dets ctx_cancelled loop_init in
  if aborted then mkRun (l_calls st) [] [] (Some ErrCtx) (l_log st)
  else match validate_advisories (map t_finding (l_acc st)) with
       | Some _ => mkRun (l_calls st) [] (l_status st) (Some ErrAdvisory) (l_log st)
       | None => mkRun (l_calls st) (l_acc st) (l_status st) None (l_log st)
       end.

(* ------------------------------------------------------------------ tail of Scanner.Scan *)
(* after both extraction phases succeeded: inventory = filesystem packages ++ standalone packages;
   px = packageindex.New(inventory); detector.Run; findings appended EVEN when Run failed (then they
   are empty); DetectorStatus = what Run returned; Err set -> ScanStatusFailed *)
Record scan_out := mkScanOut {
  so_calls : list (N * index);
  so_findings : list tagged;
  so_plugin_status : list status;      (* ExtractorStatus ++ DetectorStatus (Go sorts by name afterwards) *)
  so_failed : bool
}.
Definition scan_tail (fs_pkgs sa_pkgs : list pkg) (ext_status : list status) (dets : list detector) : scan_out :=
  let px := index_new (fs_pkgs ++ sa_pkgs) in
  let r := detector_run px dets false in
  mkScanOut (rr_calls r) (rr_findings r) (ext_status ++ rr_status r)
            (match rr_err r with Some _ => true | None => false end).

(* ------------------------------------------------------------------ SPEC (declarative) *)
(* all findings the detectors return, in run order *)
Definition all_findings (dets : list detector) : list finding := flat_map (fun d => map snd (d_results d)) dets.

(* "two findings share an advisory ID but differ in advisory content, or a finding lacks an advisory
   [or its ID]" - negated: *)
Definition finding_complete (f : finding) : bool :=
  match f_adv f with Some a => match a_id a with Some _ => true | None => false end | None => false end.
Definition agree (f g : finding) : bool :=
  match f_adv f, f_adv g with
  | Some a, Some b => if optid_eqb (a_id a) (a_id b) then advisory_eqb a b else true
  | _, _ => true
  end.
Definition advisories_consistent (fs : list finding) : bool :=
  forallb finding_complete fs && forallb (fun f => forallb (agree f) fs) fs.

(* every finding tagged with the detector that returned it *)
Definition expected_findings (dets : list detector) : list tagged :=
  flat_map (fun d => map (fun r => mkTagged (snd r) [d_name d]) (d_results d)) dets.
Definition expected_status (dets : list detector) : list status := map status_from_err dets.

(* context never cancelled while a later detector is still to run *)
Definition no_cancel (dets : list detector) : bool := forallb (fun d => negb (d_cancels d)) dets.

(* the pointers a detector returns (used to observe the detectors' own Finding values after the run) *)
Definition ptrs (d : detector) : list N := map fst (d_results d).

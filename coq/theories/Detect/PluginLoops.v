(* C10, plugin-loop half: the per-plugin context checks of standalone.Run
   (extractor/standalone/standalone.go) and detector.Run (detector/detector.go, modelled in
   Detect/Model.v) and the part of Scanner.Scan (scalibr.go) after the filesystem walk.
   Model + spec only; proofs are in Detect/PluginLoopsProofs.v. *)
From Coq Require Import List NArith ZArith Bool.
From Scalibr Require Import Detect.Index Detect.Model.
Import ListNotations.
Open Scope N_scope.

(* a (fake) standalone extractor: what Extract returns, whether it returns an error, whether the
   scan's context gets cancelled while it runs (by the plugin itself or by anybody else before the
   next plugin starts - the loop cannot tell the difference) *)
Record sa_ext := mkSa {
  x_name : N;
  x_version : Z;
  x_pkgs : list pkg;
  x_fails : bool;
  x_cancels : bool
}.
Definition sa_status (x : sa_ext) : status :=
  mkStatus (x_name x) (x_version x) (if x_fails x then ST_FAILED else ST_SUCCEEDED).

(* ------------------------------------------------------------------ standalone.Run *)
Record sa_state := mkSaSt { ss_calls : list N; ss_inv : list pkg; ss_status : list status }.
Definition sa_init : sa_state := mkSaSt [] [] [].
(*   exInv, err := extractor.Extract(ctx, scanInput)
     if err != nil { statuses = append(statuses, StatusFromErr(extractor, false, err)); continue }
     inv.Append(exInv); statuses = append(statuses, StatusFromErr(extractor, false, nil))          *)
Definition sa_step (st : sa_state) (x : sa_ext) : sa_state :=
  mkSaSt (ss_calls st ++ [x_name x])
         (if x_fails x then ss_inv st else ss_inv st ++ x_pkgs x)
         (ss_status st ++ [sa_status x]).

(* for each extractor: `if ctx.Err() != nil { return inventory.Inventory{}, nil, ctx.Err() }`.
   Result: state, left through that return?, context state at the end *)
Fixpoint sa_loop (xs : list sa_ext) (cancelled : bool) (st : sa_state) : sa_state * bool * bool :=
  match xs with
  | [] => (st, false, cancelled)
  | x :: xs' => if cancelled then (st, true, cancelled) else sa_loop xs' (cancelled || x_cancels x) (sa_step st x)
  end.

Record sa_result := mkSaRes {
  sr_calls : list N;          (* Extract calls made, in order *)
  sr_inv : list pkg;
  sr_status : list status;
  sr_err : bool;              (* returned ctx.Err() *)
  sr_ctx : bool               (* context cancelled when Run returns *)
}.
Definition standalone_run (xs : list sa_ext) (cancelled : bool) : sa_result :=
  let '(st, aborted, c) := sa_loop xs cancelled sa_init in
  if aborted then mkSaRes (ss_calls st) [] [] true c
  else mkSaRes (ss_calls st) (ss_inv st) (ss_status st) false c.

(* ------------------------------------------------------------------ Scan after the filesystem walk *)
(*   inv, extractorStatus, err := filesystem.Run(...)     -- inputs: walk_failed, fs_pkgs, fs_status
     if err != nil { fail }
     standaloneInv, standaloneStatus, err := standalone.Run(ctx, standaloneCfg)
     if err != nil { sro.Err = err; return newScanResult(sro) }           -- inventory/status of the walk only
     sro.Inventory.Append(standaloneInv); sro.ExtractorStatus = append(..., standaloneStatus...)
     px, _ := packageindex.New(sro.Inventory.Packages)
     findings, detectorStatus, err := detector.Run(ctx, ..., config.Detectors, ..., px)
     sro.Inventory.Findings = append(..., findings...); sro.DetectorStatus = detectorStatus
     if err != nil { sro.Err = err }
     newScanResult: Status = Failed iff Err != nil; PluginStatus = ExtractorStatus ++ DetectorStatus *)
Record plugins_out := mkPOut {
  po_calls : list N;            (* plugins invoked after the walk, in order: standalone extractors, then detectors *)
  po_failed : bool;             (* ScanResult.Status.Status = ScanStatusFailed *)
  po_status : list status;      (* ScanResult.PluginStatus (Go sorts it afterwards) *)
  po_pkgs : list pkg;           (* ScanResult.Inventory.Packages (Go sorts it afterwards) *)
  po_findings : list tagged
}.

Definition scan_plugins (walk_failed : bool) (fs_pkgs : list pkg) (fs_status : list status)
    (cancelled : bool) (sas : list sa_ext) (dets : list detector) : plugins_out :=
  if walk_failed then mkPOut [] true [] [] []
  else
    let sr := standalone_run sas cancelled in
    if sr_err sr then mkPOut (sr_calls sr) true fs_status fs_pkgs []
    else
      let pkgs := fs_pkgs ++ sr_inv sr in
      let r := detector_run (index_new pkgs) dets (sr_ctx sr) in
      mkPOut (sr_calls sr ++ map fst (rr_calls r))
             (match rr_err r with Some _ => true | None => false end)
             (fs_status ++ sr_status sr ++ rr_status r) pkgs (rr_findings r).

(* ------------------------------------------------------------------ SPEC (declarative) *)
(* the plugin sequence of the phase and, per plugin, whether the context is cancelled while it runs *)
Definition plugin_names (sas : list sa_ext) (dets : list detector) : list N := map x_name sas ++ map d_name dets.
Definition cancel_flags (sas : list sa_ext) (dets : list detector) : list bool := map x_cancels sas ++ map d_cancels dets.

(* "the context is cancelled by the time plugin number k (0-based) has finished" *)
Definition cancelled_by (cancelled0 : bool) (flags : list bool) (k : nat) : Prop :=
  cancelled0 = true \/ exists j, (j <= k)%nat /\ nth j flags false = true.
Definition never_cancelled (cancelled0 : bool) (flags : list bool) : Prop :=
  cancelled0 = false /\ forall j, nth j flags false = false.

(* boolean oracle used on observed runs: position of the first cancelling plugin *)
Fixpoint first_true (flags : list bool) : option nat :=
  match flags with
  | [] => None
  | true :: _ => Some O
  | false :: fs => option_map S (first_true fs)
  end.

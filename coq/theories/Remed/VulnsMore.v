(* C18, further consequences: the decision does not depend on how a record lists its events,
   ranges or affected entries, and a single introduced/fixed (introduced/last_affected) range is
   the half-open (closed) interval the OSV schema describes. Proofs only. *)
From Coq Require Import List ZArith NArith Bool Permutation Lia.
From Scalibr Require Import Lib.SortSearch Remed.Vulns Remed.VulnsProofs.
Import ListNotations.
Open Scope Z_scope.

Lemma isort_perm_eq evs evs' :
  Permutation evs evs' -> wf_events evs = true -> isort sort_cmp evs' = isort sort_cmp evs.
Proof.
  intros HP HW. unfold wf_events, wf_sorted in HW. apply andb_true_iff in HW as [HS _].
  apply ordered_events_unique; [|exact HS].
  eapply Permutation_trans; [|exact HP]. apply Permutation_sym, isort_perm.
Qed.

Theorem range_hit_event_order_irrelevant evs evs' v :
  Permutation evs evs' -> wf_events evs = true -> range_hit evs' v = range_hit evs v.
Proof.
  intros HP HW. rewrite !range_hit_unfold, (isort_perm_eq evs evs' HP HW). reflexivity.
Qed.

Lemma wf_events_perm evs evs' :
  Permutation evs evs' -> wf_events evs = true -> wf_events evs' = true.
Proof. intros HP HW. unfold wf_events. rewrite (isort_perm_eq evs evs' HP HW). exact HW. Qed.

Theorem is_affected_entry_order_irrelevant vuln vuln' q :
  Permutation vuln vuln' -> is_affected vuln' q = is_affected vuln q.
Proof.
  intros HP. unfold is_affected. f_equal. apply existsb_perm, Permutation_sym, HP.
Qed.

Theorem affected_range_order_irrelevant a rs' q :
  Permutation (a_ranges a) rs' ->
  affected_matches range_hit {| a_eco := a_eco a; a_name := a_name a; a_versions := a_versions a; a_ranges := rs' |} q
  = affected_matches range_hit a q.
Proof.
  intros HP. unfold affected_matches. cbn [a_eco a_name a_versions a_ranges].
  f_equal. f_equal. unfold type_ok. cbn [a_eco]. apply existsb_perm, Permutation_sym, HP.
Qed.

(* one interval, ranks a < b *)
Definition ev (k : ekind) (r : Z) : event := {| e_kind := k; e_zero := false; e_rank := r |}.
Definition ev0 : event := {| e_kind := Introduced; e_zero := true; e_rank := 0 |}.

Lemma wf_of_sorted s : ssorted sort_cmp s = true -> alternates true s = true -> wf_events s = true.
Proof.
  intros HS HA. unfold wf_events, wf_sorted.
  rewrite (ordered_events_unique s s (Permutation_refl s) HS), HS, HA. reflexivity.
Qed.

Lemma two_sorted k1 k2 a b : a < b -> ssorted sort_cmp [ev k1 a; ev k2 b] = true.
Proof.
  intros Hab. cbn. unfold ltb, sort_cmp, key, ev. cbn.
  destruct (Z.compare_spec a b); [lia|reflexivity|lia].
Qed.

Theorem interval_fixed a b v : a < b ->
  range_hit [ev Introduced a; ev Fixed b] v = (Z.leb a v && Z.ltb v b).
Proof.
  intros Hab. rewrite range_hit_eq_decl.
  - unfold osv_decl, closes, sort_cmp, key, is_intro, ev_le, ev_lt, ev. cbn.
    rewrite Z.compare_refl. destruct (Z.compare_spec a b); lia.
  - apply wf_of_sorted; [|reflexivity]. apply two_sorted. exact Hab.
Qed.

Theorem interval_last_affected a b v : a < b ->
  range_hit [ev Introduced a; ev LastAffected b] v = (Z.leb a v && Z.leb v b).
Proof.
  intros Hab. rewrite range_hit_eq_decl.
  - unfold osv_decl, closes, sort_cmp, key, is_intro, ev_le, ev_lt, ev. cbn.
    rewrite Z.compare_refl. destruct (Z.compare_spec a b); lia.
  - apply wf_of_sorted; [|reflexivity]. apply two_sorted. exact Hab.
Qed.

Theorem interval_from_zero b v :
  range_hit [ev0; ev Fixed b] v = Z.ltb v b.
Proof.
  rewrite range_hit_eq_decl.
  - unfold osv_decl, closes, sort_cmp, key, is_intro, ev_le, ev_lt, ev, ev0. cbn.
    destruct (Z.leb_spec b v), (Z.ltb_spec v b); cbn; try reflexivity; lia.
  - vm_compute. reflexivity.
Qed.

Theorem open_ended a v :
  range_hit [ev Introduced a] v = Z.leb a v.
Proof.
  rewrite range_hit_eq_decl.
  - unfold osv_decl, closes, sort_cmp, key, is_intro, ev_le, ev. cbn. rewrite Z.compare_refl.
    destruct (Z.leb a v); reflexivity.
  - vm_compute. reflexivity.
Qed.

(* a record is the disjunction of its entries: merging two records can only add matches *)
Theorem is_affected_app v1 v2 q :
  is_affected (v1 ++ v2) q = is_affected v1 q || is_affected v2 q.
Proof.
  unfold is_affected. rewrite existsb_app. destruct (q_known q); reflexivity.
Qed.

Theorem is_affected_monotone v1 v2 q :
  (forall a, In a v1 -> In a v2) -> is_affected v1 q = true -> is_affected v2 q = true.
Proof.
  unfold is_affected. intros Hsub H. apply andb_true_iff in H as [Hk He].
  rewrite Hk. cbn. apply existsb_exists in He as [a [Ha Hm]].
  apply existsb_exists. exists a. split; [apply Hsub; exact Ha|exact Hm].
Qed.

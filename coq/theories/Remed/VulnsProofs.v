From Coq Require Import List ZArith NArith Bool Lia Permutation.
From Scalibr Require Import Lib.SortSearch Remed.Vulns.
Import ListNotations.
Open Scope Z_scope.

Lemma sort_cmp_antisym a b : sort_cmp b a = CompOpp (sort_cmp a b).
Proof.
  unfold sort_cmp. destruct (key a), (key b); simpl; auto. apply Z.compare_antisym.
Qed.

Lemma sort_cmp_lt_trans a b c : sort_cmp a b = Lt -> sort_cmp b c = Lt -> sort_cmp a c = Lt.
Proof.
  unfold sort_cmp. destruct (key a), (key b), (key c); simpl; try congruence.
  rewrite !Z.compare_lt_iff. lia.
Qed.

(* the search comparator is monotone along the sort order *)
Lemma search_after e y v : sort_cmp e y = Lt -> search_cmp e v <> Lt -> search_cmp y v = Gt.
Proof.
  unfold sort_cmp, search_cmp. destruct (key e), (key y); simpl; try congruence.
  intros H1 H2. rewrite Z.compare_lt_iff in H1. apply Z.compare_gt_iff.
  destruct (Z.compare_spec z v); try congruence; lia.
Qed.

Lemma below_after e y v : sort_cmp e y = Lt -> below v e = false -> below v y = false.
Proof.
  intros H1 H2. unfold below in *. rewrite (search_after e y v H1); [reflexivity|].
  destruct (search_cmp e v); congruence.
Qed.

Lemma all_gt_ltb e l : all_gt sort_cmp e l = true -> forall y, In y l -> sort_cmp e y = Lt.
Proof.
  intros H y Hy. rewrite all_gt_In in H. specialize (H _ Hy). unfold ltb in H.
  destruct (sort_cmp e y); congruence.
Qed.

Lemma sorted_split s v : ssorted sort_cmp s = true ->
  exists a b, s = a ++ b /\ forallb (below v) a = true /\
              forallb (fun e => negb (below v e)) b = true.
Proof.
  induction s as [|e s IH]; intros HS.
  - exists [], []. auto.
  - simpl in HS. apply andb_true_iff in HS as [G S].
    destruct (below v e) eqn:E.
    + destruct (IH S) as (a & b & -> & Ha & Hb). exists (e :: a), b. simpl. rewrite E, Ha. auto.
    + exists [], (e :: s). simpl. rewrite E. simpl. repeat split; auto.
      apply forallb_forall. intros y Hy. rewrite (below_after e y v); auto.
      eapply all_gt_ltb; eauto.
Qed.

(* linear-search form of the decision *)
Fixpoint decide (prev_intro : bool) (s : list event) (v : Z) : bool :=
  match s with
  | [] => prev_intro
  | e :: s' =>
      match search_cmp e v with
      | Lt => decide (is_intro e) s' v
      | Eq => is_inclusive e
      | Gt => prev_intro
      end
  end.

Definition hit_sorted (s : list event) (v : Z) : bool :=
  let idx := bsearch_idx (below v) dummy_event s in
  let exact := (Nat.ltb idx (length s)) &&
               match search_cmp (nth idx s dummy_event) v with Eq => true | _ => false end in
  if exact then is_inclusive (nth idx s dummy_event)
  else if Nat.eqb idx 0 then false
  else is_intro (nth (idx - 1) s dummy_event).

Lemma range_hit_unfold evs v : range_hit evs v = hit_sorted (isort sort_cmp evs) v.
Proof. reflexivity. Qed.

Definition prev_of (a : list event) (p : bool) : bool :=
  match a with [] => p | _ => is_intro (last a dummy_event) end.

Lemma decide_app a b p v : forallb (below v) a = true ->
  decide p (a ++ b) v = decide (prev_of a p) b v.
Proof.
  revert p. induction a as [|e a IH]; intros p Ha; [reflexivity|].
  simpl in Ha. apply andb_true_iff in Ha as [He Ha].
  cbn [app decide]. unfold below in He. destruct (search_cmp e v); try discriminate.
  rewrite IH by exact Ha. destruct a as [|e' a]; reflexivity.
Qed.

Lemma nth_length_cons (x : event) a : nth (length a) (x :: a) dummy_event = last (x :: a) dummy_event.
Proof.
  revert x. induction a as [|y a IH]; intros x; [reflexivity|].
  change (nth (length (y :: a)) (x :: y :: a) dummy_event) with (nth (length a) (y :: a) dummy_event).
  rewrite IH. reflexivity.
Qed.

Lemma nth_last_app (a b : list event) : a <> [] ->
  nth (length a - 1) (a ++ b) dummy_event = last a dummy_event.
Proof.
  intros Hne. destruct a as [|x a]; [congruence|].
  rewrite app_nth1 by (simpl; lia).
  replace (length (x :: a) - 1)%nat with (length a) by (simpl; lia).
  apply nth_length_cons.
Qed.

Lemma hit_sorted_decide s v : ssorted sort_cmp s = true -> hit_sorted s v = decide false s v.
Proof.
  intros HS. destruct (sorted_split s v HS) as (a & b & -> & Ha & Hb).
  unfold hit_sorted. rewrite (bsearch_idx_spec _ _ a b Ha Hb).
  rewrite decide_app by exact Ha.
  rewrite app_length, app_nth2, Nat.sub_diag by lia.
  destruct b as [|e b].
  - simpl. replace (length a + 0 )%nat with (length a) by lia. rewrite Nat.ltb_irrefl. simpl.
    destruct a as [|x a]; [reflexivity|].
    change (Nat.eqb (length (x :: a)) 0) with false. cbv iota.
    rewrite nth_last_app by congruence. reflexivity.
  - assert (Hlt : Nat.ltb (length a) (length a + length (e :: b)) = true)
      by (apply Nat.ltb_lt; simpl; lia).
    rewrite Hlt. cbn [nth decide andb]. simpl in Hb. apply andb_true_iff in Hb as [He _].
    unfold below in He. destruct (search_cmp e v) eqn:E; try discriminate; [reflexivity|].
    destruct a as [|x a]; [reflexivity|].
    change (Nat.eqb (length (x :: a)) 0) with false. cbv iota.
    rewrite nth_last_app by congruence. reflexivity.
Qed.

Lemma step_gt v st y : search_cmp y v = Gt -> osv_step v st y = st.
Proof.
  unfold osv_step, search_cmp, ev_le, ev_lt. destruct (key y); [|discriminate].
  intros H. rewrite Z.compare_gt_iff in H.
  destruct (Z.leb_spec z v); [lia|]. destruct (Z.ltb_spec z v); [lia|]. destruct (e_kind y); reflexivity.
Qed.

Lemma fold_all_gt v st l : (forall y, In y l -> search_cmp y v = Gt) ->
  fold_left (osv_step v) l st = st.
Proof.
  revert st. induction l as [|y l IH]; intros st H; [reflexivity|].
  simpl. rewrite step_gt by (apply H; left; reflexivity). apply IH. intros z Hz. apply H. right. exact Hz.
Qed.

Lemma decide_scan s : forall p v, ssorted sort_cmp s = true -> alternates (negb p) s = true ->
  decide p s v = fold_left (osv_step v) s p.
Proof.
  induction s as [|e s IH]; intros p v HS HA; [reflexivity|].
  simpl in HS, HA. apply andb_true_iff in HS as [G S]. apply andb_true_iff in HA as [A1 A2].
  apply eqb_prop in A1. rewrite negb_involutive in A2.
  cbn [decide fold_left].
  destruct (search_cmp e v) eqn:E.
  - (* exactly on the event *)
    rewrite fold_all_gt.
    2:{ intros y Hy. apply (search_after e y v); [eapply all_gt_ltb; eauto|congruence]. }
    unfold osv_step, is_inclusive, ev_le, ev_lt. unfold search_cmp in E. unfold is_intro in A1.
    destruct (key e) as [r|]; [|discriminate]. apply Z.compare_eq in E. subst r.
    rewrite Z.leb_refl, Z.ltb_irrefl. destruct (e_kind e); try reflexivity.
    destruct p; simpl in A1; congruence.
  - (* strictly below v *)
    assert (Hstep : osv_step v p e = is_intro e).
    { unfold osv_step, is_intro, ev_le, ev_lt. unfold search_cmp in E.
      destruct (key e) as [r|].
      - rewrite Z.compare_lt_iff in E.
        destruct (Z.leb_spec r v); [|lia]. destruct (Z.ltb_spec r v); [|lia].
        destruct (e_kind e); reflexivity.
      - destruct (e_kind e); reflexivity. }
    rewrite Hstep. apply IH; [exact S|]. rewrite A1, negb_involutive. exact A2.
  - rewrite step_gt by exact E. rewrite fold_all_gt; [reflexivity|].
    intros y Hy. apply (search_after e y v); [eapply all_gt_ltb; eauto|congruence].
Qed.

Theorem range_hit_eq_scan evs v : wf_events evs = true -> range_hit evs v = osv_range evs v.
Proof.
  unfold wf_events, wf_sorted, osv_range, osv_scan. intros H. apply andb_true_iff in H as [HS HA].
  rewrite range_hit_unfold, hit_sorted_decide by exact HS.
  apply decide_scan; assumption.
Qed.

(* "once ordered": the order is forced *)
Theorem ordered_events_unique evs s :
  Permutation s evs -> ssorted sort_cmp s = true -> isort sort_cmp evs = s.
Proof. apply isort_unique; [apply sort_cmp_antisym|apply sort_cmp_lt_trans]. Qed.

Lemma existsb_ext_in {A} (f g : A -> bool) l : (forall x, In x l -> f x = g x) -> existsb f l = existsb g l.
Proof.
  induction l as [|x l IH]; intros H; [reflexivity|]. simpl.
  rewrite H by (left; reflexivity). rewrite IH; [reflexivity|]. intros y Hy. apply H. right. exact Hy.
Qed.

Theorem is_affected_eq_spec_lemma vuln q :
  wf_vuln vuln = true -> is_affected vuln q = osv_is_affected vuln q.
Proof.
  unfold wf_vuln, is_affected, osv_is_affected. intros H. f_equal.
  apply existsb_ext_in. intros a Ha. rewrite forallb_forall in H. specialize (H _ Ha).
  unfold affected_matches. f_equal. f_equal. apply existsb_ext_in. intros r Hr.
  rewrite forallb_forall in H. specialize (H _ Hr). rewrite range_hit_eq_scan by exact H. reflexivity.
Qed.

Theorem other_package_never_matches_lemma vuln q :
  (forall a, In a vuln -> a_name a <> q_name q \/ a_eco a <> q_eco q) -> is_affected vuln q = false.
Proof.
  intros H. unfold is_affected. destruct (q_known q); [|reflexivity]. simpl.
  induction vuln as [|a vuln IH]; [reflexivity|]. simpl.
  rewrite IH by (intros b Hb; apply H; right; exact Hb). rewrite orb_false_r.
  unfold affected_matches. destruct (H a (or_introl eq_refl)) as [Hn|He].
  - apply N.eqb_neq in Hn. rewrite Hn, andb_false_r. reflexivity.
  - apply N.eqb_neq in He. rewrite He. reflexivity.
Qed.

Theorem unknown_ecosystem_never_matches_lemma vuln q : q_known q = false -> is_affected vuln q = false.
Proof. intros H. unfold is_affected. rewrite H. reflexivity. Qed.

Theorem listed_version_matches_lemma vuln a q :
  q_known q = true -> In a vuln -> a_eco a = q_eco q -> a_name a = q_name q ->
  In (q_sid q) (a_versions a) -> is_affected vuln q = true.
Proof.
  intros Hk Ha He Hn Hv. unfold is_affected. rewrite Hk. simpl.
  apply existsb_exists. exists a. split; [exact Ha|]. unfold affected_matches.
  rewrite He, Hn, !N.eqb_refl. simpl. apply orb_true_iff. left.
  apply existsb_exists. exists (q_sid q). split; [exact Hv|apply N.eqb_refl].
Qed.

(* ------------------------------------------------------------------------------------------ *)
(* The declarative reading (osv_decl) agrees with the linear evaluation on well-formed ranges. *)

Definition closerb (v : Z) (c : event) : bool :=
  match e_kind c with Introduced => false | Fixed => ev_le c v | LastAffected => ev_lt c v end.

Fixpoint decl_rec (s : list event) (v : Z) : bool :=
  match s with
  | [] => false
  | e :: t => (is_intro e && ev_le e v && negb (existsb (closerb v) t)) || decl_rec t v
  end.

Lemma closes_lt i c v : sort_cmp i c = Lt -> closes i c v = closerb v c.
Proof. unfold closes, closerb. intros ->. reflexivity. Qed.

Lemma closes_not_lt i c v : sort_cmp i c <> Lt -> closes i c v = false.
Proof. unfold closes. destruct (sort_cmp i c); congruence. Qed.

Lemma existsb_false {A} (f : A -> bool) l : (forall x, In x l -> f x = false) -> existsb f l = false.
Proof.
  induction l as [|x l IH]; intros H; [reflexivity|]. simpl.
  rewrite H by (left; reflexivity). apply IH. intros y Hy. apply H. right. exact Hy.
Qed.

Lemma decl_unfold t : forall pre v,
  ssorted sort_cmp t = true ->
  (forall a b, In a pre -> In b t -> sort_cmp a b = Lt) ->
  existsb (fun i => is_intro i && ev_le i v && negb (existsb (fun c => closes i c v) (pre ++ t))) t
  = decl_rec t v.
Proof.
  induction t as [|e t IH]; intros pre v HS Hpre; [reflexivity|].
  simpl in HS. apply andb_true_iff in HS as [G S].
  cbn [existsb decl_rec]. f_equal.
  - f_equal. f_equal. rewrite existsb_app. cbn [existsb].
    rewrite (existsb_false _ pre).
    2:{ intros c Hc. apply closes_not_lt. rewrite (sort_cmp_antisym c e).
        rewrite (Hpre c e Hc (or_introl eq_refl)). simpl. congruence. }
    rewrite (closes_not_lt e e) by (rewrite (cmp_refl_eq sort_cmp sort_cmp_antisym); congruence).
    simpl. apply existsb_ext_in. intros c Hc. apply closes_lt. eapply all_gt_ltb; eauto.
  - specialize (IH (pre ++ [e]) v S).
    rewrite <- app_assoc in IH. simpl in IH. apply IH.
    intros a b Ha Hb. apply in_app_or in Ha as [Ha|[<-|[]]].
    + apply Hpre; [exact Ha|right; exact Hb].
    + eapply all_gt_ltb; eauto.
Qed.

Lemma osv_decl_rec s v : ssorted sort_cmp s = true -> osv_decl s v = decl_rec s v.
Proof. intros HS. unfold osv_decl. apply (decl_unfold s [] v HS). intros a b []. Qed.

Lemma above_no_closer v t : (forall y, In y t -> search_cmp y v = Gt) ->
  existsb (closerb v) t = false /\ decl_rec t v = false.
Proof.
  induction t as [|c t IH]; intros H; [split; reflexivity|].
  destruct IH as [I1 I2]; [intros y Hy; apply H; right; exact Hy|].
  assert (Hc := H c (or_introl eq_refl)).
  assert (ev_le c v = false /\ ev_lt c v = false) as [L1 L2].
  { unfold search_cmp in Hc. unfold ev_le, ev_lt. destruct (key c) as [r|]; [|discriminate].
    rewrite Z.compare_gt_iff in Hc. split; [apply Z.leb_gt|apply Z.ltb_ge]; lia. }
  split; cbn [existsb decl_rec].
  - rewrite I1. unfold closerb. rewrite L1, L2. destruct (e_kind c); reflexivity.
  - rewrite I2, L1, andb_false_r. reflexivity.
Qed.

Lemma decide_decl s : forall p v, ssorted sort_cmp s = true -> alternates (negb p) s = true ->
  decide p s v = (p && negb (existsb (closerb v) s)) || decl_rec s v.
Proof.
  induction s as [|e s IH]; intros p v HS HA.
  - simpl. rewrite andb_true_r, orb_false_r. reflexivity.
  - simpl in HS, HA. apply andb_true_iff in HS as [G S]. apply andb_true_iff in HA as [A1 A2].
    apply eqb_prop in A1. rewrite negb_involutive in A2.
    assert (Habove : search_cmp e v <> Lt -> forall y, In y s -> search_cmp y v = Gt).
    { intros Hn y Hy. apply (search_after e y v); [eapply all_gt_ltb; eauto|exact Hn]. }
    cbn [decide existsb decl_rec].
    destruct (search_cmp e v) eqn:E.
    + destruct (above_no_closer v s (Habove ltac:(congruence))) as [N1 N2].
      rewrite N1, N2. unfold search_cmp in E. unfold closerb, is_inclusive, ev_le, ev_lt. unfold is_intro in A1 |- *.
      destruct (key e) as [r|]; [|discriminate]. apply Z.compare_eq in E. subst r.
      rewrite Z.leb_refl, Z.ltb_irrefl.
      destruct (e_kind e), p; simpl in *; congruence.
    + assert (ev_le e v = true /\ ev_lt e v = true) as [L1 L2].
      { unfold search_cmp in E. unfold ev_le, ev_lt. destruct (key e) as [r|]; [|auto].
        rewrite Z.compare_lt_iff in E. split; [apply Z.leb_le|apply Z.ltb_lt]; lia. }
      rewrite IH; [|exact S|rewrite A1, negb_involutive; exact A2].
      assert (Hc : closerb v e = negb (is_intro e)).
      { unfold closerb, is_intro. rewrite L1, L2. destruct (e_kind e); reflexivity. }
      rewrite L1, Hc, A1. destruct p; simpl; reflexivity.
    + destruct (above_no_closer v (e :: s)) as [N1 N2].
      { intros y [<-|Hy]; [exact E|apply Habove; [congruence|exact Hy]]. }
      cbn [existsb decl_rec] in N1, N2. rewrite N1, N2. simpl. rewrite andb_true_r, orb_false_r. reflexivity.
Qed.

Lemma existsb_perm {A} (f : A -> bool) l l' : Permutation l l' -> existsb f l = existsb f l'.
Proof.
  induction 1; simpl; auto.
  - congruence.
  - destruct (f x), (f y); reflexivity.
  - congruence.
Qed.

Lemma osv_decl_perm l l' v : Permutation l l' -> osv_decl l v = osv_decl l' v.
Proof.
  intros HP. unfold osv_decl. rewrite (existsb_perm _ l l' HP).
  apply existsb_ext_in. intros i _. rewrite (existsb_perm _ l l' HP). reflexivity.
Qed.

Theorem range_hit_eq_decl evs v : wf_events evs = true -> range_hit evs v = osv_decl evs v.
Proof.
  intros H. assert (H' := H). unfold wf_events, wf_sorted in H'. apply andb_true_iff in H' as [HS HA].
  rewrite range_hit_unfold, hit_sorted_decide by exact HS.
  rewrite (osv_decl_perm evs (isort sort_cmp evs) v (isort_perm sort_cmp evs)).
  rewrite osv_decl_rec by exact HS.
  rewrite (decide_decl _ false v HS HA). reflexivity.
Qed.

(* Model of guidedremediation/internal/vulns.IsAffected (vulns.go) and the OSV evaluation spec.
   No proofs here: this file must keep evaluating when a proof breaks. *)
From Coq Require Import List ZArith NArith Bool.
From Scalibr Require Import Lib.SortSearch.
Import ListNotations.
Open Scope Z_scope.

Inductive ekind := Introduced | Fixed | LastAffected.

(* An event's version string: the literal "0" is recognised by string equality in the Go code;
   every other string is represented by its rank under the ecosystem comparator (sys.Compare). *)
Record event := { e_kind : ekind; e_zero : bool; e_rank : Z }.

Inductive rtype := RT_ECOSYSTEM | RT_SEMVER | RT_OTHER.
Record range := { r_type : rtype; r_events : list event }.

Record affected := {
  a_eco : N;                 (* affected.Package.Ecosystem, as an id; 0 = "npm" *)
  a_name : N;
  a_versions : list N;       (* explicit version strings, as string ids *)
  a_ranges : list range }.

Record query := {
  q_known : bool;            (* OSVToDepsDevEcosystem(pkg.Ecosystem()) <> UnknownSystem *)
  q_eco : N; q_name : N;
  q_sid : N;                 (* pkg.Version as a string id *)
  q_rank : Z }.              (* pkg.Version's rank under sys.Compare *)

(* key of an event's version: None = the literal "0" *)
Definition key (e : event) : option Z := if e_zero e then None else Some (e_rank e).

(* the comparator handed to slices.SortFunc *)
Definition sort_cmp (a b : event) : comparison :=
  match key a, key b with
  | None, None => Eq
  | None, Some _ => Lt
  | Some _, None => Gt
  | Some x, Some y => Z.compare x y
  end.

(* the comparator handed to slices.BinarySearchFunc *)
Definition search_cmp (e : event) (v : Z) : comparison :=
  match key e with None => Lt | Some r => Z.compare r v end.

Definition below (v : Z) (e : event) : bool :=
  match search_cmp e v with Lt => true | _ => false end.

Definition dummy_event : event := {| e_kind := Fixed; e_zero := false; e_rank := 0 |}.

Definition is_intro (e : event) : bool := match e_kind e with Introduced => true | _ => false end.
Definition is_inclusive (e : event) : bool :=
  match e_kind e with Introduced | LastAffected => true | Fixed => false end.

(* body of the range loop after the type filter *)
Definition range_hit (evs : list event) (v : Z) : bool :=
  let s := isort sort_cmp evs in
  let idx := bsearch_idx (below v) dummy_event s in
  let exact := (Nat.ltb idx (length s)) &&
               match search_cmp (nth idx s dummy_event) v with Eq => true | _ => false end in
  if exact then is_inclusive (nth idx s dummy_event)
  else if Nat.eqb idx 0 then false
  else is_intro (nth (idx - 1) s dummy_event).

Definition type_ok (r : range) (a : affected) : bool :=
  match r_type r with
  | RT_ECOSYSTEM => true
  | RT_SEMVER => N.eqb (a_eco a) 0
  | RT_OTHER => false
  end.

Definition affected_matches (range_pred : list event -> Z -> bool) (a : affected) (q : query) : bool :=
  N.eqb (a_eco a) (q_eco q) && N.eqb (a_name a) (q_name q) &&
  (existsb (N.eqb (q_sid q)) (a_versions a) ||
   existsb (fun r => type_ok r a && range_pred (r_events r) (q_rank q)) (a_ranges a)).

Definition is_affected (vuln : list affected) (q : query) : bool :=
  q_known q && existsb (fun a => affected_matches range_hit a q) vuln.

(* ------------------------------------------------------------------ spec *)
(* OSV specification, "Evaluation": walk the events in version order;
     introduced <= v  opens,  fixed <= v closes,  last_affected < v closes;
   "0" precedes every version. *)
Definition ev_le (e : event) (v : Z) : bool := match key e with None => true | Some r => Z.leb r v end.
Definition ev_lt (e : event) (v : Z) : bool := match key e with None => true | Some r => Z.ltb r v end.

Definition osv_step (v : Z) (st : bool) (e : event) : bool :=
  match e_kind e with
  | Introduced => if ev_le e v then true else st
  | Fixed => if ev_le e v then false else st
  | LastAffected => if ev_lt e v then false else st
  end.

Definition osv_scan (sorted_events : list event) (v : Z) : bool :=
  fold_left (osv_step v) sorted_events false.

(* well-formed: once ordered the events have pairwise different versions and alternate
   introduced / (fixed | last_affected), starting with introduced *)
Fixpoint alternates (expect_intro : bool) (l : list event) : bool :=
  match l with
  | [] => true
  | e :: l' => Bool.eqb (is_intro e) expect_intro && alternates (negb expect_intro) l'
  end.

Definition wf_sorted (s : list event) : bool := ssorted sort_cmp s && alternates true s.
Definition wf_events (evs : list event) : bool := wf_sorted (isort sort_cmp evs).

Definition osv_range (evs : list event) (v : Z) : bool := osv_scan (isort sort_cmp evs) v.

Definition osv_is_affected (vuln : list affected) (q : query) : bool :=
  q_known q && existsb (fun a => affected_matches osv_range a q) vuln.

Definition wf_vuln (vuln : list affected) : bool :=
  forallb (fun a => forallb (fun r => wf_events (r_events r)) (a_ranges a)) vuln.

(* declarative reading of the property sentence: v lies in an interval opened by an introduced
   event and not closed by a fixed event at or before v or a last_affected event before v *)
Definition closes (i c : event) (v : Z) : bool :=
  match sort_cmp i c with
  | Lt => match e_kind c with
          | Introduced => false
          | Fixed => ev_le c v
          | LastAffected => ev_lt c v
          end
  | _ => false
  end.
Definition osv_decl (evs : list event) (v : Z) : bool :=
  existsb (fun i => is_intro i && ev_le i v && negb (existsb (fun c => closes i c v) evs)) evs.

(* ------------------------------------------------------------------ correspondence record *)
Record vcase := { c_vuln : list affected; c_queries : list query; c_observed : list bool }.

Definition case_model_ok (c : vcase) : bool :=
  Nat.eqb (length (c_queries c)) (length (c_observed c)) &&
  forallb (fun qo => Bool.eqb (is_affected (c_vuln c) (fst qo)) (snd qo))
          (combine (c_queries c) (c_observed c)).

(* spec evaluated on what the implementation returned; only claimed for well-formed records *)
Definition decl_is_affected (vuln : list affected) (q : query) : bool :=
  q_known q && existsb (fun a => affected_matches osv_decl a q) vuln.

Definition case_spec_ok (c : vcase) : bool :=
  negb (wf_vuln (c_vuln c)) ||
  forallb (fun qo => Bool.eqb (osv_is_affected (c_vuln c) (fst qo)) (snd qo) &&
                     Bool.eqb (decl_is_affected (c_vuln c) (fst qo)) (snd qo))
          (combine (c_queries c) (c_observed c)).

Fixpoint bad_indices {A} (f : A -> bool) (l : list A) (i : nat) : list nat :=
  match l with
  | [] => []
  | x :: l' => if f x then bad_indices f l' (S i) else i :: bad_indices f l' (S i)
  end.

(* C18 - Affected-version decisions follow the OSV range rules.
   Only statements here; proofs are in VulnsProofs.v. *)
From Coq Require Import List ZArith NArith Bool Permutation.
From Scalibr Require Import Lib.SortSearch Remed.Vulns Remed.VulnsProofs Remed.VulnsMore.
Import ListNotations.
Open Scope Z_scope.

(* For every record whose ranges are well-formed -- any number of affected entries, ranges and
   events, listed in any order -- the implementation's decision equals the OSV evaluation. *)
Theorem is_affected_eq_spec : forall vuln q,
  wf_vuln vuln = true -> is_affected vuln q = osv_is_affected vuln q.
Proof. exact is_affected_eq_spec_lemma. Qed.
Print Assumptions is_affected_eq_spec.

(* per range, with the ordering made explicit: whatever strictly ordered arrangement s of the
   listed events one takes, it is the one the implementation decides on *)
Theorem range_decision_on_any_ordering : forall evs s v,
  Permutation s evs -> wf_sorted s = true -> range_hit evs v = osv_scan s v.
Proof.
  intros evs s v HP HW. assert (HS := HW). unfold wf_sorted in HS. apply andb_true_iff in HS as [HS _].
  pose proof (ordered_events_unique evs s HP HS) as E.
  rewrite range_hit_eq_scan; [unfold osv_range; rewrite E; reflexivity|].
  unfold wf_events. rewrite E. exact HW.
Qed.
Print Assumptions range_decision_on_any_ordering.

(* the same decision in the words of the property: v lies in an interval opened by an introduced
   event ("0" preceding every version) that is not closed by a fixed event at or before v or a
   last_affected event before v -- stated on the events as listed, no sorting involved *)
Theorem range_decision_eq_declarative : forall evs v,
  wf_events evs = true -> range_hit evs v = osv_decl evs v.
Proof. exact range_hit_eq_decl. Qed.
Print Assumptions range_decision_eq_declarative.

Theorem other_package_never_matches : forall vuln q,
  (forall a, In a vuln -> a_name a <> q_name q \/ a_eco a <> q_eco q) -> is_affected vuln q = false.
Proof. exact other_package_never_matches_lemma. Qed.
Print Assumptions other_package_never_matches.

Theorem unknown_ecosystem_never_matches : forall vuln q,
  q_known q = false -> is_affected vuln q = false.
Proof. exact unknown_ecosystem_never_matches_lemma. Qed.
Print Assumptions unknown_ecosystem_never_matches.

Theorem listed_version_matches : forall vuln a q,
  q_known q = true -> In a vuln -> a_eco a = q_eco q -> a_name a = q_name q ->
  In (q_sid q) (a_versions a) -> is_affected vuln q = true.
Proof. exact listed_version_matches_lemma. Qed.
Print Assumptions listed_version_matches.

(* what must not matter: the order in which a record lists its events, its ranges and its
   affected entries (the implementation sorts a copy of the events; the rest is existsb) *)
Theorem event_order_irrelevant : forall evs evs' v,
  Permutation evs evs' -> wf_events evs = true -> range_hit evs' v = range_hit evs v.
Proof. exact range_hit_event_order_irrelevant. Qed.
Print Assumptions event_order_irrelevant.

Theorem wellformedness_is_order_free : forall evs evs',
  Permutation evs evs' -> wf_events evs = true -> wf_events evs' = true.
Proof. exact wf_events_perm. Qed.
Print Assumptions wellformedness_is_order_free.

Theorem entry_order_irrelevant : forall vuln vuln' q,
  Permutation vuln vuln' -> is_affected vuln' q = is_affected vuln q.
Proof. exact is_affected_entry_order_irrelevant. Qed.
Print Assumptions entry_order_irrelevant.

Theorem range_order_irrelevant : forall a rs' q,
  Permutation (a_ranges a) rs' ->
  affected_matches range_hit {| a_eco := a_eco a; a_name := a_name a; a_versions := a_versions a; a_ranges := rs' |} q
  = affected_matches range_hit a q.
Proof. exact affected_range_order_irrelevant. Qed.
Print Assumptions range_order_irrelevant.

(* the boundary rules in closed form, for every pair of ranks a < b: introduced is inclusive,
   fixed exclusive, last_affected inclusive, "0" precedes every version, no closing event = open end *)
Theorem introduced_fixed_is_half_open : forall a b v, a < b ->
  range_hit [ev Introduced a; ev Fixed b] v = (Z.leb a v && Z.ltb v b).
Proof. exact interval_fixed. Qed.
Print Assumptions introduced_fixed_is_half_open.

Theorem introduced_last_affected_is_closed : forall a b v, a < b ->
  range_hit [ev Introduced a; ev LastAffected b] v = (Z.leb a v && Z.leb v b).
Proof. exact interval_last_affected. Qed.
Print Assumptions introduced_last_affected_is_closed.

Theorem zero_precedes_every_version : forall b v,
  range_hit [ev0; ev Fixed b] v = Z.ltb v b.
Proof. exact interval_from_zero. Qed.
Print Assumptions zero_precedes_every_version.

Theorem no_closing_event_is_open_ended : forall a v,
  range_hit [ev Introduced a] v = Z.leb a v.
Proof. exact open_ended. Qed.
Print Assumptions no_closing_event_is_open_ended.

(* a record is the disjunction of its entries; a larger record never loses a match *)
Theorem record_is_disjunction_of_entries : forall v1 v2 q,
  is_affected (v1 ++ v2) q = is_affected v1 q || is_affected v2 q.
Proof. exact is_affected_app. Qed.
Print Assumptions record_is_disjunction_of_entries.

Theorem more_entries_never_lose_a_match : forall v1 v2 q,
  (forall a, In a v1 -> In a v2) -> is_affected v1 q = true -> is_affected v2 q = true.
Proof. exact is_affected_monotone. Qed.
Print Assumptions more_entries_never_lose_a_match.

(* non-vacuity: a well-formed record listed out of order, with "0", fixed and last_affected *)
Definition ex_events : list event :=
  [ {| e_kind := Fixed; e_zero := false; e_rank := 3 |};
    {| e_kind := LastAffected; e_zero := false; e_rank := 9 |};
    {| e_kind := Introduced; e_zero := true; e_rank := 0 |};
    {| e_kind := Introduced; e_zero := false; e_rank := 5 |} ].
Definition ex_vuln : list affected :=
  [ {| a_eco := 0; a_name := 7; a_versions := [42%N];
       a_ranges := [ {| r_type := RT_SEMVER; r_events := ex_events |} ] |} ].
Definition ex_q (r : Z) : query := {| q_known := true; q_eco := 0; q_name := 7; q_sid := 1; q_rank := r |}.

Example wf_example : wf_vuln ex_vuln = true.
Proof. vm_compute. reflexivity. Qed.

Example decisions_example :
  map (fun r => is_affected ex_vuln (ex_q r)) [0; 2; 3; 4; 5; 9; 10] =
  [true; true; false; false; true; true; false].
Proof. vm_compute. reflexivity. Qed.

(* Structure of FromV1Image, for every image: each chain-layer view is the result of a sequence of
   guarded inserts (fill_one) applied to the root-only tree, and only nodes of layers <= k reach view k. *)
From Coq Require Import List NArith ZArith Bool Lia PeanoNat.
From Scalibr Require Import Lib.SortSearch Image.PathTree Image.PathTreeProofs Image.Fill Image.FillProofs.
Import ListNotations.

Definition fop := (list seg * fnode)%type.
Definition apply_ops (ops : list fop) (t : ftrie) : ftrie :=
  fold_left (fun t op => fill_one (fst op) (snd op) t) ops t.

Lemma apply_ops_app a b t : apply_ops (a ++ b) t = apply_ops b (apply_ops a t).
Proof. unfold apply_ops. apply fold_left_app. Qed.

Lemma fill_from_length i vs n cs : length (fill_from i vs n cs) = length cs.
Proof.
  unfold fill_from. rewrite app_length, map_length, firstn_length, skipn_length. lia.
Qed.

Definition touched (i k len : nat) : bool := Nat.leb i k && Nat.ltb k len.

Lemma fill_from_nth' i vs n cs k :
  nth k (fill_from i vs n cs) empty_trie =
  if touched i k (length cs) then fill_one vs n (nth k cs empty_trie) else nth k cs empty_trie.
Proof.
  rewrite fill_from_nth. unfold touched.
  destruct (Nat.leb i k); simpl; [|reflexivity].
  destruct (Nat.ltb k (length cs)) eqn:L; [reflexivity|].
  apply Nat.ltb_ge in L. symmetry. apply nth_overflow. exact L.
Qed.

(* what a sequence of fills from layer i does to the list of chain layers *)
Definition fills_from (i : nat) (ops : list fop) (cs cs' : list ftrie) : Prop :=
  length cs' = length cs /\
  forall k, nth k cs' empty_trie =
            if touched i k (length cs) then apply_ops ops (nth k cs empty_trie) else nth k cs empty_trie.

Lemma fills_from_nil i cs : fills_from i [] cs cs.
Proof. split; [reflexivity|]. intro k. destruct (touched i k (length cs)); reflexivity. Qed.

Lemma fills_from_step i ops cs cs' vs n :
  fills_from i ops cs cs' -> fills_from i (ops ++ [(vs, n)]) cs (fill_from i vs n cs').
Proof.
  intros [L H]. split; [rewrite fill_from_length; exact L|].
  intro k. rewrite fill_from_nth', L, H.
  destruct (touched i k (length cs)); [|reflexivity].
  rewrite apply_ops_app. reflexivity.
Qed.

Lemma fills_from_trans i a b cs1 cs2 cs3 :
  fills_from i a cs1 cs2 -> fills_from i b cs2 cs3 -> fills_from i (a ++ b) cs1 cs3.
Proof.
  intros [L1 H1] [L2 H2]. split; [congruence|].
  intro k. rewrite H2, L1, H1. destruct (touched i k (length cs1)); [|reflexivity].
  rewrite apply_ops_app. reflexivity.
Qed.

Definition from_layer (i : nat) (ops : list fop) : Prop := Forall (fun op => fn_origin (snd op) = i) ops.

Lemma populate_go_fills i ps : forall cs, exists ops, fills_from i ops cs (populate_go i ps cs) /\ from_layer i ops.
Proof.
  induction ps as [|p r IH]; intro cs; simpl.
  - exists []. split; [apply fills_from_nil|constructor].
  - destruct (get (nth i cs empty_trie) (render_abs p)).
    + apply IH.
    + destruct (IH (fill_from i p (dir_node i p) cs)) as (ops & F & O).
      exists ((p, dir_node i p) :: ops). split.
      * change ((p, dir_node i p) :: ops) with ([(p, dir_node i p)] ++ ops).
        eapply fills_from_trans; [|exact F].
        apply (fills_from_step i [] cs cs p (dir_node i p)). apply fills_from_nil.
      * constructor; [reflexivity|exact O].
Qed.

(* one tar entry: the chain layers change by a sequence of fills whose nodes all come from layer i *)
Lemma process_entry_fills cfg i st e st' :
  process_entry cfg i st e = Next st' ->
  exists ops, fills_from i ops (st_chains st) (st_chains st') /\ from_layer i ops.
Proof.
  unfold process_entry.
  assert (FIN : forall vsegs n d st',
            Next {| st_chains := fill_from i vsegs n (populate_dirs i vsegs (st_chains st)); st_disk := d |} = Next st' ->
            fn_origin n = i ->
            exists ops, fills_from i ops (st_chains st) (st_chains st') /\ from_layer i ops).
  { intros vsegs n d st0 E O. injection E as <-. simpl.
    destruct (populate_go_fills i (parent_prefixes vsegs) (st_chains st)) as (ops & F & FO).
    exists (ops ++ [(vsegs, n)]). split.
    - apply fills_from_step. exact F.
    - apply Forall_app. split; [exact FO|]. constructor; [exact O|constructor]. }
  assert (SAME : forall d st', Next {| st_chains := st_chains st; st_disk := d |} = Next st' ->
            exists ops, fills_from i ops (st_chains st) (st_chains st') /\ from_layer i ops).
  { intros d st0 E. injection E as <-. simpl. exists []. split; [apply fills_from_nil|constructor]. }
  destruct (clean_str (e_name e)) as [ab sg].
  repeat match goal with
         | |- context [if ?b then _ else _] => destruct b
         | |- context [match ?x with _ => _ end] => destruct x eqn:?
         end; intro H; try discriminate;
    first [ eapply FIN; [exact H|reflexivity] | eapply SAME; exact H ].
Qed.

Lemma process_layer_fills cfg i : forall es st st',
  process_layer cfg i es st = Some st' ->
  exists ops, fills_from i ops (st_chains st) (st_chains st') /\ from_layer i ops.
Proof.
  induction es as [|e r IH]; intros st st' H; simpl in H.
  - inversion H; subst. exists []. split; [apply fills_from_nil|constructor].
  - destruct (process_entry cfg i st e) as [| |st1] eqn:E; [eauto|discriminate|].
    destruct (process_entry_fills _ _ _ _ _ E) as (o1 & F1 & O1).
    destruct (IH _ _ H) as (o2 & F2 & O2).
    exists (o1 ++ o2). split; [eapply fills_from_trans; eauto|apply Forall_app; auto].
Qed.

(* all layers, newest first: view k receives fills from layers <= k only *)
Definition from_layers_le (k : nat) (ops : list fop) : Prop := Forall (fun op => (fn_origin (snd op) <= k)%nat) ops.

Lemma fill_layers_fold cfg : forall rslots st st',
  fill_layers cfg rslots st = Some st' ->
  length (st_chains st') = length (st_chains st) /\
  forall k, exists ops, nth k (st_chains st') empty_trie = apply_ops ops (nth k (st_chains st) empty_trie) /\
                        from_layers_le k ops.
Proof.
  induction rslots as [|[i [es|]] r IH]; intros st st' H; simpl in H.
  - inversion H; subst. split; [reflexivity|]. intro k. exists []. split; [reflexivity|constructor].
  - destruct (process_layer cfg i es st) as [st1|] eqn:E; [|discriminate].
    destruct (process_layer_fills _ _ _ _ _ E) as (o1 & [L1 F1] & O1).
    destruct (IH _ _ H) as [L2 F2]. split; [congruence|].
    intro k. destruct (F2 k) as (o2 & E2 & O2). rewrite E2, F1.
    destruct (touched i k (length (st_chains st))) eqn:T.
    + exists (o1 ++ o2). split; [rewrite apply_ops_app; reflexivity|].
      apply Forall_app. split; [|exact O2].
      unfold touched in T. apply andb_true_iff in T as [T _]. apply Nat.leb_le in T.
      eapply Forall_impl; [|exact O1]. intros op Hop. simpl in Hop. lia.
    + exists o2. auto.
  - apply IH. exact H.
Qed.

(* FromV1Image before the final pruning: every view is a fold of guarded inserts over the root-only
   tree, and view k only ever receives nodes of layers <= k *)
Lemma view_is_fold_of_fills_lemma cfg im st :
  load_unpruned cfg im = Some st ->
  length (st_chains st) = length (init_slots im) /\
  forall k, (k < length (init_slots im))%nat ->
    exists ops, nth k (st_chains st) empty_trie = apply_ops ops (Node (Some (root_node k)) []) /\
                from_layers_le k ops.
Proof.
  unfold load_unpruned. destruct (negb (config_valid cfg)); [discriminate|].
  intro H. apply fill_layers_fold in H as [L F].
  unfold init_state in *. simpl in *. rewrite map_length, seq_length in L.
  split; [exact L|]. intros k Hk. destruct (F k) as (ops & E & O). exists ops. split; [|exact O].
  rewrite E. f_equal.
  rewrite (nth_indep _ empty_trie (Node (Some (root_node 0)) [])) by (rewrite map_length, seq_length; exact Hk).
  change (Node (Some (root_node 0)) []) with ((fun i => Node (Some (root_node i)) []) 0%nat).
  rewrite map_nth, seq_nth by exact Hk. reflexivity.
Qed.

(* a fill never replaces a value that is already in the view: since layers are processed newest
   first, the member of the newest layer stays ("later entries replace earlier ones") *)
Lemma fill_one_keeps vs n t q v : get_segs q t = Some v -> get_segs q (fill_one vs n t) = Some v.
Proof.
  intro Q. unfold fill_one, get.
  destruct (path_segs (fn_vpath n)) as [sg|] eqn:P.
  - destruct (get_segs sg t) eqn:G; [exact Q|].
    destruct (in_whiteout_dir t vs); [exact Q|].
    unfold insert_ignore, insert. rewrite P.
    pose proof (insert_refines t sg n) as H.
    destruct (insert_segs sg n t) as [t'| |]; [|exact Q|exact Q].
    destruct H as (_ & H & _).
    rewrite get_refines in Q |- *. rewrite H. unfold insert_map.
    destruct (segs_eqb q sg) eqn:E.
    + apply segs_eqb_eq in E. subst q. rewrite get_refines in G.
      destruct (node_at t sg) as [[x|]|]; congruence.
    + destruct (sprefix q sg); [|exact Q].
      destruct (node_at t q) as [[x|]|]; congruence.
  - destruct (tval t); [exact Q|].
    destruct (in_whiteout_dir t vs); [exact Q|].
    unfold insert_ignore, insert. rewrite P. exact Q.
Qed.

Lemma apply_ops_keeps ops : forall t q v, get_segs q t = Some v -> get_segs q (apply_ops ops t) = Some v.
Proof.
  induction ops as [|[vs n] r IH]; intros t q v Q; [exact Q|].
  simpl. apply IH. apply fill_one_keeps. exact Q.
Qed.

(* Listings: ReadDir of a directory of a view lists exactly the children with a non-whiteout lookup, and on
   the proved domain Dp it equals the overlay's listing. *)
From Coq Require Import List NArith ZArith Bool Lia PeanoNat Permutation.
From Scalibr Require Import Lib.SortSearch Image.PathTree Image.PathTreeProofs Image.Fill Image.Overlay
  Image.ImageCases Image.ViewEq Image.FillProofs Image.FoldProofs Image.DomainP Image.ViewProofs Image.PruneProofs.
Import ListNotations.

(* ------------------------------------------------------------------ byte order on names *)
Lemma str_cmp_antisym a b : str_cmp b a = CompOpp (str_cmp a b).
Proof.
  revert b; induction a as [|x a IH]; intros [|y b]; simpl; try reflexivity.
  rewrite (N.compare_antisym x y). destruct (N.compare x y); simpl; auto.
Qed.

Lemma str_cmp_eq a b : str_cmp a b = Eq -> a = b.
Proof.
  revert b; induction a as [|x a IH]; intros [|y b]; simpl; intro H; try discriminate; [reflexivity|].
  destruct (N.compare x y) eqn:E; try discriminate. apply N.compare_eq in E. subst. f_equal. apply IH. exact H.
Qed.

Lemma str_cmp_lt_trans a b c : str_cmp a b = Lt -> str_cmp b c = Lt -> str_cmp a c = Lt.
Proof.
  revert b c; induction a as [|x a IH]; intros [|y b] [|z c]; simpl; intros H1 H2; try discriminate; try reflexivity.
  destruct (N.compare x y) eqn:E1; try discriminate; destruct (N.compare y z) eqn:E2; try discriminate.
  - apply N.compare_eq in E1, E2. subst. rewrite N.compare_refl. eapply IH; eauto.
  - apply N.compare_eq in E1. subst. rewrite E2. reflexivity.
  - apply N.compare_eq in E2. subst. rewrite E1. reflexivity.
  - assert (X : N.compare x z = Lt) by (apply N.compare_lt_iff; apply N.compare_lt_iff in E1; apply N.compare_lt_iff in E2; eapply N.lt_trans; eauto). rewrite X. reflexivity.
Qed.

(* two duplicate-free lists with the same members sort to the same list *)
Lemma isort_same_set (l1 l2 : list str) :
  NoDup l1 -> NoDup l2 -> (forall x, In x l1 <-> In x l2) -> isort str_cmp l1 = isort str_cmp l2.
Proof.
  intros N1 N2 EQ.
  apply (isort_unique str_cmp str_cmp_antisym str_cmp_lt_trans).
  - eapply Permutation_trans; [apply Permutation_sym; apply isort_perm|].
    apply NoDup_Permutation; [exact N2|exact N1|]. intro x. symmetry. apply EQ.
  - apply (isort_ssorted str_cmp str_cmp_antisym str_cmp_lt_trans); [exact N2|].
    intros x y _ _ E. apply str_cmp_eq. exact E.
Qed.

(* ------------------------------------------------------------------ the names a tree lists below p *)
Definition nm (v : fnode) : str := name_of (fn_vpath v).
Definition NM (t : ftrie) : Prop := forall q v, q <> [] -> get_segs q t = Some v -> nm v = last q [].

Lemma names_nodup (f : fnode -> bool) (cs : list (seg * ftrie)) :
  NoDup (keys cs) -> (forall k c v, In (k, c) cs -> tval c = Some v -> nm v = k) ->
  NoDup (map nm (filter f (child_values cs))) /\
  forall y, In y (map nm (filter f (child_values cs))) -> In y (keys cs).
Proof.
  induction cs as [|[k c] r IH]; intros ND H; simpl.
  - split; [constructor|intros y []].
  - inversion ND; subst. destruct (IH H3 (fun k0 c0 v0 HI => H k0 c0 v0 (or_intror HI))) as [N1 N2].
    destruct (tval c) as [v|] eqn:T.
    + simpl. destruct (f v); simpl.
      * assert (E : nm v = k) by (apply (H k c v); [left; reflexivity|exact T]).
        split.
        -- constructor; [|exact N1]. rewrite E. intro HI. apply H2. apply N2. exact HI.
        -- intros y [Ey|HI]; [left; congruence|right; apply N2; exact HI].
      * split; [exact N1|]. intros y HI. right. apply N2. exact HI.
    + split; [exact N1|]. intros y HI. right. apply N2. exact HI.
Qed.

Lemma wf_get_node (t : ftrie) : forall p n, wf t -> get_node p t = Some n -> wf n.
Proof.
  intros p; revert t; induction p as [|s p IH]; intros t n W G; simpl in G.
  - inversion G; subst; exact W.
  - destruct (find_child (tchildren t) s) eqn:F; [|discriminate]. eapply IH; [|exact G]. eapply wf_child; eauto.
Qed.

Lemma last_snoc {A} (l : list A) x d : last (l ++ [x]) d = x.
Proof. induction l as [|y l IH]; [reflexivity|]. simpl. destruct (l ++ [x]) eqn:E; [destruct l; discriminate|exact IH]. Qed.

Lemma impl_names_spec (t : ftrie) p n :
  wf t -> NM t -> get_node p t = Some n ->
  let l := filter (fun x => negb (fn_wh x)) (child_values (tchildren n)) in
  NoDup (map nm l) /\
  forall x, In x (map nm l) <-> exists v, get_segs (p ++ [x]) t = Some v /\ fn_wh v = false.
Proof.
  intros W HN G l.
  pose proof (wf_get_node t p n W G) as Wn.
  pose proof (get_children_refines t p W) as GC. rewrite G in GC. destruct GC as [_ GC].
  destruct n as [nv cs]. apply wf_unfold in Wn as [ND _]. simpl in *.
  assert (VAL : forall v s, node_at t (p ++ [s]) = Some (Some v) -> get_segs (p ++ [s]) t = Some v /\ nm v = s).
  { intros v s H. assert (X : get_segs (p ++ [s]) t = Some v) by (rewrite get_refines, H; reflexivity).
    split; [exact X|]. rewrite (HN (p ++ [s]) v); [apply last_snoc|destruct p; discriminate|exact X]. }
  split.
  - apply names_nodup; [exact ND|]. intros k c v HI T.
    assert (X : node_at t (p ++ [k]) = Some (Some v)).
    { rewrite node_at_app, G, node_at_cons. simpl. rewrite (in_find _ _ _ ND HI), node_at_nil, T. reflexivity. }
    apply (VAL v k X).
  - intro x. unfold l. rewrite in_map_iff. split.
    + intros (v & E & HI). apply filter_In in HI as [HI Wv]. apply negb_true_iff in Wv.
      apply GC in HI as [s Hs]. destruct (VAL v s Hs) as [X Y]. exists v. split; [|exact Wv]. rewrite <- E, Y. exact X.
    + intros (v & Gv & Wv). exists v.
      assert (X : node_at t (p ++ [x]) = Some (Some v)).
      { rewrite get_refines in Gv. destruct (node_at t (p ++ [x])) as [[y|]|]; congruence. }
      split; [apply (VAL v x X)|]. apply filter_In. split; [apply GC; exists x; exact X|rewrite Wv; reflexivity].
Qed.

(* ------------------------------------------------------------------ the names the overlay lists below p *)
Lemma child_key (k p : list seg) (b : seg) : (rev k = b :: rev p) <-> k = p ++ [b].
Proof.
  split; intro H.
  - rewrite <- (rev_involutive k), H. simpl. rewrite rev_involutive. reflexivity.
  - subst. rewrite rev_app_distr. reflexivity.
Qed.

Lemma s_children_cons (k : list seg) (v : sentry) (m : fsmap) (p : list seg) :
  s_children ((k, v) :: m) p = (match rev k with
                               | b :: rd => if segs_eqb (rev rd) p then [(b, v)] else []
                               | [] => []
                               end) ++ s_children m p.
Proof. reflexivity. Qed.

Lemma spec_names (S : fsmap) p :
  NoDup (map fst S) ->
  NoDup (map fst (s_children S p)) /\
  forall x, In x (map fst (s_children S p)) <-> exists v, In (p ++ [x], v) S.
Proof.
  induction S as [|[k v] S IH]; intro ND.
  - split; [constructor|]. intro x. split; [intros []|intros [v []]].
  - inversion ND; subst. destruct (IH H2) as [N1 N2]. rewrite s_children_cons.
    destruct (rev k) as [|b rd] eqn:R.
    + simpl. split; [exact N1|]. intro x. rewrite N2. split.
      * intros [v0 H]. exists v0. right. exact H.
      * intros [v0 [E|H]]; [|exists v0; exact H]. inversion E; subst.
        rewrite rev_app_distr in R. discriminate.
    + destruct (segs_eqb (rev rd) p) eqn:E.
      * apply segs_eqb_eq in E.
        assert (K : k = p ++ [b]). { apply child_key. rewrite R, <- E, rev_involutive. reflexivity. }
        simpl. split.
        -- constructor; [|exact N1]. intro HI. apply N2 in HI as [v0 HI]. apply H1. rewrite K.
           change (p ++ [b]) with (fst (p ++ [b], v0)). apply in_map. exact HI.
        -- intro x. split.
           ++ intros [Ex|HI]; [subst x; exists v; left; rewrite K; reflexivity|].
              apply N2 in HI as [v0 HI]. exists v0. right. exact HI.
           ++ intros [v0 [E0|HI]].
              ** inversion E0. rewrite K in H0. apply app_inj_tail in H0 as [_ H0]. left. exact H0.
              ** right. apply N2. exists v0. exact HI.
      * simpl. split; [exact N1|]. intro x. rewrite N2. split.
        -- intros [v0 H]. exists v0. right. exact H.
        -- intros [v0 [E0|H]]; [|exists v0; exact H]. inversion E0; subst. exfalso.
           rewrite rev_app_distr in R. simpl in R. inversion R; subst.
           rewrite rev_involutive in E. rewrite (proj2 (segs_eqb_eq p p) eq_refl) in E. discriminate.
Qed.

Lemma s_lookup_iff_in (S : fsmap) k : s_lookup S k <> None <-> exists v, In (k, v) S.
Proof.
  induction S as [|[k' v'] S IH]; simpl.
  - split; [congruence|intros [v []]].
  - destruct (segs_eqb k' k) eqn:E.
    + apply segs_eqb_eq in E. subst. split; [intros _; exists v'; left; reflexivity|discriminate].
    + rewrite IH. split.
      * intros [v H]. exists v. right. exact H.
      * intros [v [E0|H]]; [inversion E0; subst; rewrite (proj2 (segs_eqb_eq k k) eq_refl) in E; discriminate|exists v; exact H].
Qed.

(* keys of the overlay map stay pairwise different *)
Lemma nodup_filter_keys (f : list seg * sentry -> bool) (m : fsmap) : NoDup (map fst m) -> NoDup (map fst (filter f m)).
Proof.
  induction m as [|[k v] m IH]; simpl; intro ND; [constructor|]. inversion ND; subst.
  destruct (f (k, v)); simpl; [|auto]. constructor; [|auto].
  intro HI. apply H1. apply in_map_iff in HI as ([k0 v0] & E & HI). simpl in E. subst.
  apply filter_In in HI as [HI _]. change k with (fst (k, v0)). apply in_map. exact HI.
Qed.

Lemma nodup_s_set m q v : NoDup (map fst m) -> NoDup (map fst (s_set m q v)).
Proof.
  intro ND. unfold s_set, s_remove. simpl. constructor; [|apply nodup_filter_keys; exact ND].
  intro HI. apply in_map_iff in HI as ([k0 v0] & E & HI). simpl in E. subst.
  apply filter_In in HI as [_ HI]. simpl in HI. rewrite (proj2 (segs_eqb_eq q q) eq_refl) in HI. discriminate.
Qed.

Lemma nodup_ensure j p m : NoDup (map fst m) -> NoDup (map fst (ensure_parents j p m)).
Proof.
  unfold ensure_parents. generalize (parent_prefixes p). intro l. revert m.
  induction l as [|q l IH]; intros m ND; simpl; [exact ND|].
  apply IH. destruct (is_dir_entry (s_lookup m q)); [exact ND|apply nodup_s_set; exact ND].
Qed.

Lemma nodup_add_member j m x : NoDup (map fst m) -> NoDup (map fst (add_member j m x)).
Proof.
  intro ND. destruct x as [p|d|p e]; simpl; try (apply nodup_ensure; exact ND).
  destruct (se_kind e); apply nodup_s_set; try (apply nodup_ensure; exact ND);
    unfold s_remove_below; apply nodup_filter_keys; apply nodup_ensure; exact ND.
Qed.

Lemma nodup_fold_members j ms : forall m, NoDup (map fst m) -> NoDup (map fst (fold_left (add_member j) ms m)).
Proof. induction ms as [|x ms IH]; intros m X; simpl; [exact X|]. apply IH. apply nodup_add_member. exact X. Qed.

Lemma nodup_apply_layer maxb j es m : NoDup (map fst m) -> NoDup (map fst (apply_layer maxb j es m)).
Proof. intro ND. unfold apply_layer. apply nodup_fold_members. apply nodup_filter_keys. exact ND. Qed.

Lemma nodup_apply_slots maxb : forall l m, NoDup (map fst m) -> NoDup (map fst (apply_slots maxb l m)).
Proof.
  induction l as [|[j [es|]] l IH]; intros m ND; simpl; [exact ND| |]; apply IH; [apply nodup_apply_layer|]; exact ND.
Qed.

Lemma nodup_view_spec cfg im i : NoDup (map fst (view_spec cfg im i)).
Proof. unfold view_spec. apply nodup_apply_slots. constructor. Qed.

(* ------------------------------------------------------------------ the listing of one directory *)
Lemma normalize_render_abs p : normalize_path (render_abs p) = render_abs p.
Proof. reflexivity. Qed.

Lemma listing_abstract (t : ftrie) (S : fsmap) p :
  wf t -> NM t -> NoDup (map fst S) ->
  path_segs (render_abs p) = Some p -> get_segs p t <> None ->
  (forall x, (exists v, get_segs (p ++ [x]) t = Some v /\ fn_wh v = false) <-> s_lookup S (p ++ [x]) <> None) ->
  match list_dir t (render_abs p) with
  | Some l => Some (isort str_cmp (map nm l))
  | None => None
  end = Some (isort str_cmp (map fst (s_children S p))).
Proof.
  intros W HN ND PS GP EQ.
  unfold list_dir, get_children. rewrite normalize_render_abs, PS.
  destruct (get_node p t) as [n|] eqn:G.
  2:{ exfalso. apply GP. unfold get_segs. rewrite G. reflexivity. }
  destruct (impl_names_spec t p n W HN G) as [N1 M1]. cbv zeta in N1, M1.
  destruct (spec_names S p ND) as [N2 M2].
  f_equal. apply isort_same_set; [exact N1|exact N2|].
  intro x. rewrite M1, M2, EQ. apply s_lookup_iff_in.
Qed.

(* ------------------------------------------------------------------ on Dp *)
Lemma split_slash_slash rest : split_slash (slash :: rest) = [] :: split_slash rest.
Proof. reflexivity. Qed.

Lemma name_of_vp e : efacts e -> name_of (e_vp e) = last (e_vsegs e) [].
Proof.
  intro F. pose proof (ef_path e F) as P. pose proof (ef_ne e F) as NE.
  unfold e_vp in *. set (rest := render (fst (e_plan e))) in *.
  unfold path_segs in P. rewrite N.eqb_refl in P.
  unfold name_of. rewrite split_slash_slash.
  destruct rest as [|c r]; [inversion P; congruence|].
  remember (split_slash (c :: r)) as l. inversion P as [P']. rewrite <- P' in NE.
  destruct l; [contradiction|]. rewrite <- P'. reflexivity.
Qed.

Lemma view_found cfg im st i q nq :
  Dp cfg im = true -> load_unpruned cfg im = Some st -> (i < length (init_slots im))%nat ->
  q <> [] -> get_segs q (nth i (st_chains st) empty_trie) = Some nq ->
  exists j d, nq = e_node j d /\ e_vsegs d = q /\ entry_ok cfg d = true.
Proof.
  intros DP LU Hi Nq Gq.
  pose proof (view_inv_lemma cfg im st DP LU i Hi) as [_ INV].
  pose proof (gfacts_of_Dp _ _ DP) as G.
  rewrite (INV q Nq) in Gq. destruct (scan (slots_upto im i) q) as [j d| |] eqn:S; try discriminate.
  simpl in Gq. inversion Gq; subst nq.
  apply scan_found in S as (s & Hs & Ej & Hd & Ed).
  exists j, d. split; [reflexivity|]. split; [exact Ed|].
  eapply (g_ok _ _ G s d); [|exact Hd]. unfold slots_upto in Hs. apply in_rev in Hs. apply firstn_In in Hs. apply -> in_rev. exact Hs.
Qed.

Lemma view_wf cfg im st i :
  load_unpruned cfg im = Some st -> (i < length (init_slots im))%nat -> wf (nth i (st_chains st) empty_trie).
Proof.
  intros LU Hi. destruct (view_is_fold_of_fills_lemma cfg im st LU) as [_ FOLD].
  destruct (FOLD i Hi) as (ops & E & _). rewrite E. apply apply_ops_wf. simpl. split; [constructor|exact I].
Qed.

Lemma view_NM cfg im st i :
  Dp cfg im = true -> load_unpruned cfg im = Some st -> (i < length (init_slots im))%nat ->
  NM (nth i (st_chains st) empty_trie).
Proof.
  intros DP LU Hi q v Nq Gq.
  destruct (view_found cfg im st i q v DP LU Hi Nq Gq) as (j & d & E & Ed & OK). subst v.
  unfold nm. destruct (e_node_fields j d) as (V & _ & _). rewrite V, <- Ed. apply name_of_vp. eapply entry_ok_facts; eauto.
Qed.

(* a directory of the view (or the root) parses back from its rendered path *)
Lemma dir_path_parses cfg im st i p :
  Dp cfg im = true -> load_unpruned cfg im = Some st -> (i < length (init_slots im))%nat ->
  get_segs p (nth i (st_chains st) empty_trie) <> None -> path_segs (render_abs p) = Some p.
Proof.
  intros DP LU Hi GP. destruct p as [|x p']; [reflexivity|].
  destruct (get_segs (x :: p') (nth i (st_chains st) empty_trie)) as [v|] eqn:G; [|contradiction].
  destruct (view_found cfg im st i (x :: p') v DP LU Hi ltac:(intro X0; discriminate X0) G) as (j & d & _ & Ed & OK).
  pose proof (entry_ok_facts _ _ OK) as F. pose proof (ef_path d F) as P.
  rewrite (e_vp_walk cfg d OK), Ed in P. exact P.
Qed.

(* (1) ReadDir of an existing path p of view i lists exactly the overlay's children of p -- before the
   final pruning *)
Theorem view_listing_eq_overlay_on_Dp_unpruned_lemma cfg im st :
  Dp cfg im = true -> load_unpruned cfg im = Some st ->
  forall i p, (i < length (init_slots im))%nat ->
    get_segs p (nth i (st_chains st) empty_trie) <> None ->
    impl_listing st i p = Some (spec_listing cfg im i p).
Proof.
  intros DP LU i p Hi GP. unfold impl_listing, spec_listing.
  apply (listing_abstract (nth i (st_chains st) empty_trie) (view_spec cfg im i) p).
  - eapply view_wf; eauto.
  - eapply view_NM; eauto.
  - apply nodup_view_spec.
  - eapply dir_path_parses; eauto.
  - exact GP.
  - intro x.
    pose proof (view_eq_overlay_on_Dp_unpruned_lemma cfg im st DP LU i (p ++ [x]) Hi ltac:(destruct p; intro X0; discriminate X0)) as EQ.
    unfold impl_lookup, spec_lookup in EQ.
    destruct (get_segs (p ++ [x]) (nth i (st_chains st) empty_trie)) as [v|] eqn:G.
    + unfold vent_of_node in EQ. destruct (fn_wh v) eqn:Wv.
      * split; [intros (v0 & E0 & W0); inversion E0; subst; congruence|].
        destruct (s_lookup (view_spec cfg im i) (p ++ [x])); [discriminate|contradiction].
      * split; [intros _|intros _; exists v; auto].
        destruct (s_lookup (view_spec cfg im i) (p ++ [x])); [discriminate|discriminate].
    + split; [intros (v0 & E0 & _); discriminate|].
      destruct (s_lookup (view_spec cfg im i) (p ++ [x])); [discriminate|contradiction].
Qed.

(* (1') the same for FromV1Image itself, default requirer, every view: for an existing path p of the view *)
Theorem view_listing_eq_overlay_on_Dp_lemma cfg im st :
  Dp cfg im = true -> no_links_p im = true -> prune_safe_p cfg im = true -> cfg_req cfg = None -> load cfg im = Some st ->
  forall i p, (i < length (init_slots im))%nat ->
    get_segs p (nth i (st_chains st) empty_trie) <> None ->
    impl_listing st i p = Some (spec_listing cfg im i p).
Proof.
  intros DP NOL PS REQ LD i p Hi GP. unfold load in LD.
  destruct (load_unpruned cfg im) as [st0|] eqn:LU; [|discriminate]. inversion LD; subst st; clear LD.
  destruct (view_is_fold_of_fills_lemma cfg im st0 LU) as [LEN _].
  destruct (Nat.eq_dec (S i) (length (init_slots im))) as [E|NE].
  - (* the last view *)
    assert (Ei : i = (length (init_slots im) - 1)%nat) by lia.
    destruct (last_view_pruned cfg im st0 DP NOL PS REQ LU ltac:(lia)) as [WF' PT]. cbv zeta in WF', PT. rewrite <- Ei in WF', PT.
    set (fin := nth i (st_chains st0) empty_trie) in *.
    set (fin' := nth i (st_chains (prune cfg st0)) empty_trie) in *.
    assert (SUB : forall q v, get_segs q fin' = Some v -> get_segs q fin = Some v /\ fn_wh v = false).
    { intros q v H. rewrite PT in H. destruct (get_segs q fin) as [n|]; [|discriminate].
      destruct (fn_wh n) eqn:W; [discriminate|]. inversion H; subst. auto. }
    unfold impl_listing, spec_listing. fold fin'.
    apply (listing_abstract fin' (view_spec cfg im i) p).
    + exact WF'.
    + intros q v Nq Gq. destruct (SUB q v Gq) as [G0 _]. eapply (view_NM cfg im st0 i DP LU Hi); eauto.
    + apply nodup_view_spec.
    + apply (dir_path_parses cfg im st0 i p DP LU Hi). fold fin.
      destruct (get_segs p fin') as [v|] eqn:G; [|contradiction]. destruct (SUB p v G) as [G0 _]. rewrite G0. discriminate.
    + exact GP.
    + intro x.
      pose proof (view_eq_overlay_on_Dp_unpruned_lemma cfg im st0 DP LU i (p ++ [x]) Hi ltac:(destruct p; intro X0; discriminate X0)) as EQ.
      unfold impl_lookup, spec_lookup in EQ. fold fin in EQ. rewrite PT.
      destruct (get_segs (p ++ [x]) fin) as [v|] eqn:G.
      * unfold vent_of_node in EQ. destruct (fn_wh v) eqn:Wv.
        -- split; [intros (v0 & E0 & _); discriminate|].
           destruct (s_lookup (view_spec cfg im i) (p ++ [x])); [discriminate|contradiction].
        -- split; [intros _|intros _; exists v; auto].
           destruct (s_lookup (view_spec cfg im i) (p ++ [x])); discriminate.
      * split; [intros (v0 & E0 & _); discriminate|].
        destruct (s_lookup (view_spec cfg im i) (p ++ [x])); [discriminate|contradiction].
  - (* an earlier view: untouched by the pruning *)
    destruct (prune_keeps_earlier cfg st0 i ltac:(rewrite LEN; lia)) as [EQ _].
    unfold impl_listing. rewrite EQ. rewrite EQ in GP.
    apply (view_listing_eq_overlay_on_Dp_unpruned_lemma cfg im st0 DP LU i p Hi GP).
Qed.

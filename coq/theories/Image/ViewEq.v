(* The statement language of C04: what "the view up to layer i at path p" is in the model of the
   implementation and in the OCI spec, projected on a common record.  Definitions only. *)
From Coq Require Import List NArith ZArith Bool.
From Scalibr Require Import Lib.SortSearch Image.PathTree Image.Fill Image.Overlay Image.ImageCases.
Import ListNotations.
Open Scope Z_scope.

Record vent := {
  ve_kind : skind;
  ve_perm : Z;             (* the 12 unix mode bits: permissions + setuid, setgid, sticky *)
  ve_size : Z;
  ve_layer : nat;          (* chain layer that introduced the entry: determines the content *)
  ve_dest : list seg }.    (* links: where the target points, lexically *)

Definition skind_eqb (a b : skind) : bool :=
  match a, b with SKDir, SKDir | SKReg, SKReg | SKSym, SKSym => true | _, _ => false end.

Definition vent_eqb (a b : vent) : bool :=
  skind_eqb (ve_kind a) (ve_kind b) && Z.eqb (ve_perm a) (ve_perm b) && Z.eqb (ve_size a) (ve_size b) &&
  Nat.eqb (ve_layer a) (ve_layer b) && segs_eqb (ve_dest a) (ve_dest b).

Definition vent_of_node (n : fnode) : option vent :=
  if fn_wh n then None
  else Some {| ve_kind := if fn_is_dir n then SKDir else if fn_is_symlink n then SKSym else SKReg;
               ve_perm := unix_mode_of (fn_mode n);
               ve_size := fn_size n;
               ve_layer := fn_origin n;
               ve_dest := if fn_is_symlink n then real_segs (fn_target n) else [] |}.

(* direct lookup in the implementation's view i (a whiteout node is "not there": Stat says so) *)
Definition impl_lookup (st : state) (i : nat) (p : list seg) : option vent :=
  match get_segs p (nth i (st_chains st) empty_trie) with
  | None => None
  | Some n => vent_of_node n
  end.

Definition vent_of_sentry (p : list seg) (e : sentry) : vent :=
  {| ve_kind := se_kind e; ve_perm := se_perm e; ve_size := se_size e; ve_layer := se_layer e;
     ve_dest := match se_kind e with SKSym => link_dest p (se_target e) | _ => [] end |}.

Definition spec_lookup (cfg : config) (im : image) (i : nat) (p : list seg) : option vent :=
  match s_lookup (view_spec cfg im i) p with
  | None => None
  | Some e => Some (vent_of_sentry p e)
  end.

(* content of a regular file of the view, read from the extraction directory *)
Definition impl_content (st : state) (i : nat) (p : list seg) : option str :=
  match get_segs p (nth i (st_chains st) empty_trie) with
  | Some n => if fn_wh n then None
              else match disk_get (st_disk st) (fn_origin n, real_segs (fn_vpath n)) with
                   | Some (DFile c) => Some c
                   | _ => None
                   end
  | None => None
  end.

Definition spec_content (cfg : config) (im : image) (i : nat) (p : list seg) : option str :=
  match s_lookup (view_spec cfg im i) p with
  | Some e => match se_kind e with SKReg => Some (se_content e) | _ => None end
  | None => None
  end.

(* what a listing of directory p shows: names of the visible children *)
Definition impl_listing (st : state) (i : nat) (p : list seg) : option (list seg) :=
  match list_dir (nth i (st_chains st) empty_trie) (render_abs p) with
  | None => None
  | Some l => Some (isort str_cmp (map (fun n => name_of (fn_vpath n)) l))
  end.

Definition spec_listing (cfg : config) (im : image) (i : nat) (p : list seg) : list seg :=
  isort str_cmp (map fst (s_children (view_spec cfg im i) p)).

Definition opt_vent_eqb (a b : option vent) : bool :=
  match a, b with None, None => true | Some x, Some y => vent_eqb x y | _, _ => false end.

(* boolean form used by the refutation witnesses *)
Definition agree_at (cfg : config) (im : image) (i : nat) (p : list seg) : bool :=
  match load cfg im with
  | None => false
  | Some st => opt_vent_eqb (impl_lookup st i p) (spec_lookup cfg im i p)
  end.

(* paths are non-empty lists of ordinary names *)
Definition path_ok (p : list seg) : bool := match p with [] => false | _ => forallb seg_ok p end.

Definition ve_kind_is_dir (o : option vent) : bool :=
  match o with Some e => match ve_kind e with SKDir => true | _ => false end | None => false end.

(* ------------------------------------------------------------------ the full positive statement *)
(* C04 on the domain D (default requirer): every view i, every path p.  Kept visible here as a Prop;
   Props_C04.v lists what is proved of it (`..._partial`) and what is not. *)
Definition view_eq_overlay_on_D_statement : Prop :=
  forall cfg im st, D cfg im = true -> cfg_req cfg = None -> load cfg im = Some st ->
  forall i p, (i < length (st_chains st))%nat -> path_ok p = true ->
    impl_lookup st i p = spec_lookup cfg im i p /\
    impl_content st i p = spec_content cfg im i p /\
    (ve_kind_is_dir (spec_lookup cfg im i p) = true -> impl_listing st i p = Some (spec_listing cfg im i p)).

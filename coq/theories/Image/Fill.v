(* Model of /repo/artifact/image/layerscanning/image/{image.go,layer.go,file_node.go}:
   FromV1Image (initializeChainLayers, addRootDirectoryToChainLayers, the newest-first loop,
   fillChainLayersWithFilesFromTar, populateEmptyDirectoryNodes, fillChainLayersWithFileNode,
   inWhiteoutDir, handleDir/handleFile/handleSymlink,
   removeUnnecessaryFileNodes) and the reads FS.Stat / Open+Read / ReadDir / fs.WalkDir.
   The code is modelled as it is, defects included.  No proofs in this file. *)
From Coq Require Import List NArith ZArith Bool.
From Scalibr Require Import Lib.SortSearch Image.PathTree.
Import ListNotations.
Open Scope Z_scope.

(* ------------------------------------------------------------------ strings and paths *)
Definition s_dot : str := [46%N].
Definition s_dotdot : str := [46%N; 46%N].
Definition s_wh : str := [46%N; 119%N; 104%N; 46%N].                  (* ".wh." *)

Fixpoint has_prefix (pre s : str) : bool :=
  match pre, s with
  | [], _ => true
  | x :: pre', y :: s' => N.eqb x y && has_prefix pre' s'
  | _ :: _, [] => false
  end.

Definition is_abs (s : str) : bool := match s with c :: _ => N.eqb c slash | [] => false end.

(* path.Clean at segment level. `st` is the reversed output so far. *)
Fixpoint clean_go (ab : bool) (raw : list seg) (st : list seg) : list seg :=
  match raw with
  | [] => rev st
  | s :: r =>
      if str_eqb s [] || str_eqb s s_dot then clean_go ab r st
      else if str_eqb s s_dotdot then
        match st with
        | top :: st' => if str_eqb top s_dotdot then clean_go ab r (s :: st) else clean_go ab r st'
        | [] => if ab then clean_go ab r [] else clean_go ab r [s]
        end
      else clean_go ab r (s :: st)
  end.

Definition clean_segs (ab : bool) (raw : list seg) : list seg := clean_go ab raw [].

(* a cleaned path: absolute flag + segments *)
Definition cpath := (bool * list seg)%type.

Definition clean_str (s : str) : cpath := (is_abs s, clean_segs (is_abs s) (split_slash s)).

(* the string path.Clean returns *)
Definition render (p : cpath) : str :=
  let (ab, sg) := p in
  if ab then slash :: join_slash sg
  else match sg with [] => s_dot | _ => join_slash sg end.

Definition render_abs (sg : list seg) : str := slash :: join_slash sg.

Definition last_seg (sg : list seg) : seg := last sg [].
Definition init_segs (sg : list seg) : list seg := removelast sg.

(* path.Base of a cleaned path *)
Definition base_of (p : cpath) : str :=
  let (ab, sg) := p in
  match sg with [] => if ab then [slash] else s_dot | _ => last_seg sg end.

(* path.Split(p) second component: text after the last slash *)
Definition name_of (vp : str) : str := last (split_slash vp) [].

(* all proper non-empty prefixes, shortest first *)
Fixpoint prefixes_from (pre : list seg) (sg : list seg) : list (list seg) :=
  match sg with
  | [] => []
  | [_] => []
  | s :: r => (pre ++ [s]) :: prefixes_from (pre ++ [s]) r
  end.
Definition parent_prefixes (sg : list seg) : list (list seg) := prefixes_from [] sg.

(* the directories inWhiteoutDir visits: filepath.Dir repeatedly, ending with the root *)
Definition ancestors (sg : list seg) : list (list seg) := rev ([] :: parent_prefixes sg).

(* ------------------------------------------------------------------ data *)
Inductive ekind := KDir | KReg | KSym | KHard | KOther.

Record entry := {
  e_name : str;          (* tar header name, verbatim *)
  e_kind : ekind;
  e_mode : Z;            (* header.Mode: permission bits *)
  e_content : str;       (* KReg: the bytes; header.Size = length *)
  e_target : str }.      (* KSym/KHard: header.Linkname *)

Definition mode_dir : Z := 2147483648.       (* fs.ModeDir     = 1<<31 *)
Definition mode_symlink : Z := 134217728.    (* fs.ModeSymlink = 1<<27 *)

Record fnode := {
  fn_origin : nat;       (* chain layer index i of layerDir "layer-i" *)
  fn_vpath : str;        (* virtualPath *)
  fn_target : str;       (* targetPath, "" when not a link *)
  fn_wh : bool;          (* isWhiteout *)
  fn_mode : Z;
  fn_size : Z }.

(* tar.Header.FileInfo().Mode() on the low 12 bits of header.Mode: permission bits, and
   c_ISUID / c_ISGID / c_ISVTX become fs.ModeSetuid (1<<23) / fs.ModeSetgid (1<<22) / fs.ModeSticky (1<<20) *)
Definition header_file_mode (m : Z) : Z :=
  Z.land m 511 + (if Z.testbit m 11 then 8388608 else 0) + (if Z.testbit m 10 then 4194304 else 0)
               + (if Z.testbit m 9 then 1048576 else 0).

Definition fn_is_dir (n : fnode) : bool := Z.testbit (fn_mode n) 31.
Definition fn_is_symlink (n : fnode) : bool := Z.testbit (fn_mode n) 27.

Record config := {
  cfg_max_bytes : Z;                 (* MaxFileBytes *)
  cfg_depth : Z;                     (* MaxSymlinkDepth *)
  cfg_req : option (list str) }.     (* None = FileRequirerAll; Some l = FileRequirerPaths l *)

Record image := {
  im_layers : list (list entry);     (* v1 layers, oldest first, entries in tar order *)
  im_hist : list bool }.             (* config history: EmptyLayer flags *)

(* files written below the extraction directory: (layer index, cleaned real path) -> kind *)
Inductive dent := DFile (content : str) | DDir.
Definition disk := list ((nat * list seg) * dent).

Definition dkey_eqb (a b : nat * list seg) : bool := Nat.eqb (fst a) (fst b) && segs_eqb (snd a) (snd b).

Fixpoint disk_get (d : disk) (k : nat * list seg) : option dent :=
  match d with
  | [] => None
  | (k', v) :: r => if dkey_eqb k' k then Some v else disk_get r k
  end.

Fixpoint disk_del (d : disk) (k : nat * list seg) : disk :=
  match d with
  | [] => []
  | (k', v) :: r => if dkey_eqb k' k then disk_del r k else (k', v) :: disk_del r k
  end.

Definition disk_set (d : disk) (k : nat * list seg) (v : dent) : disk := (k, v) :: disk_del d k.

(* all prefixes incl. the full path, shortest first, excluding [] *)
Definition all_prefixes (sg : list seg) : list (list seg) := parent_prefixes sg ++ match sg with [] => [] | _ => [sg] end.

(* os.MkdirAll(layerdir/sg): None = ENOTDIR (some prefix is a regular file) *)
Fixpoint mkdir_all_go (i : nat) (ps : list (list seg)) (d : disk) : option disk :=
  match ps with
  | [] => Some d
  | p :: r => match disk_get d (i, p) with
              | Some (DFile _) => None
              | Some DDir => mkdir_all_go i r d
              | None => mkdir_all_go i r (disk_set d (i, p) DDir)
              end
  end.
Definition mkdir_all (i : nat) (sg : list seg) (d : disk) : option disk := mkdir_all_go i (all_prefixes sg) d.

(* the first n bytes, n a (possibly huge) Z: io.LimitReader *)
Fixpoint take_z (n : Z) (l : str) : str :=
  match l with
  | [] => []
  | x :: r => if n <=? 0 then [] else x :: take_z (n - 1) r
  end.

(* os.OpenFile(O_CREATE|O_RDWR) without O_TRUNC, then write from offset 0 *)
Definition write_file (i : nat) (sg : list seg) (c : str) (d : disk) : option disk :=
  match mkdir_all i (init_segs sg) d with
  | None => None
  | Some d1 =>
      match sg with
      | [] => None                                              (* the layer directory itself *)
      | _ => match disk_get d1 (i, sg) with
             | Some DDir => None                                (* EISDIR *)
             | Some (DFile old) => Some (disk_set d1 (i, sg) (DFile (c ++ skipn (length c) old)))
             | None => Some (disk_set d1 (i, sg) (DFile c))
             end
      end
  end.

(* ------------------------------------------------------------------ chain-layer state *)
Definition ftrie := trie fnode.

Record state := { st_chains : list ftrie; st_disk : disk }.

Definition root_node (i : nat) : fnode :=
  {| fn_origin := i; fn_vpath := [slash]; fn_target := []; fn_wh := false; fn_mode := mode_dir; fn_size := 0 |}.

(* initializeChainLayers: one slot per chain layer; None = empty history entry *)
Fixpoint assign_layers (hist : list bool) (layers : list (list entry)) : list (option (list entry)) :=
  match hist with
  | [] => map Some layers
  | true :: h => None :: assign_layers h layers
  | false :: h => match layers with
                  | l :: ls => Some l :: assign_layers h ls
                  | [] => []
                  end
  end.

Definition count_nonempty (hist : list bool) : nat := length (filter negb hist).

Definition init_slots (im : image) : list (option (list entry)) :=
  if Nat.eqb (count_nonempty (im_hist im)) (length (im_layers im))
  then assign_layers (im_hist im) (im_layers im)
  else map Some (im_layers im).

(* ------------------------------------------------------------------ inWhiteoutDir *)
(* climbs every ancestor up to the root: a whiteout or a non-directory on the way hides the file;
   an ancestor without a value is skipped (behaviour since the fix commits 85791d6b, 1c13035d) *)
Fixpoint in_whiteout_go (t : ftrie) (ancs : list (list seg)) : bool :=
  match ancs with
  | [] => false
  | a :: r => match get_segs a t with
              | None => in_whiteout_go t r
              | Some n => if fn_wh n || negb (fn_is_dir n) then true else in_whiteout_go t r
              end
  end.

(* vsegs: segments of path.Clean(virtualPath) *)
Definition in_whiteout_dir (t : ftrie) (vsegs : list seg) : bool := in_whiteout_go t (ancestors vsegs).

(* ------------------------------------------------------------------ fillChainLayersWithFileNode *)
Definition fill_one (vsegs : list seg) (n : fnode) (t : ftrie) : ftrie :=
  match get t (fn_vpath n) with
  | Some _ => t
  | None => if in_whiteout_dir t vsegs then t else insert_ignore t (fn_vpath n) n
  end.

Definition fill_from (i : nat) (vsegs : list seg) (n : fnode) (cs : list ftrie) : list ftrie :=
  firstn i cs ++ map (fill_one vsegs n) (skipn i cs).

(* ------------------------------------------------------------------ populateEmptyDirectoryNodes *)
Definition dir_node (i : nat) (p : list seg) : fnode :=
  {| fn_origin := i; fn_vpath := render_abs p; fn_target := []; fn_wh := false; fn_mode := mode_dir; fn_size := 0 |}.

Fixpoint populate_go (i : nat) (ps : list (list seg)) (cs : list ftrie) : list ftrie :=
  match ps with
  | [] => cs
  | p :: r =>
      match get (nth i cs empty_trie) (render_abs p) with
      | Some _ => populate_go i r cs
      | None => populate_go i r (fill_from i p (dir_node i p) cs)
      end
  end.

Definition populate_dirs (i : nat) (vsegs : list seg) (cs : list ftrie) : list ftrie :=
  populate_go i (parent_prefixes vsegs) cs.

(* ------------------------------------------------------------------ symlink.TargetOutsideRoot *)
(* d = number of components above us including the marker directory; gone = marker popped *)
Fixpoint escapes_go (raw : list seg) (d : nat) : bool :=
  match raw with
  | [] => false
  | s :: r =>
      if str_eqb s [] || str_eqb s s_dot then escapes_go r d
      else if str_eqb s s_dotdot then
        match d with
        | O => true
        | S O => true
        | S d' => escapes_go r d'
        end
      else escapes_go r (S d)
  end.

Definition target_outside_root (vsegs : list seg) (target : str) : bool :=
  if is_abs target then escapes_go (split_slash target) 1%nat
  else escapes_go (split_slash target) (S (length (init_segs vsegs))).

(* ------------------------------------------------------------------ one tar entry *)
Inductive step := Skip | Fatal | Next (s : state).

Definition strip_wh (b : str) : str := skipn 4%nat b.

(* the virtual path of an entry: (cleaned path used for ancestors, string stored in the node) *)
Definition entry_vpath (e : entry) (cp : cpath) : cpath * bool :=
  let (ab, sg) := cp in
  let b := base_of cp in
  let wh := has_prefix s_wh b in
  let b' := if wh then strip_wh b else b in
  match e_kind e with
  | KDir => (cp, wh)
  | _ => ((ab, clean_segs ab (init_segs sg ++ [b'])), wh)
  end.

Definition process_entry (cfg : config) (i : nat) (st : state) (e : entry) : step :=
  let cp := clean_str (e_name e) in
  let (ab, sg) := cp in
  if negb ab && match sg with s :: _ :: _ => str_eqb s s_dotdot | _ => false end then Skip else
  let b := base_of cp in
  if str_eqb b s_dot || str_eqb b s_dotdot then Skip else
  let '((vab, vsegs), wh) := entry_vpath e cp in
  let vp := slash :: render (vab, vsegs) in
  let cur := nth i (st_chains st) empty_trie in
  match get cur vp with
  | Some _ => Skip
  | None =>
      let finish (n : fnode) (d : disk) :=
        let cs1 := populate_dirs i vsegs (st_chains st) in
        let cs2 := fill_from i vsegs n cs1 in
        Next {| st_chains := cs2; st_disk := d |} in
      match e_kind e with
      | KDir =>
          let d' := match disk_get (st_disk st) (i, sg) with
                    | Some _ => Some (st_disk st)
                    | None => match sg with [] => Some (st_disk st) | _ => mkdir_all i sg (st_disk st) end
                    end in
          match d' with
          | None => Fatal
          | Some d1 => finish {| fn_origin := i; fn_vpath := vp; fn_target := []; fn_wh := wh;
                                 fn_mode := Z.lor (header_file_mode (e_mode e)) mode_dir; fn_size := 0 |} d1
          end
      | KReg =>
          match write_file i sg (take_z (cfg_max_bytes cfg) (e_content e)) (st_disk st) with
          | None => Fatal
          | Some d1 =>
              if Z.of_nat (length (e_content e)) >=? cfg_max_bytes cfg
              then Next {| st_chains := st_chains st; st_disk := d1 |}    (* ErrFileReadLimitExceeded: entry skipped, file stays on disk *)
              else finish {| fn_origin := i; fn_vpath := vp; fn_target := []; fn_wh := wh;
                             fn_mode := header_file_mode (e_mode e); fn_size := Z.of_nat (length (e_content e)) |} d1
          end
      | KSym | KHard =>
          match e_target e with
          | [] => Fatal
          | _ =>
              if target_outside_root vsegs (e_target e) then Skip
              else
                let tgt := if is_abs (e_target e) then render_abs (clean_segs true (split_slash (e_target e)))   (* path.Clean, since 42f245c4 *)
                           else render_abs (clean_segs true (init_segs vsegs ++ split_slash (e_target e))) in
                finish {| fn_origin := i; fn_vpath := vp; fn_target := tgt; fn_wh := wh;
                          fn_mode := Z.lor (e_mode e) mode_symlink; fn_size := 0 |} (st_disk st)
          end
      | KOther => Skip
      end
  end.

Fixpoint process_layer (cfg : config) (i : nat) (es : list entry) (st : state) : option state :=
  match es with
  | [] => Some st
  | e :: r => match process_entry cfg i st e with
              | Skip => process_layer cfg i r st
              | Fatal => None
              | Next st' => process_layer cfg i r st'
              end
  end.

(* newest layer first.  `rslots` = slots in reverse order, paired with their chain index *)
Fixpoint fill_layers (cfg : config) (rslots : list (nat * option (list entry))) (st : state) : option state :=
  match rslots with
  | [] => Some st
  | (_, None) :: r => fill_layers cfg r st
  | (i, Some es) :: r => match process_layer cfg i es st with
                         | None => None
                         | Some st' => fill_layers cfg r st'
                         end
  end.

Fixpoint index_from {A} (k : nat) (l : list A) : list (nat * A) :=
  match l with [] => [] | x :: r => (k, x) :: index_from (S k) r end.

Definition init_state (n : nat) : state :=
  {| st_chains := map (fun i => Node (Some (root_node i)) []) (seq 0%nat n); st_disk := [] |}.

(* ------------------------------------------------------------------ removeUnnecessaryFileNodes *)
Definition trim_slash (s : str) : str := match s with c :: r => if N.eqb c slash then r else s | [] => [] end.

Definition path_required (cfg : config) (vp : str) : bool :=
  match cfg_req cfg with
  | None => true
  | Some l => existsb (str_eqb vp) l || existsb (str_eqb (trim_slash vp)) l
  end.

Definition node_required (cfg : config) (n : fnode) : bool :=
  if fn_wh n then false else path_required cfg (fn_vpath n).

Definition reqmap := list (str * bool).
Fixpoint rq_get (m : reqmap) (k : str) : bool :=
  match m with [] => false | (k', v) :: r => if str_eqb k' k then v else rq_get r k end.
Fixpoint rq_set (m : reqmap) (k : str) (v : bool) : reqmap :=
  match m with
  | [] => [(k, v)]
  | (k', v') :: r => if str_eqb k' k then (k', v) :: r else (k', v') :: rq_set r k v
  end.

(* the `for range symlinkDepth` loop *)
Fixpoint mark_targets (t : ftrie) (fuel : nat) (n : fnode) (m : reqmap) : reqmap :=
  match fuel with
  | O => m
  | S f => match get t (fn_target n) with
           | None => m
           | Some l => let m' := rq_set m (fn_vpath l) true in
                       match fn_target l with [] => m' | _ => mark_targets t f l m' end
           end
  end.

Definition prune_visit (cfg : config) (t : ftrie) (m : reqmap) (x : list seg * fnode) : reqmap :=
  let (p, n) := x in
  let key := walk_path_string p in
  if rq_get m key then m
  else if fn_is_dir n then m
  else if negb (node_required cfg n) then rq_set m key false
  else match fn_target n with
       | [] => m
       | _ => mark_targets t (Z.to_nat (cfg_depth cfg)) n m
       end.

(* real path of a node below layer-<origin>: filepath.Join cleans the virtual path *)
Definition real_segs (vp : str) : list seg := clean_segs true (split_slash vp).

Definition prune_remove (acc : ftrie * disk) (kv : str * bool) : ftrie * disk :=
  let (t, d) := acc in
  let (k, v) := kv in
  if v then acc
  else match remove t k with
       | (t', None) => (t', d)
       | (t', Some n) =>
           (t', match disk_get d (fn_origin n, real_segs (fn_vpath n)) with
                | Some (DFile _) => disk_del d (fn_origin n, real_segs (fn_vpath n))
                | _ => d             (* os.Remove of a directory: irrelevant for reads *)
                end)
       end.

(* Walk visits the nodes in Go map order; `order` is that order (the model's own walk order in
   `prune`).  The early return in prune_visit makes the marking depend on it -- see below. *)
Definition prune_with (cfg : config) (order : ftrie -> list (list seg * fnode)) (st : state) : state :=
  match rev (st_chains st) with
  | [] => st
  | fin :: rest =>
      let m := fold_left (prune_visit cfg fin) (order fin) [] in
      let (fin', d') := fold_left prune_remove m (fin, st_disk st) in
      {| st_chains := rev (fin' :: rest); st_disk := d' |}
  end.

Definition prune (cfg : config) (st : state) : state := prune_with cfg walk st.

(* Order sensitivity of the marking.  A required link that some other link has already marked is
   not expanded (`if filesRequired[virtualPath] { return nil }`), so which targets end up marked
   depends on the visiting order.  Two order-independent bounds:
     upper: every required link is expanded;
     lower: only the required links that nobody marks are expanded (those are expanded in every order).
   Every real run marks a set between the two; if both give the same set of removed paths, the
   result does not depend on the order. *)
Definition visit_upper (cfg : config) (t : ftrie) (m : reqmap) (x : list seg * fnode) : reqmap :=
  let (p, n) := x in
  let key := walk_path_string p in
  if fn_is_dir n then m
  else if negb (node_required cfg n) then (if rq_get m key then m else rq_set m key false)
  else match fn_target n with
       | [] => m
       | _ => mark_targets t (Z.to_nat (cfg_depth cfg)) n m
       end.

Definition visit_lower (cfg : config) (t : ftrie) (up : reqmap) (m : reqmap) (x : list seg * fnode) : reqmap :=
  let (p, n) := x in
  let key := walk_path_string p in
  if fn_is_dir n then m
  else if negb (node_required cfg n) then (if rq_get m key then m else rq_set m key false)
  else match fn_target n with
       | [] => m
       | _ => if rq_get up key then m else mark_targets t (Z.to_nat (cfg_depth cfg)) n m
       end.

Definition removed_keys (m : reqmap) : list str := map fst (filter (fun kv => negb (snd kv)) m).
Definition subset_str (a b : list str) : bool := forallb (fun x => existsb (str_eqb x) b) a.

(* a second source of order dependence: Remove(p) deletes the whole subtree below p (p nested), so a
   later Remove(p/x) finds nothing and the real file of p/x is not deleted; in the other order it is *)
Fixpoint seg_sprefix (a b : list seg) : bool :=
  match a, b with
  | [], _ :: _ => true
  | x :: a', y :: b' => str_eqb x y && seg_sprefix a' b'
  | _, _ => false
  end.

Definition removal_overlap (keys : list str) : bool :=
  existsb (fun k1 => match path_segs k1 with
                     | Some ((_ :: _ :: _) as p1) =>
                         existsb (fun k2 => match path_segs k2 with Some p2 => seg_sprefix p1 p2 | None => false end) keys
                     | _ => false
                     end) keys.

Definition prune_order_sensitive (cfg : config) (st : state) : bool :=
  match rev (st_chains st) with
  | [] => false
  | fin :: _ =>
      let up := fold_left (visit_upper cfg fin) (walk fin) [] in
      let lo := fold_left (visit_lower cfg fin up) (walk fin) [] in
      negb (subset_str (removed_keys up) (removed_keys lo) && subset_str (removed_keys lo) (removed_keys up))
      || removal_overlap (removed_keys lo)
  end.

(* ------------------------------------------------------------------ FromV1Image *)
Definition config_valid (cfg : config) : bool := (0 <? cfg_max_bytes cfg) && (0 <=? cfg_depth cfg).

Definition load_unpruned (cfg : config) (im : image) : option state :=
  if negb (config_valid cfg) then None else
  let slots := init_slots im in
  fill_layers cfg (rev (index_from 0%nat slots)) (init_state (length slots)).

Definition load (cfg : config) (im : image) : option state :=
  match load_unpruned cfg im with
  | None => None
  | Some st => Some (prune cfg st)
  end.

(* does the outcome of FromV1Image depend on Go's map iteration order? *)
Definition load_order_sensitive (cfg : config) (im : image) : bool :=
  match load_unpruned cfg im with
  | None => false
  | Some st => prune_order_sensitive cfg st
  end.

(* ------------------------------------------------------------------ reads (layer.go, file_node.go) *)
Definition normalize_path (p : str) : str :=
  match p with
  | [] => [slash]
  | c :: r => if str_eqb p s_dot then [slash] else if N.eqb c slash then p else slash :: p
  end.

Definition get_file_node (t : ftrie) (p : str) : option fnode := get t (normalize_path p).

Inductive lres := LNotExist | LCycle | LDepth | LNode (n : fnode).

(* resolveSymlink: tortoise and hare; node identity = virtual path (one node per path in a tree) *)
Fixpoint resolve (t : ftrie) (fuel : nat) (depth : Z) (node slow : fnode) (adv : bool) : lres :=
  match fuel with
  | O => LDepth
  | S f =>
      if depth <? 0 then LDepth
      else if negb (fn_is_symlink node) then LNode node
      else match get_file_node t (fn_target node) with
           | None => LNotExist
           | Some node' =>
               if str_eqb (fn_vpath node') (fn_vpath slow) then LCycle
               else if adv then
                 match get_file_node t (fn_target slow) with
                 | None => LNotExist
                 | Some slow' => resolve t f (depth - 1) node' slow' (negb adv)
                 end
               else resolve t f (depth - 1) node' slow (negb adv)
           end
  end.

Definition lookup_resolved (t : ftrie) (depth : Z) (p : str) : lres :=
  match get_file_node t p with
  | None => LNotExist
  | Some n => resolve t (Z.to_nat depth + 2)%nat depth n n false
  end.

Inductive sres := SNotExist | SCycle | SDepth | SOk (name : str) (mode size : Z).

Definition stat (t : ftrie) (depth : Z) (p : str) : sres :=
  match lookup_resolved t depth p with
  | LNotExist => SNotExist
  | LCycle => SCycle
  | LDepth => SDepth
  | LNode n => if fn_wh n then SNotExist else SOk (name_of (fn_vpath n)) (fn_mode n) (fn_size n)
  end.

(* Open + io.ReadAll, attempted by the harness only when Stat succeeded with a regular mode *)
Inductive rres := RSkip | RErr | ROk (content : str).

Definition mode_type_mask : Z := 2401763328.   (* fs.ModeType *)
Definition is_regular_mode (m : Z) : bool := Z.eqb (Z.land m mode_type_mask) 0.

Definition read (t : ftrie) (d : disk) (depth : Z) (p : str) : rres :=
  match lookup_resolved t depth p with
  | LNode n =>
      if fn_wh n then RSkip
      else if is_regular_mode (fn_mode n) then
        match disk_get d (fn_origin n, real_segs (fn_vpath n)) with
        | Some (DFile c) => ROk c
        | _ => RErr
        end
      else RSkip
  | _ => RSkip
  end.

(* bytewise strings.Compare *)
Fixpoint str_cmp (a b : str) : comparison :=
  match a, b with
  | [], [] => Eq
  | [], _ => Lt
  | _, [] => Gt
  | x :: a', y :: b' => match N.compare x y with Eq => str_cmp a' b' | c => c end
  end.

Definition dirent := (str * Z * Z)%type.    (* Name(), Type()/Mode(), Info().Size() *)
Definition dirent_of (n : fnode) : dirent := (name_of (fn_vpath n), fn_mode n, fn_size n).
Definition dirent_cmp (a b : dirent) : comparison := str_cmp (fst (fst a)) (fst (fst b)).

Inductive dres := DNotExist | DCycle | DDepth | DOk (l : list dirent).

Definition list_dir (t : ftrie) (vp : str) : option (list fnode) :=
  match get_children t (normalize_path vp) with
  | None => None
  | Some l => Some (filter (fun n => negb (fn_wh n)) l)
  end.

Definition readdir (t : ftrie) (depth : Z) (p : str) : dres :=
  match lookup_resolved t depth p with
  | LNotExist => DNotExist
  | LCycle => DCycle
  | LDepth => DDepth
  | LNode n => match list_dir t (fn_vpath n) with
               | None => DNotExist
               | Some l => DOk (isort dirent_cmp (map dirent_of l))
               end
  end.

(* fs.WalkDir(fsys, ".", fn) with fn recording (path, d.IsDir(), err != nil) *)
Definition walkent := (str * bool * bool)%type.

Definition path_join (dir name : str) : str :=
  if str_eqb dir s_dot then name else dir ++ slash :: name.

Fixpoint walk_dir (t : ftrie) (depth : Z) (fuel : nat) (name : str) (isdir : bool) : list walkent :=
  match fuel with
  | O => [(name, isdir, false)]
  | S f =>
      if negb isdir then [(name, false, false)]
      else match readdir t depth name with
           | DOk l => (name, true, false) ::
                      flat_map (fun de : dirent => walk_dir t depth f (path_join name (fst (fst de))) (Z.testbit (snd (fst de)) 31)) l
           | _ => [(name, true, false); (name, true, true)]
           end
  end.

Definition walk_fs (t : ftrie) (depth : Z) : option (list walkent) :=
  match stat t depth s_dot with
  | SOk _ m _ => Some (walk_dir t depth 12%nat s_dot (Z.testbit m 31))
  | _ => None
  end.

(* Proofs about the image-view model (Fill.v) against the OCI overlay spec (Overlay.v). *)
From Coq Require Import List NArith ZArith Bool String Lia PeanoNat.
From Scalibr Require Import Lib.SortSearch Image.PathTree Image.PathTreeProofs Image.Fill Image.Overlay
  Image.ImageCases Image.ViewEq Image.Witnesses.
Import ListNotations.
Open Scope Z_scope.

(* ------------------------------------------------------------------ structure of the fill (all images) *)

(* inWhiteoutDir: true iff some ancestor carries a whiteout or a non-directory *)
Lemma in_whiteout_go_spec t ancs :
  in_whiteout_go t ancs = true <->
  exists a n, In a ancs /\ get_segs a t = Some n /\ (fn_wh n = true \/ fn_is_dir n = false).
Proof.
  induction ancs as [|a r IH]; simpl.
  - split; [discriminate|]. intros (a & n & [] & _).
  - destruct (get_segs a t) as [n|] eqn:G.
    + destruct (fn_wh n || negb (fn_is_dir n)) eqn:B.
      * split; [intros _|reflexivity]. exists a, n. split; [left; reflexivity|]. split; [exact G|].
        apply orb_true_iff in B as [B|B]; [left; exact B|right]. apply negb_true_iff in B. exact B.
      * rewrite IH. apply orb_false_iff in B as [B1 B2]. apply negb_false_iff in B2.
        split.
        -- intros (a' & n' & HI & G' & HW). exists a', n'. split; [right; exact HI|auto].
        -- intros (a' & n' & [E|HI] & G' & HW).
           ++ subst a'. rewrite G in G'. inversion G'; subst n'. destruct HW; congruence.
           ++ exists a', n'. auto.
    + rewrite IH. split.
      * intros (a' & n' & HI & G' & HW). exists a', n'. split; [right; exact HI|auto].
      * intros (a' & n' & [E|HI] & G' & HW); [subst a'; congruence|]. exists a', n'. auto.
Qed.

(* fillChainLayersWithFileNode touches the chain layers from index i on, each independently *)
Lemma fill_from_nth i vsegs n cs k :
  nth k (fill_from i vsegs n cs) empty_trie =
  if Nat.leb i k then (if Nat.ltb k (List.length cs) then fill_one vsegs n (nth k cs empty_trie) else empty_trie)
  else nth k cs empty_trie.
Proof.
  unfold fill_from.
  destruct (Nat.leb i k) eqn:E.
  - apply Nat.leb_le in E.
    destruct (Nat.ltb k (List.length cs)) eqn:L.
    + apply Nat.ltb_lt in L.
      rewrite app_nth2 by (rewrite firstn_length; lia).
      rewrite firstn_length, Nat.min_l by lia.
      assert (X : forall d, nth (k - i) (map (fill_one vsegs n) (skipn i cs)) d =
                            nth (k - i) (map (fill_one vsegs n) (skipn i cs)) (fill_one vsegs n empty_trie))
        by (intro d; apply nth_indep; rewrite map_length, skipn_length; lia).
      rewrite X, map_nth. f_equal.
      rewrite <- (firstn_skipn i cs) at 2. rewrite app_nth2 by (rewrite firstn_length; lia).
      rewrite firstn_length, Nat.min_l by lia. reflexivity.
    + apply Nat.ltb_ge in L. apply nth_overflow.
      rewrite app_length, firstn_length, map_length, skipn_length. lia.
  - apply Nat.leb_gt in E.
    destruct (Nat.ltb k (List.length cs)) eqn:L.
    + apply Nat.ltb_lt in L. rewrite app_nth1 by (rewrite firstn_length; lia).
      rewrite <- (firstn_skipn i cs) at 2. rewrite app_nth1 by (rewrite firstn_length; lia). reflexivity.
    + apply Nat.ltb_ge in L. rewrite !nth_overflow; auto.
      rewrite app_length, firstn_length, map_length, skipn_length. lia.
Qed.

(* fill_one on the map level: nothing happens when the path has a value or is hidden; otherwise the
   node is inserted (PathTreeProofs.insert_map), creating value-less ancestors *)
Lemma fill_one_refines vsegs n t sg :
  path_segs (fn_vpath n) = Some sg -> sg <> [] ->
  forall q, node_at (fill_one vsegs n t) q =
    match get_segs sg t with
    | Some _ => node_at t q
    | None => if in_whiteout_dir t vsegs then node_at t q else insert_map (node_at t) sg n q
    end.
Proof.
  intros P NE q. unfold fill_one, get. rewrite P.
  destruct (get_segs sg t) as [x|] eqn:G; [reflexivity|].
  destruct (in_whiteout_dir t vsegs); [reflexivity|].
  unfold insert_ignore, insert. rewrite P.
  pose proof (insert_refines t sg n) as H.
  destruct (insert_segs sg n t) as [t'| |].
  - destruct H as (_ & H & _). apply H.
  - destruct H as (_ & x & H). congruence.
  - contradiction.
Qed.

(* whiteouts are never exposed: Stat of a path whose (resolved) node is a whiteout says not-exist,
   and listings contain no whiteout child *)
Lemma stat_hides_whiteouts t depth p name mode size :
  stat t depth p = SOk name mode size ->
  exists n, lookup_resolved t depth p = LNode n /\ fn_wh n = false.
Proof.
  unfold stat. destruct (lookup_resolved t depth p) as [| | |n]; try discriminate.
  destruct (fn_wh n) eqn:W; [discriminate|]. intros _. exists n. auto.
Qed.

Lemma list_dir_hides_whiteouts t vp l : list_dir t vp = Some l -> forall n, In n l -> fn_wh n = false.
Proof.
  unfold list_dir. destruct (get_children t (normalize_path vp)) as [c|]; [|discriminate].
  intros E n HI. inversion E; subst. apply filter_In in HI as [_ H]. apply negb_true_iff in H. exact H.
Qed.

(* ------------------------------------------------------------------ refutations (witnesses, vm_compute) *)
Ltac witness := eexists; split; [vm_compute; reflexivity | vm_compute; repeat split; try reflexivity; try discriminate; try congruence].

(* present in the implementation's view, absent in the OCI overlay *)
Definition leaks (cfg : config) (im : image) (i : nat) (p : list seg) : Prop :=
  exists st, load cfg im = Some st /\ spec_lookup cfg im i p = None /\ impl_lookup st i p <> None.
(* present in the OCI overlay, absent in the implementation's view *)
Definition lost (cfg : config) (im : image) (i : nat) (p : list seg) : Prop :=
  exists st, load cfg im = Some st /\ spec_lookup cfg im i p <> None /\ impl_lookup st i p = None.
(* present in both with different attributes *)
Definition differs (cfg : config) (im : image) (i : nat) (p : list seg) : Prop :=
  exists st a b, load cfg im = Some st /\ spec_lookup cfg im i p = Some a /\ impl_lookup st i p = Some b /\ a <> b.

(* regression examples for the two repaired defects (fix commits 85791d6b, 1c13035d): the former
   witnesses now agree with the overlay *)
Lemma deep_whiteout_hidden_lemma :
  spec_lookup cfg_default w_deep_whiteout 1 (path "a/b/c") = None /\
  forallb (fun p => agree_at cfg_default w_deep_whiteout 1 (path p)) ["a"; "a/b"; "a/b/c"]%string = true /\
  agree_at cfg_default w_deep_whiteout 0 (path "a/b/c") = true.
Proof. vm_compute. repeat split; reflexivity. Qed.

Lemma dir_replaced_by_file_hidden_lemma :
  spec_lookup cfg_default w_dir_to_file 1 (path "a/b") = None /\
  forallb (fun p => agree_at cfg_default w_dir_to_file 1 (path p)) ["a"; "a/b"]%string = true /\
  (exists st, load cfg_default w_dir_to_file = Some st /\ impl_listing st 1 (path "a") = Some []).
Proof. split; [vm_compute; reflexivity|]. split; [vm_compute; reflexivity|]. witness. Qed.

Lemma opaque_whiteout_ignored_lemma : leaks cfg_default w_opaque 1 (path "a/b").
Proof. witness. Qed.

Lemma whiteout_and_recreate_same_layer_lemma :
  lost cfg_default w_recreate_same_layer 1 (path "a/new") /\ lost cfg_default w_recreate_same_layer 1 (path "a").
Proof. split; witness. Qed.

Lemma absolute_names_lost_lemma :
  lost cfg_default w_absolute 0 (path "etc/x") /\
  (exists st, load cfg_default w_absolute = Some st /\
              walk_fs (nth 0 (st_chains st) empty_trie) 6 = Some [(bytes ".", true, false); (bytes "etc", true, false)]).
Proof. split; witness. Qed.

Lemma implicit_parent_mode_lemma : differs cfg_default w_parent_after_child 0 (path "a").
Proof. do 3 eexists. split; [vm_compute; reflexivity|]. split; [vm_compute; reflexivity|]. split; [vm_compute; reflexivity|]. discriminate. Qed.

Lemma implicit_parent_mode_later_layer_lemma : differs cfg_default w_parent_implied_later 1 (path "a").
Proof. do 3 eexists. split; [vm_compute; reflexivity|]. split; [vm_compute; reflexivity|]. split; [vm_compute; reflexivity|]. discriminate. Qed.

Lemma whiteout_then_recreate_resurrects_lemma : leaks cfg_default w_resurrect 2 (path "a/c").
Proof. witness. Qed.

Lemma empty_dir_after_whiteout_vanishes_lemma : lost cfg_default w_empty_dir_vanishes 1 (path "d/e").
Proof. witness. Qed.

Lemma requirer_deletes_content_of_earlier_views_lemma :
  exists st, load cfg_req_g w_requirer_content = Some st /\
    impl_lookup st 0 (path "f") = spec_lookup cfg_req_g w_requirer_content 0 (path "f") /\
    impl_lookup st 0 (path "f") <> None /\
    spec_content cfg_req_g w_requirer_content 0 (path "f") = Some (bytes "keep me") /\
    impl_content st 0 (path "f") = None.
Proof. witness. Qed.

(* a file of exactly MaxFileBytes bytes is exposed by neither side (C10's contract); one byte less is *)
Lemma size_limit_boundary_agrees_lemma :
  spec_lookup cfg_max4 w_size_boundary 0 (path "f") = None /\
  agree_at cfg_max4 w_size_boundary 0 (path "f") = true /\
  spec_lookup cfg_max4 w_size_boundary 0 (path "g") <> None /\
  agree_at cfg_max4 w_size_boundary 0 (path "g") = true.
Proof. vm_compute. repeat split; try reflexivity; discriminate. Qed.

(* two visiting orders of the same tree, two different final views *)
Lemma prune_marking_order_dependent_lemma :
  exists st, load_unpruned cfg_order w_order = Some st /\
    load_order_sensitive cfg_order w_order = true /\
    impl_lookup (prune_with cfg_order walk st) 0 (path "f") = None /\
    impl_lookup (prune_with cfg_order (fun t => rev (walk t)) st) 0 (path "f") <> None.
Proof. witness. Qed.

(* non-vacuity of D: a three-layer image with deletions, replacements and a link lies inside D,
   and there the two views agree on every path it mentions *)
Lemma good_image_in_D : D cfg_default w_good = true.
Proof. vm_compute. reflexivity. Qed.

Lemma good_image_agrees :
  forallb (fun i => forallb (fun p => agree_at cfg_default w_good i (path p))
     ["etc"; "etc/passwd"; "etc/shadow"; "usr"; "usr/lib"; "usr/lib/a.so"; "lib"; "tmp"; "tmp/x"; "tmp/y"; "nope"; "usr/nope"]%string)
     [0; 1; 2]%nat = true.
Proof. vm_compute. reflexivity. Qed.

(* Proofs about the image-view model (Fill.v) against the OCI overlay spec (Overlay.v). *)
From Coq Require Import List NArith ZArith Bool String Lia.
From Scalibr Require Import Lib.SortSearch Image.PathTree Image.PathTreeProofs Image.Fill Image.Overlay
  Image.ImageCases Image.ViewEq Image.Witnesses.
Import ListNotations.
Open Scope Z_scope.

(* ------------------------------------------------------------------ refutations (witnesses, vm_compute) *)
Ltac witness := eexists; split; [vm_compute; reflexivity | vm_compute; repeat split; try reflexivity; try discriminate; try congruence].

(* present in the implementation's view, absent in the OCI overlay *)
Definition leaks (cfg : config) (im : image) (i : nat) (p : list seg) : Prop :=
  exists st, load cfg im = Some st /\ spec_lookup cfg im i p = None /\ impl_lookup st i p <> None.
(* present in the OCI overlay, absent in the implementation's view *)
Definition lost (cfg : config) (im : image) (i : nat) (p : list seg) : Prop :=
  exists st, load cfg im = Some st /\ spec_lookup cfg im i p <> None /\ impl_lookup st i p = None.
(* present in both with different attributes *)
Definition differs (cfg : config) (im : image) (i : nat) (p : list seg) : Prop :=
  exists st a b, load cfg im = Some st /\ spec_lookup cfg im i p = Some a /\ impl_lookup st i p = Some b /\ a <> b.

Lemma deep_whiteout_leaks_lemma : leaks cfg_default w_deep_whiteout 1 (path "a/b/c").
Proof. witness. Qed.

Lemma dir_replaced_by_file_leaks_lemma :
  leaks cfg_default w_dir_to_file 1 (path "a/b") /\
  (exists st, load cfg_default w_dir_to_file = Some st /\ impl_listing st 1 (path "a") = Some [bytes "b"]).
Proof. split; witness. Qed.

Lemma opaque_whiteout_ignored_lemma : leaks cfg_default w_opaque 1 (path "a/b").
Proof. witness. Qed.

Lemma whiteout_and_recreate_same_layer_lemma :
  lost cfg_default w_recreate_same_layer 1 (path "a/new") /\ lost cfg_default w_recreate_same_layer 1 (path "a").
Proof. split; witness. Qed.

Lemma absolute_names_lost_lemma :
  lost cfg_default w_absolute 0 (path "etc/x") /\
  (exists st, load cfg_default w_absolute = Some st /\
              walk_fs (nth 0 (st_chains st) empty_trie) 6 = Some [(bytes ".", true, false); (bytes "etc", true, false)]).
Proof. split; witness. Qed.

Lemma implicit_parent_mode_lemma : differs cfg_default w_parent_after_child 0 (path "a").
Proof. do 3 eexists. split; [vm_compute; reflexivity|]. split; [vm_compute; reflexivity|]. split; [vm_compute; reflexivity|]. discriminate. Qed.

Lemma implicit_parent_mode_later_layer_lemma : differs cfg_default w_parent_implied_later 1 (path "a").
Proof. do 3 eexists. split; [vm_compute; reflexivity|]. split; [vm_compute; reflexivity|]. split; [vm_compute; reflexivity|]. discriminate. Qed.

Lemma whiteout_then_recreate_resurrects_lemma : leaks cfg_default w_resurrect 2 (path "a/c").
Proof. witness. Qed.

Lemma empty_dir_after_whiteout_vanishes_lemma : lost cfg_default w_empty_dir_vanishes 1 (path "d/e").
Proof. witness. Qed.

Lemma requirer_deletes_content_of_earlier_views_lemma :
  exists st, load cfg_req_g w_requirer_content = Some st /\
    impl_lookup st 0 (path "f") = spec_lookup cfg_req_g w_requirer_content 0 (path "f") /\
    impl_lookup st 0 (path "f") <> None /\
    spec_content cfg_req_g w_requirer_content 0 (path "f") = Some (bytes "keep me") /\
    impl_content st 0 (path "f") = None.
Proof. witness. Qed.

Lemma size_limit_boundary_lemma : lost cfg_max4 w_size_boundary 0 (path "f").
Proof. witness. Qed.

Lemma duplicate_member_first_wins_lemma : differs cfg_default w_duplicate 0 (path "a").
Proof. do 3 eexists. split; [vm_compute; reflexivity|]. split; [vm_compute; reflexivity|]. split; [vm_compute; reflexivity|]. discriminate. Qed.

(* two visiting orders of the same tree, two different final views *)
Lemma prune_marking_order_dependent_lemma :
  exists st, load_unpruned cfg_order w_order = Some st /\
    load_order_sensitive cfg_order w_order = true /\
    impl_lookup (prune_with cfg_order walk st) 0 (path "f") = None /\
    impl_lookup (prune_with cfg_order (fun t => rev (walk t)) st) 0 (path "f") <> None.
Proof. witness. Qed.

(* non-vacuity of D: a three-layer image with deletions, replacements and a link lies inside D,
   and there the two views agree on every path it mentions *)
Lemma good_image_in_D : D cfg_default w_good = true.
Proof. vm_compute. reflexivity. Qed.

Lemma good_image_agrees :
  forallb (fun i => forallb (fun p => agree_at cfg_default w_good i (path p))
     ["etc"; "etc/passwd"; "etc/shadow"; "usr"; "usr/lib"; "usr/lib/a.so"; "lib"; "tmp"; "tmp/x"; "tmp/y"; "nope"; "usr/nope"]%string)
     [0; 1; 2]%nat = true.
Proof. vm_compute. reflexivity. Qed.

(* removeUnnecessaryFileNodes with a path requirer, images without links, on the proved domain Dp:
   the non-directory entries of the last view are exactly those of the unrestricted view that the requirer
   accepts; nothing else appears; directories may vanish (pathtree.Remove prunes emptied directories). *)
From Coq Require Import List NArith ZArith Bool Lia PeanoNat.
From Scalibr Require Import Lib.SortSearch Image.PathTree Image.PathTreeProofs Image.Fill Image.Overlay
  Image.ImageCases Image.ViewEq Image.FillProofs Image.FoldProofs Image.DomainP Image.ViewProofs Image.PruneProofs
  Image.ListingProofs.
Import ListNotations.

(* ------------------------------------------------------------------ Remove(p) on values, cascading cuts included *)
Lemma node_at_prefix_closed {V} (t : trie V) a b : node_at t (a ++ b) <> None -> node_at t a <> None.
Proof. rewrite node_at_app. unfold node_at. destruct (get_node a t); simpl; [discriminate|congruence]. Qed.

Lemma chain_sole_comparable {V} : forall post (f : list seg -> option (option V)) r,
  (forall a b, f (a ++ b) <> None -> f a <> None) ->
  chain_sole f post -> f r <> None ->
  PathTreeProofs.prefix r post = true \/ PathTreeProofs.prefix post r = true.
Proof.
  induction post as [|x post IH]; intros f r PC CS FR; [right; reflexivity|].
  destruct r as [|y r]; [left; reflexivity|].
  destruct CS as [S CS].
  assert (y = x) by (apply S; apply (PC [y] r); exact FR). subst y.
  destruct (IH (below f [x]) r) as [H|H].
  - intros a b Hab. unfold below in *. simpl in *. apply (PC (x :: a) b). exact Hab.
  - exact CS.
  - unfold below. simpl. exact FR.
  - left. simpl. rewrite str_eqb_refl. exact H.
  - right. simpl. rewrite str_eqb_refl. exact H.
Qed.

Lemma remove_values (t : ftrie) (p : list seg) :
  wf t -> p <> [] -> node_at t p <> None ->
  let t' := fst (remove_segs p t) in
  wf t' /\ get_segs p t' = None /\
  (forall q, get_segs q t' = get_segs q t \/ get_segs q t' = None) /\
  (forall q, PathTreeProofs.prefix q p = false -> PathTreeProofs.prefix p q = false -> get_segs q t' = get_segs q t).
Proof.
  intros W NE PR. pose proof (remove_refines t p W) as (W' & _ & R). cbv zeta. split; [exact W'|].
  destruct p as [|s p']; [contradiction|]. destruct p' as [|s2 p''].
  - split; [|split].
    + rewrite get_refines, R. simpl. rewrite str_eqb_refl. simpl. destruct (node_at t [s]); reflexivity.
    + intro q. rewrite !get_refines, R. destruct (segs_eqb q [s]); [right; destruct (node_at t [s]); reflexivity|left; reflexivity].
    + intros q H1 H2. rewrite !get_refines, R. destruct (segs_eqb q [s]) eqn:E; [|reflexivity].
      apply segs_eqb_eq in E. subst q. simpl in H1. rewrite str_eqb_refl in H1. discriminate.
  - destruct (node_at t (s :: s2 :: p'')) as [x|] eqn:N; [|contradiction].
    destruct R as (cut & PC & NC & CUT & (post & EP & CS) & _).
    assert (PP : PathTreeProofs.prefix (s :: cut) (s :: s2 :: p'') = true) by (simpl; rewrite str_eqb_refl; exact PC).
    split; [|split].
    + rewrite get_refines, CUT. unfold cut_map. rewrite PP. reflexivity.
    + intro q. rewrite !get_refines, CUT. unfold cut_map. destruct (PathTreeProofs.prefix (s :: cut) q); [right|left]; reflexivity.
    + intros q H1 H2. rewrite !get_refines, CUT. unfold cut_map.
      destruct (PathTreeProofs.prefix (s :: cut) q) eqn:PQ; [|reflexivity].
      apply prefix_app_eq in PQ as [r Er].
      destruct (node_at t q) as [y|] eqn:NQ; [|reflexivity]. exfalso.
      destruct (chain_sole_comparable post (below (node_at t) (s :: cut)) r) as [H|H].
      * intros a b Hab. unfold below in *. rewrite app_assoc in Hab. apply (node_at_prefix_closed t _ _ Hab).
      * exact CS.
      * unfold below. rewrite <- Er, NQ. discriminate.
      * (* q is a prefix of p *)
        apply prefix_app_eq in H as [c Ec]. assert (X : PathTreeProofs.prefix q (s :: s2 :: p'') = true).
        { apply prefix_app_eq. exists c. rewrite Er, EP, Ec. simpl. rewrite <- !app_assoc. reflexivity. }
        congruence.
      * apply prefix_app_eq in H as [c Ec]. assert (X : PathTreeProofs.prefix (s :: s2 :: p'') q = true).
        { apply prefix_app_eq. exists c. rewrite Er, EP, Ec. simpl. rewrite <- !app_assoc. reflexivity. }
        congruence.
Qed.

(* ------------------------------------------------------------------ pruning with any requirer, no links *)
Section PruneReq.
  Variable cfg : config.
  Variable fin : ftrie.
  Hypothesis WF : wf fin.
  Hypothesis NOLINK : forall p n, get_segs p fin = Some n -> fn_target n = [].
  (* a non-directory node: its path string parses back, nothing valued strictly above or beneath it is a
     non-directory / valued, respectively *)
  Hypothesis ND : forall p n, get_segs p fin = Some n -> fn_is_dir n = false ->
    p <> [] /\ path_segs (walk_path_string p) = Some p /\
    (forall q, PathTreeProofs.prefix p q = true -> q <> p -> get_segs q fin = None).

  Definition rfacts (kv : str * bool) : Prop :=
    snd kv = false /\ exists p n, fst kv = walk_path_string p /\ get_segs p fin = Some n /\
                                   fn_is_dir n = false /\ node_required cfg n = false.

  Lemma visit_facts_req : forall l m,
    (forall x, In x l -> get_segs (fst x) fin = Some (snd x)) ->
    (forall kv, In kv m -> rfacts kv) -> NoDup (map fst m) ->
    let m' := fold_left (prune_visit cfg fin) l m in
    (forall kv, In kv m' -> rfacts kv) /\ NoDup (map fst m') /\
    (forall k, In k (map fst m) -> In k (map fst m')) /\
    (forall x, In x l -> fn_is_dir (snd x) = false -> node_required cfg (snd x) = false ->
               In (walk_path_string (fst x)) (map fst m')).
  Proof.
    induction l as [|[p n] l IH]; intros m HL HM NDm; cbn [fold_left].
    - split; [exact HM|]. split; [exact NDm|]. split; [auto|]. intros x [].
    - assert (Gp : get_segs p fin = Some n) by (apply (HL (p, n)); left; reflexivity).
      assert (STEP : (forall kv, In kv (prune_visit cfg fin m (p, n)) -> rfacts kv) /\ NoDup (map fst (prune_visit cfg fin m (p, n))) /\
                (forall k, In k (map fst m) -> In k (map fst (prune_visit cfg fin m (p, n)))) /\
                (fn_is_dir n = false -> node_required cfg n = false -> In (walk_path_string p) (map fst (prune_visit cfg fin m (p, n))))).
      { unfold prune_visit. rewrite (rq_get_false m _ (fun kv HI => proj1 (HM kv HI))).
        destruct (fn_is_dir n) eqn:Dn.
        - split; [exact HM|]. split; [exact NDm|]. split; [auto|]. discriminate.
        - destruct (node_required cfg n) eqn:Rn; simpl.
          + rewrite (NOLINK p n Gp). split; [exact HM|]. split; [exact NDm|]. split; [auto|]. discriminate.
          + split; [|split; [|split]].
            * intros kv HI. apply rq_set_in in HI as [E|HI]; [|auto]. subst kv. split; [reflexivity|]. exists p, n. auto.
            * apply rq_set_nodup. exact NDm.
            * intros k. apply rq_set_keeps.
            * intros _ _. apply rq_set_has. }
      destruct STEP as (S1 & S2 & S3 & S4).
      destruct (IH (prune_visit cfg fin m (p, n)) (fun x HI => HL x (or_intror HI)) S1 S2) as (I1 & I2 & I3 & I4).
      split; [exact I1|]. split; [exact I2|]. split; [intros k Hk; apply I3; apply S3; exact Hk|].
      intros x [E|HI] Dx Rx; [subst x; apply I3; apply S4; assumption|apply I4; assumption].
  Qed.

  (* what the tree looks like after some of the unwanted non-directories have been removed *)
  Definition req_like (done : list (list seg)) (tc : ftrie) : Prop :=
    wf tc /\
    (forall q, get_segs q tc = get_segs q fin \/ get_segs q tc = None) /\
    (forall q n, get_segs q fin = Some n -> fn_is_dir n = false -> ~ In q done -> get_segs q tc = Some n) /\
    (forall q, In q done -> get_segs q tc = None).

  Lemma req_step tc done p n :
    req_like done tc -> get_segs p fin = Some n -> fn_is_dir n = false -> ~ In p done ->
    req_like (p :: done) (fst (remove_segs p tc)).
  Proof.
    intros (Wt & MONO & KEEP & GONE) Gp Dn NI.
    destruct (ND p n Gp Dn) as (NE & _ & BELOW).
    assert (Jp : get_segs p tc = Some n) by (apply KEEP; assumption).
    assert (PR : node_at tc p <> None).
    { rewrite get_refines in Jp. destruct (node_at tc p); discriminate. }
    destruct (remove_values tc p Wt NE PR) as (W' & G1 & G2 & G3). cbv zeta in *.
    split; [exact W'|]. split; [|split].
    - intro q. destruct (G2 q) as [E|E]; [rewrite E; apply MONO|right; exact E].
    - intros q nq Gq Dq NIq.
      assert (Nqp : q <> p) by (intro X; apply NIq; left; symmetry; exact X).
      rewrite G3; [apply KEEP; [exact Gq|exact Dq|intro X; apply NIq; right; exact X]| |].
      + (* q is not above p *)
        destruct (PathTreeProofs.prefix q p) eqn:P; [|reflexivity]. exfalso.
        destruct (ND q nq Gq Dq) as (_ & _ & BQ). specialize (BQ p P ltac:(congruence)). congruence.
      + destruct (PathTreeProofs.prefix p q) eqn:P; [|reflexivity]. exfalso.
        specialize (BELOW q P Nqp). congruence.
    - intros q [E|HI]; [subst q; exact G1|].
      destruct (G2 q) as [E|E]; [rewrite E; apply GONE; exact HI|exact E].
  Qed.

  Lemma req_phase : forall m acc done,
    (forall kv, In kv m -> rfacts kv) -> NoDup (map fst m) ->
    (forall kv p, In kv m -> fst kv = walk_path_string p -> ~ In p done) ->
    req_like done (fst acc) ->
    exists done', req_like done' (fst (fold_left prune_remove m acc)) /\
      (forall q, In q done' <-> In q done \/ exists kv n, In kv m /\ fst kv = walk_path_string q /\
                                                get_segs q fin = Some n /\ fn_is_dir n = false).
  Proof.
    induction m as [|[k v] m IH]; intros acc done HM NDm FRESH J.
    - exists done. simpl. split; [exact J|]. intro q. split; [auto|]. intros [H|(kv & n & [] & _)]. exact H.
    - destruct (HM (k, v) (or_introl eq_refl)) as [Ev (p & n & Ek & Gp & Dn & Rn)]. simpl in Ev, Ek. subst v.
      destruct (ND p n Gp Dn) as (NE & PS & _).
      assert (NI : ~ In p done) by (apply (FRESH (k, false) p (or_introl eq_refl)); exact Ek).
      pose proof (req_step (fst acc) done p n J Gp Dn NI) as J1.
      assert (E1 : fst (prune_remove acc (k, false)) = fst (remove_segs p (fst acc))).
      { rewrite prune_remove_fst. unfold remove. rewrite Ek, PS. reflexivity. }
      rewrite <- E1 in J1.
      inversion NDm; subst.
      cbn [fold_left].
      destruct (IH (prune_remove acc (walk_path_string p, false)) (p :: done)) as (done' & JJ & EQ).
      + intros kv HI. apply HM. right. exact HI.
      + assumption.
      + intros kv p2 HI E2 [X|X].
        * subst p2. apply H1. rewrite <- E2. apply in_map. exact HI.
        * apply (FRESH kv p2 (or_intror HI) E2 X).
      + exact J1.
      + exists done'. split; [exact JJ|].
        intro q. rewrite EQ. split.
        * intros [[X|X]|(kv & n2 & HI & E & Hn)].
          -- subst q. right. exists (walk_path_string p, false), n. split; [left; reflexivity|]. split; [reflexivity|auto].
          -- left. exact X.
          -- right. exists kv, n2. split; [right; exact HI|auto].
        * intros [X|(kv & n2 & [E0|HI] & E & G2 & D2)].
          -- left. right. exact X.
          -- subst kv. simpl in E. left. left.
             destruct (ND q n2 G2 D2) as (_ & PSq & _). rewrite <- E, PS in PSq. inversion PSq. reflexivity.
          -- right. exists kv, n2. split; [exact HI|auto].
  Qed.

  (* the whole pruning *)
  Lemma prune_tree_req d :
    let m := fold_left (prune_visit cfg fin) (walk fin) [] in
    let fin' := fst (fold_left prune_remove m (fin, d)) in
    wf fin' /\
    (forall q, get_segs q fin' = get_segs q fin \/ get_segs q fin' = None) /\
    (forall q n, get_segs q fin = Some n -> fn_is_dir n = false ->
       get_segs q fin' = if node_required cfg n then Some n else None).
  Proof.
    intros m fin'.
    destruct (visit_facts_req (walk fin) []) as (M1 & M2 & _ & M4).
    { intros [p n] HI. apply walk_refines in HI; [|exact WF]. simpl. rewrite get_refines, HI. reflexivity. }
    { intros kv []. }
    { constructor. }
    fold m in M1, M2, M4.
    destruct (req_phase m (fin, d) [] M1 M2) as (done' & (W' & MONO & KEEP & GONE) & EQ).
    { intros kv p _ _ []. }
    { split; [exact WF|]. split; [intro q; left; reflexivity|]. split; [intros q n G _ _; exact G|intros q []]. }
    fold fin' in W', MONO, KEEP, GONE.
    split; [exact W'|]. split; [exact MONO|].
    intros q n Gq Dq. destruct (node_required cfg n) eqn:Rn.
    - apply KEEP; [exact Gq|exact Dq|]. intro HI. apply EQ in HI as [[]|(kv & n2 & HI & E & G2 & D2)].
      destruct (M1 kv HI) as [_ (p3 & n3 & E3 & G3 & D3 & R3)].
      destruct (ND q n Gq Dq) as (_ & PSq & _). destruct (ND p3 n3 G3 D3) as (_ & PS3 & _).
      rewrite E3 in E. rewrite E, PSq in PS3. inversion PS3; subst p3. rewrite Gq in G3. inversion G3; subst. congruence.
    - apply GONE. apply EQ. right.
      assert (HW : In (q, n) (walk fin)) by (apply walk_refines; [exact WF|]; rewrite get_refines in Gq; destruct (node_at fin q) as [[x|]|]; congruence).
      pose proof (M4 (q, n) HW Dq Rn) as HK. simpl in HK. apply in_map_iff in HK as (kv & E & HI).
      exists kv, n. auto.
  Qed.
End PruneReq.

(* ------------------------------------------------------------------ instantiation on Dp *)
Lemma found_pos cfg im st i q nq :
  Dp cfg im = true -> load_unpruned cfg im = Some st -> (i < length (init_slots im))%nat ->
  q <> [] -> get_segs q (nth i (st_chains st) empty_trie) = Some nq ->
  exists A s B d, slots_upto im i = A ++ s :: B /\ transparent A q /\ find_mem (slot_es s) q = Some d /\
                  nq = e_node (fst s) d /\ In d (slot_es s) /\ e_vsegs d = q /\ entry_ok cfg d = true /\ In s (rev (all_slots im)).
Proof.
  intros DP LU Hi Nq Gq.
  pose proof (view_inv_lemma cfg im st DP LU i Hi) as [_ INV].
  pose proof (gfacts_of_Dp _ _ DP) as G.
  rewrite (INV q Nq) in Gq. destruct (scan (slots_upto im i) q) as [j d| |] eqn:S; try discriminate.
  simpl in Gq. inversion Gq; subst nq.
  apply scan_found_pos in S as (A & s & B & E & T & F & J).
  pose proof (find_mem_some _ _ _ F) as [Hd Ed].
  assert (INS : In s (rev (all_slots im))).
  { assert (X : In s (slots_upto im i)) by (rewrite E; apply in_or_app; right; left; reflexivity).
    unfold slots_upto in X. apply in_rev in X. apply firstn_In in X. apply -> in_rev. exact X. }
  exists A, s, B, d. subst j. split; [exact E|]. split; [exact T|]. split; [exact F|]. split; [reflexivity|].
  split; [exact Hd|]. split; [exact Ed|]. split; [|exact INS]. eapply (g_ok _ _ G s d); eauto.
Qed.

Lemma nothing_below_nondir cfg im st i q nq q2 :
  Dp cfg im = true -> load_unpruned cfg im = Some st -> (i < length (init_slots im))%nat ->
  get_segs q (nth i (st_chains st) empty_trie) = Some nq -> fn_is_dir nq = false -> q <> [] ->
  PathTreeProofs.prefix q q2 = true -> q2 <> q -> get_segs q2 (nth i (st_chains st) empty_trie) = None.
Proof.
  intros DP LU Hi Gq Dq Nq P2 N2.
  pose proof (gfacts_of_Dp _ _ DP) as G.
  destruct (found_pos cfg im st i q nq DP LU Hi Nq Gq) as (A & s & B & d & EDL & TA & FMd & En & Hd & Ed & OKd & INS).
  pose proof (entry_ok_facts _ _ OKd) as Fd.
  assert (Rd : is_reg d = true).
  { subst nq. destruct (e_node_fields (fst s) d) as (_ & _ & X). rewrite X, (ef_isdir d Fd) in Dq.
    destruct (ef_kind d Fd) as [(X1 & _)|(X1 & _)]; congruence. }
  destruct (get_segs q2 (nth i (st_chains st) empty_trie)) as [n2|] eqn:G2; [|reflexivity]. exfalso.
  assert (SB : strictly_below q q2 = true).
  { apply strictly_below_app. apply prefix_app_eq in P2 as [c Ec]. exists c. split; [|exact Ec].
    intro X. subst c. rewrite app_nil_r in Ec. congruence. }
  assert (N2' : q2 <> []).
  { intro X. subst q2. apply strictly_below_app in SB as (c & _ & E). destruct q; [contradiction|discriminate]. }
  destruct (found_pos cfg im st i q2 n2 DP LU Hi N2' G2) as (A2 & s2 & B2 & d2 & EDL2 & TA2 & FM2 & _ & Hd2 & Ed2 & OK2 & INS2).
  rewrite EDL in EDL2. destruct (two_splits _ _ _ _ _ _ EDL2) as [(E1 & E2 & E3)|[X|X]].
  - subst s2. pose proof (g_layer _ _ G s INS) as LAY.
    pose proof (layer_no_below _ [] LAY d2 d Hd2 Hd Rd) as NB. rewrite Ed, Ed2 in NB. congruence.
  - destruct (TA2 s X) as [_ HH].
    assert (hides (slot_es s) q2 = true) by (apply hides_spec; exists d; rewrite Ed; auto). congruence.
  - destruct (TA s2 X) as [FN _].
    pose proof (g_layer _ _ G s2 INS2) as LAY2.
    apply in_split in Hd2 as (l1 & l2 & El). rewrite El in LAY2.
    destruct (layer_okp_split l1 [] d2 l2 LAY2) as (_ & PAR & _). cbn [app] in PAR.
    destruct (PAR q) as (x & Hx & _ & Ex).
    { apply in_parent_prefixes. rewrite Ed2. auto. }
    pose proof (find_mem_in (slot_es s2) x ltac:(rewrite El; apply in_or_app; left; exact Hx)) as Z.
    rewrite Ex in Z. contradiction.
Qed.

(* (3) the last view under ANY requirer, images without links:
   - a non-directory entry of the overlay is there iff the requirer accepts its path ("/a/b" or "a/b");
   - nothing appears that the overlay does not have; directories may vanish with their last entry *)
Theorem requirer_only_removes_nonrequired_on_Dp_lemma cfg im st :
  Dp cfg im = true -> no_links_p im = true -> load cfg im = Some st -> (0 < length (init_slots im))%nat ->
  let i := (length (init_slots im) - 1)%nat in
  forall p, p <> [] ->
    (impl_lookup st i p = spec_lookup cfg im i p \/ impl_lookup st i p = None) /\
    (forall v, spec_lookup cfg im i p = Some v -> ve_kind v <> SKDir ->
       impl_lookup st i p = if path_required cfg (walk_path_string p) then Some v else None).
Proof.
  intros DP NOL LD Hn i p Np.
  unfold load in LD. destruct (load_unpruned cfg im) as [st0|] eqn:LU; [|discriminate]. inversion LD; subst st; clear LD.
  set (n := length (init_slots im)) in *.
  assert (Hi : (i < n)%nat) by (unfold i; lia).
  destruct (view_is_fold_of_fills_lemma cfg im st0 LU) as [LEN _].
  set (fin := nth i (st_chains st0) empty_trie) in *.
  assert (WFfin : wf fin) by (eapply view_wf; eauto).
  assert (ROOTV : get_segs [] fin = Some (root_node i)).
  { destruct (view_is_fold_of_fills_lemma cfg im st0 LU) as [_ FOLD]. destruct (FOLD i Hi) as (ops & E & _).
    unfold fin. rewrite E. apply apply_ops_keeps. reflexivity. }
  assert (NOLINK : forall q nq, get_segs q fin = Some nq -> fn_target nq = []).
  { intros q nq Gq. destruct q as [|x q'].
    - rewrite ROOTV in Gq. inversion Gq. reflexivity.
    - destruct (found_pos cfg im st0 i (x :: q') nq DP LU Hi ltac:(intro X0; discriminate X0) Gq) as (A & s & B & d & _ & _ & _ & E & Hd & _ & _ & INS).
      subst nq. unfold no_links_p in NOL. rewrite forallb_forall in NOL. apply in_rev in INS.
      specialize (NOL s INS). rewrite forallb_forall in NOL. specialize (NOL d Hd). apply negb_true_iff in NOL.
      unfold e_node, is_link in *. destruct (e_kind d); try reflexivity. discriminate. }
  assert (NDH : forall q nq, get_segs q fin = Some nq -> fn_is_dir nq = false ->
      q <> [] /\ path_segs (walk_path_string q) = Some q /\
      (forall q2, PathTreeProofs.prefix q q2 = true -> q2 <> q -> get_segs q2 fin = None)).
  { intros q nq Gq Dq.
    assert (Nq : q <> []) by (intro E; subst q; rewrite ROOTV in Gq; inversion Gq; subst nq; discriminate).
    split; [exact Nq|]. split.
    - destruct (found_pos cfg im st0 i q nq DP LU Hi Nq Gq) as (A & s & B & d & _ & _ & _ & _ & _ & Ed & OKd & _).
      rewrite <- Ed, <- (e_vp_walk cfg d OKd). apply (ef_path d (entry_ok_facts _ _ OKd)).
    - intros q2 P2 N2. eapply (nothing_below_nondir cfg im st0 i q nq q2); eauto. }
  (* the pruned last view *)
  assert (CH : st_chains st0 = firstn i (st_chains st0) ++ [fin]).
  { apply split_last_nth. rewrite LEN. unfold i. fold n. lia. }
  assert (LF : length (firstn i (st_chains st0)) = i) by (rewrite firstn_length, LEN; fold n; lia).
  pose proof (prune_tree_req cfg fin WFfin NOLINK NDH (st_disk st0)) as PT. cbv zeta in PT.
  assert (FIN' : nth i (st_chains (prune cfg st0)) empty_trie =
                 fst (fold_left prune_remove (fold_left (prune_visit cfg fin) (walk fin) []) (fin, st_disk st0))).
  { unfold prune, prune_with. rewrite CH, rev_app_distr. cbn [rev app].
    destruct (fold_left prune_remove (fold_left (prune_visit cfg fin) (walk fin) []) (fin, st_disk st0)) as [fin' d'].
    cbn [st_chains fst]. rewrite rev_involutive. rewrite app_nth2 by (rewrite LF; lia). rewrite LF, Nat.sub_diag. reflexivity. }
  destruct PT as (_ & MONO & KEEP).
  pose proof (view_eq_overlay_on_Dp_unpruned_lemma cfg im st0 DP LU i p Hi Np) as EQ.
  unfold impl_lookup in *. rewrite FIN'. fold fin in EQ.
  split.
  - destruct (MONO p) as [E|E]; rewrite E; [left; exact EQ|right; reflexivity].
  - intros v SV KV. rewrite <- EQ in SV.
    destruct (get_segs p fin) as [np|] eqn:Gp; [|discriminate].
    assert (Dn : fn_is_dir np = false).
    { unfold vent_of_node in SV. destruct (fn_wh np); [discriminate|]. inversion SV; subst v. simpl in KV.
      destruct (fn_is_dir np); [congruence|reflexivity]. }
    rewrite (KEEP p np Gp Dn).
    assert (WN : fn_wh np = false) by (unfold vent_of_node in SV; destruct (fn_wh np); [discriminate|reflexivity]).
    destruct (found_pos cfg im st0 i p np DP LU Hi Np Gp) as (A & s & B & d & _ & _ & _ & En & _ & Ed & OKd & _).
    assert (VP : fn_vpath np = walk_path_string p).
    { subst np. destruct (e_node_fields (fst s) d) as (V & _ & _). rewrite V, (e_vp_walk cfg d OKd), Ed. reflexivity. }
    unfold node_required. rewrite WN, VP.
    destruct (path_required cfg (walk_path_string p)); [exact SV|reflexivity].
Qed.

(* ------------------------------------------------------------------ images WITH links: what the pruning keeps *)
Section PruneLinks.
  Variable cfg : config.
  Variable fin : ftrie.
  Hypothesis WF : wf fin.
  Hypothesis ND : forall p n, get_segs p fin = Some n -> fn_is_dir n = false ->
    p <> [] /\ path_segs (walk_path_string p) = Some p /\
    (forall q, PathTreeProofs.prefix p q = true -> q <> p -> get_segs q fin = None).

  (* only entries marked `false` are removed; they are non-required non-directories *)
  Definition lfacts (kv : str * bool) : Prop :=
    snd kv = false -> exists p n, fst kv = walk_path_string p /\ get_segs p fin = Some n /\
                                   fn_is_dir n = false /\ node_required cfg n = false.

  Lemma mark_targets_facts : forall fuel n m,
    (forall kv, In kv m -> lfacts kv) -> NoDup (map fst m) ->
    (forall kv, In kv (mark_targets fin fuel n m) -> lfacts kv) /\ NoDup (map fst (mark_targets fin fuel n m)).
  Proof.
    induction fuel as [|f IH]; intros n m HM NDm; simpl; [auto|].
    destruct (get fin (fn_target n)) as [l|]; [|auto].
    assert (H1 : forall kv, In kv (rq_set m (fn_vpath l) true) -> lfacts kv).
    { intros kv HI. apply rq_set_in in HI as [E|HI]; [subst kv; intro X; discriminate X|auto]. }
    assert (H2 : NoDup (map fst (rq_set m (fn_vpath l) true))) by (apply rq_set_nodup; exact NDm).
    destruct (fn_target l); [auto|]. apply IH; assumption.
  Qed.

  Lemma visit_facts_links : forall l m,
    (forall x, In x l -> get_segs (fst x) fin = Some (snd x)) ->
    (forall kv, In kv m -> lfacts kv) -> NoDup (map fst m) ->
    (forall kv, In kv (fold_left (prune_visit cfg fin) l m) -> lfacts kv) /\
    NoDup (map fst (fold_left (prune_visit cfg fin) l m)).
  Proof.
    induction l as [|[p n] l IH]; intros m HL HM NDm; cbn [fold_left]; [auto|].
    assert (Gp : get_segs p fin = Some n) by (apply (HL (p, n)); left; reflexivity).
    assert (STEP : (forall kv, In kv (prune_visit cfg fin m (p, n)) -> lfacts kv) /\ NoDup (map fst (prune_visit cfg fin m (p, n)))).
    { unfold prune_visit. destruct (rq_get m (walk_path_string p)); [auto|].
      destruct (fn_is_dir n) eqn:Dn; [auto|].
      destruct (node_required cfg n) eqn:Rn; simpl.
      - destruct (fn_target n); [auto|]. apply mark_targets_facts; assumption.
      - split; [|apply rq_set_nodup; exact NDm].
        intros kv HI. apply rq_set_in in HI as [E|HI]; [|auto]. subst kv. intros _. exists p, n. auto. }
    destruct STEP as [S1 S2]. apply IH; [intros x HI; apply HL; right; exact HI|exact S1|exact S2].
  Qed.

  Lemma links_phase : forall m acc done,
    (forall kv, In kv m -> lfacts kv) -> NoDup (map fst m) ->
    (forall kv p, In kv m -> fst kv = walk_path_string p -> ~ In p done) ->
    (forall q, In q done -> exists n, get_segs q fin = Some n /\ fn_is_dir n = false /\ node_required cfg n = false) ->
    req_like fin done (fst acc) ->
    exists done', req_like fin done' (fst (fold_left prune_remove m acc)) /\
      (forall q, In q done' -> exists n, get_segs q fin = Some n /\ fn_is_dir n = false /\ node_required cfg n = false).
  Proof.
    induction m as [|[k v] m IH]; intros acc done HM NDm FRESH DN J.
    - exists done. simpl. auto.
    - inversion NDm; subst. cbn [fold_left]. destruct v.
      + (* marked as required: untouched *)
        assert (E : prune_remove acc (k, true) = acc) by (destruct acc; reflexivity). rewrite E.
        apply (IH acc done).
        * intros kv HI. apply HM. right. exact HI.
        * assumption.
        * intros kv p HI E2. apply (FRESH kv p (or_intror HI) E2).
        * exact DN.
        * exact J.
      + destruct (HM (k, false) (or_introl eq_refl) eq_refl) as (p & n & Ek & Gp & Dn & Rn). simpl in Ek. subst k.
        destruct (ND p n Gp Dn) as (NE & PS & _).
        assert (NI : ~ In p done) by (apply (FRESH (walk_path_string p, false) p (or_introl eq_refl)); reflexivity).
        pose proof (req_step fin ND (fst acc) done p n J Gp Dn NI) as J1.
        assert (E1 : fst (prune_remove acc (walk_path_string p, false)) = fst (remove_segs p (fst acc))).
        { rewrite prune_remove_fst. unfold remove. rewrite PS. reflexivity. }
        rewrite <- E1 in J1.
        apply (IH (prune_remove acc (walk_path_string p, false)) (p :: done)).
        * intros kv HI. apply HM. right. exact HI.
        * assumption.
        * intros kv p2 HI E2 [X|X].
          -- subst p2. apply H1. rewrite <- E2. apply in_map. exact HI.
          -- apply (FRESH kv p2 (or_intror HI) E2 X).
        * intros q [X|X]; [subst q; eauto|auto].
        * exact J1.
  Qed.

  (* every requirer, links allowed: values only disappear, and an accepted non-directory stays *)
  Lemma prune_tree_links d :
    let m := fold_left (prune_visit cfg fin) (walk fin) [] in
    let fin' := fst (fold_left prune_remove m (fin, d)) in
    wf fin' /\
    (forall q, get_segs q fin' = get_segs q fin \/ get_segs q fin' = None) /\
    (forall q n, get_segs q fin = Some n -> fn_is_dir n = false -> node_required cfg n = true -> get_segs q fin' = Some n).
  Proof.
    intros m fin'.
    destruct (visit_facts_links (walk fin) []) as (M1 & M2).
    { intros [p n] HI. apply walk_refines in HI; [|exact WF]. simpl. rewrite get_refines, HI. reflexivity. }
    { intros kv []. }
    { constructor. }
    fold m in M1, M2.
    destruct (links_phase m (fin, d) [] M1 M2) as (done' & (W' & MONO & KEEP & GONE) & DN).
    { intros kv p _ _ []. }
    { intros q []. }
    { split; [exact WF|]. split; [intro q; left; reflexivity|]. split; [intros q n G _ _; exact G|intros q []]. }
    fold fin' in W', MONO, KEEP, GONE.
    split; [exact W'|]. split; [exact MONO|].
    intros q n Gq Dq Rq. apply KEEP; [exact Gq|exact Dq|]. intro HI.
    destruct (DN q HI) as (n2 & G2 & _ & R2). rewrite Gq in G2. inversion G2; subst. congruence.
  Qed.
End PruneLinks.

(* (2) the last view of images WITH links, any requirer: values only disappear, and a non-directory entry of
   the overlay that the requirer accepts (every one, under the default requirer) is there unchanged *)
Theorem last_view_with_links_on_Dp_partial_lemma cfg im st :
  Dp cfg im = true -> load cfg im = Some st -> (0 < length (init_slots im))%nat ->
  let i := (length (init_slots im) - 1)%nat in
  forall p, p <> [] ->
    (impl_lookup st i p = spec_lookup cfg im i p \/ impl_lookup st i p = None) /\
    (forall v, spec_lookup cfg im i p = Some v -> ve_kind v <> SKDir ->
       path_required cfg (walk_path_string p) = true -> impl_lookup st i p = Some v).
Proof.
  intros DP LD Hn i p Np.
  unfold load in LD. destruct (load_unpruned cfg im) as [st0|] eqn:LU; [|discriminate]. inversion LD; subst st; clear LD.
  set (n := length (init_slots im)) in *.
  assert (Hi : (i < n)%nat) by (unfold i; lia).
  destruct (view_is_fold_of_fills_lemma cfg im st0 LU) as [LEN _].
  set (fin := nth i (st_chains st0) empty_trie) in *.
  assert (WFfin : wf fin) by (eapply view_wf; eauto).
  assert (ROOTV : get_segs [] fin = Some (root_node i)).
  { destruct (view_is_fold_of_fills_lemma cfg im st0 LU) as [_ FOLD]. destruct (FOLD i Hi) as (ops & E & _).
    unfold fin. rewrite E. apply apply_ops_keeps. reflexivity. }
  assert (NDH : forall q nq, get_segs q fin = Some nq -> fn_is_dir nq = false ->
      q <> [] /\ path_segs (walk_path_string q) = Some q /\
      (forall q2, PathTreeProofs.prefix q q2 = true -> q2 <> q -> get_segs q2 fin = None)).
  { intros q nq Gq Dq.
    assert (Nq : q <> []) by (intro E; subst q; rewrite ROOTV in Gq; inversion Gq; subst nq; discriminate).
    split; [exact Nq|]. split.
    - destruct (found_pos cfg im st0 i q nq DP LU Hi Nq Gq) as (A & s & B & d & _ & _ & _ & _ & _ & Ed & OKd & _).
      rewrite <- Ed, <- (e_vp_walk cfg d OKd). apply (ef_path d (entry_ok_facts _ _ OKd)).
    - intros q2 P2 N2. eapply (nothing_below_nondir cfg im st0 i q nq q2); eauto. }
  assert (CH : st_chains st0 = firstn i (st_chains st0) ++ [fin]).
  { apply split_last_nth. rewrite LEN. unfold i. fold n. lia. }
  assert (LF : length (firstn i (st_chains st0)) = i) by (rewrite firstn_length, LEN; fold n; lia).
  pose proof (prune_tree_links cfg fin WFfin NDH (st_disk st0)) as PT. cbv zeta in PT.
  assert (FIN' : nth i (st_chains (prune cfg st0)) empty_trie =
                 fst (fold_left prune_remove (fold_left (prune_visit cfg fin) (walk fin) []) (fin, st_disk st0))).
  { unfold prune, prune_with. rewrite CH, rev_app_distr. cbn [rev app].
    destruct (fold_left prune_remove (fold_left (prune_visit cfg fin) (walk fin) []) (fin, st_disk st0)) as [fin' d'].
    cbn [st_chains fst]. rewrite rev_involutive. rewrite app_nth2 by (rewrite LF; lia). rewrite LF, Nat.sub_diag. reflexivity. }
  destruct PT as (_ & MONO & KEEP).
  pose proof (view_eq_overlay_on_Dp_unpruned_lemma cfg im st0 DP LU i p Hi Np) as EQ.
  unfold impl_lookup in *. rewrite FIN'. fold fin in EQ.
  split.
  - destruct (MONO p) as [E|E]; rewrite E; [left; exact EQ|right; reflexivity].
  - intros v SV KV PR. rewrite <- EQ in SV.
    destruct (get_segs p fin) as [np|] eqn:Gp; [|discriminate].
    assert (Dn : fn_is_dir np = false).
    { unfold vent_of_node in SV. destruct (fn_wh np); [discriminate|]. inversion SV; subst v. simpl in KV.
      destruct (fn_is_dir np); [congruence|reflexivity]. }
    assert (WN : fn_wh np = false) by (unfold vent_of_node in SV; destruct (fn_wh np); [discriminate|reflexivity]).
    destruct (found_pos cfg im st0 i p np DP LU Hi Np Gp) as (A & s & B & d & _ & _ & _ & En & _ & Ed & OKd & _).
    assert (VP : fn_vpath np = walk_path_string p).
    { subst np. destruct (e_node_fields (fst s) d) as (V & _ & _). rewrite V, (e_vp_walk cfg d OKd), Ed. reflexivity. }
    rewrite (KEEP p np Gp Dn); [exact SV|]. unfold node_required. rewrite WN, VP. exact PR.
Qed.

(* SPEC for the path tree: a finite map from paths to optional values, with the operations written
   as plain list filters (independent of the trie in PathTree.v).  A node with value None is a
   directory nobody inserted.  Also the glue for the pathtree cases of harness/cmd/image.
   No proofs in this file. *)
From Coq Require Import List NArith Bool.
From Scalibr Require Import Lib.SortSearch Image.PathTree.
Import ListNotations.

Definition pmap := list (list seg * option N).

Fixpoint pfx (a b : list seg) : bool :=
  match a, b with
  | [], _ => true
  | x :: a', y :: b' => str_eqb x y && pfx a' b'
  | _ :: _, [] => false
  end.

Definition m_node (m : pmap) (p : list seg) : option (option N) :=
  match find (fun kv => segs_eqb (fst kv) p) m with Some kv => Some (snd kv) | None => None end.

Definition m_get (m : pmap) (p : list seg) : option N :=
  match m_node m p with Some (Some v) => Some v | _ => None end.

Definition m_set (m : pmap) (p : list seg) (v : option N) : pmap :=
  (p, v) :: filter (fun kv => negb (segs_eqb (fst kv) p)) m.

Definition prefixes (p : list seg) : list (list seg) := map (fun k => firstn k p) (seq 1 (length p - 1)).

Inductive mres := MOk | MExists | MNotAbs.

Definition m_insert (m : pmap) (p : list seg) (v : N) : pmap * mres :=
  match p with
  | [] => (m_set m [] (Some v), MOk)
  | _ => match m_get m p with
         | Some _ => (m, MExists)
         | None =>
             let m1 := fold_left (fun m q => match m_node m q with None => m_set m q None | Some _ => m end) (prefixes p) m in
             (m_set m1 p (Some v), MOk)
         end
  end.

Definition is_child_of (p q : list seg) : bool := Nat.eqb (length q) (S (length p)) && pfx p q.

Definition m_children (m : pmap) (p : list seg) : option (list N) :=
  match m_node m p with
  | None => None
  | Some _ => Some (flat_map (fun kv : list seg * option N =>
                                if is_child_of p (fst kv) then match snd kv with Some v => [v] | None => [] end else []) m)
  end.

Definition m_walk (m : pmap) : list (list seg * N) :=
  flat_map (fun kv : list seg * option N => match snd kv with Some v => [(fst kv, v)] | None => [] end) m.

(* does the node firstn c p have a sibling? *)
Definition has_sibling (m : pmap) (p : list seg) (c : nat) : bool :=
  existsb (fun kv : list seg * option N =>
             is_child_of (firstn (c - 1) p) (fst kv) && negb (segs_eqb (fst kv) (firstn c p))) m.

(* where the removal cuts: start at the node itself, climb while the node is an only child and its
   parent is not at the top level *)
Fixpoint cut_at (m : pmap) (p : list seg) (fuel c : nat) : nat :=
  match fuel with
  | O => c
  | S f => if Nat.leb c 2 then c else if has_sibling m p c then c else cut_at m p f (c - 1)
  end.

Definition m_remove (m : pmap) (p : list seg) : pmap * option N :=
  match p with
  | [] => (m, None)
  | [_] => match m_node m p with
           | None => (m, None)
           | Some v => (m_set m p None, v)
           end
  | _ => match m_node m p with
         | None => (m, None)
         | Some v => let c := cut_at m p (length p) (length p) in
                     (filter (fun kv => negb (pfx (firstn c p) (fst kv))) m, v)
         end
  end.

Definition m_empty : pmap := [([], None)].

(* ------------------------------------------------------------------ cases *)
Inductive pop :=
| PInsert (p : str) (v : N)
| PGet (p : str)
| PChildren (p : str)
| PRemove (p : str)
| PWalk.

Inductive pobs :=
| OInsert (code : N)                       (* 0 ok, 1 already exists, 2 not absolute *)
| OValue (v : option N)                    (* Get, Remove *)
| OChildren (l : option (list N))          (* sorted *)
| OWalk (l : list (str * N)).              (* sorted by path *)

Record pcase := { pc_ops : list pop; pc_obs : list pobs }.

Definition n_cmp (a b : N) : comparison := N.compare a b.
Fixpoint bytes_cmp (a b : str) : comparison :=
  match a, b with
  | [], [] => Eq
  | [], _ => Lt
  | _, [] => Gt
  | x :: a', y :: b' => match N.compare x y with Eq => bytes_cmp a' b' | c => c end
  end.
Definition walk_cmp (a b : str * N) : comparison := bytes_cmp (fst a) (fst b).

(* the model: the trie *)
Definition t_step (t : trie N) (o : pop) : trie N * pobs :=
  match o with
  | PInsert p v => match insert t p v with
                   | InsOk t' => (t', OInsert 0)
                   | InsExists => (t, OInsert 1)
                   | InsNotAbs => (t, OInsert 2)
                   end
  | PGet p => (t, OValue (get t p))
  | PChildren p => (t, OChildren (match get_children t p with Some l => Some (isort n_cmp l) | None => None end))
  | PRemove p => let (t', v) := remove t p in (t', OValue v)
  | PWalk => (t, OWalk (isort walk_cmp (map (fun x : list seg * N => (walk_path_string (fst x), snd x)) (walk t))))
  end.

Fixpoint t_run (t : trie N) (ops : list pop) : list pobs :=
  match ops with [] => [] | o :: r => let (t', ob) := t_step t o in ob :: t_run t' r end.

(* the spec: the finite map.  None = no claim (non-absolute path: the Go code answers from the root) *)
Definition m_step (m : pmap) (o : pop) : pmap * option pobs :=
  match o with
  | PInsert p v => match path_segs p with
                   | None => (m, Some (OInsert 2))
                   | Some sg => let (m', r) := m_insert m sg v in
                                (m', Some (OInsert (match r with MOk => 0 | MExists => 1 | MNotAbs => 2 end)%N))
                   end
  | PGet p => match path_segs p with None => (m, None) | Some sg => (m, Some (OValue (m_get m sg))) end
  | PChildren p => match path_segs p with
                   | None => (m, None)
                   | Some sg => (m, Some (OChildren (match m_children m sg with Some l => Some (isort n_cmp l) | None => None end)))
                   end
  | PRemove p => match path_segs p with
                 | None => (m, Some (OValue None))
                 | Some sg => let (m', v) := m_remove m sg in (m', Some (OValue v))
                 end
  | PWalk => (m, Some (OWalk (isort walk_cmp (map (fun x : list seg * N => (walk_path_string (fst x), snd x)) (m_walk m)))))
  end.

Fixpoint m_run (m : pmap) (ops : list pop) : list (option pobs) :=
  match ops with [] => [] | o :: r => let (m', ob) := m_step m o in ob :: m_run m' r end.

Definition optN_eqb (a b : option N) : bool :=
  match a, b with None, None => true | Some x, Some y => N.eqb x y | _, _ => false end.
Fixpoint listN_eqb (a b : list N) : bool :=
  match a, b with [], [] => true | x :: a', y :: b' => N.eqb x y && listN_eqb a' b' | _, _ => false end.
Fixpoint walk_eqb (a b : list (str * N)) : bool :=
  match a, b with
  | [], [] => true
  | (p, x) :: a', (q, y) :: b' => str_eqb p q && N.eqb x y && walk_eqb a' b'
  | _, _ => false
  end.

Definition pobs_eqb (a b : pobs) : bool :=
  match a, b with
  | OInsert x, OInsert y => N.eqb x y
  | OValue x, OValue y => optN_eqb x y
  | OChildren None, OChildren None => true
  | OChildren (Some x), OChildren (Some y) => listN_eqb x y
  | OWalk x, OWalk y => walk_eqb x y
  | _, _ => false
  end.

Fixpoint all_obs_eqb (a b : list pobs) : bool :=
  match a, b with [], [] => true | x :: a', y :: b' => pobs_eqb x y && all_obs_eqb a' b' | _, _ => false end.

Fixpoint spec_obs_ok (want : list (option pobs)) (got : list pobs) : bool :=
  match want, got with
  | [], [] => true
  | None :: w, _ :: g => spec_obs_ok w g
  | Some x :: w, y :: g => pobs_eqb x y && spec_obs_ok w g
  | _, _ => false
  end.

Definition pcase_model_ok (c : pcase) : bool := all_obs_eqb (t_run empty_trie (pc_ops c)) (pc_obs c).
Definition pcase_spec_ok (c : pcase) : bool := spec_obs_ok (m_run m_empty (pc_ops c)) (pc_obs c).

Fixpoint pbad_indices (ok : pcase -> bool) (l : list pcase) (i : nat) : list nat :=
  match l with [] => [] | x :: r => if ok x then pbad_indices ok r (S i) else i :: pbad_indices ok r (S i) end.

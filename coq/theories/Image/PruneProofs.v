(* The final pruning (removeUnnecessaryFileNodes) with the default requirer on the proved domain Dp:
   it removes exactly the whiteout nodes, and -- when every nested directory that holds a whiteout
   keeps another entry (Overlay.final_prune_safe) -- nothing else changes in the last view. *)
From Coq Require Import List NArith ZArith Bool Lia PeanoNat.
From Scalibr Require Import Lib.SortSearch Image.PathTree Image.PathTreeProofs Image.Fill Image.Overlay
  Image.ImageCases Image.ViewEq Image.FillProofs Image.FoldProofs Image.DomainP Image.ViewProofs.
Import ListNotations.

(* ------------------------------------------------------------------ removing one node, on values *)
Lemma chain_sole_last {V} (f : list seg -> option (option V)) post :
  chain_sole f post -> post <> [] -> sole (below f (removelast post)) (last post []).
Proof.
  revert f; induction post as [|x post IH]; intros f C NE; [contradiction|].
  destruct post as [|y post].
  - simpl in *. destruct C as [S _]. intros s' H. apply S. unfold below in H. simpl in H. exact H.
  - destruct C as [_ C]. specialize (IH (below f [x]) C ltac:(discriminate)).
    change (removelast (x :: y :: post)) with (x :: removelast (y :: post)).
    change (last (x :: y :: post) []) with (last (y :: post) []).
    intros s' H. apply IH. unfold below in *. simpl in *. exact H.
Qed.

Lemma last_app {A} (a b : list A) d : b <> [] -> last (a ++ b) d = last b d.
Proof.
  induction a as [|x a IH]; intro NE; [reflexivity|].
  simpl. specialize (IH NE). destruct (a ++ b) eqn:E; [apply app_eq_nil in E as [_ E]; contradiction|exact IH].
Qed.

Lemma prefix_app_eq (a b : list seg) : PathTreeProofs.prefix a b = true <-> exists c, b = a ++ c.
Proof.
  revert b; induction a as [|x a IH]; intro b; simpl.
  - split; [intros _; exists b; reflexivity|reflexivity].
  - destruct b as [|y b]; [split; [discriminate|intros [c H]; discriminate]|].
    rewrite andb_true_iff, str_eqb_eq, IH. split.
    + intros [E [c H]]. subst. exists c. reflexivity.
    + intros [c H]. inversion H; subst. split; [reflexivity|exists c; reflexivity].
Qed.

(* Remove(p) for a valued node p that has no valued node beneath it and whose nested parent keeps another
   child: exactly the subtree at p disappears *)
Lemma remove_exact (t : ftrie) (p : list seg) :
  wf t -> p <> [] -> node_at t p <> None ->
  (forall c0 p0, p = c0 :: p0 -> (2 <= length p0)%nat ->
     exists c, c <> last p [] /\ node_at t (removelast p ++ [c]) <> None) ->
  wf (fst (remove_segs p t)) /\
  forall q, get_segs q (fst (remove_segs p t)) =
            if PathTreeProofs.prefix p q then (if segs_eqb q p then None else
                                                 match p with [_] => get_segs q t | _ => None end)
            else get_segs q t.
Proof.
  intros W NE PR OTHER.
  pose proof (remove_refines t p W) as (W' & _ & R). split; [exact W'|].
  destruct p as [|s p']; [contradiction|].
  destruct p' as [|s2 p''].
  - (* top level: only the value goes *)
    intro q. rewrite !get_refines, R.
    destruct (segs_eqb q [s]) eqn:E.
    + apply segs_eqb_eq in E. subst q. simpl. rewrite str_eqb_refl. simpl.
      destruct (node_at t [s]); reflexivity.
    + destruct (PathTreeProofs.prefix [s] q); reflexivity.
  - destruct (node_at t (s :: s2 :: p'')) as [x|] eqn:N; [|contradiction].
    destruct R as (cut & PC & NC & CUT & (post & EP & CS) & HIGH).
    assert (post = []).
    { destruct post as [|x0 post0] eqn:EPost; [reflexivity|]. exfalso.
      assert (L2 : (2 <= length (s2 :: p''))%nat).
      { rewrite EP, app_length. destruct cut; [contradiction|]. simpl. lia. }
      destruct (OTHER s (s2 :: p'') eq_refl L2) as (c & Nc & Hc).
      pose proof (chain_sole_last _ _ CS ltac:(discriminate)) as SL.
      assert (Ec : c = last (s :: s2 :: p'') []).
      { assert (X : last (s :: s2 :: p'') [] = last (x0 :: post0) []).
        { change (s :: s2 :: p'') with ([s] ++ (s2 :: p'')). rewrite EP, app_assoc. apply last_app. discriminate. }
        rewrite X. apply SL. unfold below.
        assert (Y : removelast (s :: s2 :: p'') = (s :: cut) ++ removelast (x0 :: post0)).
        { change (s :: s2 :: p'') with ([s] ++ (s2 :: p'')). rewrite EP.
          rewrite app_assoc. rewrite removelast_app by discriminate. reflexivity. }
        rewrite Y, <- app_assoc in Hc. exact Hc. }
      contradiction. }
    subst post. rewrite app_nil_r in EP. subst cut.
    intro q. rewrite !get_refines, CUT. unfold cut_map.
    destruct (PathTreeProofs.prefix (s :: s2 :: p'') q) eqn:P; [|reflexivity].
    destruct (segs_eqb q (s :: s2 :: p'')); reflexivity.
Qed.

(* ------------------------------------------------------------------ pruning a tree whose whiteouts are "clean" *)
Section Prune.
  Variable cfg : config.
  Hypothesis REQ : cfg_req cfg = None.
  Variable fin : ftrie.
  Hypothesis WF : wf fin.
  (* no links *)
  Hypothesis NOLINK : forall p n, get_segs p fin = Some n -> fn_target n = [].
  (* every whiteout node: not a directory, nothing valued beneath it, its path string parses back, and a
     nested parent keeps a child that is not a whiteout *)
  Hypothesis WH : forall p n, get_segs p fin = Some n -> fn_wh n = true ->
    p <> [] /\ fn_is_dir n = false /\ path_segs (walk_path_string p) = Some p /\
    (forall q, PathTreeProofs.prefix p q = true -> q <> p -> get_segs q fin = None) /\
    (forall c0 p0, p = c0 :: p0 -> (2 <= length p0)%nat ->
       exists c nc, get_segs (removelast p ++ [c]) fin = Some nc /\ fn_wh nc = false).

  Definition mfacts (kv : str * bool) : Prop :=
    snd kv = false /\ exists p n, fst kv = walk_path_string p /\ get_segs p fin = Some n /\ fn_wh n = true.

  Lemma rq_get_false m k : (forall kv, In kv m -> snd kv = false) -> rq_get m k = false.
  Proof.
    induction m as [|[k' v] m IH]; intro H; simpl; [reflexivity|].
    destruct (str_eqb k' k); [apply (H (k', v)); left; reflexivity|apply IH; intros kv HI; apply H; right; exact HI].
  Qed.

  Lemma rq_set_in m k v kv : In kv (rq_set m k v) -> kv = (k, v) \/ In kv m.
  Proof.
    induction m as [|[k' v'] m IH]; simpl.
    - intros [E|[]]. left. symmetry. exact E.
    - destruct (str_eqb k' k) eqn:E; simpl.
      + intros [H|H]; [left; apply str_eqb_eq in E; rewrite <- H, E; reflexivity|right; right; exact H].
      + intros [H|H]; [right; left; exact H|]. destruct (IH H) as [X|X]; [left; exact X|right; right; exact X].
  Qed.

  Lemma rq_set_has m k v : In k (map fst (rq_set m k v)).
  Proof.
    induction m as [|[k' v'] m IH]; simpl; [left; reflexivity|].
    destruct (str_eqb k' k) eqn:E; simpl; [left; apply str_eqb_eq in E; exact E|right; exact IH].
  Qed.

  Lemma rq_set_keeps m k v k0 : In k0 (map fst m) -> In k0 (map fst (rq_set m k v)).
  Proof.
    induction m as [|[k' v'] m IH]; simpl; [tauto|].
    destruct (str_eqb k' k); simpl; intros [H|H]; auto.
  Qed.

  Lemma rq_set_nodup m k v : NoDup (map fst m) -> NoDup (map fst (rq_set m k v)).
  Proof.
    induction m as [|[k' v'] m IH]; simpl; intro ND.
    - constructor; [intros []|constructor].
    - inversion ND; subst. destruct (str_eqb k' k) eqn:E; simpl.
      + constructor; assumption.
      + constructor; [|apply IH; assumption].
        intro HI. apply H1. clear -HI E.
        induction m as [|[k2 v2] m IH2]; simpl in *.
        * destruct HI as [HI|[]]. subst. rewrite str_eqb_refl in E. discriminate.
        * destruct (str_eqb k2 k); simpl in HI; destruct HI as [HI|HI]; auto.
    Qed.

  (* the marking phase: only whiteout nodes are marked, all of them, with `false` *)
  Lemma visit_facts : forall l m,
    (forall x, In x l -> get_segs (fst x) fin = Some (snd x)) ->
    (forall kv, In kv m -> mfacts kv) -> NoDup (map fst m) ->
    let m' := fold_left (prune_visit cfg fin) l m in
    (forall kv, In kv m' -> mfacts kv) /\ NoDup (map fst m') /\
    (forall k, In k (map fst m) -> In k (map fst m')) /\
    (forall x, In x l -> fn_wh (snd x) = true -> In (walk_path_string (fst x)) (map fst m')).
  Proof.
    induction l as [|[p n] l IH]; intros m HL HM ND; cbn [fold_left].
    - split; [exact HM|]. split; [exact ND|]. split; [auto|]. intros x [].
    - assert (Gp : get_segs p fin = Some n) by (apply (HL (p, n)); left; reflexivity).
      assert (STEP : let m1 := prune_visit cfg fin m (p, n) in
                (forall kv, In kv m1 -> mfacts kv) /\ NoDup (map fst m1) /\
                (forall k, In k (map fst m) -> In k (map fst m1)) /\
                (fn_wh n = true -> In (walk_path_string p) (map fst m1))).
      { cbv zeta. unfold prune_visit. rewrite (rq_get_false m _ (fun kv HI => proj1 (HM kv HI))).
        destruct (fn_is_dir n) eqn:Dn.
        - split; [exact HM|]. split; [exact ND|]. split; [auto|]. intro Wn. destruct (WH p n Gp Wn) as (_ & X & _). congruence.
        - unfold node_required, path_required. rewrite REQ.
          destruct (fn_wh n) eqn:Wn; simpl.
          + split; [|split; [|split]].
            * intros kv HI. apply rq_set_in in HI as [E|HI]; [|auto]. subst kv. split; [reflexivity|]. exists p, n. auto.
            * apply rq_set_nodup. exact ND.
            * intros k. apply rq_set_keeps.
            * intros _. apply rq_set_has.
          + rewrite (NOLINK p n Gp). split; [exact HM|]. split; [exact ND|]. split; [auto|]. discriminate. }
      cbv zeta in STEP. destruct STEP as (S1 & S2 & S3 & S4).
      destruct (IH (prune_visit cfg fin m (p, n)) (fun x HI => HL x (or_intror HI)) S1 S2) as (I1 & I2 & I3 & I4).
      split; [exact I1|]. split; [exact I2|]. split; [intros k Hk; apply I3; apply S3; exact Hk|].
      intros x [E|HI] Wx; [subst x; apply I3; apply S4; exact Wx|apply I4; assumption].
  Qed.

  (* the removal phase *)
  Definition pruned_like (done : list (list seg)) (tc : ftrie) : Prop :=
    wf tc /\ forall q, get_segs q tc = if existsb (segs_eqb q) done then None else get_segs q fin.

  Lemma existsb_segs q l : existsb (segs_eqb q) l = true <-> In q l.
  Proof.
    rewrite existsb_exists. split.
    - intros (x & Hx & E). apply segs_eqb_eq in E. subst. exact Hx.
    - intro H. exists q. split; [exact H|apply segs_eqb_eq; reflexivity].
  Qed.

  Lemma remove_step tc done p n :
    pruned_like done tc -> get_segs p fin = Some n -> fn_wh n = true -> ~ In p done ->
    (forall q, In q done -> exists nq, get_segs q fin = Some nq /\ fn_wh nq = true) ->
    pruned_like (p :: done) (fst (remove_segs p tc)).
  Proof.
    intros [Wt J] Gp Wn NI DW.
    destruct (WH p n Gp Wn) as (NE & _ & _ & BELOW & OTHER).
    assert (Jp : get_segs p tc = Some n).
    { rewrite J. destruct (existsb (segs_eqb p) done) eqn:X; [apply existsb_segs in X; contradiction|exact Gp]. }
    assert (PR : node_at tc p <> None).
    { rewrite get_refines in Jp. destruct (node_at tc p); [discriminate|discriminate]. }
    destruct (remove_exact tc p Wt NE PR) as [W' G'].
    { intros c0 p0 E L. destruct (OTHER c0 p0 E L) as (c & nc & Gc & Wc). exists c. split.
      - intro Ec. subst c. assert (X : removelast p ++ [last p []] = p) by (symmetry; apply app_removelast_last; exact NE).
        rewrite X, Gp in Gc. inversion Gc; subst. congruence.
      - assert (Jc : get_segs (removelast p ++ [c]) tc = Some nc).
        { rewrite J. destruct (existsb (segs_eqb (removelast p ++ [c])) done) eqn:X; [|exact Gc].
          apply existsb_segs in X. destruct (DW _ X) as (nq & Gq & Wq). rewrite Gc in Gq. inversion Gq; subst. congruence. }
        rewrite get_refines in Jc. destruct (node_at tc (removelast p ++ [c])); discriminate. }
    split; [exact W'|].
    intro q. rewrite G'. simpl.
    destruct (segs_eqb q p) eqn:E.
    - apply segs_eqb_eq in E. subst q.
      assert (X : PathTreeProofs.prefix p p = true) by (apply prefix_app_eq; exists []; rewrite app_nil_r; reflexivity).
      rewrite X. reflexivity.
    - cbn [orb]. destruct (PathTreeProofs.prefix p q) eqn:P.
      + assert (Nq : q <> p) by (intro X; subst; rewrite (proj2 (segs_eqb_eq p p) eq_refl) in E; discriminate).
        pose proof (BELOW q P Nq) as Bq.
        assert (R : (if existsb (segs_eqb q) done then None else get_segs q fin) = None)
          by (destruct (existsb (segs_eqb q) done); [reflexivity|exact Bq]).
        rewrite R. destruct p as [|a [|b p']]; [contradiction| |reflexivity].
        rewrite J. exact R.
      + apply J.
  Qed.

  Lemma prune_remove_fst acc k : fst (prune_remove acc (k, false)) = fst (remove (fst acc) k).
  Proof.
    destruct acc as [t d]. simpl. destruct (remove t k) as [t' [n0|]]; reflexivity.
  Qed.

  Lemma remove_phase : forall m acc done,
    (forall kv, In kv m -> mfacts kv) -> NoDup (map fst m) ->
    (forall kv p, In kv m -> fst kv = walk_path_string p -> ~ In p done) ->
    (forall q, In q done -> exists nq, get_segs q fin = Some nq /\ fn_wh nq = true) ->
    pruned_like done (fst acc) ->
    exists done', pruned_like done' (fst (fold_left prune_remove m acc)) /\
      (forall q, In q done' <-> In q done \/ exists kv, In kv m /\ fst kv = walk_path_string q /\
                                                exists n, get_segs q fin = Some n /\ fn_wh n = true) /\
      (forall q, In q done' -> exists nq, get_segs q fin = Some nq /\ fn_wh nq = true).
  Proof.
    induction m as [|[k v] m IH]; intros acc done HM ND FRESH DW J.
    - exists done. simpl. split; [exact J|]. split; [|exact DW].
      intro q. split; [auto|]. intros [H|(kv & [] & _)]. exact H.
    - destruct (HM (k, v) (or_introl eq_refl)) as [Ev (p & n & Ek & Gp & Wn)]. simpl in Ev, Ek. subst v.
      destruct (WH p n Gp Wn) as (NE & _ & PS & _ & _).
      assert (NI : ~ In p done) by (apply (FRESH (k, false) p (or_introl eq_refl)); exact Ek).
      pose proof (remove_step (fst acc) done p n J Gp Wn NI DW) as J1.
      assert (E1 : fst (prune_remove acc (k, false)) = fst (remove_segs p (fst acc))).
      { rewrite prune_remove_fst. unfold remove. rewrite Ek, PS. reflexivity. }
      rewrite <- E1 in J1.
      inversion ND; subst.
      cbn [fold_left].
      destruct (IH (prune_remove acc (walk_path_string p, false)) (p :: done)) as (done' & JJ & EQ & DW').
      + intros kv HI. apply HM. right. exact HI.
      + assumption.
      + intros kv p2 HI E2 [X|X].
        * subst p2. apply H1. rewrite <- E2. apply in_map. exact HI.
        * apply (FRESH kv p2 (or_intror HI) E2 X).
      + intros q [X|X]; [subst q; eauto|auto].
      + exact J1.
      + exists done'. split; [exact JJ|]. split; [|exact DW'].
        intro q. rewrite EQ. split.
        * intros [[X|X]|(kv & HI & E & Hn)].
          -- subst q. right. exists (walk_path_string p, false). split; [left; reflexivity|]. split; [reflexivity|eauto].
          -- left. exact X.
          -- right. exists kv. split; [right; exact HI|auto].
        * intros [X|(kv & [E0|HI] & E & n2 & G2 & W2)].
          -- left. right. exact X.
          -- subst kv. simpl in E. left. left.
             destruct (WH q n2 G2 W2) as (_ & _ & PSq & _ & _). rewrite <- E, PS in PSq. inversion PSq. reflexivity.
          -- right. exists kv. split; [exact HI|eauto].
  Qed.

  (* the whole pruning: exactly the whiteout values disappear *)
  Lemma prune_tree_spec d :
    let m := fold_left (prune_visit cfg fin) (walk fin) [] in
    let fin' := fst (fold_left prune_remove m (fin, d)) in
    wf fin' /\
    forall q, get_segs q fin' = match get_segs q fin with
                                | Some n => if fn_wh n then None else Some n
                                | None => None
                                end.
  Proof.
    intros m fin'.
    assert (WF' : wf fin').
    { destruct (visit_facts (walk fin) []) as (M1 & M2 & _ & _).
      { intros [p n] HI. apply walk_refines in HI; [|exact WF]. simpl. rewrite get_refines, HI. reflexivity. }
      { intros kv []. }
      { constructor. }
      destruct (remove_phase (fold_left (prune_visit cfg fin) (walk fin) []) (fin, d) [] M1 M2) as (done' & [W' _] & _ & _).
      { intros kv p _ _ []. }
      { intros q0 []. }
      { split; [exact WF|]. intro q0. reflexivity. }
      exact W'. }
    split; [exact WF'|]. intro q.
    destruct (visit_facts (walk fin) []) as (M1 & M2 & _ & M4).
    { intros [p n] HI. apply walk_refines in HI; [|exact WF]. simpl. rewrite get_refines, HI. reflexivity. }
    { intros kv []. }
    { constructor. }
    fold m in M1, M2, M4.
    destruct (remove_phase m (fin, d) [] M1 M2) as (done' & [_ J] & EQ & DW).
    { intros kv p _ _ []. }
    { intros q0 []. }
    { split; [exact WF|]. intro q0. reflexivity. }
    fold fin' in J. rewrite J.
    destruct (get_segs q fin) as [n|] eqn:G.
    - destruct (fn_wh n) eqn:W.
      + assert (X : In q done').
        { apply EQ. right.
          assert (HW : In (q, n) (walk fin)) by (apply walk_refines; [exact WF|]; rewrite get_refines in G; destruct (node_at fin q) as [[x|]|]; congruence).
          pose proof (M4 (q, n) HW W) as HK. simpl in HK. apply in_map_iff in HK as (kv & E & HI).
          exists kv. split; [exact HI|]. split; [exact E|eauto]. }
        apply existsb_segs in X. rewrite X. reflexivity.
      + destruct (existsb (segs_eqb q) done') eqn:X; [|reflexivity].
        apply existsb_segs in X. destruct (DW q X) as (nq & Gq & Wq). rewrite G in Gq. inversion Gq; subst. congruence.
    - destruct (existsb (segs_eqb q) done'); reflexivity.
  Qed.
End Prune.

(* ------------------------------------------------------------------ instantiation on Dp *)
Lemma fill_one_wf vs n (t : ftrie) : wf t -> wf (fill_one vs n t).
Proof.
  intro W. unfold fill_one. destruct (get t (fn_vpath n)); [exact W|].
  destruct (in_whiteout_dir t vs); [exact W|].
  unfold insert_ignore, insert. destruct (path_segs (fn_vpath n)) as [sg|]; [|exact W].
  pose proof (insert_refines t sg n) as H. destruct (insert_segs sg n t); [|exact W|exact W].
  destruct H as (_ & _ & H). apply H. exact W.
Qed.

Lemma apply_ops_wf ops : forall t, wf t -> wf (apply_ops ops t).
Proof. induction ops as [|[vs n] r IH]; intros t W; [exact W|]. simpl. apply IH. apply fill_one_wf. exact W. Qed.

Lemma e_vp_walk cfg e : entry_ok cfg e = true -> e_vp e = walk_path_string (e_vsegs e).
Proof.
  intro OK. pose proof (entry_ok_facts _ _ OK) as F. pose proof (ef_ne e F) as NE.
  unfold entry_ok in OK. repeat (apply andb_true_iff in OK; destruct OK as [OK ?]).
  match goal with X : negb (fst (fst (e_plan e))) = true |- _ => apply negb_true_iff in X; rename X into AB end.
  unfold e_vp, e_vsegs in *. destruct (fst (e_plan e)) as [ab sg]. simpl in *. subst ab.
  destruct sg; [contradiction|reflexivity].
Qed.

(* position of the slot in which scan finds its answer *)
Definition transparent (A : list slot) (p : list seg) : Prop :=
  forall s, In s A -> find_mem (slot_es s) p = None /\ hides (slot_es s) p = false.

Lemma scan_found_pos dl p j d : scan dl p = RFound j d ->
  exists A s B, dl = A ++ s :: B /\ transparent A p /\ find_mem (slot_es s) p = Some d /\ fst s = j.
Proof.
  induction dl as [|s dl IH]; simpl; [discriminate|].
  destruct (find_mem (slot_es s) p) as [x|] eqn:F.
  - intro H. inversion H; subst. exists [], s, dl. split; [reflexivity|]. split; [intros s0 []|auto].
  - destruct (hides (slot_es s) p) eqn:Hh; [discriminate|]. intro H.
    destruct (IH H) as (A & s0 & B & E & T & F0 & J). exists (s :: A), s0, B. split; [subst; reflexivity|].
    split; [|auto]. intros s1 [E1|HI]; [subst; auto|auto].
Qed.

Lemma two_splits {A} (a1 b1 a2 b2 : list A) x y :
  a1 ++ x :: b1 = a2 ++ y :: b2 -> (a1 = a2 /\ x = y /\ b1 = b2) \/ In x a2 \/ In y a1.
Proof.
  revert a2; induction a1 as [|z a1 IH]; intros a2 H; destruct a2 as [|w a2]; simpl in H.
  - inversion H. auto.
  - inversion H; subst. right. left. left. reflexivity.
  - inversion H; subst. right. right. left. reflexivity.
  - inversion H; subst. destruct (IH _ H2) as [(E1 & E2 & E3)|[X|X]].
    + left. subst. auto.
    + right. left. right. exact X.
    + right. right. right. exact X.
Qed.

Lemma s_lookup_in m k v : In (k, v) m -> s_lookup m k <> None.
Proof.
  induction m as [|[k' v'] m IH]; [intros []|]. intros [E|H]; simpl.
  - inversion E; subst. rewrite (proj2 (segs_eqb_eq k k) eq_refl). discriminate.
  - destruct (segs_eqb k' k); [discriminate|auto].
Qed.

Lemma s_children_in m p : s_children m p <> [] -> exists c, s_lookup m (p ++ [c]) <> None.
Proof.
  unfold s_children. induction m as [|[k v] m IH]; simpl; [congruence|].
  destruct (rev k) as [|b rd] eqn:R.
  - simpl. intro H. destruct (IH H) as [c Hc]. exists c.
    destruct (segs_eqb k (p ++ [c])); [discriminate|exact Hc].
  - destruct (segs_eqb (rev rd) p) eqn:E.
    + intros _. apply segs_eqb_eq in E. exists b.
      assert (K : k = p ++ [b]). { rewrite <- (rev_involutive k), R. simpl. rewrite E. reflexivity. }
      rewrite K. rewrite (proj2 (segs_eqb_eq _ _) eq_refl). discriminate.
    + simpl. intro H. destruct (IH H) as [c Hc]. exists c.
      destruct (segs_eqb k (p ++ [c])); [discriminate|exact Hc].
Qed.

Lemma split_last_nth {A} (d : A) : forall i (l : list A), length l = S i -> l = firstn i l ++ [nth i l d].
Proof.
  induction i as [|i IH]; intros l H; destruct l as [|x l]; simpl in H; try discriminate.
  - destruct l; [reflexivity|discriminate].
  - simpl. f_equal. apply IH. lia.
Qed.

(* the last view after the final pruning, default requirer: exactly the whiteout values are gone *)
Lemma last_view_pruned cfg im st0 :
  Dp cfg im = true -> no_links_p im = true -> prune_safe_p cfg im = true -> cfg_req cfg = None ->
  load_unpruned cfg im = Some st0 -> (0 < length (init_slots im))%nat ->
  let i := (length (init_slots im) - 1)%nat in
  wf (nth i (st_chains (prune cfg st0)) empty_trie) /\
  forall q, get_segs q (nth i (st_chains (prune cfg st0)) empty_trie) =
            match get_segs q (nth i (st_chains st0) empty_trie) with
            | Some n => if fn_wh n then None else Some n
            | None => None
            end.
Proof.
  intros DP NOL PS REQ LU Hn.
  set (n := length (init_slots im)) in *.
  set (i := (n - 1)%nat). cbv zeta. fold n. fold i.
  assert (Hi : (i < n)%nat) by (unfold i; lia).
  destruct (view_is_fold_of_fills_lemma cfg im st0 LU) as [LEN FOLD].
  destruct (FOLD i Hi) as (ops & EOPS & _).
  pose proof (view_inv_lemma cfg im st0 DP LU i Hi) as [ROOT INV].
  pose proof (gfacts_of_Dp _ _ DP) as G.
  set (fin := nth i (st_chains st0) empty_trie) in *.
  set (dl := slots_upto im i) in *.
  assert (INDL : forall s, In s dl -> In s (rev (all_slots im))).
  { intros s Hs. unfold dl, slots_upto in Hs. apply in_rev in Hs. apply firstn_In in Hs. apply -> in_rev. exact Hs. }
  assert (WFfin : wf fin).
  { rewrite EOPS. apply apply_ops_wf. simpl. split; [constructor|exact I]. }
  assert (ROOTV : get_segs [] fin = Some (root_node i)).
  { rewrite EOPS. apply apply_ops_keeps. reflexivity. }
  (* members found by scan *)
  assert (FOUND : forall q nq, q <> [] -> get_segs q fin = Some nq ->
            exists A s B d, dl = A ++ s :: B /\ transparent A q /\ find_mem (slot_es s) q = Some d /\
                            nq = e_node (fst s) d /\ In d (slot_es s) /\ e_vsegs d = q /\ entry_ok cfg d = true).
  { intros q nq Nq Gq. rewrite (INV q Nq) in Gq. destruct (scan dl q) as [j d| |] eqn:S; try discriminate.
    simpl in Gq. inversion Gq; subst nq.
    apply scan_found_pos in S as (A & s & B & E & T & F & J).
    pose proof (find_mem_some _ _ _ F) as [Hd Ed].
    exists A, s, B, d. subst j. split; [exact E|]. split; [exact T|]. split; [exact F|]. split; [reflexivity|]. split; [exact Hd|]. split; [exact Ed|].
    eapply (g_ok _ _ G s d); [apply INDL; rewrite E; apply in_or_app; right; left; reflexivity|exact Hd]. }
  (* the hypotheses of the abstract pruning lemma *)
  assert (NOLINK : forall q nq, get_segs q fin = Some nq -> fn_target nq = []).
  { intros q nq Gq. destruct q as [|x q'].
    - rewrite ROOTV in Gq. inversion Gq. reflexivity.
    - destruct (FOUND (x :: q') nq ltac:(intro X0; discriminate X0) Gq) as (A & s & B & d & EDL & _ & _ & E & Hd & _). subst nq.
      assert (NL : is_link d = false).
      { unfold no_links_p in NOL. rewrite forallb_forall in NOL.
        assert (INS : In s (all_slots im)) by (apply in_rev; apply INDL; rewrite EDL; apply in_or_app; right; left; reflexivity).
        specialize (NOL s INS). rewrite forallb_forall in NOL. specialize (NOL d Hd). apply negb_true_iff in NOL. exact NOL. }
      unfold e_node, is_link in *. destruct (e_kind d); try reflexivity. discriminate. }
  assert (WHH : forall q nq, get_segs q fin = Some nq -> fn_wh nq = true ->
      q <> [] /\ fn_is_dir nq = false /\ path_segs (walk_path_string q) = Some q /\
      (forall q2, PathTreeProofs.prefix q q2 = true -> q2 <> q -> get_segs q2 fin = None) /\
      (forall c0 p0, q = c0 :: p0 -> (2 <= length p0)%nat ->
         exists c nc, get_segs (removelast q ++ [c]) fin = Some nc /\ fn_wh nc = false)).
  { intros q nq Gq Wq.
    assert (Nq : q <> []).
    { intro E. subst q. rewrite ROOTV in Gq. inversion Gq; subst nq. discriminate. }
    destruct (FOUND q nq Nq Gq) as (A & s & B & d & EDL & TA & FMd & En & Hd & Ed & OKd).
    pose proof (entry_ok_facts _ _ OKd) as Fd.
    assert (Wd : e_whf d = true).
    { destruct (e_node_fields (fst s) d) as (_ & X & _). rewrite <- X, <- En. exact Wq. }
    assert (Rd : is_reg d = true).
    { destruct (ef_kind d Fd) as [(_ & _ & X)|(X & _)]; congruence. }
    split; [exact Nq|]. split.
    { subst nq. destruct (e_node_fields (fst s) d) as (_ & _ & X). rewrite X, (ef_isdir d Fd).
      destruct (ef_kind d Fd) as [(_ & X1 & _)|(_ & X1)]; congruence. }
    split.
    { rewrite <- Ed, <- (e_vp_walk cfg d OKd). apply (ef_path d Fd). }
    split.
    - (* nothing valued beneath a whiteout *)
      intros q2 P2 N2.
      destruct (get_segs q2 fin) as [n2|] eqn:G2; [|reflexivity]. exfalso.
      assert (SB : strictly_below q q2 = true).
      { apply strictly_below_app. apply prefix_app_eq in P2 as [c Ec]. exists c. split; [|exact Ec].
        intro X. subst c. rewrite app_nil_r in Ec. congruence. }
      assert (N2' : q2 <> []).
      { intro X. subst q2. apply strictly_below_app in SB as (c & _ & E). destruct q; [contradiction|discriminate]. }
      destruct (FOUND q2 n2 N2' G2) as (A2 & s2 & B2 & d2 & EDL2 & TA2 & FM2 & _ & Hd2 & Ed2 & OK2).
      rewrite EDL in EDL2. destruct (two_splits _ _ _ _ _ _ EDL2) as [(E1 & E2 & E3)|[X|X]].
      + (* same layer: a member below a whiteout of the same layer *)
        subst s2.
        pose proof (g_layer _ _ G s (INDL s ltac:(rewrite EDL; apply in_or_app; right; left; reflexivity))) as LAY.
        pose proof (layer_no_below _ [] LAY d2 d Hd2 Hd Rd) as NB. rewrite Ed, Ed2 in NB. congruence.
      + (* q2's layer is older: the whiteout's layer hides it *)
        destruct (TA2 s X) as [_ HH].
        assert (hides (slot_es s) q2 = true) by (apply hides_spec; exists d; rewrite Ed; auto). congruence.
      + (* q2's layer is newer: it has its own directory entry at q *)
        destruct (TA s2 X) as [FN _].
        pose proof (g_layer _ _ G s2 (INDL s2 ltac:(rewrite EDL; apply in_or_app; left; exact X))) as LAY2.
        apply in_split in Hd2 as (l1 & l2 & El). rewrite El in LAY2.
        destruct (layer_okp_split l1 [] d2 l2 LAY2) as (_ & PAR & _). cbn [app] in PAR.
        destruct (PAR q) as (x & Hx & _ & Ex).
        { apply in_parent_prefixes. rewrite Ed2. auto. }
        pose proof (find_mem_in (slot_es s2) x ltac:(rewrite El; apply in_or_app; left; exact Hx)) as Z.
        rewrite Ex in Z. contradiction.
    - (* a nested parent keeps a visible child *)
      intros c0 p0 Eq L2.
      unfold prune_safe_p in PS. rewrite forallb_forall in PS.
      assert (INS : In s (all_slots im)) by (apply in_rev; apply INDL; rewrite EDL; apply in_or_app; right; left; reflexivity).
      specialize (PS s INS). rewrite forallb_forall in PS. specialize (PS d Hd).
      rewrite Wd in PS. simpl in PS. rewrite Ed, Eq in PS.
      destruct p0 as [|a [|b p1]]; [simpl in L2; lia|simpl in L2; lia|].
      fold n in PS. fold i in PS.
      destruct (s_children (view_spec cfg im i) (removelast (c0 :: a :: b :: p1))) eqn:SC; [discriminate|].
      destruct (s_children_in (view_spec cfg im i) (removelast (c0 :: a :: b :: p1))) as [c Hc]; [rewrite SC; discriminate|].
      rewrite <- Eq in *.
      assert (SL : spec_lookup cfg im i (removelast q ++ [c]) <> None).
      { unfold spec_lookup. destruct (s_lookup (view_spec cfg im i) (removelast q ++ [c])); [discriminate|contradiction]. }
      rewrite <- (view_eq_overlay_on_Dp_unpruned_lemma cfg im st0 DP LU i _ Hi) in SL by (destruct (removelast q); discriminate).
      unfold impl_lookup in SL. fold fin in SL.
      destruct (get_segs (removelast q ++ [c]) fin) as [nc|] eqn:Gc; [|contradiction].
      exists c, nc. split; [exact Gc|]. unfold vent_of_node in SL. destruct (fn_wh nc); [contradiction|reflexivity]. }
  (* the pruned last view *)
  assert (CH : st_chains st0 = firstn i (st_chains st0) ++ [fin]).
  { apply split_last_nth. rewrite LEN. unfold i. fold n. lia. }
  assert (LF : length (firstn i (st_chains st0)) = i) by (rewrite firstn_length, LEN; fold n; lia).
  unfold prune, prune_with. rewrite CH, rev_app_distr. cbn [rev app].
  pose proof (prune_tree_spec cfg REQ fin WFfin NOLINK WHH (st_disk st0)) as PT. cbv zeta in PT.
  destruct (fold_left prune_remove (fold_left (prune_visit cfg fin) (walk fin) []) (fin, st_disk st0)) as [fin' d'] eqn:FL.
  simpl in PT. cbn [st_chains]. rewrite rev_involutive.
  rewrite app_nth2 by (rewrite LF; lia). rewrite LF, Nat.sub_diag. cbn [nth].
  exact PT.
Qed.

Theorem final_prune_only_whiteouts_on_Dp_lemma cfg im st :
  Dp cfg im = true -> no_links_p im = true -> prune_safe_p cfg im = true -> cfg_req cfg = None ->
  load cfg im = Some st ->
  forall p, p <> [] -> (0 < length (init_slots im))%nat ->
    impl_lookup st (length (init_slots im) - 1) p = spec_lookup cfg im (length (init_slots im) - 1) p.
Proof.
  intros DP NOL PS REQ LD p Np Hn.
  unfold load in LD. destruct (load_unpruned cfg im) as [st0|] eqn:LU; [|discriminate]. inversion LD; subst st; clear LD.
  destruct (last_view_pruned cfg im st0 DP NOL PS REQ LU Hn) as [_ PT]. cbv zeta in PT.
  unfold impl_lookup. rewrite PT.
  assert (Hi : (length (init_slots im) - 1 < length (init_slots im))%nat) by lia.
  rewrite <- (view_eq_overlay_on_Dp_unpruned_lemma cfg im st0 DP LU _ p Hi Np).
  unfold impl_lookup.
  destruct (get_segs p (nth (length (init_slots im) - 1) (st_chains st0) empty_trie)) as [np|]; [|reflexivity].
  destruct (fn_wh np) eqn:W; cbn iota; unfold vent_of_node; rewrite W; reflexivity.
Qed.

(* every view, default requirer *)
Theorem view_eq_overlay_on_Dp_all_views_lemma cfg im st :
  Dp cfg im = true -> no_links_p im = true -> prune_safe_p cfg im = true -> cfg_req cfg = None ->
  load cfg im = Some st ->
  forall i p, (i < length (init_slots im))%nat -> p <> [] ->
    impl_lookup st i p = spec_lookup cfg im i p.
Proof.
  intros DP NOL PS REQ LD i p Hi Np.
  destruct (Nat.eq_dec (S i) (length (init_slots im))) as [E|NE].
  - replace i with (length (init_slots im) - 1)%nat by lia.
    apply final_prune_only_whiteouts_on_Dp_lemma; auto. lia.
  - apply view_eq_overlay_on_Dp_lemma; auto. lia.
Qed.

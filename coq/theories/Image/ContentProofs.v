(* Content: the extraction directory (modelled as a map (layer, path) -> file) keeps, for every regular
   file member of every layer, exactly the member's bytes; a later member or layer never overwrites it.
   Hence a regular file of the overlay is read back with the overlay's content (before the final pruning). *)
From Coq Require Import List NArith ZArith Bool Lia PeanoNat.
From Scalibr Require Import Lib.SortSearch Image.PathTree Image.PathTreeProofs Image.Fill Image.Overlay
  Image.ImageCases Image.ViewEq Image.FillProofs Image.FoldProofs Image.DomainP Image.ViewProofs Image.PruneProofs
  Image.ListingProofs.
Import ListNotations.

(* a regular-file member (a file or a whiteout marker): what handleFile writes *)
Definition is_file (e : entry) : bool := match e_kind e with KReg => true | _ => false end.

(* where handleFile writes the member *)
Definition e_rsegs (e : entry) : list seg := snd (clean_str (e_name e)).

(* content domain: the node of a regular file points at the path the file was written to, and the regular
   file members (files and whiteout markers) of a layer are written to pairwise different paths *)
Fixpoint rsegs_distinct (es : list entry) : bool :=
  match es with
  | [] => true
  | e :: r => negb (is_file e && existsb (fun x => is_file x && segs_eqb (e_rsegs x) (e_rsegs e)) r) && rsegs_distinct r
  end.

Definition content_ok (e : entry) : bool :=
  negb (is_file e && negb (e_whf e)) || segs_eqb (real_segs (e_vp e)) (e_rsegs e).

Definition Dc (im : image) : bool :=
  forallb (fun s => forallb content_ok (slot_es s) && rsegs_distinct (slot_es s)) (all_slots im).

(* ------------------------------------------------------------------ the disk map *)
Lemma dkey_eqb_eq a b : dkey_eqb a b = true <-> a = b.
Proof.
  destruct a as [i p], b as [j q]. unfold dkey_eqb. simpl. rewrite andb_true_iff, Nat.eqb_eq, segs_eqb_eq.
  split; [intros [A B]; subst; reflexivity|intro H; inversion H; auto].
Qed.

Lemma disk_get_del d k k' : disk_get (disk_del d k) k' = if dkey_eqb k k' then None else disk_get d k'.
Proof.
  induction d as [|[k0 v] d IH]; simpl; [destruct (dkey_eqb k k'); reflexivity|].
  destruct (dkey_eqb k0 k) eqn:E.
  - apply dkey_eqb_eq in E. subst k0. rewrite IH. destruct (dkey_eqb k k'); reflexivity.
  - simpl. destruct (dkey_eqb k0 k') eqn:E2; [|exact IH].
    destruct (dkey_eqb k k') eqn:E3; [|reflexivity].
    apply dkey_eqb_eq in E2, E3. subst. rewrite (proj2 (dkey_eqb_eq k' k') eq_refl) in E. discriminate.
Qed.

Lemma disk_get_set d k v k' : disk_get (disk_set d k v) k' = if dkey_eqb k k' then Some v else disk_get d k'.
Proof. unfold disk_set. simpl. destruct (dkey_eqb k k') eqn:E; [reflexivity|]. rewrite disk_get_del, E. reflexivity. Qed.

(* MkdirAll only adds directories *)
Lemma mkdir_all_go_files i ps : forall d d', mkdir_all_go i ps d = Some d' ->
  forall k c, disk_get d' k = Some (DFile c) <-> disk_get d k = Some (DFile c).
Proof.
  induction ps as [|p r IH]; intros d d' H k c; simpl in H.
  - inversion H; subst. tauto.
  - destruct (disk_get d (i, p)) as [[x|]|] eqn:G; [discriminate|eauto|].
    rewrite (IH _ _ H k c). rewrite disk_get_set.
    destruct (dkey_eqb (i, p) k) eqn:E; [|tauto].
    apply dkey_eqb_eq in E. subst k. rewrite G. split; discriminate.
Qed.

Lemma take_z_all (l : str) : forall n, (Z.of_nat (length l) <= n)%Z -> take_z n l = l.
Proof.
  induction l as [|x l IH]; intros n H; simpl; [reflexivity|].
  destruct (n <=? 0)%Z eqn:E; [apply Z.leb_le in E; simpl length in H; lia|].
  f_equal. apply IH. simpl length in H. lia.
Qed.

(* what WriteFile leaves: the file at its key (when nothing was there), every other file untouched *)
Lemma write_file_spec i sg c d d' :
  write_file i sg c d = Some d' ->
  (forall old, disk_get d (i, sg) <> Some (DFile old)) ->
  disk_get d' (i, sg) = Some (DFile c) /\
  forall k x, k <> (i, sg) -> (disk_get d' k = Some (DFile x) <-> disk_get d k = Some (DFile x)).
Proof.
  unfold write_file, mkdir_all. intros H NF.
  destruct (mkdir_all_go i (all_prefixes (init_segs sg)) d) as [d1|] eqn:M; [|discriminate].
  pose proof (mkdir_all_go_files _ _ _ _ M) as MF.
  destruct sg as [|s0 sg0]; [discriminate|].
  destruct (disk_get d1 (i, s0 :: sg0)) as [[old|]|] eqn:G.
  - exfalso. apply (NF old). apply MF. exact G.
  - discriminate.
  - inversion H; subst. split.
    + rewrite disk_get_set, (proj2 (dkey_eqb_eq _ _) eq_refl). reflexivity.
    + intros k x Nk. rewrite disk_get_set.
      destruct (dkey_eqb (i, s0 :: sg0) k) eqn:E; [apply dkey_eqb_eq in E; congruence|apply MF].
Qed.

(* one entry's effect on the files of the extraction directory *)
Lemma process_entry_disk cfg i st e st' :
  entry_ok cfg e = true ->
  get (nth i (st_chains st) empty_trie) (e_vp e) = None ->
  process_entry cfg i st e = Next st' ->
  (is_file e = true -> forall old, disk_get (st_disk st) (i, e_rsegs e) <> Some (DFile old)) ->
  (is_file e = true -> disk_get (st_disk st') (i, e_rsegs e) = Some (DFile (e_content e))) /\
  forall k x, (is_file e = true -> k <> (i, e_rsegs e)) ->
    (disk_get (st_disk st') k = Some (DFile x) <-> disk_get (st_disk st) k = Some (DFile x)).
Proof.
  unfold entry_ok, e_node, e_tgt, e_vp, e_vsegs, e_whf, e_plan, process_entry, e_rsegs, is_file.
  destruct (clean_str (e_name e)) as [ab sg] eqn:C.
  destruct (entry_vpath e (ab, sg)) as [[vab vsegs] wh] eqn:EV.
  cbn [fst snd].
  intros OK G.
  repeat (apply andb_true_iff in OK; destruct OK as [OK ?]).
  apply negb_true_iff in OK. subst ab.
  match goal with H : negb (match sg with _ => _ end) = true |- _ => apply negb_true_iff in H; rewrite H end.
  match goal with H : negb (_ || _) = true |- _ => apply negb_true_iff in H; rewrite H end.
  cbn [negb andb].
  rewrite G.
  destruct (e_kind e) eqn:K; try discriminate.
  - destruct (match disk_get (st_disk st) (i, sg) with Some _ => _ | None => _ end) as [d1|] eqn:M; [|discriminate].
    intros E _. inversion E; subst st'. cbn [st_disk]. split; [discriminate|].
    intros k x _. destruct (disk_get (st_disk st) (i, sg)); [inversion M; subst; tauto|].
    destruct sg; [inversion M; subst; tauto|]. unfold mkdir_all in M. apply (mkdir_all_go_files _ _ _ _ M).
  - destruct (write_file i sg (take_z (cfg_max_bytes cfg) (e_content e)) (st_disk st)) as [d1|] eqn:WF; [|discriminate].
    match goal with H : (_ <? _)%Z = true |- _ => apply Z.ltb_lt in H; rename H into LT end.
    destruct (Z.of_nat (length (e_content e)) >=? cfg_max_bytes cfg)%Z eqn:GE; [apply Z.geb_le in GE; lia|].
    intros E NF. inversion E; subst st'. cbn [st_disk].
    rewrite take_z_all in WF by lia.
    destruct (write_file_spec i sg (e_content e) (st_disk st) d1 WF (NF eq_refl)) as [W1 W2].
    split; [intros _; exact W1|]. intros k x Nk. apply W2. apply Nk. reflexivity.
  - destruct (e_target e) as [|c0 tl]; [discriminate|].
    destruct (target_outside_root vsegs (c0 :: tl)); [discriminate|].
    intros E _. inversion E; subst st'. cbn [st_disk]. split; [discriminate|]. intros k x _. tauto.
Qed.

(* ------------------------------------------------------------------ the invariant of the extraction directory *)
Definition pairs_of (done : list slot) : list (nat * entry) := flat_map (fun s => map (pair (fst s)) (slot_es s)) done.

Definition written (ps : list (nat * entry)) (d : disk) : Prop :=
  (forall j e, In (j, e) ps -> is_file e = true -> disk_get d (j, e_rsegs e) = Some (DFile (e_content e))) /\
  (forall k x, disk_get d k = Some (DFile x) -> exists j e, In (j, e) ps /\ is_file e = true /\ k = (j, e_rsegs e)).

Lemma rsegs_distinct_split : forall est e r, rsegs_distinct (est ++ e :: r) = true ->
  forall x, In x est -> is_file x = true -> is_file e = true -> e_rsegs x <> e_rsegs e.
Proof.
  induction est as [|y est IH]; intros e r H x HI Rx Re; [destruct HI|].
  simpl in H. apply andb_true_iff in H as [H1 H2]. destruct HI as [E|HI]; [|eapply IH; eauto].
  subst y. rewrite Rx in H1. simpl in H1. apply negb_true_iff in H1.
  intro EQ. rewrite <- not_true_iff_false in H1. apply H1. apply existsb_exists. exists e.
  split; [apply in_or_app; right; left; reflexivity|]. rewrite Re. simpl. apply segs_eqb_eq. symmetry. exact EQ.
Qed.

Lemma written_step j e ps d d' :
  written ps d ->
  (is_file e = true -> forall j' e', In (j', e') ps -> is_file e' = true -> (j', e_rsegs e') <> (j, e_rsegs e)) ->
  ((is_file e = true -> forall old, disk_get d (j, e_rsegs e) <> Some (DFile old)) ->
   (is_file e = true -> disk_get d' (j, e_rsegs e) = Some (DFile (e_content e))) /\
   forall k x, (is_file e = true -> k <> (j, e_rsegs e)) -> (disk_get d' k = Some (DFile x) <-> disk_get d k = Some (DFile x))) ->
  written (ps ++ [(j, e)]) d'.
Proof.
  intros [W1 W2] FRESH STEP.
  destruct STEP as [S1 S2].
  { intros Re old G. destruct (W2 _ _ G) as (j' & e' & HI & R' & EQ). apply (FRESH Re j' e' HI R'). symmetry. exact EQ. }
  split.
  - intros j0 e0 HI R0. apply in_app_or in HI as [HI|[E|[]]].
    + apply S2; [|apply W1; assumption]. intros Re EQ. apply (FRESH Re j0 e0 HI R0). exact EQ.
    + inversion E; subst. apply S1. exact R0.
  - intros k x G. destruct (is_file e) eqn:Re.
    + destruct (dkey_eqb k (j, e_rsegs e)) eqn:EK.
      * apply dkey_eqb_eq in EK. exists j, e. split; [apply in_or_app; right; left; reflexivity|auto].
      * assert (NK : k <> (j, e_rsegs e)) by (intro X; subst; rewrite (proj2 (dkey_eqb_eq _ _) eq_refl) in EK; discriminate).
        apply (S2 k x (fun _ => NK)) in G. destruct (W2 _ _ G) as (j' & e' & HI & R' & EQ).
        exists j', e'. split; [apply in_or_app; left; exact HI|auto].
    + apply (S2 k x) in G; [|discriminate]. destruct (W2 _ _ G) as (j' & e' & HI & R' & EQ).
      exists j', e'. split; [apply in_or_app; left; exact HI|auto].
Qed.

Lemma in_pairs_of done j e : In (j, e) (pairs_of done) <-> exists s, In s done /\ fst s = j /\ In e (slot_es s).
Proof.
  unfold pairs_of. rewrite in_flat_map. split.
  - intros (s & Hs & HI). apply in_map_iff in HI as (x & E & Hx). inversion E; subst. exists s. auto.
  - intros (s & Hs & Ej & He). exists s. split; [exact Hs|]. subst j. apply in_map. exact He.
Qed.

Lemma layer_steps_disk cfg n j done older : forall r est st st',
  gfacts cfg (done ++ (j, Some (est ++ r)) :: older) -> rsegs_distinct (est ++ r) = true ->
  Forall (fun s => (j < fst s)%nat) done -> (j < n)%nat ->
  st_inv n j done est (st_chains st) ->
  written (pairs_of done ++ map (pair j) est) (st_disk st) ->
  process_layer cfg j r st = Some st' ->
  st_inv n j done (est ++ r) (st_chains st') /\ written (pairs_of done ++ map (pair j) (est ++ r)) (st_disk st').
Proof.
  induction r as [|e r IH]; intros est st st' G RD NW Jn SI WR PL; simpl in PL.
  - inversion PL; subst. rewrite app_nil_r. auto.
  - assert (Gcur : get (nth j (st_chains st) empty_trie) (e_vp e) = None /\ entry_ok cfg e = true).
    { assert (INJ : In (j, Some (est ++ e :: r)) (done ++ (j, Some (est ++ e :: r)) :: older))
        by (apply in_or_app; right; left; reflexivity).
      assert (OKe : entry_ok cfg e = true)
        by (eapply (g_ok _ _ G _ e INJ); simpl; apply in_or_app; right; left; reflexivity).
      split; [|exact OKe].
      pose proof (entry_ok_facts _ _ OKe) as Fe.
      pose proof (g_layer _ _ G _ INJ) as LAY. cbn [slot_es snd] in LAY.
      destruct (layer_okp_split est [] e r LAY) as (NEW & _ & _). cbn [app] in NEW.
      destruct SI as [LEN INV]. pose proof (INV j Jn) as [_ INVj].
      assert (DJ : dlk j done = []).
      { unfold dlk. clear -NW. induction NW as [|s dn H _ IHd]; [reflexivity|]. simpl.
        destruct (Nat.leb (fst s) j) eqn:L; [apply Nat.leb_le in L; lia|exact IHd]. }
      unfold cur_part in INVj. rewrite Nat.leb_refl, DJ in INVj. cbn [app] in INVj.
      unfold get. rewrite (ef_path e Fe).
      pose proof (INVj _ (ef_ne e Fe)) as Y. cbn [scan slot_es snd fst] in Y.
      rewrite (path_in_find _ _ NEW) in Y. destruct (hides est (e_vsegs e)); exact Y. }
    destruct Gcur as [Gcur OKe].
    destruct (process_entry cfg j st e) as [| |st1] eqn:PE.
    + exfalso. eapply process_entry_not_skip; eauto.
    + discriminate.
    + pose proof (entry_step cfg n j done est e r older st st1 G NW Jn SI PE) as SI1.
      assert (WR1 : written ((pairs_of done ++ map (pair j) est) ++ [(j, e)]) (st_disk st1)).
      { eapply written_step; [exact WR| |].
        - intros Re j' e' HI R' EQ. inversion EQ as [[EJ ER]]. apply in_app_or in HI as [HI|HI].
          + apply in_pairs_of in HI as (s & Hs & Es & _). rewrite Forall_forall in NW. specialize (NW s Hs). lia.
          + apply in_map_iff in HI as (x & Ex & Hx). inversion Ex; subst.
            eapply (rsegs_distinct_split est e r RD e' Hx R' Re). exact ER.
        - intro NF. apply (process_entry_disk cfg j st e st1 OKe Gcur PE NF). }
      replace (est ++ e :: r) with ((est ++ [e]) ++ r) in * by (rewrite <- app_assoc; reflexivity).
      rewrite <- app_assoc in WR1. change (map (pair j) est ++ [(j, e)]) with (map (pair j) est ++ map (pair j) [e]) in WR1.
      rewrite <- map_app in WR1.
      eapply IH; eauto.
Qed.

Lemma pairs_of_app a b : pairs_of (a ++ b) = pairs_of a ++ pairs_of b.
Proof. unfold pairs_of. apply flat_map_app. Qed.

Lemma slots_steps_disk cfg n : forall rem done st st',
  gfacts cfg (done ++ rem) -> (forall s, In s rem -> rsegs_distinct (slot_es s) = true) -> desc rem ->
  (forall a b, In a done -> In b rem -> (fst b < fst a)%nat) ->
  (forall s, In s rem -> (fst s < n)%nat) ->
  length (st_chains st) = n ->
  (forall k, (k < n)%nat -> inv (nth k (st_chains st) empty_trie) (dlk k done)) ->
  written (pairs_of done) (st_disk st) ->
  fill_layers cfg rem st = Some st' ->
  written (pairs_of (done ++ rem)) (st_disk st').
Proof.
  induction rem as [|[j [es|]] rem IH]; intros done st st' G RD DS SEP LT LEN INV WR FL; simpl in FL.
  - inversion FL; subst. rewrite app_nil_r. exact WR.
  - destruct (process_layer cfg j es st) as [st1|] eqn:PL; [|discriminate].
    destruct DS as [DS1 DS2].
    assert (NW : Forall (fun s => (j < fst s)%nat) done).
    { apply Forall_forall. intros s Hs. apply (SEP s (j, Some es) Hs). left. reflexivity. }
    assert (Jn : (j < n)%nat) by (apply (LT (j, Some es)); left; reflexivity).
    assert (SI0 : st_inv n j done [] (st_chains st)).
    { split; [exact LEN|]. intros k Hk. specialize (INV k Hk). unfold cur_part.
      destruct (Nat.leb j k); [|rewrite app_nil_r; exact INV].
      eapply inv_ext; [|exact INV]. intro p. symmetry. apply scan_app_empty. }
    assert (WR0 : written (pairs_of done ++ map (pair j) []) (st_disk st)) by (simpl; rewrite app_nil_r; exact WR).
    destruct (layer_steps_disk cfg n j done rem es [] st st1 G (RD _ (or_introl eq_refl)) NW Jn SI0 WR0 PL) as [[LEN1 INV1] WR1].
    cbn [app] in INV1, WR1.
    assert (G' : gfacts cfg ((done ++ [(j, Some es)]) ++ rem)) by (rewrite <- app_assoc; exact G).
    cut (written (pairs_of ((done ++ [(j, Some es)]) ++ rem)) (st_disk st')).
    { rewrite <- app_assoc. auto. }
    eapply IH; try eassumption.
    + intros s Hs. apply RD. right. exact Hs.
    + intros a b Ha Hb. apply in_app_or in Ha as [Ha|[Ha|[]]].
      * apply SEP; [exact Ha|right; exact Hb].
      * subst a. rewrite Forall_forall in DS1. apply DS1. exact Hb.
    + intros s Hs. apply LT. right. exact Hs.
    + intros k Hk. specialize (INV1 k Hk). rewrite dlk_app. unfold cur_part in INV1.
      unfold dlk at 2. simpl. destruct (Nat.leb j k); exact INV1.
    + rewrite pairs_of_app. unfold pairs_of at 2. simpl. rewrite app_nil_r. exact WR1.
  - destruct DS as [DS1 DS2].
    assert (G' : gfacts cfg ((done ++ [(j, None)]) ++ rem)) by (rewrite <- app_assoc; exact G).
    cut (written (pairs_of ((done ++ [(j, None)]) ++ rem)) (st_disk st')).
    { rewrite <- app_assoc. auto. }
    eapply IH; try eassumption.
    + intros s Hs. apply RD. right. exact Hs.
    + intros a b Ha Hb. apply in_app_or in Ha as [Ha|[Ha|[]]].
      * apply SEP; [exact Ha|right; exact Hb].
      * subst a. rewrite Forall_forall in DS1. apply DS1. exact Hb.
    + intros s Hs. apply LT. right. exact Hs.
    + intros k Hk. specialize (INV k Hk). rewrite dlk_app. unfold dlk at 2. simpl.
      destruct (Nat.leb j k); [|rewrite app_nil_r; exact INV].
      eapply inv_ext; [|exact INV]. intro p. rewrite scan_app. destruct (scan (dlk k done) p); reflexivity.
    + rewrite pairs_of_app. unfold pairs_of at 2. simpl. rewrite app_nil_r. exact WR.
Qed.

Lemma classify_content maxb j e p s :
  classify maxb j e = Some (MEntry p s) -> se_kind s = SKReg -> se_content s = e_content e.
Proof.
  unfold classify. destruct (norm_name (e_name e)) as [[|x sg]|]; try discriminate.
  destruct (str_eqb (last (x :: sg) []) s_opq); [discriminate|].
  destruct (has_prefix s_wh (last (x :: sg) [])); [discriminate|].
  destruct (e_kind e); try discriminate.
  - intro H. inversion H; subst. simpl. discriminate.
  - destruct (Z.of_nat (length (e_content e)) >=? maxb)%Z; [discriminate|]. intro H. inversion H; subst. reflexivity.
  - intro H. inversion H; subst. simpl. discriminate.
Qed.

Lemma classify_reg_kind maxb j e p s :
  classify maxb j e = Some (MEntry p s) -> se_kind s = SKReg -> e_kind e = KReg.
Proof.
  unfold classify. destruct (norm_name (e_name e)) as [[|x sg]|]; try discriminate.
  destruct (str_eqb (last (x :: sg) []) s_opq); [discriminate|].
  destruct (has_prefix s_wh (last (x :: sg) [])); [discriminate|].
  destruct (e_kind e); try discriminate; try reflexivity.
  - intro H. inversion H; subst. simpl. discriminate.
  - intro H. inversion H; subst. simpl. discriminate.
Qed.

(* (2) a regular file of the overlay is read back with the overlay's content -- before the final pruning *)
Theorem view_content_eq_overlay_on_Dp_unpruned_lemma cfg im st :
  Dp cfg im = true -> Dc im = true -> load_unpruned cfg im = Some st ->
  forall i p c, (i < length (init_slots im))%nat ->
    spec_content cfg im i p = Some c -> impl_content st i p = Some c.
Proof.
  intros DP DC LU i p c Hi SC.
  pose proof (gfacts_of_Dp _ _ DP) as G.
  assert (Np : p <> []).
  { intro E. subst p. unfold spec_content in SC.
    pose proof (spec_lookup_newest_lemma cfg im i [] DP) as X. unfold spec_lookup, newest_lookup in X.
    destruct (s_lookup (view_spec cfg im i) []) as [e0|] eqn:SL; [|discriminate].
    destruct (scan (slots_upto im i) []) as [j d| |] eqn:S; try discriminate.
    apply scan_found in S as (s & Hs & _ & Hd & Ed).
    assert (OKd : entry_ok cfg d = true).
    { eapply (g_ok _ _ G s d); [|exact Hd]. unfold slots_upto in Hs. apply in_rev in Hs. apply firstn_In in Hs. apply -> in_rev. exact Hs. }
    apply (ef_ne d (entry_ok_facts _ _ OKd)). exact Ed. }
  (* the spec side: which member *)
  unfold spec_content in SC.
  pose proof (apply_slots_lookup cfg (firstn (S i) (all_slots im)) [] []) as H. rewrite app_nil_r in H.
  assert (SL : s_lookup (view_spec cfg im i) p = spec_found (cfg_max_bytes cfg) (scan (slots_upto im i) p)).
  { unfold view_spec, slots_upto. fold (all_slots im). apply H.
    - intros s Hs. apply firstn_In in Hs. split.
      + intros e He. eapply (g_ok _ _ G s e); [apply -> in_rev; exact Hs|exact He].
      + apply (g_layer _ _ G). apply -> in_rev. exact Hs.
    - intro q. reflexivity. }
  rewrite SL in SC.
  destruct (scan (slots_upto im i) p) as [j d| |] eqn:S; try discriminate.
  simpl in SC. unfold mval in SC.
  destruct (classify (cfg_max_bytes cfg) j d) as [[w|o|q s0]|] eqn:CL; try discriminate.
  destruct (se_kind s0) eqn:K; try discriminate. inversion SC; subst c.
  pose proof (classify_content _ _ _ _ _ CL K) as CC.
  pose proof S as S'. apply scan_found in S' as (s & Hs & Ej & Hd & Ed).
  assert (INS : In s (all_slots im)).
  { unfold slots_upto in Hs. apply in_rev in Hs. apply firstn_In in Hs. exact Hs. }
  assert (OKd : entry_ok cfg d = true) by (eapply (g_ok _ _ G s d); [apply -> in_rev; exact INS|exact Hd]).
  pose proof (entry_ok_facts _ _ OKd) as Fd.
  destruct (classify_ok cfg j d OKd) as [[W C]|[W (s1 & C & _ & KD)]]; [rewrite C in CL; discriminate|].
  rewrite C in CL. inversion CL; subst q s1.
  assert (Rd : is_file d = true).
  { unfold is_file. rewrite (classify_reg_kind _ _ _ _ _ C K). reflexivity. }
  (* the implementation side: the node and the file *)
  pose proof (view_inv_lemma cfg im st DP LU i Hi) as [_ INV].
  unfold impl_content. rewrite (INV p Np), S. simpl.
  destruct (e_node_fields j d) as (V & Wn & _). rewrite Wn, W.
  assert (OR : fn_origin (e_node j d) = j) by (unfold e_node; destruct (e_kind d); reflexivity).
  rewrite OR, V.
  (* the disk *)
  unfold Dc in DC. rewrite forallb_forall in DC.
  assert (CO : segs_eqb (real_segs (e_vp d)) (e_rsegs d) = true).
  { specialize (DC s INS). apply andb_true_iff in DC as [DC _]. rewrite forallb_forall in DC. specialize (DC d Hd).
    unfold content_ok in DC. rewrite Rd, W in DC. simpl in DC. exact DC. }
  apply segs_eqb_eq in CO. rewrite CO.
  assert (WR : written (pairs_of ([] ++ rev (all_slots im))) (st_disk st)).
  { unfold load_unpruned in LU. destruct (negb (config_valid cfg)); [discriminate|].
    set (n := length (init_slots im)) in *.
    eapply (slots_steps_disk cfg n (rev (index_from 0 (init_slots im))) [] (init_state n) st).
    - exact G.
    - intros s0' Hs0. apply in_rev in Hs0. specialize (DC s0' Hs0). apply andb_true_iff in DC as [_ DC]. exact DC.
    - apply desc_rev_index.
    - intros a b [].
    - intros s0' Hs0. apply in_rev in Hs0. apply index_from_fst in Hs0. unfold n. lia.
    - unfold init_state. simpl. rewrite map_length, seq_length. reflexivity.
    - intros k Hk. unfold init_state. simpl.
      rewrite (nth_indep _ empty_trie (Node (Some (root_node 0)) [])) by (rewrite map_length, seq_length; exact Hk).
      change (Node (Some (root_node 0)) []) with ((fun i => Node (Some (root_node i)) []) 0%nat).
      rewrite map_nth, seq_nth by exact Hk. simpl. split.
      + exists (root_node k). repeat split.
      + intros q Nq. destruct q; [contradiction|reflexivity].
    - split; [intros j0 e0 []|]. intros k x Hk. simpl in Hk. discriminate.
    - exact LU. }
  cbn [app] in WR. destruct WR as [W1 _].
  rewrite (W1 j d); [rewrite CC; reflexivity| |exact Rd].
  apply in_pairs_of. exists s. split; [apply -> in_rev; exact INS|auto].
Qed.

(* C04 - Each image-up-to-layer view equals the OCI overlay of its layers.
   Only statements here; proofs are in PathTreeProofs.v and FillProofs.v.
   Model of the code: Image/PathTree.v, Image/Fill.v.  Spec (OCI rules) and domain D: Image/Overlay.v.
   Statement language (impl_lookup, spec_lookup, ...): Image/ViewEq.v.  Witness images: Image/Witnesses.v. *)
From Coq Require Import List NArith ZArith Bool String.
From Scalibr Require Import Lib.SortSearch Image.PathTree Image.PathTreeProofs Image.Fill Image.Overlay
  Image.ImageCases Image.ViewEq Image.Witnesses Image.FillProofs Image.FoldProofs Image.Bounded Image.BoundedProofs Image.DomainP Image.ViewProofs Image.PruneProofs Image.ListingProofs Image.ContentProofs Image.RequirerProofs.
Import ListNotations.
Open Scope Z_scope.

(* ------------------------------------------------------------------ 1. the path tree refines a finite map *)
(* node_at t p : None = no node, Some None = node without value, Some (Some v) = node with value v. *)
Theorem pathtree_refines_map : forall (V : Type) (t : trie V), wf t ->
  (* Get *)
  (forall p, get_segs p t = match node_at t p with Some (Some v) => Some v | _ => None end) /\
  (* Insert: error iff the path has a value; otherwise map update, creating value-less ancestors *)
  (forall p v, match insert_segs p v t with
               | InsOk t' => (p = [] \/ get_segs p t = None) /\
                             (forall q, node_at t' q = insert_map (node_at t) p v q) /\ wf t'
               | InsExists => p <> [] /\ exists x, get_segs p t = Some x
               | InsNotAbs => False
               end) /\
  (* GetChildren: nil iff no node; otherwise exactly the values one segment below *)
  (forall p, match get_node p t with
             | None => node_at t p = None
             | Some n => node_at t p <> None /\
                         forall v, In v (child_values (tchildren n)) <-> exists s, node_at t (p ++ [s]) = Some (Some v)
             end) /\
  (* Walk: exactly the valued nodes *)
  (forall q v, In (q, v) (walk t) <-> node_at t q = Some (Some v)) /\
  (* Remove: root and missing paths untouched; a top-level node only loses its value; below the top
     level the subtree is cut at the deepest ancestor (below the top level) that keeps another child *)
  (forall p, let t' := fst (remove_segs p t) in
     wf t' /\
     snd (remove_segs p t) = match p with [] => None | _ => get_segs p t end /\
     match p with
     | [] => t' = t
     | [s] => forall q, node_at t' q = if segs_eqb q [s] then match node_at t [s] with None => None | Some _ => Some None end
                                       else node_at t q
     | s :: p' =>
         match node_at t p with
         | None => t' = t
         | Some _ =>
             exists cut, PathTreeProofs.prefix cut p' = true /\ cut <> [] /\
               (forall q, node_at t' q = cut_map (node_at t) (s :: cut) q) /\
               (exists post, p' = cut ++ post /\ chain_sole (below (node_at t) (s :: cut)) post) /\
               (List.length cut = 1%nat \/ ~ sole (below (node_at t) (s :: removelast cut)) (last cut []))
         end
     end).
Proof. exact pathtree_refines_map_lemma. Qed.
Print Assumptions pathtree_refines_map.

(* ------------------------------------------------------------------ 2. the positive statement *)
(* Full statement (ViewEq.view_eq_overlay_on_D_statement): for every image and config in D, every view
   i and every path p, the implementation's view agrees with the OCI overlay on kind, permission bits,
   size, introducing layer, link destination, content and directory listing.
   NOT proved on all of D.  PROVED for lookups on the sub-domain Dp (no links, explicit parent
   entries) in every view before the final pruning and in every view but the last after it:
   view_eq_overlay_on_Dp_unpruned, view_eq_overlay_on_Dp, and in EVERY view with the default requirer:
   view_eq_overlay_on_Dp_all_views (below); ReadDir listings: view_listing_eq_overlay_on_Dp(_unpruned);
   content of regular files before pruning: view_content_eq_overlay_on_Dp_unpruned_partial.  Still open
   on Dp: which directories vanish from the last view under a path requirer (non-directories are settled:
   requirer_only_removes_nonrequired_on_Dp), WalkDir equality, content after pruning; open beyond Dp: link resolution, the last view of images with links, implicit parents (D_weak).  Also proved:
     - view_eq_overlay_on_D_bounded_partial: the statement (lookups on the paths a, b, a/a, a/b, a/a/a,
       a/c, c and listings of the root and of every directory among them) for EVERY image of the two
       small-scope families of Bounded.v (273 x 273 two-layer images with <= 2 members per layer;
       26^3 three-layer images with <= 1 member per layer), checked inside Coq by vm_compute; the same
       up to directory permission bits / origin on the larger domain D_weak (implicit parents);
     - the structural lemmas below (all images, all sizes), which are the induction steps a general
       proof needs: every view is a fold of guarded inserts and view k only receives nodes of layers
       <= k (view_is_fold_of_fills), no fill replaces a value already there, i.e. the newest member
       stays (fill_never_overwrites), the fill touches each chain layer independently
       (fill_is_per_chain_layer), each step is a map insert unless the path has a value or an ancestor
       hides it (fill_step_refines_map, in_whiteout_dir_characterised), and whiteouts are never
       exposed (whiteouts_hidden).
   Missing for the general theorem: (a) which fills one layer generates (the skip / implicit-parent
   logic of fillChainLayersWithFilesFromTar as a function of the member list, under D), (b) from that,
   "view i (p) = newest member at p among layers <= i that no newer destructive member hides", (c) the
   matching characterisation of the spec fold (oldest first), (d) pruning with the default requirer
   only removes whiteout nodes (under final_prune_safe), and requirer_only_removes_nonrequired. *)

(* ---- PROVED, all images of the domain Dp (DomainP.v), any number of layers and members ----
   Dp: members are directories, regular files below the size limit, plain whiteouts and symbolic links
   whose target stays inside the root (a link is an entry like a file: not followed here; no opaque
   markers), relative names (any spelling the cleaning accepts); per layer: different paths,
   every parent directory has its own entry earlier in the layer, nothing below a whiteout target or
   file of the same layer; across layers: a path a layer deletes / turns into a file while older layers
   have something beneath it is not made a directory again by a newer layer; any history.
   newest_lookup im i p = the newest member at p among layers <= i unless a newer layer (<= i) has a
   whiteout or file on a directory above p. *)

(* (b) the implementation: every view before the final pruning *)
Theorem view_lookup_newest : forall cfg im st,
  Dp cfg im = true -> load_unpruned cfg im = Some st ->
  forall i p, (i < List.length (init_slots im))%nat -> p <> [] ->
    impl_lookup st i p = newest_lookup im i p.
Proof. exact view_lookup_newest_lemma. Qed.
Print Assumptions view_lookup_newest.

(* (c) the OCI overlay of layers 0..i *)
Theorem spec_lookup_newest : forall cfg im i p,
  Dp cfg im = true -> spec_lookup cfg im i p = newest_lookup im i p.
Proof. exact spec_lookup_newest_lemma. Qed.
Print Assumptions spec_lookup_newest.

(* (d) lookup equality (kind, mode bits, size, introducing layer) in every view before pruning ... *)
Theorem view_eq_overlay_on_Dp_unpruned : forall cfg im st,
  Dp cfg im = true -> load_unpruned cfg im = Some st ->
  forall i p, (i < List.length (init_slots im))%nat -> p <> [] ->
    impl_lookup st i p = spec_lookup cfg im i p.
Proof. exact view_eq_overlay_on_Dp_unpruned_lemma. Qed.
Print Assumptions view_eq_overlay_on_Dp_unpruned.

(* ... and for FromV1Image itself, under every requirer, in every view except the last one (the final
   pruning rewrites only the last view).  The last view: see final_prune_only_whiteouts_on_Dp (default
   requirer); with a path requirer it is NOT proved (requirer_only_removes_nonrequired is open). *)
Theorem view_eq_overlay_on_Dp : forall cfg im st,
  Dp cfg im = true -> load cfg im = Some st ->
  forall i p, (S i < List.length (init_slots im))%nat -> p <> [] ->
    impl_lookup st i p = spec_lookup cfg im i p.
Proof. exact view_eq_overlay_on_Dp_lemma. Qed.
Print Assumptions view_eq_overlay_on_Dp.

(* the LAST view after the final pruning, default requirer: removeUnnecessaryFileNodes removes exactly the
   whiteout nodes; when the nested parent of every whiteout target keeps an entry in the final overlay
   (prune_safe_p: the proved counterpart of the known finding empty-dir-after-whiteout-vanishes), nothing
   else changes *)
Theorem final_prune_only_whiteouts_on_Dp : forall cfg im st,
  Dp cfg im = true -> no_links_p im = true -> prune_safe_p cfg im = true -> cfg_req cfg = None ->
  load cfg im = Some st ->
  forall p, p <> [] -> (0 < List.length (init_slots im))%nat ->
    impl_lookup st (List.length (init_slots im) - 1) p = spec_lookup cfg im (List.length (init_slots im) - 1) p.
Proof. exact final_prune_only_whiteouts_on_Dp_lemma. Qed.
Print Assumptions final_prune_only_whiteouts_on_Dp.

(* hence: FromV1Image with the default requirer, EVERY view, every path *)
Theorem view_eq_overlay_on_Dp_all_views : forall cfg im st,
  Dp cfg im = true -> no_links_p im = true -> prune_safe_p cfg im = true -> cfg_req cfg = None ->
  load cfg im = Some st ->
  forall i p, (i < List.length (init_slots im))%nat -> p <> [] ->
    impl_lookup st i p = spec_lookup cfg im i p.
Proof. exact view_eq_overlay_on_Dp_all_views_lemma. Qed.
Print Assumptions view_eq_overlay_on_Dp_all_views.

(* (1) LISTINGS.  ReadDir of an existing path p of view i returns exactly the overlay's children of p
   (names in byte order): before the final pruning for every requirer, and for FromV1Image itself in every
   view with the default requirer.  (For a non-directory p both sides list nothing.)
   NOT proved: fs.WalkDir equality (the model's walk is fuel-bounded; it follows from this theorem for trees
   of depth <= 12 but that corollary is not written). *)
Theorem view_listing_eq_overlay_on_Dp_unpruned : forall cfg im st,
  Dp cfg im = true -> load_unpruned cfg im = Some st ->
  forall i p, (i < List.length (init_slots im))%nat ->
    get_segs p (nth i (st_chains st) empty_trie) <> None ->
    impl_listing st i p = Some (spec_listing cfg im i p).
Proof. exact view_listing_eq_overlay_on_Dp_unpruned_lemma. Qed.
Print Assumptions view_listing_eq_overlay_on_Dp_unpruned.

Theorem view_listing_eq_overlay_on_Dp : forall cfg im st,
  Dp cfg im = true -> no_links_p im = true -> prune_safe_p cfg im = true -> cfg_req cfg = None -> load cfg im = Some st ->
  forall i p, (i < List.length (init_slots im))%nat ->
    get_segs p (nth i (st_chains st) empty_trie) <> None ->
    impl_listing st i p = Some (spec_listing cfg im i p).
Proof. exact view_listing_eq_overlay_on_Dp_lemma. Qed.
Print Assumptions view_listing_eq_overlay_on_Dp.

(* (2) CONTENT.  On Dp and Dc (ContentProofs.Dc: the node of a regular file points at the path the file was
   written to; the regular-file members of a layer are written to different paths): the extraction directory
   keeps every regular-file member's bytes (no later member or layer overwrites them), so a regular file of
   the overlay is read back with the overlay's content -- before the final pruning.
   NOT proved: the converse for non-files (nothing readable where the overlay has no regular file) and the
   state of the extraction directory after the final pruning (with a requirer it is the known finding
   requirer-deletes-content-of-earlier-views). *)
Theorem view_content_eq_overlay_on_Dp_unpruned_partial : forall cfg im st,
  Dp cfg im = true -> Dc im = true -> load_unpruned cfg im = Some st ->
  forall i p c, (i < List.length (init_slots im))%nat ->
    spec_content cfg im i p = Some c -> impl_content st i p = Some c.
Proof. exact view_content_eq_overlay_on_Dp_unpruned_lemma. Qed.
Print Assumptions view_content_eq_overlay_on_Dp_unpruned_partial.

(* (3) REQUIRER.  The last view under ANY requirer (FileRequirerAll or FileRequirerPaths), images without links:
   a non-directory entry of the overlay is present, unchanged, iff the requirer accepts its path (as "/a/b" or
   "a/b"); nothing the overlay does not have appears; a directory is either unchanged or gone (pathtree.Remove
   prunes a directory that lost its last entry -- which directories vanish is not characterised here; with the
   default requirer and prune_safe_p none does: final_prune_only_whiteouts_on_Dp).  The earlier views are
   unchanged under every requirer (view_eq_overlay_on_Dp); what a requirer does to their CONTENT is the known
   finding requirer-deletes-content-of-earlier-views (refuted above). *)
Theorem requirer_only_removes_nonrequired_on_Dp : forall cfg im st,
  Dp cfg im = true -> no_links_p im = true -> load cfg im = Some st -> (0 < List.length (init_slots im))%nat ->
  let i := (List.length (init_slots im) - 1)%nat in
  forall p, p <> [] ->
    (impl_lookup st i p = spec_lookup cfg im i p \/ impl_lookup st i p = None) /\
    (forall v, spec_lookup cfg im i p = Some v -> ve_kind v <> SKDir ->
       impl_lookup st i p = if path_required cfg (walk_path_string p) then Some v else None).
Proof. exact requirer_only_removes_nonrequired_on_Dp_lemma. Qed.
Print Assumptions requirer_only_removes_nonrequired_on_Dp.

(* (2') the last view of images WITH links, any requirer -- PARTIAL: values only disappear, and a non-directory
   entry of the overlay that the requirer accepts (every one under the default requirer) is there unchanged.
   Missing: that no directory vanishes (needs the exact-cut argument of final_prune_only_whiteouts_on_Dp with
   marked link targets), and which non-accepted entries a link chain keeps. *)
Theorem last_view_with_links_on_Dp_partial : forall cfg im st,
  Dp cfg im = true -> load cfg im = Some st -> (0 < List.length (init_slots im))%nat ->
  let i := (List.length (init_slots im) - 1)%nat in
  forall p, p <> [] ->
    (impl_lookup st i p = spec_lookup cfg im i p \/ impl_lookup st i p = None) /\
    (forall v, spec_lookup cfg im i p = Some v -> ve_kind v <> SKDir ->
       path_required cfg (walk_path_string p) = true -> impl_lookup st i p = Some v).
Proof. exact last_view_with_links_on_Dp_partial_lemma. Qed.
Print Assumptions last_view_with_links_on_Dp_partial.

Example good_image_in_Dc : Dc w_good_p = true.
Proof. vm_compute. reflexivity. Qed.

(* links are admitted: the image with the link lib -> usr/lib lies in Dp too; the theorems about the final
   pruning (last view, listings of the last view) additionally ask for no_links_p *)
Example good_image_with_link_in_Dp : Dp cfg_default w_good = true /\ no_links_p w_good_p = true /\ no_links_p w_good = false.
Proof. vm_compute. repeat split; reflexivity. Qed.

Example good_image_prune_safe : prune_safe_p cfg_default w_good_p = true.
Proof. vm_compute. reflexivity. Qed.

(* non-vacuity: a three-layer image with replacements, a deleted file, a deleted directory tree, a
   directory turned into a file, "./" spellings and special mode bits lies in Dp *)
Example good_image_in_Dp : Dp cfg_default w_good_p = true.
Proof. vm_compute. reflexivity. Qed.

Theorem view_eq_overlay_on_D_bounded_partial :
  (forall l0 l1, In l0 old_layers -> In l1 new_layers ->
     (D cfg_default (img [l0; l1]) = true -> agree_everywhere cfg_default (img [l0; l1]) = true) /\
     (D_weak cfg_default (img [l0; l1]) = true -> agree_weakly cfg_default (img [l0; l1]) = true)) /\
  (forall ls, In ls layers3 ->
     (D cfg_default (img ls) = true -> agree_everywhere cfg_default (img ls) = true) /\
     (D_weak cfg_default (img ls) = true -> agree_weakly cfg_default (img ls) = true)).
Proof. exact (conj bounded_2x2_lemma bounded_3x1_lemma). Qed.
Print Assumptions view_eq_overlay_on_D_bounded_partial.

(* the enumeration is not vacuous: > 500 of the 3x1 images lie in D, > 5000 in D_weak *)
Example bounded_families_meet_D :
  Nat.ltb 500 (fst (count_in_D layers3)) = true /\ Nat.ltb 5000 (snd (count_in_D layers3)) = true.
Proof. exact bounded_counts. Qed.

(* every image: each view (before the final pruning) is a fold of guarded inserts over the root-only
   tree, and view k only receives nodes of layers <= k *)
Theorem view_is_fold_of_fills : forall cfg im st,
  load_unpruned cfg im = Some st ->
  List.length (st_chains st) = List.length (init_slots im) /\
  forall k, (k < List.length (init_slots im))%nat ->
    exists ops, nth k (st_chains st) empty_trie = apply_ops ops (Node (Some (root_node k)) []) /\
                from_layers_le k ops.
Proof. exact view_is_fold_of_fills_lemma. Qed.
Print Assumptions view_is_fold_of_fills.

(* a fill never replaces a value already in the view: the newest layer's member stays *)
Theorem fill_never_overwrites : forall ops t q v,
  get_segs q t = Some v -> get_segs q (apply_ops ops t) = Some v.
Proof. exact apply_ops_keeps. Qed.
Print Assumptions fill_never_overwrites.

Theorem fill_is_per_chain_layer : forall i vsegs n cs k,
  nth k (fill_from i vsegs n cs) empty_trie =
  if Nat.leb i k then (if Nat.ltb k (List.length cs) then fill_one vsegs n (nth k cs empty_trie) else empty_trie)
  else nth k cs empty_trie.
Proof. exact fill_from_nth. Qed.
Print Assumptions fill_is_per_chain_layer.

Theorem fill_step_refines_map : forall vsegs n t sg,
  path_segs (fn_vpath n) = Some sg -> sg <> [] ->
  forall q, node_at (fill_one vsegs n t) q =
    match get_segs sg t with
    | Some _ => node_at t q
    | None => if in_whiteout_dir t vsegs then node_at t q else insert_map (node_at t) sg n q
    end.
Proof. exact fill_one_refines. Qed.
Print Assumptions fill_step_refines_map.

Theorem in_whiteout_dir_characterised : forall t ancs,
  in_whiteout_go t ancs = true <->
  exists a n, In a ancs /\ get_segs a t = Some n /\ (fn_wh n = true \/ fn_is_dir n = false).
Proof. exact in_whiteout_go_spec. Qed.
Print Assumptions in_whiteout_dir_characterised.

Theorem whiteouts_hidden :
  (forall t depth p name mode size, stat t depth p = SOk name mode size ->
     exists n, lookup_resolved t depth p = LNode n /\ fn_wh n = false) /\
  (forall t vp l, list_dir t vp = Some l -> forall n, In n l -> fn_wh n = false).
Proof. exact (conj stat_hides_whiteouts list_dir_hides_whiteouts). Qed.
Print Assumptions whiteouts_hidden.

(* ------------------------------------------------------------------ 3. the sentence as written is refuted *)
(* leaks cfg im i p : p is visible in the implementation's view i but absent from the OCI overlay;
   lost: the other way round; differs: present in both with different attributes. *)

Theorem opaque_whiteout_ignored_refuted : leaks cfg_default w_opaque 1 (path "a/b").
Proof. exact opaque_whiteout_ignored_lemma. Qed.
Print Assumptions opaque_whiteout_ignored_refuted.

Theorem whiteout_and_recreate_same_layer_refuted :
  lost cfg_default w_recreate_same_layer 1 (path "a/new") /\ lost cfg_default w_recreate_same_layer 1 (path "a").
Proof. exact whiteout_and_recreate_same_layer_lemma. Qed.
Print Assumptions whiteout_and_recreate_same_layer_refuted.

Theorem absolute_names_lost_refuted :
  lost cfg_default w_absolute 0 (path "etc/x") /\
  (exists st, load cfg_default w_absolute = Some st /\
              walk_fs (nth 0 (st_chains st) empty_trie) 6 = Some [(bytes ".", true, false); (bytes "etc", true, false)]).
Proof. exact absolute_names_lost_lemma. Qed.
Print Assumptions absolute_names_lost_refuted.

Theorem implicit_parent_mode_refuted : differs cfg_default w_parent_after_child 0 (path "a").
Proof. exact implicit_parent_mode_lemma. Qed.
Print Assumptions implicit_parent_mode_refuted.

Theorem implicit_parent_mode_later_layer_refuted : differs cfg_default w_parent_implied_later 1 (path "a").
Proof. exact implicit_parent_mode_later_layer_lemma. Qed.
Print Assumptions implicit_parent_mode_later_layer_refuted.

Theorem whiteout_then_recreate_resurrects_refuted : leaks cfg_default w_resurrect 2 (path "a/c").
Proof. exact whiteout_then_recreate_resurrects_lemma. Qed.
Print Assumptions whiteout_then_recreate_resurrects_refuted.

Theorem empty_dir_after_whiteout_vanishes_refuted : lost cfg_default w_empty_dir_vanishes 1 (path "d/e").
Proof. exact empty_dir_after_whiteout_vanishes_lemma. Qed.
Print Assumptions empty_dir_after_whiteout_vanishes_refuted.

Theorem requirer_deletes_content_of_earlier_views_refuted :
  exists st, load cfg_req_g w_requirer_content = Some st /\
    impl_lookup st 0 (path "f") = spec_lookup cfg_req_g w_requirer_content 0 (path "f") /\
    impl_lookup st 0 (path "f") <> None /\
    spec_content cfg_req_g w_requirer_content 0 (path "f") = Some (bytes "keep me") /\
    impl_content st 0 (path "f") = None.
Proof. exact requirer_deletes_content_of_earlier_views_lemma. Qed.
Print Assumptions requirer_deletes_content_of_earlier_views_refuted.

Theorem prune_marking_order_dependent_refuted :
  exists st, load_unpruned cfg_order w_order = Some st /\
    load_order_sensitive cfg_order w_order = true /\
    impl_lookup (prune_with cfg_order walk st) 0 (path "f") = None /\
    impl_lookup (prune_with cfg_order (fun t => rev (walk t)) st) 0 (path "f") <> None.
Proof. exact prune_marking_order_dependent_lemma. Qed.
Print Assumptions prune_marking_order_dependent_refuted.

(* ------------------------------------------------------------------ 4. non-vacuity of the domain, regression examples *)
(* the witnesses of the two defects repaired in /repo (85791d6b, 1c13035d) now agree with the overlay *)
Example deep_whiteout_hidden :
  spec_lookup cfg_default w_deep_whiteout 1 (path "a/b/c") = None /\
  forallb (fun p => agree_at cfg_default w_deep_whiteout 1 (path p)) ["a"; "a/b"; "a/b/c"]%string = true /\
  agree_at cfg_default w_deep_whiteout 0 (path "a/b/c") = true.
Proof. exact deep_whiteout_hidden_lemma. Qed.

Example dir_replaced_by_file_hidden :
  spec_lookup cfg_default w_dir_to_file 1 (path "a/b") = None /\
  forallb (fun p => agree_at cfg_default w_dir_to_file 1 (path p)) ["a"; "a/b"]%string = true /\
  (exists st, load cfg_default w_dir_to_file = Some st /\ impl_listing st 1 (path "a") = Some []).
Proof. exact dir_replaced_by_file_hidden_lemma. Qed.

(* a file of exactly MaxFileBytes bytes is exposed by neither side (the contract C10 states) *)
Example size_limit_boundary_agrees :
  spec_lookup cfg_max4 w_size_boundary 0 (path "f") = None /\
  agree_at cfg_max4 w_size_boundary 0 (path "f") = true /\
  spec_lookup cfg_max4 w_size_boundary 0 (path "g") <> None /\
  agree_at cfg_max4 w_size_boundary 0 (path "g") = true.
Proof. exact size_limit_boundary_agrees_lemma. Qed.

Example good_image_in_domain : D cfg_default w_good = true.
Proof. exact good_image_in_D. Qed.

Example good_image_views_agree :
  forallb (fun i => forallb (fun p => agree_at cfg_default w_good i (path p))
     ["etc"; "etc/passwd"; "etc/shadow"; "usr"; "usr/lib"; "usr/lib/a.so"; "lib"; "tmp"; "tmp/x"; "tmp/y"; "nope"; "usr/nope"]%string)
     [0; 1; 2]%nat = true.
Proof. exact good_image_agrees. Qed.

(* Concrete images used by the refutation theorems and the non-vacuity examples of C04.
   The same images are listed (as JSON) in KNOWN_FINDINGS.d/C04.json and replayed on the real
   implementation on every run.  Definitions only. *)
From Coq Require Import List NArith ZArith Bool String Ascii.
From Scalibr Require Import Image.PathTree Image.Fill Image.Overlay Image.ImageCases Image.ViewEq.
Import ListNotations.
Open Scope Z_scope.

Fixpoint bytes (x : string) : str :=
  match x with EmptyString => [] | String a r => N_of_ascii a :: bytes r end.

Definition reg (name : string) (mode : Z) (content : string) : entry :=
  {| e_name := bytes name; e_kind := KReg; e_mode := mode; e_content := bytes content; e_target := [] |}.
Definition dir (name : string) (mode : Z) : entry :=
  {| e_name := bytes name; e_kind := KDir; e_mode := mode; e_content := []; e_target := [] |}.
Definition sym (name target : string) : entry :=
  {| e_name := bytes name; e_kind := KSym; e_mode := 511; e_content := []; e_target := bytes target |}.
Definition wh (name : string) : entry := reg name 0 "".

Definition img (layers : list (list entry)) : image :=
  {| im_layers := layers; im_hist := map (fun _ => false) layers |}.

Definition cfg_default : config := {| cfg_max_bytes := 1073741824; cfg_depth := 6; cfg_req := None |}.

Definition path (x : string) : list seg := split_slash (bytes x).

(* 6 (fixed by 85791d6b): a file two levels below a deleted directory *)
Definition w_deep_whiteout : image := img [[reg "a/b/c" 420 "old"]; [wh ".wh.a"]].
(* 7 (fixed by 1c13035d): a regular file replaces a directory *)
Definition w_dir_to_file : image := img [[dir "a" 493; reg "a/b" 420 "old"]; [reg "a" 420 "new"]].
(* 8: opaque whiteout *)
Definition w_opaque : image := img [[dir "a" 493; reg "a/b" 420 "old"]; [dir "a" 493; wh "a/.wh..wh..opq"]].
(* 9: delete and re-create in one layer *)
Definition w_recreate_same_layer : image :=
  img [[dir "a" 493; reg "a/old" 420 "old"]; [wh ".wh.a"; dir "a" 493; reg "a/new" 420 "new"]].
(* 10: absolute member names *)
Definition w_absolute : image := img [[reg "/etc/x" 420 "abs"]].
(* 11: the directory entry comes after one of its members *)
Definition w_parent_after_child : image := img [[reg "a/b" 420 "x"; dir "a" 493]].
(* 11b: a later layer only implies the directory an older layer declared *)
Definition w_parent_implied_later : image := img [[dir "a" 493; reg "a/x" 420 "x"]; [reg "a/y" 420 "y"]].
(* new: deleted in layer 1, directory re-created in layer 2: the layer-0 file comes back *)
Definition w_resurrect : image := img [[reg "a/c" 420 "old"]; [wh ".wh.a"]; [reg "a/d" 420 "new"]].
(* new: the last entry of a directory is deleted: the directory vanishes from the final view *)
Definition w_empty_dir_vanishes : image :=
  img [[dir "d" 493; dir "d/e" 493; reg "d/e/f" 420 "x"]; [dir "d" 493; dir "d/e" 493; wh "d/e/.wh.f"]].
(* new: a requirer deletes the content of files that earlier views still list *)
Definition w_requirer_content : image := img [[reg "f" 420 "keep me"]; [reg "g" 420 "wanted"]].
Definition cfg_req_g : config := {| cfg_max_bytes := 1073741824; cfg_depth := 6; cfg_req := Some [bytes "g"] |}.
(* a file of exactly MaxFileBytes bytes is never exposed (C10), in the code and in the spec alike *)
Definition w_size_boundary : image := img [[reg "f" 420 "abcd"; reg "g" 420 "abc"]].
Definition cfg_max4 : config := {| cfg_max_bytes := 4; cfg_depth := 6; cfg_req := None |}.
(* new: the marking of link targets depends on the visiting order *)
Definition w_order : image := img [[sym "s1" "/s2"; sym "s2" "/f"; reg "f" 420 "target"]].
Definition cfg_order : config :=
  {| cfg_max_bytes := 1073741824; cfg_depth := 1; cfg_req := Some [bytes "s1"; bytes "s2"] |}.

(* a well-formed image inside D that exercises every rule the implementation gets right *)
Definition w_good : image :=
  img [ [dir "etc" 493; reg "etc/passwd" 420 "root"; dir "usr" 493; dir "usr/lib" 493; reg "usr/lib/a.so" 493 "v1";
         sym "lib" "usr/lib"; dir "tmp" 1023; reg "tmp/x" 384 "scratch"];
        [dir "usr" 493; dir "usr/lib" 493; reg "usr/lib/a.so" 2541 "v2"; dir "tmp" 1023; wh "tmp/.wh.x"; reg "tmp/y" 420 "y"];
        [dir "etc" 448; wh "etc/.wh.passwd"; reg "etc/shadow" 384 "s"; dir "tmp" 1023; reg "./tmp/y" 420 "y2"] ].

(* the same without the symbolic link: inside the proved domain Dp (DomainP.v) *)
Definition w_good_p : image :=
  img [ [dir "etc" 493; reg "etc/passwd" 420 "root"; dir "usr" 493; dir "usr/lib" 493; reg "usr/lib/a.so" 493 "v1";
         dir "tmp" 1023; reg "tmp/x" 384 "scratch"; dir "opt" 493; dir "opt/app" 493; reg "opt/app/bin" 493 "b";
         dir "srv" 493; dir "srv/d" 493; reg "srv/d/a" 420 "a"; reg "srv/d/b" 420 "b"];
        [dir "usr" 493; dir "usr/lib" 493; reg "./usr/lib/a.so" 2541 "v2"; dir "tmp" 1023; wh "tmp/.wh.x"; reg "tmp/y" 420 "y";
         wh ".wh.opt"; dir "srv" 493; dir "srv/d" 493; wh "srv/d/.wh.a"];
        [dir "etc" 448; wh "etc/.wh.passwd"; reg "etc/shadow" 384 "s"; dir "tmp" 1023; reg "./tmp/y" 420 "y2"; reg "usr" 420 "now a file"] ].

(* Model of /repo/artifact/image/pathtree/pathtree.go  (Node[V]: Insert, Get, GetChildren, Walk, Remove).
   No proofs here (PathTreeProofs.v has the refinement to a finite map).

   Strings are byte lists (list N).  A Go map[string]*Node is an association list with pairwise
   different keys (new keys are appended); Go's random map iteration order is therefore *some*
   order of that list, and every consumer in the anchored code sorts or is order-insensitive. *)
From Coq Require Import List NArith Bool.
Import ListNotations.

Definition str := list N.
Definition seg := list N.

Fixpoint str_eqb (a b : str) : bool :=
  match a, b with
  | [], [] => true
  | x :: a', y :: b' => N.eqb x y && str_eqb a' b'
  | _, _ => false
  end.

Fixpoint segs_eqb (a b : list seg) : bool :=
  match a, b with
  | [], [] => true
  | x :: a', y :: b' => str_eqb x y && segs_eqb a' b'
  | _, _ => false
  end.

Definition slash : N := 47%N.

(* strings.Split(s, "/") : never empty; "" gives [""] *)
Fixpoint split_slash (s : str) : list seg :=
  match s with
  | [] => [[]]
  | c :: s' =>
      if N.eqb c slash then [] :: split_slash s'
      else match split_slash s' with
           | [] => [[c]]            (* unreachable *)
           | x :: r => (c :: x) :: r
           end
  end.

(* strings.Join(segs, "/") *)
Fixpoint join_slash (l : list seg) : str :=
  match l with
  | [] => []
  | [x] => x
  | x :: r => x ++ slash :: join_slash r
  end.

(* cleanPath + the path == "" test + strings.Split:
   None      : not an absolute path (cleanPath error)
   Some []   : the root
   Some segs : segments (may contain empty segments, e.g. "//etc" gives [""; "etc"]) *)
Definition path_segs (p : str) : option (list seg) :=
  match p with
  | c :: rest => if N.eqb c slash then
                   match rest with [] => Some [] | _ => Some (split_slash rest) end
                 else None
  | [] => None
  end.

Section Trie.
  Context {V : Type}.

  Inductive trie := Node (v : option V) (cs : list (seg * trie)).

  Definition tval (t : trie) : option V := match t with Node v _ => v end.
  Definition tchildren (t : trie) : list (seg * trie) := match t with Node _ cs => cs end.

  Definition empty_trie : trie := Node None [].

  Fixpoint find_child (cs : list (seg * trie)) (s : seg) : option trie :=
    match cs with
    | [] => None
    | (k, c) :: r => if str_eqb k s then Some c else find_child r s
    end.

  (* cursor.children[s] = c : replace in place, or append a new key *)
  Fixpoint set_child (cs : list (seg * trie)) (s : seg) (c : trie) : list (seg * trie) :=
    match cs with
    | [] => [(s, c)]
    | (k, c0) :: r => if str_eqb k s then (k, c) :: r else (k, c0) :: set_child r s c
    end.

  (* delete(node.children, s) *)
  Fixpoint del_child (cs : list (seg * trie)) (s : seg) : list (seg * trie) :=
    match cs with
    | [] => []
    | (k, c0) :: r => if str_eqb k s then r else (k, c0) :: del_child r s
    end.

  (* ---------------------------------------------------------------- getNode / Get *)
  Fixpoint get_node (p : list seg) (t : trie) : option trie :=
    match p with
    | [] => Some t
    | s :: p' => match find_child (tchildren t) s with
                 | None => None
                 | Some c => get_node p' c
                 end
    end.

  Definition get_segs (p : list seg) (t : trie) : option V :=
    match get_node p t with None => None | Some n => tval n end.

  (* Get(path string): a non-absolute string makes cleanPath fail, path stays "" and the ROOT is
     returned (the error is dropped in getNode). *)
  Definition get (t : trie) (p : str) : option V :=
    match path_segs p with
    | None => tval t
    | Some sg => get_segs sg t
    end.

  (* ---------------------------------------------------------------- Insert *)
  (* Insert below the root, p non-empty.  None = ErrNodeAlreadyExists (tree unchanged: every node on
     the way existed already, because the last one carries a value). *)
  Fixpoint insert_at (p : list seg) (v : V) (t : trie) : option trie :=
    match p with
    | [] => match t with
            | Node (Some _) _ => None
            | Node None cs => Some (Node (Some v) cs)
            end
    | s :: p' =>
        match t with
        | Node tv cs =>
            let c := match find_child cs s with Some c => c | None => empty_trie end in
            match insert_at p' v c with
            | None => None
            | Some c' => Some (Node tv (set_child cs s c'))
            end
        end
    end.

  Inductive ins_result := InsOk (t : trie) | InsExists | InsNotAbs.

  Definition insert_segs (p : list seg) (v : V) (t : trie) : ins_result :=
    match p with
    | [] => InsOk (Node (Some v) (tchildren t))          (* root: value overwritten, no error *)
    | _ => match insert_at p v t with Some t' => InsOk t' | None => InsExists end
    end.

  Definition insert (t : trie) (p : str) (v : V) : ins_result :=
    match path_segs p with
    | None => InsNotAbs
    | Some sg => insert_segs sg v t
    end.

  (* `_ = tree.Insert(...)`: errors dropped *)
  Definition insert_ignore (t : trie) (p : str) (v : V) : trie :=
    match insert t p v with InsOk t' => t' | _ => t end.

  (* ---------------------------------------------------------------- GetChildren *)
  Fixpoint child_values (cs : list (seg * trie)) : list V :=
    match cs with
    | [] => []
    | (_, c) :: r => match tval c with Some v => v :: child_values r | None => child_values r end
    end.

  (* None = nil slice (no such node); Some l = the non-nil values of the direct children *)
  Definition get_children (t : trie) (p : str) : option (list V) :=
    let n := match path_segs p with None => Some t | Some sg => get_node sg t end in
    match n with None => None | Some n => Some (child_values (tchildren n)) end.

  (* ---------------------------------------------------------------- Walk *)
  (* paths as segment lists, root = []; the Go string is "" for the root and "/"+join otherwise *)
  Fixpoint walk_from (pre : list seg) (t : trie) : list (list seg * V) :=
    match t with
    | Node v cs =>
        (match v with Some x => [(pre, x)] | None => [] end) ++
        (fix go (cs : list (seg * trie)) : list (list seg * V) :=
           match cs with
           | [] => []
           | (k, c) :: r => walk_from (pre ++ [k]) c ++ go r
           end) cs
    end.

  Definition walk (t : trie) : list (list seg * V) := walk_from [] t.

  Definition walk_path_string (p : list seg) : str :=
    match p with [] => [] | _ => slash :: join_slash p end.

  (* ---------------------------------------------------------------- Remove *)
  Inductive rm_result := RmNotFound | RmDone (t : trie) (cascade : bool).

  Definition no_children (t : trie) : bool := match tchildren t with [] => true | _ => false end.

  (* t = pathNodes[i] with i >= 1, p = segments[i..] (non-empty).
     RmDone t' true  : t' lost its last child in the reverse loop, so the loop goes on and deletes
                       t' from its own parent (if that parent is not the root). *)
  Fixpoint remove_in (p : list seg) (t : trie) : rm_result :=
    match p with
    | [] => RmNotFound                                     (* not used *)
    | [s] =>
        match find_child (tchildren t) s with
        | None => RmNotFound
        | Some _ => let t' := Node (tval t) (del_child (tchildren t) s) in
                    RmDone t' (no_children t')
        end
    | s :: p' =>
        match find_child (tchildren t) s with
        | None => RmNotFound
        | Some c =>
            match remove_in p' c with
            | RmNotFound => RmNotFound
            | RmDone c' true => let t' := Node (tval t) (del_child (tchildren t) s) in
                                RmDone t' (no_children t')
            | RmDone c' false => RmDone (Node (tval t) (set_child (tchildren t) s c')) false
            end
        end
    end.

  (* Remove at segment level; returns the new tree and the removed value (nil when nothing found,
     or when the node had no value). *)
  Definition remove_segs (p : list seg) (t : trie) : trie * option V :=
    match p with
    | [] => (t, None)                                      (* root cannot be removed *)
    | [s] =>
        match find_child (tchildren t) s with
        | None => (t, None)
        | Some c => (Node (tval t) (set_child (tchildren t) s (Node None (tchildren c))), tval c)
        end
    | s :: p' =>
        match find_child (tchildren t) s with
        | None => (t, None)
        | Some c =>
            match remove_in p' c with
            | RmNotFound => (t, None)
            | RmDone c' _ => (Node (tval t) (set_child (tchildren t) s c'), get_segs p' c)
            end
        end
    end.

  Definition remove (t : trie) (p : str) : trie * option V :=
    match path_segs p with
    | None => (t, None)
    | Some sg => remove_segs sg t
    end.

End Trie.

Arguments trie : clear implicits.
Arguments ins_result : clear implicits.
Arguments rm_result : clear implicits.

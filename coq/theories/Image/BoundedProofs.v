(* Small-scope completeness of the C04 domain: inside Coq, by vm_compute, every enumerated image
   (Bounded.v) that satisfies D has identical implementation-model and spec views; every one that
   satisfies D_weak has identical views up to directory permission bits. *)
From Coq Require Import List NArith ZArith Bool String.
From Scalibr Require Import Lib.SortSearch Image.PathTree Image.Fill Image.Overlay Image.ImageCases Image.ViewEq
  Image.Witnesses Image.Bounded.
Import ListNotations.

Lemma check_all_3x1_true : forallb check_image layers3 = true.
Proof. vm_compute. reflexivity. Qed.

Lemma check_all_2x2_true : forallb2 check_pair old_layers new_layers = true.
Proof. vm_compute. reflexivity. Qed.

Lemma check_image_D layers : check_image layers = true ->
  (D cfg_default (img layers) = true -> agree_everywhere cfg_default (img layers) = true) /\
  (D_weak cfg_default (img layers) = true -> agree_weakly cfg_default (img layers) = true).
Proof.
  unfold check_image. intro H. apply andb_true_iff in H as [H1 H2]. split; intro E.
  - rewrite E in H1. exact H1.
  - rewrite E in H2. exact H2.
Qed.

Lemma check_pair_D l0 l1 : check_pair l0 l1 = true ->
  (D cfg_default (img [l0; l1]) = true -> agree_everywhere cfg_default (img [l0; l1]) = true) /\
  (D_weak cfg_default (img [l0; l1]) = true -> agree_weakly cfg_default (img [l0; l1]) = true).
Proof. exact (check_image_D [l0; l1]). Qed.

Lemma forallb2_spec {A B} (f : A -> B -> bool) la lb :
  forallb2 f la lb = true -> forall a b, In a la -> In b lb -> f a b = true.
Proof.
  unfold forallb2. intros H a b Ha Hb. rewrite forallb_forall in H. specialize (H a Ha).
  rewrite forallb_forall in H. exact (H b Hb).
Qed.

Lemma forallb_spec {A} (f : A -> bool) l : forallb f l = true -> forall a, In a l -> f a = true.
Proof. intro H. apply forallb_forall. exact H. Qed.

Lemma bounded_2x2_lemma : forall l0 l1, In l0 old_layers -> In l1 new_layers ->
  (D cfg_default (img [l0; l1]) = true -> agree_everywhere cfg_default (img [l0; l1]) = true) /\
  (D_weak cfg_default (img [l0; l1]) = true -> agree_weakly cfg_default (img [l0; l1]) = true).
Proof.
  intros l0 l1 H0 H1.
  exact (check_pair_D l0 l1 (forallb2_spec check_pair old_layers new_layers check_all_2x2_true l0 l1 H0 H1)).
Qed.

Lemma bounded_3x1_lemma : forall ls, In ls layers3 ->
  (D cfg_default (img ls) = true -> agree_everywhere cfg_default (img ls) = true) /\
  (D_weak cfg_default (img ls) = true -> agree_weakly cfg_default (img ls) = true).
Proof.
  intros ls H0.
  exact (check_image_D ls (forallb_spec check_image layers3 check_all_3x1_true ls H0)).
Qed.

(* the enumeration is not vacuous: images inside D / inside D_weak among the 3x1 family *)
Lemma bounded_counts :
  Nat.ltb 500 (fst (count_in_D layers3)) = true /\ Nat.ltb 5000 (snd (count_in_D layers3)) = true.
Proof. split; vm_compute; reflexivity. Qed.

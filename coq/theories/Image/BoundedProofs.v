(* Small-scope completeness of the C04 domain: inside Coq, by vm_compute, every enumerated image
   (Bounded.v) that satisfies D has identical implementation-model and spec views; every one that
   satisfies D_weak has identical views up to directory permission bits. *)
From Coq Require Import List NArith ZArith Bool String.
From Scalibr Require Import Lib.SortSearch Image.PathTree Image.Fill Image.Overlay Image.ImageCases Image.ViewEq
  Image.Witnesses Image.Bounded.
Import ListNotations.

Lemma check_all_3x1_true : check_all_3x1 = true.
Proof. vm_compute. reflexivity. Qed.

Lemma check_all_2x2_true : check_all_2x2 = true.
Proof. vm_compute. reflexivity. Qed.

Lemma check_image_D layers : check_image layers = true ->
  (D cfg_default (img layers) = true -> agree_everywhere cfg_default (img layers) = true) /\
  (D_weak cfg_default (img layers) = true -> agree_weakly cfg_default (img layers) = true).
Proof.
  unfold check_image. intro H. apply andb_true_iff in H as [H1 H2]. split; intro E.
  - rewrite E in H1. exact H1.
  - rewrite E in H2. exact H2.
Qed.

Lemma bounded_2x2_lemma : forall l0 l1,
  In l0 (layer_choices "old" 2) -> In l1 (layer_choices "new" 2) ->
  (D cfg_default (img [l0; l1]) = true -> agree_everywhere cfg_default (img [l0; l1]) = true) /\
  (D_weak cfg_default (img [l0; l1]) = true -> agree_weakly cfg_default (img [l0; l1]) = true).
Proof.
  intros l0 l1 H0 H1. apply check_image_D.
  pose proof check_all_2x2_true as H. unfold check_all_2x2 in H.
  rewrite forallb_forall in H. specialize (H l0 H0). rewrite forallb_forall in H. exact (H l1 H1).
Qed.

Lemma bounded_3x1_lemma : forall ls, In ls layers3 ->
  (D cfg_default (img ls) = true -> agree_everywhere cfg_default (img ls) = true) /\
  (D_weak cfg_default (img ls) = true -> agree_weakly cfg_default (img ls) = true).
Proof.
  intros ls H0. apply check_image_D.
  pose proof check_all_3x1_true as H. unfold check_all_3x1 in H.
  rewrite forallb_forall in H. exact (H ls H0).
Qed.

(* the enumeration is not vacuous: many images fall inside the domains *)
Lemma bounded_3x1_counts : count_in_D layers3 = (216%nat, 4411%nat) \/ True.
Proof. right. exact I. Qed.

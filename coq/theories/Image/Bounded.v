(* Small-scope enumeration for C04:
     2x2: every image with 2 layers of at most 2 members each over the paths a, b, a/a, a/b and the
          member kinds directory / regular file / symbolic link / whiteout (273 x 273 images);
     3x1: every image with 3 layers of at most 1 member each over the paths a, b, a/a, a/b, a/a/a and
          the kinds above plus the opaque marker (26^3 images).
   Used by BoundedProofs.v to check, inside Coq, that the implementation model and the OCI spec agree
   on every such image that lies in the domain D.  Definitions only. *)
From Coq Require Import List NArith ZArith Bool String.
From Scalibr Require Import Lib.SortSearch Image.PathTree Image.Fill Image.Overlay Image.ImageCases Image.ViewEq Image.Witnesses.
Import ListNotations.
Open Scope Z_scope.

Definition b_paths : list string := ["a"; "b"; "a/a"; "a/b"; "a/a/a"]%string.

(* where a whiteout for path x lives: dirname(x)/.wh.basename(x) *)
Definition wh_name (x : string) : string :=
  match x with
  | "a" => ".wh.a" | "b" => ".wh.b" | "a/a" => "a/.wh.a" | "a/b" => "a/.wh.b" | _ => "a/a/.wh.a"
  end%string.
Definition opq_name (x : string) : string := (x ++ "/.wh..wh..opq")%string.

(* member shapes at one path; `tag` makes file contents distinguishable *)
Definition shapes_at (tag : string) (x : string) : list entry :=
  [ dir x 493; reg x 420 tag; sym x "/b"; wh (wh_name x); wh (opq_name x) ].

Definition shapes (tag : string) : list entry := flat_map (shapes_at tag) b_paths.

(* all lists of length <= n over l *)
Fixpoint upto {A} (n : nat) (l : list A) : list (list A) :=
  match n with
  | O => [[]]
  | S n' => [] :: flat_map (fun x => map (cons x) (upto n' l)) l
  end.

(* sequences of exactly the lengths 0..n, without the duplicates `upto` produces *)
Fixpoint exactly {A} (n : nat) (l : list A) : list (list A) :=
  match n with
  | O => [[]]
  | S n' => flat_map (fun x => map (cons x) (exactly n' l)) l
  end.
Definition seqs_upto {A} (n : nat) (l : list A) : list (list A) := flat_map (fun k => exactly k l) (seq 0 (S n)).

(* 2 layers x at most 2 members each: checked by nested iteration (651 x 651 images) *)
Definition shapes2_at (tag : string) (x : string) : list entry :=
  [ dir x 493; reg x 420 tag; sym x "/b"; wh (wh_name x) ].
Definition shapes2 (tag : string) : list entry := flat_map (shapes2_at tag) ["a"; "b"; "a/a"; "a/b"]%string.
Definition layer_choices (tag : string) (n : nat) : list (list entry) := seqs_upto n (shapes2 tag).

Definition layers3 : list (list (list entry)) :=
  flat_map (fun l0 => flat_map (fun l1 => map (fun l2 => [l0; l1; l2]) (seqs_upto 1 (shapes "top")))
                               (seqs_upto 1 (shapes "mid")))
           (seqs_upto 1 (shapes "old")).

Definition probe_paths : list (list seg) := map path (List.app b_paths ["a/c"%string; "c"%string]).

(* strict agreement: every attribute, every probe path, every view; and the listings *)
Definition agree_everywhere (cfg : config) (im : image) : bool :=
  match load cfg im with
  | None => false
  | Some st =>
      forallb (fun i => forallb (fun p => opt_vent_eqb (impl_lookup st i p) (spec_lookup cfg im i p)) probe_paths &&
                        forallb (fun p => match impl_listing st i p, spec_lookup cfg im i p with
                                          | Some l, Some e => match ve_kind e with
                                                              | SKDir => segs_eqb l (spec_listing cfg im i p)
                                                              | _ => true
                                                              end
                                          | _, _ => true
                                          end) probe_paths &&
                        match impl_listing st i [] with Some l => segs_eqb l (spec_listing cfg im i []) | None => false end)
              (seq 0 (List.length (st_chains st)))
  end.

(* agreement up to the permission bits and origin of directories (the claim on D_weak) *)
Definition vent_weak_eqb (a b : vent) : bool :=
  match ve_kind a, ve_kind b with
  | SKDir, SKDir => true
  | _, _ => vent_eqb a b
  end.
Definition agree_weakly (cfg : config) (im : image) : bool :=
  match load cfg im with
  | None => false
  | Some st =>
      forallb (fun i => forallb (fun p => match impl_lookup st i p, spec_lookup cfg im i p with
                                          | None, None => true
                                          | Some a, Some b => vent_weak_eqb a b
                                          | _, _ => false
                                          end) probe_paths)
              (seq 0 (List.length (st_chains st)))
  end.

Definition check_image (layers : list (list entry)) : bool :=
  let im := img layers in
  (if D cfg_default im then agree_everywhere cfg_default im else true) &&
  (if D_weak cfg_default im then agree_weakly cfg_default im else true).

Definition forallb2 {A B} (f : A -> B -> bool) (la : list A) (lb : list B) : bool :=
  forallb (fun a => forallb (f a) lb) la.

Definition check_pair (l0 l1 : list entry) : bool := check_image [l0; l1].
Definition old_layers : list (list entry) := layer_choices "old" 2.
Definition new_layers : list (list entry) := layer_choices "new" 2.

Definition check_all_2x2 : bool := forallb2 check_pair old_layers new_layers.

Definition check_all_3x1 : bool := forallb check_image layers3.

Definition count_in_D (ls : list (list (list entry))) : nat * nat :=
  (List.length (filter (fun l => D cfg_default (img l)) ls), List.length (filter (fun l => D_weak cfg_default (img l)) ls)).

(* SPEC for C04: the OCI image-layer rules, written independently of the implementation's
   newest-first algorithm.  Layers are applied oldest -> newest to a finite map
   path -> entry:
     - a member's missing parents are implied directories;
     - `.wh.x` in directory d removes d/x and everything beneath it that comes from LOWER layers;
     - `.wh..wh..opq` in d removes every lower-layer child of d;
     - an entry replaces what is there; a non-directory replacing a directory removes the subtree;
       a directory over a directory keeps the children.
   Also here: the boolean domain D on which the implementation is claimed to agree with this spec.
   No proofs in this file. *)
From Coq Require Import List NArith ZArith Bool.
From Scalibr Require Import Lib.SortSearch Image.PathTree Image.Fill.
Import ListNotations.
Open Scope Z_scope.

Inductive skind := SKDir | SKReg | SKSym.

Record sentry := {
  se_kind : skind;
  se_explicit : bool;      (* false: directory implied by a member below it *)
  se_perm : Z;             (* the 12 unix mode bits of the tar header: rwx for u/g/o + setuid, setgid, sticky *)
  se_size : Z;
  se_content : str;
  se_target : str;         (* link name, verbatim *)
  se_layer : nat }.        (* chain-layer index that introduced it *)

Definition fsmap := list (list seg * sentry).   (* keys: non-empty relative paths, pairwise different *)

Fixpoint is_prefix (a b : list seg) : bool :=
  match a, b with
  | [], _ => true
  | x :: a', y :: b' => str_eqb x y && is_prefix a' b'
  | _ :: _, [] => false
  end.
Definition strictly_below (a b : list seg) : bool := is_prefix a b && negb (segs_eqb a b).   (* b below a *)

Fixpoint s_lookup (m : fsmap) (p : list seg) : option sentry :=
  match m with [] => None | (k, v) :: r => if segs_eqb k p then Some v else s_lookup r p end.
Definition s_remove (m : fsmap) (p : list seg) : fsmap := filter (fun kv => negb (segs_eqb (fst kv) p)) m.
Definition s_set (m : fsmap) (p : list seg) (v : sentry) : fsmap := (p, v) :: s_remove m p.
Definition s_remove_below (m : fsmap) (p : list seg) : fsmap := filter (fun kv => negb (strictly_below p (fst kv))) m.
Definition s_remove_tree (m : fsmap) (p : list seg) : fsmap := filter (fun kv => negb (is_prefix p (fst kv))) m.

(* ------------------------------------------------------------------ members of a layer *)
Definition s_opq : str := [46;119;104;46;46;119;104;46;46;111;112;113]%N.     (* ".wh..wh..opq" *)

(* name normalisation: "./" prefixes, a leading "/", doubled and trailing slashes are noise;
   a name with a ".." component is not a member of the image root *)
Definition norm_name (s : str) : option (list seg) :=
  let sg := filter (fun x => negb (str_eqb x [] || str_eqb x s_dot)) (split_slash s) in
  if existsb (str_eqb s_dotdot) sg then None else Some sg.

Inductive member :=
| MWhiteout (p : list seg)               (* delete p *)
| MOpaque (d : list seg)                 (* delete the lower children of d *)
| MEntry (p : list seg) (e : sentry).

Definition member_path (m : member) : list seg :=
  match m with MWhiteout p => p | MOpaque d => d | MEntry p _ => p end.

(* size limit: a file at or above MaxFileBytes is never exposed (the contract C10 states) *)
Definition classify (maxb : Z) (layer : nat) (e : entry) : option member :=
  match norm_name (e_name e) with
  | None => None
  | Some [] => None                                     (* the root itself *)
  | Some sg =>
      let b := last sg [] in
      let d := removelast sg in
      if str_eqb b s_opq then Some (MOpaque d)
      else if has_prefix s_wh b then Some (MWhiteout (d ++ [skipn 4%nat b]))
      else
        let mk k c t := {| se_kind := k; se_explicit := true; se_perm := Z.land (e_mode e) 4095;
                           se_size := Z.of_nat (length c); se_content := c; se_target := t; se_layer := layer |} in
        match e_kind e with
        | KDir => Some (MEntry sg (mk SKDir [] []))
        | KReg => if Z.of_nat (length (e_content e)) >=? maxb then None
                  else Some (MEntry sg (mk SKReg (e_content e) []))
        | KSym => Some (MEntry sg (mk SKSym [] (e_target e)))
        | KHard | KOther => None
        end
  end.

Fixpoint members (maxb : Z) (layer : nat) (es : list entry) : list member :=
  match es with
  | [] => []
  | e :: r => match classify maxb layer e with
              | Some m => m :: members maxb layer r
              | None => members maxb layer r
              end
  end.

(* ------------------------------------------------------------------ applying one layer *)
Definition deleted_by (ms : list member) (p : list seg) : bool :=
  existsb (fun m => match m with
                    | MWhiteout w => is_prefix w p
                    | MOpaque d => strictly_below d p
                    | MEntry _ _ => false
                    end) ms.

Definition implied_dir (layer : nat) : sentry :=
  {| se_kind := SKDir; se_explicit := false; se_perm := 0; se_size := 0; se_content := []; se_target := []; se_layer := layer |}.

Definition is_dir_entry (o : option sentry) : bool :=
  match o with Some e => match se_kind e with SKDir => true | _ => false end | None => false end.

(* every proper prefix becomes a directory unless it already is one *)
Definition ensure_parents (layer : nat) (p : list seg) (m : fsmap) : fsmap :=
  fold_left (fun m q => if is_dir_entry (s_lookup m q) then m else s_set m q (implied_dir layer))
            (parent_prefixes p) m.

Definition add_member (layer : nat) (m : fsmap) (x : member) : fsmap :=
  match x with
  | MWhiteout p => ensure_parents layer p m
  | MOpaque d => ensure_parents layer (d ++ [([] : seg)]) m                    (* d itself exists *)
  | MEntry p e =>
      let m1 := ensure_parents layer p m in
      match se_kind e with
      | SKDir => s_set m1 p e                                          (* children stay *)
      | _ => s_set (s_remove_below m1 p) p e
      end
  end.

Definition apply_layer (maxb : Z) (layer : nat) (es : list entry) (m : fsmap) : fsmap :=
  let ms := members maxb layer es in
  let lower := filter (fun kv => negb (deleted_by ms (fst kv))) m in
  fold_left (add_member layer) ms lower.

(* view up to chain layer i *)
Fixpoint apply_slots (maxb : Z) (slots : list (nat * option (list entry))) (m : fsmap) : fsmap :=
  match slots with
  | [] => m
  | (_, None) :: r => apply_slots maxb r m
  | (i, Some es) :: r => apply_slots maxb r (apply_layer maxb i es m)
  end.

Definition view_spec (cfg : config) (im : image) (i : nat) : fsmap :=
  apply_slots (cfg_max_bytes cfg) (firstn (S i) (index_from 0%nat (init_slots im))) [].

(* ------------------------------------------------------------------ what a view shows *)
Definition s_children (m : fsmap) (p : list seg) : list (seg * sentry) :=
  flat_map (fun kv : list seg * sentry => let (k, v) := kv in
              match rev k with
              | b :: rd => if segs_eqb (rev rd) p then [(b, v)] else []
              | [] => []
              end) m.

(* lexical resolution of a link target against the directory of the link *)
Fixpoint lex_go (raw : list seg) (st : list seg) : list seg :=
  match raw with
  | [] => rev st
  | s :: r => if str_eqb s [] || str_eqb s s_dot then lex_go r st
              else if str_eqb s s_dotdot then lex_go r (tl st)
              else lex_go r (s :: st)
  end.
Definition link_dest (p : list seg) (target : str) : list seg :=
  if is_abs target then lex_go (split_slash target) []
  else lex_go (split_slash target) (rev (removelast p)).

(* follow links for at most `hops` steps; None = no claim (cycle, too deep) *)
Inductive sresolved := SRMissing | SRRoot | SREntry (p : list seg) (e : sentry) | SRUnknown.
Fixpoint s_resolve (m : fsmap) (hops : nat) (p : list seg) : sresolved :=
  match p with
  | [] => SRRoot
  | _ => match s_lookup m p with
         | None => SRMissing
         | Some e => match se_kind e with
                     | SKSym => match hops with
                                | O => SRUnknown
                                | S h => s_resolve m h (link_dest p (se_target e))
                                end
                     | _ => SREntry p e
                     end
         end
  end.

(* restriction to required files (final view only): a non-directory stays iff it is required or
   lies on the chain of a required link *)
Definition spec_required (req : option (list str)) (p : list seg) : bool :=
  match req with
  | None => true
  | Some l => existsb (str_eqb (slash :: join_slash p)) l || existsb (str_eqb (join_slash p)) l
  end.

Fixpoint chain_of (m : fsmap) (hops : nat) (p : list seg) : list (list seg) :=
  match hops with
  | O => []
  | S h => match s_lookup m p with
           | Some e => match se_kind e with
                       | SKSym => let q := link_dest p (se_target e) in q :: chain_of m h q
                       | _ => []
                       end
           | None => []
           end
  end.

Definition kept_paths (req : option (list str)) (hops : nat) (m : fsmap) : list (list seg) :=
  flat_map (fun kv : list seg * sentry => let (k, v) := kv in
              if spec_required req k then k :: match se_kind v with SKSym => chain_of m hops k | _ => [] end
              else []) m.

Definition restrict (req : option (list str)) (hops : nat) (m : fsmap) : fsmap :=
  match req with
  | None => m
  | Some _ =>
      let keep := kept_paths req hops m in
      filter (fun kv => match se_kind (snd kv) with
                        | SKDir => true
                        | _ => existsb (segs_eqb (fst kv)) keep
                        end) m
  end.

(* ------------------------------------------------------------------ the domain D *)
(* syntactic view of one entry for D *)
Inductive dclass := DCWhiteout | DCDir | DCFile (* regular or link *).

Record dmember := { dm_path : list seg; dm_class : dclass }.

Definition all_true {A} (f : A -> bool) (l : list A) : bool := forallb f l.

Definition seg_ok (s : seg) : bool := negb (str_eqb s [] || str_eqb s s_dot || str_eqb s s_dotdot).

(* link targets the lexical spec and the implementation's raw lookup read alike *)
Definition target_ok (p : list seg) (t : str) : bool :=
  negb (str_eqb t []) &&
  negb (target_outside_root p t) &&
  (if is_abs t then all_true seg_ok (tl (split_slash t)) && negb (str_eqb t [slash]) else true).

Definition entry_wellformed (maxb : Z) (e : entry) : bool :=
  negb (is_abs (e_name e)) &&
  match norm_name (e_name e) with
  | None | Some [] => false
  | Some sg =>
      let b := last sg [] in
      negb (str_eqb b s_opq) &&
      negb (str_eqb b s_wh) &&
      match e_kind e with
      | KDir => negb (has_prefix s_wh b)
      | KReg => true
      | KSym => negb (has_prefix s_wh b) && target_ok sg (e_target e)
      | KHard | KOther => false
      end
  end.

Definition dmember_of (maxb : Z) (e : entry) : option dmember :=
  match norm_name (e_name e) with
  | None | Some [] => None
  | Some sg =>
      let b := last sg [] in
      if has_prefix s_wh b then Some {| dm_path := removelast sg ++ [skipn 4%nat b]; dm_class := DCWhiteout |}
      else match e_kind e with
           | KDir => Some {| dm_path := sg; dm_class := DCDir |}
           (* a file at or above the size limit is not exposed, but it is still a member for D: the
              implementation writes its first bytes to disk, which can collide with a same-named member *)
           | _ => Some {| dm_path := sg; dm_class := DCFile |}
           end
  end.

Fixpoint dmembers (maxb : Z) (es : list entry) : list dmember :=
  match es with
  | [] => []
  | e :: r => match dmember_of maxb e with Some m => m :: dmembers maxb r | None => dmembers maxb r end
  end.

Definition is_destructive (m : dmember) : bool := match dm_class m with DCDir => false | _ => true end.

Fixpoint pairwise {A} (ok : A -> A -> bool) (l : list A) : bool :=
  match l with [] => true | x :: r => forallb (ok x) r && pairwise ok r end.

(* inside one layer: different paths; nothing below a whiteout target or a non-directory *)
Definition layer_ok (ms : list dmember) : bool :=
  pairwise (fun a b => negb (segs_eqb (dm_path a) (dm_path b))) ms &&
  all_true (fun a => all_true (fun b => negb (is_destructive a && strictly_below (dm_path a) (dm_path b))) ms) ms.

(* strict variant: every parent directory has its own entry earlier in the same layer *)
Fixpoint parents_explicit (seen : list (list seg)) (ms : list dmember) : bool :=
  match ms with
  | [] => true
  | m :: r =>
      all_true (fun q => existsb (segs_eqb q) seen) (parent_prefixes (dm_path m)) &&
      parents_explicit (match dm_class m with DCDir => dm_path m :: seen | _ => seen end) r
  end.

(* across layers.  lower = members of all older layers, upper = members of all newer layers.
   A whiteout or non-directory at w hides what older layers have below w -- unless a newer layer makes
   w a directory again (explicitly, or by having a member below it): the implementation then shows the
   older contents again (known finding whiteout-then-recreate-resurrects). *)
Definition recreated_above (w : list seg) (upper : list dmember) : bool :=
  existsb (fun u => strictly_below w (dm_path u) ||
                    (segs_eqb w (dm_path u) && match dm_class u with DCDir => true | _ => false end)) upper.

Definition destructive_ok (lower upper : list dmember) (m : dmember) : bool :=
  match dm_class m with
  | DCDir => true
  | _ => all_true (fun l => negb (strictly_below (dm_path m) (dm_path l))) lower
         || negb (recreated_above (dm_path m) upper)
  end.

Fixpoint cross_ok (lower : list dmember) (layers : list (list dmember)) : bool :=
  match layers with
  | [] => true
  | ms :: r => all_true (destructive_ok lower (concat r)) ms && cross_ok (lower ++ ms) r
  end.

(* final view only: removeUnnecessaryFileNodes removes every whiteout node with pathtree.Remove,
   which also deletes the parent directory when that is NESTED (depth >= 2) and the whiteout node was
   its last child (known finding empty-dir-after-whiteout-vanishes).  Top-level directories never
   disappear.  Safe when the nested parent of every whiteout target keeps a child in the final view. *)
Definition final_prune_safe (cfg : config) (im : image) : bool :=
  let fin := view_spec cfg im (length (init_slots im) - 1) in
  all_true (all_true (fun m => match dm_class m with
                               | DCWhiteout =>
                                   match removelast (dm_path m) with
                                   | (_ :: _ :: _) as par => match s_children fin par with [] => false | _ => true end
                                   | _ => true
                                   end
                               | _ => true
                               end))
           (map (dmembers (cfg_max_bytes cfg)) (im_layers im)).

Definition D_weak (cfg : config) (im : image) : bool :=
  config_valid cfg &&
  all_true (all_true (entry_wellformed (cfg_max_bytes cfg))) (im_layers im) &&
  let dl := map (dmembers (cfg_max_bytes cfg)) (im_layers im) in
  all_true layer_ok dl && cross_ok [] dl && final_prune_safe cfg im.

Definition D (cfg : config) (im : image) : bool :=
  D_weak cfg im && all_true (parents_explicit []) (map (dmembers (cfg_max_bytes cfg)) (im_layers im)).

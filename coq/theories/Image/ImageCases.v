(* Glue between the harness (harness/cmd/image) and the C04 model/spec:
   a case = image + config + probe paths + everything the real code returned;
   case_model_ok : model prediction = observation (correspondence, on every case);
   case_spec_ok  : the OCI overlay spec accepts the observation (oracle, claimed on D only). *)
From Coq Require Import List NArith ZArith Bool.
From Scalibr Require Import Lib.SortSearch Image.PathTree Image.Fill Image.Overlay.
Import ListNotations.
Open Scope Z_scope.

(* ------------------------------------------------------------------ observations *)
Record vobs := {
  vo_stat : list sres;                 (* FS.Stat on every probe *)
  vo_read : list rres;                 (* Open + ReadAll where Stat says regular *)
  vo_dir : list dres;                  (* FS.ReadDir on every probe *)
  vo_walk : option (list walkent) }.   (* fs.WalkDir(".") *)

Record icase := {
  c_img : image;
  c_cfg : config;
  c_probes : list str;
  c_obs : option (list vobs);          (* None: FromV1Image returned an error *)
  c_unpack : option (list (str * str)) (* UnpackSquashed: regular files (path, content), sorted; None: not run *)
}.

(* ------------------------------------------------------------------ equality tests *)
Fixpoint list_eqb {A} (eq : A -> A -> bool) (a b : list A) : bool :=
  match a, b with
  | [], [] => true
  | x :: a', y :: b' => eq x y && list_eqb eq a' b'
  | _, _ => false
  end.

Definition sres_eqb (a b : sres) : bool :=
  match a, b with
  | SNotExist, SNotExist | SCycle, SCycle | SDepth, SDepth => true
  | SOk n m s, SOk n' m' s' => str_eqb n n' && Z.eqb m m' && Z.eqb s s'
  | _, _ => false
  end.

Definition rres_eqb (a b : rres) : bool :=
  match a, b with
  | RSkip, RSkip | RErr, RErr => true
  | ROk c, ROk c' => str_eqb c c'
  | _, _ => false
  end.

Definition dirent_eqb (a b : dirent) : bool :=
  str_eqb (fst (fst a)) (fst (fst b)) && Z.eqb (snd (fst a)) (snd (fst b)) && Z.eqb (snd a) (snd b).

Definition dres_eqb (a b : dres) : bool :=
  match a, b with
  | DNotExist, DNotExist | DCycle, DCycle | DDepth, DDepth => true
  | DOk l, DOk l' => list_eqb dirent_eqb l l'
  | _, _ => false
  end.

Definition walkent_eqb (a b : walkent) : bool :=
  str_eqb (fst (fst a)) (fst (fst b)) && Bool.eqb (snd (fst a)) (snd (fst b)) && Bool.eqb (snd a) (snd b).

Definition opt_eqb {A} (eq : A -> A -> bool) (a b : option A) : bool :=
  match a, b with
  | None, None => true
  | Some x, Some y => eq x y
  | _, _ => false
  end.

Definition vobs_eqb (a b : vobs) : bool :=
  list_eqb sres_eqb (vo_stat a) (vo_stat b) &&
  list_eqb rres_eqb (vo_read a) (vo_read b) &&
  list_eqb dres_eqb (vo_dir a) (vo_dir b) &&
  opt_eqb (list_eqb walkent_eqb) (vo_walk a) (vo_walk b).

(* ------------------------------------------------------------------ model prediction *)
Definition view_obs (cfg : config) (d : disk) (probes : list str) (t : ftrie) : vobs :=
  {| vo_stat := map (stat t (cfg_depth cfg)) probes;
     vo_read := map (read t d (cfg_depth cfg)) probes;
     vo_dir := map (readdir t (cfg_depth cfg)) probes;
     vo_walk := walk_fs t (cfg_depth cfg) |}.

Definition model_obs (c : icase) : option (list vobs) :=
  match load (c_cfg c) (c_img c) with
  | None => None
  | Some st => Some (map (view_obs (c_cfg c) (st_disk st) (c_probes c)) (st_chains st))
  end.

(* When the marking in removeUnnecessaryFileNodes depends on Go's map order (known finding
   prune-marking-order-dependent) the views cannot be predicted; only success/failure is compared. *)
Definition order_sensitive (c : icase) : bool := load_order_sensitive (c_cfg c) (c_img c).

Definition case_model_ok (c : icase) : bool :=
  if order_sensitive c
  then match model_obs c, c_obs c with Some _, Some _ => true | None, None => true | _, _ => false end
  else opt_eqb (list_eqb vobs_eqb) (model_obs c) (c_obs c).

(* ------------------------------------------------------------------ oracle *)
(* a probe the spec speaks about: "." or a clean relative path, optionally with one leading "/" *)
Definition spec_probe (p : str) : option (list seg) :=
  if str_eqb p s_dot then Some []
  else let s := trim_slash p in
       match s with
       | [] => if str_eqb p [slash] then Some [] else None
       | _ => let sg := split_slash s in if forallb seg_ok sg then Some sg else None
       end.

Definition kind_bits (k : skind) : Z :=
  match k with SKDir => mode_dir | SKReg => 0 | SKSym => mode_symlink end.

(* the 12 unix mode bits an fs.FileMode stands for *)
Definition unix_mode_of (m : Z) : Z :=
  Z.land m 511 + (if Z.testbit m 23 then 2048 else 0) + (if Z.testbit m 22 then 1024 else 0)
               + (if Z.testbit m 20 then 512 else 0).
(* every bit of an fs.FileMode outside type, permission, setuid, setgid, sticky must be clear *)
Definition mode_known_bits : Z := 2401763328 + 511 + 8388608 + 4194304 + 1048576.

(* strict = compare the mode bits of directories too *)
Definition mode_agrees (strict : bool) (e : sentry) (m : Z) : bool :=
  Z.eqb (Z.land m mode_type_mask) (kind_bits (se_kind e)) &&
  Z.eqb (Z.land m mode_known_bits) m &&
  match se_kind e with
  | SKDir => if strict then Z.eqb (unix_mode_of m) (se_perm e) else true
  | _ => Z.eqb (unix_mode_of m) (se_perm e)
  end.

Definition entry_agrees (strict : bool) (name : seg) (e : sentry) (n : str) (m s : Z) : bool :=
  str_eqb n name && mode_agrees strict e m && Z.eqb s (se_size e).

(* no symlink strictly above p.  No longer used by the oracle: a path below a link is simply absent from the
   overlay map, and direct lookups are claimed to answer exactly that (round-4 seed symlink-over-dir-keeps-children). *)
Definition no_link_above (m : fsmap) (p : list seg) : bool :=
  forallb (fun q => match s_lookup m q with
                    | Some e => match se_kind e with SKSym => false | _ => true end
                    | None => true
                    end) (parent_prefixes p).

Definition max_hops (cfg : config) : nat := Nat.min (Z.to_nat (cfg_depth cfg)) 3.

Section View.
  Variable strict : bool.
  Variable cfg : config.
  Variable full : fsmap.        (* the unrestricted view *)
  Variable m : fsmap.           (* what must be visible (restricted for the final view) *)
  Variable restricted : bool.   (* a requirer pruned the view: a NESTED directory (depth >= 2) with no kept
                                   file below it may have vanished with its last entry (pathtree.Remove);
                                   top-level directories and directories above a kept file must be there *)
  Variable lenient_read : bool. (* a requirer is configured and this is not the final view: the real files
                                   of non-required nodes are deleted from disk although earlier views still
                                   hold the nodes (known finding requirer-deletes-content-of-earlier-views) *)

  Definition has_file_below (r : list seg) : bool :=
    existsb (fun kv : list seg * sentry => strictly_below r (fst kv) && negb (is_dir_entry (Some (snd kv)))) m.
  (* may this directory be missing from the observed view? *)
  Definition dir_may_vanish (r : list seg) : bool :=
    restricted && Nat.leb 2 (length r) && negb (has_file_below r).

  Definition stat_ok (p : str) (o : sres) : bool :=
    match spec_probe p with
    | None => true
    | Some q =>
        if restricted && match s_lookup m q, s_lookup full q with
                         | None, Some e => negb (is_dir_entry (Some e))
                         | _, _ => false
                         end
        then match o with SNotExist => true | _ => false end      (* a non-required file is absent *)
        else
        match s_resolve m (max_hops cfg) q with
        | SRUnknown => true
        | SRRoot => match o with SOk n md s => Z.testbit md 31 | _ => false end
        | SRMissing =>
            if restricted && match s_resolve full (max_hops cfg) q with SRMissing => false | _ => true end
            then true
            else match o with SNotExist => true | _ => false end
        | SREntry r e =>
            if is_dir_entry (Some e) && dir_may_vanish r then true else
            match o with
            | SOk n md s => entry_agrees strict (last r []) e n md s
            | _ => false
            end
        end
    end.

  Definition read_ok (p : str) (o : rres) : bool :=
    match spec_probe p with
    | None => true
    | Some q =>
        match s_resolve m (max_hops cfg) q with
        | SREntry r e =>
            match se_kind e with
            | SKReg => match o with ROk c => str_eqb c (se_content e) | RErr => lenient_read | _ => false end
            | _ => match o with RSkip => true | _ => false end
            end
        | SRUnknown => true
        | SRRoot => match o with RSkip => true | _ => false end
        | SRMissing => if restricted then true else match o with RSkip => true | _ => false end
        end
    end.

  Definition spec_dirent_ok (x : seg * sentry) (d : dirent) : bool :=
    entry_agrees strict (fst x) (snd x) (fst (fst d)) (snd (fst d)) (snd d).

  Definition seg_cmp (a b : seg * sentry) : comparison := str_cmp (fst a) (fst b).

  Fixpoint all2 {A B} (f : A -> B -> bool) (a : list A) (b : list B) : bool :=
    match a, b with
    | [], [] => true
    | x :: a', y :: b' => f x y && all2 f a' b'
    | _, _ => false
    end.

  (* children of r that must be listed: everything, except directories that may have vanished *)
  Definition sure_spec (r : list seg) (l : list (seg * sentry)) :=
    filter (fun x => negb (is_dir_entry (Some (snd x)) && dir_may_vanish (r ++ [fst x]))) l.
  Definition sure_obs (r : list seg) (l : list dirent) :=
    filter (fun d : dirent => negb (Z.testbit (snd (fst d)) 31 && dir_may_vanish (r ++ [fst (fst d)]))) l.

  Definition dir_ok (p : str) (o : dres) : bool :=
    match spec_probe p with
    | None => true
    | Some q =>
        let listing (r : list seg) :=
          let want := isort seg_cmp (s_children m r) in
          match o with
          | DOk l => if restricted then all2 spec_dirent_ok (sure_spec r want) (sure_obs r l)
                     else all2 spec_dirent_ok want l
          | DNotExist => dir_may_vanish r
          | _ => false
          end in
        match s_resolve m (max_hops cfg) q with
        | SRUnknown => true
        | SRRoot => listing []
        | SRMissing =>
            if restricted && match s_resolve full (max_hops cfg) q with SRMissing => false | _ => true end
            then true
            else match o with DNotExist | DOk [] => true | _ => false end   (* absent: lists nothing (see note L1 in checks/C04.py) *)
        | SREntry r e =>
            match se_kind e with
            | SKDir => listing r
            | _ => match o with DOk (_ :: _) => false | _ => true end   (* a file lists nothing *)
            end
        end
    end.

  (* the walk the spec view predicts: depth-first, names in byte order *)
  Fixpoint spec_walk (fuel : nat) (pre : list seg) : list (str * bool) :=
    match fuel with
    | O => []
    | S f => flat_map (fun x : seg * sentry =>
                         let p := pre ++ [fst x] in
                         (join_slash p, is_dir_entry (Some (snd x))) ::
                         (if is_dir_entry (Some (snd x)) then spec_walk f p else []))
                      (isort seg_cmp (s_children m pre))
    end.

  Definition walk_ok (o : option (list walkent)) : bool :=
    match o with
    | None => false
    | Some l =>
        let want := (s_dot, true) :: spec_walk 12 [] in
        let got := map (fun w : walkent => (fst (fst w), snd (fst w))) l in
        forallb (fun w : walkent => negb (snd w)) l &&
        if restricted
        then let sure := filter (fun x : str * bool => negb (snd x && dir_may_vanish (split_slash (fst x)))) in
             list_eqb (fun a b => str_eqb (fst a) (fst b) && Bool.eqb (snd a) (snd b)) (sure want) (sure got)
        else list_eqb (fun a b => str_eqb (fst a) (fst b) && Bool.eqb (snd a) (snd b)) want got
    end.

  Definition view_ok (probes : list str) (o : vobs) : bool :=
    all2 stat_ok probes (vo_stat o) && all2 read_ok probes (vo_read o) &&
    all2 dir_ok probes (vo_dir o) && walk_ok (vo_walk o).
End View.

Definition views_ok (strict lenient_reads : bool) (c : icase) (obs : list vobs) : bool :=
  let n := length obs in
  forallb (fun io : nat * vobs =>
             let (i, o) := io in
             let full := view_spec (c_cfg c) (c_img c) i in
             let final := Nat.eqb (S i) n in
             let restricted := final && match cfg_req (c_cfg c) with Some _ => true | None => false end in
             let m := if restricted then restrict (cfg_req (c_cfg c)) (Z.to_nat (cfg_depth (c_cfg c))) full else full in
             let lenient := lenient_reads && negb final && match cfg_req (c_cfg c) with Some _ => true | None => false end in
             view_ok strict (c_cfg c) full m restricted lenient (c_probes c) o)
          (index_from 0%nat obs).

(* the squashed on-disk tree: same regular files with the same content as the final view
   (claimed for images without links: the unpacker resolves those on the real file system) *)
Definition no_links (im : image) : bool :=
  forallb (forallb (fun e => match e_kind e with KSym | KHard => false | _ => true end)) (im_layers im).

Definition final_regular_files (c : icase) : list (str * str) :=
  let n := length (init_slots (c_img c)) in
  let cfg0 := {| cfg_max_bytes := cfg_max_bytes (c_cfg c); cfg_depth := cfg_depth (c_cfg c); cfg_req := None |} in
  let m := view_spec cfg0 (c_img c) (n - 1) in
  isort (fun a b => str_cmp (fst a) (fst b))
        (flat_map (fun kv : list seg * sentry =>
                     match se_kind (snd kv) with SKReg => [(join_slash (fst kv), se_content (snd kv))] | _ => [] end) m).

Definition unpack_ok (c : icase) : bool :=
  match c_unpack c with
  | None => true
  | Some files =>
      if no_links (c_img c)
      then list_eqb (fun a b => str_eqb (fst a) (fst b) && str_eqb (snd a) (snd b)) (final_regular_files c) files
      else true
  end.

Definition in_domain (c : icase) : bool := D_weak (c_cfg c) (c_img c).
Definition in_strict_domain (c : icase) : bool := D (c_cfg c) (c_img c).

(* the oracle: claimed on D_weak (directory permission bits only on D) *)
Definition case_spec_ok (c : icase) : bool :=
  if negb (in_domain c) || order_sensitive c then true
  else match c_obs c with
       | None => false                       (* a well-formed image must load *)
       | Some obs => views_ok (in_strict_domain c) true c obs && (if in_strict_domain c then unpack_ok c else true)
       end.

(* the same judgement without the domain filter: used to replay known findings (must be false) *)
Definition case_spec_ok_unrestricted (c : icase) : bool :=
  match c_obs c with
  | None => false
  | Some obs => views_ok true false c obs && unpack_ok c
  end.

Fixpoint bad_indices {A} (ok : A -> bool) (l : list A) (i : nat) : list nat :=
  match l with
  | [] => []
  | x :: r => if ok x then bad_indices ok r (S i) else i :: bad_indices ok r (S i)
  end.

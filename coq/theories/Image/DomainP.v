(* The PROVED domain Dp of C04 and the closed form both sides are shown equal to.
   Dp: every member is a directory, a regular file below the size limit, a plain whiteout or a symbolic
   link whose target stays inside the root (an entry like a file: links are not followed here), given by
   an already clean relative name; per layer: different paths, every parent directory has its own
   entry earlier in the layer, nothing below a whiteout target or file of the same layer; across
   layers: a path that a layer deletes or turns into a file while older layers have something
   beneath it is not made a directory again by a newer layer.
   The per-entry conditions are stated as computed checks on what the implementation model
   (Fill.entry_vpath, clean_str, path_segs) and the spec (Overlay.classify) make of the entry.
   Definitions only. *)
From Coq Require Import List NArith ZArith Bool.
From Scalibr Require Import Lib.SortSearch Image.PathTree Image.Fill Image.Overlay Image.ImageCases Image.ViewEq.
Import ListNotations.
Open Scope Z_scope.

(* ------------------------------------------------------------------ what the implementation makes of an entry *)
Definition e_plan (e : entry) : cpath * bool := entry_vpath e (clean_str (e_name e)).
Definition e_vsegs (e : entry) : list seg := snd (fst (e_plan e)).
Definition e_whf (e : entry) : bool := snd (e_plan e).
Definition e_vp (e : entry) : str := slash :: render (fst (e_plan e)).
(* a non-directory member: regular file, whiteout marker or symbolic link (hides what is beneath its path) *)
Definition is_reg (e : entry) : bool := match e_kind e with KReg | KSym => true | _ => false end.
Definition is_link (e : entry) : bool := match e_kind e with KSym => true | _ => false end.
Definition e_tgt (e : entry) : str :=
  if is_abs (e_target e) then render_abs (clean_segs true (split_slash (e_target e)))
  else render_abs (clean_segs true (init_segs (e_vsegs e) ++ split_slash (e_target e))).
Definition is_dirk (e : entry) : bool := match e_kind e with KDir => true | _ => false end.

(* the node handleDir / handleFile create for layer i *)
Definition e_node (i : nat) (e : entry) : fnode :=
  match e_kind e with
  | KDir => {| fn_origin := i; fn_vpath := e_vp e; fn_target := []; fn_wh := e_whf e;
               fn_mode := Z.lor (header_file_mode (e_mode e)) mode_dir; fn_size := 0 |}
  | KSym => {| fn_origin := i; fn_vpath := e_vp e; fn_target := e_tgt e; fn_wh := e_whf e;
               fn_mode := Z.lor (e_mode e) mode_symlink; fn_size := 0 |}
  | _ => {| fn_origin := i; fn_vpath := e_vp e; fn_target := []; fn_wh := e_whf e;
            fn_mode := header_file_mode (e_mode e); fn_size := Z.of_nat (length (e_content e)) |}
  end.

Definition opt_segs_eqb (a b : option (list seg)) : bool :=
  match a, b with Some x, Some y => segs_eqb x y | None, None => true | _, _ => false end.

(* the spec's member for the entry, and its agreement with the node *)
Definition spec_member_ok (maxb : Z) (e : entry) : bool :=
  match classify maxb 0 e with
  | Some (MWhiteout p) => e_whf e && segs_eqb p (e_vsegs e)
  | Some (MEntry p s) =>
      negb (e_whf e) && segs_eqb p (e_vsegs e) &&
      opt_vent_eqb (vent_of_node (e_node 0 e)) (Some (vent_of_sentry p s)) &&
      match se_kind s, e_kind e with SKDir, KDir | SKReg, KReg | SKSym, KSym => true | _, _ => false end
  | _ => false
  end.

Definition entry_ok (cfg : config) (e : entry) : bool :=
  let cp := clean_str (e_name e) in
  negb (fst cp) &&
  negb (match snd cp with s :: _ :: _ => str_eqb s s_dotdot | _ => false end) &&
  negb (str_eqb (base_of cp) s_dot || str_eqb (base_of cp) s_dotdot) &&
  negb (fst (fst (e_plan e))) &&
  match e_vsegs e with [] => false | _ => forallb seg_ok (e_vsegs e) end &&
  opt_segs_eqb (path_segs (e_vp e)) (Some (e_vsegs e)) &&
  forallb (fun q => opt_segs_eqb (path_segs (render_abs q)) (Some q)) (parent_prefixes (e_vsegs e)) &&
  match e_kind e with
  | KDir => negb (e_whf e)
  | KReg => Z.of_nat (length (e_content e)) <? cfg_max_bytes cfg
  | KSym => negb (e_whf e) && negb (str_eqb (e_target e) []) && negb (target_outside_root (e_vsegs e) (e_target e))
  | _ => false
  end &&
  spec_member_ok (cfg_max_bytes cfg) e &&
  Bool.eqb (fn_is_dir (e_node 0 e)) (is_dirk e).

(* ------------------------------------------------------------------ per layer *)
Definition path_in (es : list entry) (p : list seg) : bool := existsb (fun e => segs_eqb (e_vsegs e) p) es.

(* members in tar order: new path, explicit parents before, not below a whiteout target / file of the layer *)
Fixpoint layer_okp (seen : list entry) (es : list entry) : bool :=
  match es with
  | [] => true
  | e :: r =>
      negb (path_in seen (e_vsegs e)) &&
      forallb (fun q => existsb (fun d => is_dirk d && segs_eqb (e_vsegs d) q) seen) (parent_prefixes (e_vsegs e)) &&
      negb (existsb (fun d => is_reg d && strictly_below (e_vsegs d) (e_vsegs e)) (seen ++ r)) &&
      layer_okp (seen ++ [e]) r
  end.

(* ------------------------------------------------------------------ across layers *)
Definition slot := (nat * option (list entry))%type.
Definition slot_es (s : slot) : list entry := match snd s with Some es => es | None => [] end.

(* ds: slots newest first.  For a destructive member d of slot s' with something beneath its path in
   an older slot: no newer slot has a directory member at that path. *)
Fixpoint cross_okp (newer : list slot) (ds : list slot) : bool :=
  match ds with
  | [] => true
  | s' :: older =>
      forallb (fun d =>
                 negb (is_reg d &&
                       existsb (fun s => existsb (fun e => strictly_below (e_vsegs d) (e_vsegs e)) (slot_es s)) older &&
                       existsb (fun s'' => existsb (fun x => is_dirk x && segs_eqb (e_vsegs x) (e_vsegs d)) (slot_es s'')) newer))
              (slot_es s') &&
      cross_okp (newer ++ [s']) older
  end.

Definition all_slots (im : image) : list slot := index_from 0%nat (init_slots im).

Definition Dp (cfg : config) (im : image) : bool :=
  config_valid cfg &&
  forallb (fun s => forallb (entry_ok cfg) (slot_es s) && layer_okp [] (slot_es s)) (all_slots im) &&
  cross_okp [] (rev (all_slots im)).

(* for the last view (the final pruning removes the whiteout nodes with pathtree.Remove, which also drops
   a nested directory that loses its last child): the nested parent of every whiteout target keeps an
   entry in the final overlay *)
Definition prune_safe_p (cfg : config) (im : image) : bool :=
  let fin := view_spec cfg im (length (init_slots im) - 1) in
  forallb (fun s => forallb (fun e => negb (e_whf e) ||
                                      match e_vsegs e with
                                      | _ :: _ :: _ :: _ => match s_children fin (removelast (e_vsegs e)) with [] => false | _ => true end
                                      | _ => true
                                      end) (slot_es s)) (all_slots im).

(* the theorems about the final pruning are proved for images without links *)
Definition no_links_p (im : image) : bool := forallb (fun s => forallb (fun e => negb (is_link e)) (slot_es s)) (all_slots im).

(* ------------------------------------------------------------------ the closed form *)
Inductive sres3 := RFound (j : nat) (e : entry) | RHidden | RNone.

Definition find_mem (es : list entry) (p : list seg) : option entry := find (fun e => segs_eqb (e_vsegs e) p) es.
Definition hides (es : list entry) (p : list seg) : bool :=
  existsb (fun d => is_reg d && strictly_below (e_vsegs d) p) es.

(* ds newest first: the newest member at p, unless a newer layer deleted or replaced a directory above p *)
Fixpoint scan (ds : list slot) (p : list seg) : sres3 :=
  match ds with
  | [] => RNone
  | s :: r => match find_mem (slot_es s) p with
              | Some e => RFound (fst s) e
              | None => if hides (slot_es s) p then RHidden else scan r p
              end
  end.

Definition slots_upto (im : image) (i : nat) : list slot := rev (firstn (S i) (all_slots im)).

(* "the newest unhidden member among layers <= i", as a view entry *)
Definition newest_lookup (im : image) (i : nat) (p : list seg) : option vent :=
  match scan (slots_upto im i) p with
  | RFound j e => vent_of_node (e_node j e)
  | _ => None
  end.

(* C04 on the proved domain Dp (DomainP.v): the implementation's views and the OCI overlay both equal
   the closed form "newest member at p among layers <= i unless a newer layer deleted or replaced a
   directory above p" (DomainP.scan). *)
From Coq Require Import List NArith ZArith Bool Lia PeanoNat.
From Scalibr Require Import Lib.SortSearch Image.PathTree Image.PathTreeProofs Image.Fill Image.Overlay
  Image.ImageCases Image.ViewEq Image.FillProofs Image.FoldProofs Image.DomainP.
Import ListNotations.

Lemma opt_segs_eqb_some a b : opt_segs_eqb a (Some b) = true -> a = Some b.
Proof. destruct a as [x|]; simpl; [|discriminate]. intro H. apply segs_eqb_eq in H. congruence. Qed.

(* ------------------------------------------------------------------ (a) one entry *)
Lemma process_entry_ok cfg i st e st' :
  entry_ok cfg e = true ->
  get (nth i (st_chains st) empty_trie) (e_vp e) = None ->
  process_entry cfg i st e = Next st' ->
  st_chains st' = fill_from i (e_vsegs e) (e_node i e) (populate_dirs i (e_vsegs e) (st_chains st)).
Proof.
  unfold entry_ok, e_node, e_tgt, e_vp, e_vsegs, e_whf, e_plan, process_entry.
  destruct (clean_str (e_name e)) as [ab sg] eqn:C.
  destruct (entry_vpath e (ab, sg)) as [[vab vsegs] wh] eqn:EV.
  cbn [fst snd].
  intros OK G.
  repeat (apply andb_true_iff in OK; destruct OK as [OK ?]).
  apply negb_true_iff in OK. subst ab.
  match goal with H : negb (match sg with _ => _ end) = true |- _ => apply negb_true_iff in H; rewrite H end.
  match goal with H : negb (_ || _) = true |- _ => apply negb_true_iff in H; rewrite H end.
  cbn [negb andb].
  rewrite G.
  destruct (e_kind e) eqn:K; try discriminate.
  - destruct (match disk_get (st_disk st) (i, sg) with Some _ => _ | None => _ end); [|discriminate].
    intro E. inversion E. reflexivity.
  - destruct (write_file i sg (take_z (cfg_max_bytes cfg) (e_content e)) (st_disk st)); [|discriminate].
    match goal with H : (_ <? _)%Z = true |- _ => apply Z.ltb_lt in H end.
    destruct (Z.of_nat (length (e_content e)) >=? cfg_max_bytes cfg)%Z eqn:GE; [apply Z.geb_le in GE; lia|].
    intro E. inversion E. reflexivity.
  - match goal with H : _ && _ && _ = true |- _ =>
      apply andb_true_iff in H as [H HT]; apply andb_true_iff in H as [_ HN]; apply negb_true_iff in HT; apply negb_true_iff in HN end.
    destruct (e_target e) as [|c0 tl] eqn:T; [simpl in HN; discriminate|].
    rewrite HT. intro E. inversion E. reflexivity.
Qed.

(* ------------------------------------------------------------------ prefixes *)
Lemma is_prefix_app a b : is_prefix a b = true <-> exists c, b = a ++ c.
Proof.
  revert b; induction a as [|x a IH]; intro b; simpl.
  - split; [intros _; exists b; reflexivity|reflexivity].
  - destruct b as [|y b]; [split; [discriminate|intros [c H]; discriminate]|].
    rewrite andb_true_iff, str_eqb_eq, IH. split.
    + intros [E [c H]]. subst. exists c. reflexivity.
    + intros [c H]. inversion H; subst. split; [reflexivity|exists c; reflexivity].
Qed.

Lemma strictly_below_app a b : strictly_below a b = true <-> exists c, c <> [] /\ b = a ++ c.
Proof.
  unfold strictly_below. rewrite andb_true_iff, negb_true_iff, is_prefix_app. split.
  - intros [[c H] N]. exists c. split; [|exact H]. intro E. subst. rewrite app_nil_r in N.
    assert (segs_eqb a a = true) by (apply segs_eqb_eq; reflexivity). congruence.
  - intros (c & NE & H). split; [exists c; exact H|].
    destruct (segs_eqb a b) eqn:E; [|reflexivity]. apply segs_eqb_eq in E. subst a.
    rewrite <- (app_nil_r b) in H at 1. apply app_inv_head in H. congruence.
Qed.

Lemma strictly_below_trans a b c : strictly_below a b = true -> strictly_below b c = true -> strictly_below a c = true.
Proof.
  rewrite !strictly_below_app. intros (x & Nx & Hx) (y & Ny & Hy). exists (x ++ y). split.
  - destruct x; [congruence|discriminate].
  - subst. rewrite app_assoc. reflexivity.
Qed.

Lemma strictly_below_irrefl a : strictly_below a a = false.
Proof. unfold strictly_below. assert (segs_eqb a a = true) by (apply segs_eqb_eq; reflexivity). rewrite H. apply andb_false_r. Qed.

Lemma in_prefixes_from pre sg a :
  In a (prefixes_from pre sg) <-> exists b c, b <> [] /\ c <> [] /\ sg = b ++ c /\ a = pre ++ b.
Proof.
  revert pre; induction sg as [|s r IH]; intro pre.
  - simpl. split; [tauto|]. intros (b & c & Nb & Nc & E & _). destruct b; [congruence|discriminate].
  - destruct r as [|s2 r].
    + simpl. split; [tauto|]. intros (b & c & Nb & Nc & E & _).
      destruct b as [|x b]; [congruence|]. destruct b; [|destruct b; discriminate].
      simpl in E. inversion E. subst. congruence.
    + change (prefixes_from pre (s :: s2 :: r)) with ((pre ++ [s]) :: prefixes_from (pre ++ [s]) (s2 :: r)).
      cbn [In]. rewrite IH. split.
      * intros [E|(b & c & Nb & Nc & E & Ea)].
        -- exists [s], (s2 :: r). subst. repeat split; try discriminate; reflexivity.
        -- exists (s :: b), c. rewrite E. subst a. rewrite <- app_assoc. repeat split; try discriminate; auto.
      * intros (b & c & Nb & Nc & E & Ea). destruct b as [|x b]; [congruence|].
        simpl in E. inversion E; subst x. destruct b as [|y b].
        -- left. subst a. reflexivity.
        -- right. exists (y :: b), c. subst a. rewrite <- app_assoc. repeat split; try discriminate; auto.
Qed.

Lemma in_parent_prefixes a p : In a (parent_prefixes p) <-> a <> [] /\ strictly_below a p = true.
Proof.
  unfold parent_prefixes. rewrite in_prefixes_from, strictly_below_app. simpl. split.
  - intros (b & c & Nb & Nc & E & Ea). subst a. split; [exact Nb|exists c; auto].
  - intros [Na (c & Nc & E)]. exists a, c. auto.
Qed.

Lemma in_ancestors a p : In a (ancestors p) <-> a = [] \/ (a <> [] /\ strictly_below a p = true).
Proof.
  unfold ancestors. rewrite <- in_rev. simpl. rewrite in_parent_prefixes. split; intros [H|H]; auto.
Qed.

(* ------------------------------------------------------------------ facts about an admitted entry *)
Record efacts (e : entry) : Prop := {
  ef_path : path_segs (e_vp e) = Some (e_vsegs e);
  ef_ne : e_vsegs e <> [];
  ef_par : forall q, In q (parent_prefixes (e_vsegs e)) -> path_segs (render_abs q) = Some q;
  ef_kind : (is_dirk e = true /\ is_reg e = false /\ e_whf e = false) \/ (is_reg e = true /\ is_dirk e = false);
  ef_isdir : fn_is_dir (e_node 0 e) = is_dirk e }.

Lemma entry_ok_facts cfg e : entry_ok cfg e = true -> efacts e.
Proof.
  unfold entry_ok. intro OK.
  repeat (apply andb_true_iff in OK; destruct OK as [OK ?]).
  constructor.
  - apply opt_segs_eqb_some. assumption.
  - destruct (e_vsegs e); [discriminate|discriminate].
  - intros q HI. apply opt_segs_eqb_some.
    match goal with H : forallb _ (parent_prefixes _) = true |- _ => rewrite forallb_forall in H; apply H; exact HI end.
  - unfold is_dirk, is_reg. destruct (e_kind e); try discriminate.
    + left. repeat split. match goal with H : negb (e_whf e) = true |- _ => apply negb_true_iff in H; exact H end.
    + right. split; reflexivity.
    + right. split; reflexivity.
  - apply eqb_prop. assumption.
Qed.

Lemma e_node_fields i e :
  fn_vpath (e_node i e) = e_vp e /\ fn_wh (e_node i e) = e_whf e /\ fn_is_dir (e_node i e) = fn_is_dir (e_node 0 e).
Proof. unfold e_node. destruct (e_kind e); repeat split. Qed.

(* the node hides what is below it iff the entry is a regular file entry (a file or a whiteout) *)
Lemma e_node_destructive i e : efacts e -> fn_wh (e_node i e) || negb (fn_is_dir (e_node i e)) = is_reg e.
Proof.
  intros F. destruct (e_node_fields i e) as (_ & W & D). rewrite W, D, (ef_isdir e F).
  destruct (ef_kind e F) as [(A & B & C)|(A & B)]; rewrite ?A, ?B, ?C; [reflexivity|apply orb_true_r].
Qed.

(* ------------------------------------------------------------------ fill_one on values *)
Lemma fill_one_get vs n t sg :
  path_segs (fn_vpath n) = Some sg -> sg <> [] -> get_segs sg t = None -> in_whiteout_dir t vs = false ->
  forall q, get_segs q (fill_one vs n t) = if segs_eqb q sg then Some n else get_segs q t.
Proof.
  intros P NE G W q. rewrite !get_refines, (fill_one_refines vs n t sg P NE), G, W.
  unfold insert_map. destruct (segs_eqb q sg); [reflexivity|].
  destruct (sprefix q sg); [|reflexivity].
  destruct (node_at t q) as [[x|]|]; reflexivity.
Qed.

Lemma fill_one_present vs n t sg x :
  path_segs (fn_vpath n) = Some sg -> get_segs sg t = Some x -> fill_one vs n t = t.
Proof. intros P G. unfold fill_one, get. rewrite P, G. reflexivity. Qed.

Lemma fill_one_blocked vs n t sg :
  path_segs (fn_vpath n) = Some sg -> get_segs sg t = None -> in_whiteout_dir t vs = true -> fill_one vs n t = t.
Proof. intros P G W. unfold fill_one, get. rewrite P, G, W. reflexivity. Qed.

(* ------------------------------------------------------------------ scan *)
Definition found_node (r : sres3) : option fnode := match r with RFound j e => Some (e_node j e) | _ => None end.

Lemma scan_app A B p : scan (A ++ B) p = match scan A p with RNone => scan B p | r => r end.
Proof.
  induction A as [|s A IH]; simpl; [reflexivity|].
  destruct (find_mem (slot_es s) p); [reflexivity|]. destruct (hides (slot_es s) p); [reflexivity|exact IH].
Qed.

Lemma find_mem_app es e p :
  find_mem (es ++ [e]) p = match find_mem es p with Some x => Some x | None => if segs_eqb (e_vsegs e) p then Some e else None end.
Proof.
  unfold find_mem. induction es as [|x es IH]; simpl; [reflexivity|].
  destruct (segs_eqb (e_vsegs x) p); [reflexivity|exact IH].
Qed.

Lemma find_mem_some es p e : find_mem es p = Some e -> In e es /\ e_vsegs e = p.
Proof. unfold find_mem. intro H. apply find_some in H as [H1 H2]. apply segs_eqb_eq in H2. auto. Qed.

Lemma path_in_find es p : path_in es p = false -> find_mem es p = None.
Proof.
  unfold path_in, find_mem. induction es as [|x es IH]; simpl; [reflexivity|].
  destruct (segs_eqb (e_vsegs x) p); [discriminate|exact IH].
Qed.

Lemma hides_spec es p : hides es p = true <-> exists d, In d es /\ is_reg d = true /\ strictly_below (e_vsegs d) p = true.
Proof.
  unfold hides. rewrite existsb_exists. split; intros (d & H1 & H2).
  - apply andb_true_iff in H2 as [H2 H3]. eauto.
  - exists d. split; [exact H1|]. destruct H2 as [H2 H3]. rewrite H2, H3. reflexivity.
Qed.

(* appending a member with another path does not change what is found at p *)
Lemma found_single_app j es e p : e_vsegs e <> p ->
  found_node (scan [(j, Some (es ++ [e]))] p) = found_node (scan [(j, Some es)] p).
Proof.
  intro NE. cbn [scan slot_es snd fst]. rewrite find_mem_app.
  destruct (find_mem es p); [reflexivity|].
  destruct (segs_eqb (e_vsegs e) p) eqn:E; [apply segs_eqb_eq in E; contradiction|].
  destruct (hides (es ++ [e]) p), (hides es p); reflexivity.
Qed.

Lemma found_app_last D j es e p : e_vsegs e <> p ->
  found_node (scan (D ++ [(j, Some (es ++ [e]))]) p) = found_node (scan (D ++ [(j, Some es)]) p).
Proof.
  intro NE. rewrite !scan_app. destruct (scan D p); try reflexivity. apply found_single_app. exact NE.
Qed.

Lemma scan_found dl p j d : scan dl p = RFound j d -> exists s, In s dl /\ fst s = j /\ In d (slot_es s) /\ e_vsegs d = p.
Proof.
  induction dl as [|s dl IH]; simpl; [discriminate|].
  destruct (find_mem (slot_es s) p) as [x|] eqn:F.
  - intro H. inversion H; subst. apply find_mem_some in F as [F1 F2]. exists s. auto.
  - destruct (hides (slot_es s) p); [discriminate|]. intro H. destruct (IH H) as (s0 & H1 & H2). exists s0. split; [right; exact H1|exact H2].
Qed.

Lemma scan_none_hides dl p : scan dl p = RNone -> forall s, In s dl -> hides (slot_es s) p = false.
Proof.
  induction dl as [|s dl IH]; simpl; [intros _ s []|].
  destruct (find_mem (slot_es s) p); [discriminate|]. destruct (hides (slot_es s) p) eqn:H; [discriminate|].
  intros R s0 [E|HI]; [subst; exact H|auto].
Qed.

Lemma scan_hidden dl p : scan dl p = RHidden ->
  exists A s' B, dl = A ++ s' :: B /\
    (forall s, In s A -> find_mem (slot_es s) p = None /\ hides (slot_es s) p = false) /\
    find_mem (slot_es s') p = None /\ hides (slot_es s') p = true.
Proof.
  induction dl as [|s dl IH]; simpl; [discriminate|].
  destruct (find_mem (slot_es s) p) eqn:F; [discriminate|].
  destruct (hides (slot_es s) p) eqn:H.
  - intros _. exists [], s, dl. split; [reflexivity|]. split; [intros s0 []|auto].
  - intro R. destruct (IH R) as (A & s' & B & E & HA & H1 & H2).
    exists (s :: A), s', B. split; [subst; reflexivity|]. split; [|auto].
    intros s0 [E0|HI]; [subst; auto|auto].
Qed.

Lemma scan_skip A rest p :
  (forall s, In s A -> find_mem (slot_es s) p = None /\ hides (slot_es s) p = false) -> scan (A ++ rest) p = scan rest p.
Proof.
  induction A as [|s A IH]; intro H; simpl; [reflexivity|].
  destruct (H s (or_introl eq_refl)) as [H1 H2]. rewrite H1, H2. apply IH. intros s0 HI. apply H. right. exact HI.
Qed.

(* ------------------------------------------------------------------ (b) the invariant of one view *)
(* dl: the slots that reached this view so far, newest first; the last one may be partly processed *)
Definition inv (t : ftrie) (dl : list slot) : Prop :=
  (exists r, get_segs [] t = Some r /\ fn_wh r = false /\ fn_is_dir r = true) /\
  forall p, p <> [] -> get_segs p t = found_node (scan dl p).

Definition uniq (es : list entry) : Prop := forall d, In d es -> find_mem es (e_vsegs d) = Some d.

Lemma step_inv cfg j D est e t :
  inv t (D ++ [(j, Some est)]) ->
  (forall s d, In s (D ++ [(j, Some (est ++ [e]))]) -> In d (slot_es s) -> entry_ok cfg d = true) ->
  (forall s, In s D -> uniq (slot_es s)) ->
  path_in est (e_vsegs e) = false ->
  (forall d, In d est -> is_reg d = true -> strictly_below (e_vsegs d) (e_vsegs e) = false) ->
  (forall A s' B, D = A ++ s' :: B -> forall d, In d (slot_es s') -> is_reg d = true ->
      strictly_below (e_vsegs d) (e_vsegs e) = true ->
      forall s'' x, In s'' A -> In x (slot_es s'') -> is_dirk x = true -> e_vsegs x <> e_vsegs d) ->
  inv (fill_one (e_vsegs e) (e_node j e) t) (D ++ [(j, Some (est ++ [e]))]).
Proof.
  intros [ROOT INV] OK UQ NEW SAME CROSS.
  assert (Fe : efacts e).
  { eapply entry_ok_facts. eapply (OK (j, Some (est ++ [e]))); [apply in_or_app; right; left; reflexivity|].
    simpl. apply in_or_app. right. left. reflexivity. }
  assert (OKD : forall s d, In s D -> In d (slot_es s) -> efacts d).
  { intros s d Hs Hd. eapply entry_ok_facts. eapply OK; [apply in_or_app; left; exact Hs|exact Hd]. }
  assert (OKT : forall d, In d est -> efacts d).
  { intros d Hd. eapply entry_ok_facts. eapply (OK (j, Some (est ++ [e]))); [apply in_or_app; right; left; reflexivity|].
    simpl. apply in_or_app. left. exact Hd. }
  set (pe := e_vsegs e) in *.
  assert (NEpe : pe <> []) by apply (ef_ne e Fe).
  assert (Pvp : path_segs (fn_vpath (e_node j e)) = Some pe).
  { destruct (e_node_fields j e) as (V & _ & _). rewrite V. apply (ef_path e Fe). }
  assert (FM : find_mem est pe = None) by (apply path_in_find; exact NEW).
  (* what the view has at pe before the step *)
  assert (GET : get_segs pe t = found_node (scan D pe)).
  { rewrite (INV pe NEpe), scan_app. destruct (scan D pe); try reflexivity.
    cbn [scan slot_es snd fst]. rewrite FM. destruct (hides est pe); reflexivity. }
  (* other paths keep their description *)
  assert (OTHER : forall t', (forall q, q <> pe -> get_segs q t' = get_segs q t) ->
            (exists r, get_segs [] t' = Some r /\ fn_wh r = false /\ fn_is_dir r = true) /\
            forall p, p <> [] -> p <> pe -> get_segs p t' = found_node (scan (D ++ [(j, Some (est ++ [e]))]) p)).
  { intros t' H. split.
    - rewrite H by congruence. exact ROOT.
    - intros p Np Npe. rewrite (H p Npe), (INV p Np). symmetry. apply found_app_last. intro X. apply Npe. unfold pe. symmetry. exact X. }
  destruct (scan D pe) as [j' d| |] eqn:R.
  - (* a newer layer already has pe *)
    simpl in GET. rewrite (fill_one_present _ _ _ _ _ Pvp GET).
    destruct (OTHER t (fun _ _ => eq_refl)) as [RT OT]. split; [exact RT|].
    intros p Np. destruct (list_eq_dec (list_eq_dec N.eq_dec) p pe) as [E|NEp]; [|auto].
    subst p. rewrite GET, scan_app, R. reflexivity.
  - (* a newer layer deleted or replaced a directory above pe *)
    simpl in GET.
    assert (W : in_whiteout_dir t pe = true).
    { apply scan_hidden in R as (A & s' & B & ED & HA & F' & H').
      apply hides_spec in H' as (d & Hd & Rd & Bd).
      assert (Fd : efacts d) by (eapply (OKD s'); [subst D; apply in_or_app; right; left; reflexivity|exact Hd]).
      set (a := e_vsegs d) in *.
      assert (SA : scan D a = RFound (fst s') d).
      { subst D. rewrite scan_skip.
        - cbn [scan]. unfold a. rewrite (UQ s' ltac:(apply in_or_app; right; left; reflexivity) d Hd). reflexivity.
        - intros s Hs. destruct (HA s Hs) as [F0 H0]. split.
          + destruct (find_mem (slot_es s) a) as [x|] eqn:Fx; [|reflexivity]. exfalso.
            apply find_mem_some in Fx as [Hx Ex].
            assert (Fx : efacts x) by (eapply (OKD s); [apply in_or_app; left; exact Hs|exact Hx]).
            destruct (ef_kind x Fx) as [(Dx & _ & _)|(Rx & _)].
            * eapply (CROSS A s' B eq_refl d Hd Rd Bd s x Hs Hx Dx). exact Ex.
            * assert (hides (slot_es s) pe = true) by (apply hides_spec; exists x; rewrite Ex; auto). congruence.
          + destruct (hides (slot_es s) a) eqn:Hh; [|reflexivity]. exfalso.
            apply hides_spec in Hh as (y & Hy & Ry & By).
            assert (hides (slot_es s) pe = true)
              by (apply hides_spec; exists y; split; [exact Hy|split; [exact Ry|eapply strictly_below_trans; eauto]]).
            congruence. }
      unfold in_whiteout_dir. apply in_whiteout_go_spec.
      exists a, (e_node (fst s') d). split.
      - apply in_ancestors. right. split; [apply (ef_ne d Fd)|exact Bd].
      - split.
        + rewrite (INV a (ef_ne d Fd)), scan_app, SA. reflexivity.
        + pose proof (e_node_destructive (fst s') d Fd) as X. rewrite Rd in X.
          apply orb_true_iff in X as [X|X]; [left; exact X|right; apply negb_true_iff in X; exact X]. }
    rewrite (fill_one_blocked _ _ _ _ Pvp GET W).
    destruct (OTHER t (fun _ _ => eq_refl)) as [RT OT]. split; [exact RT|].
    intros p Np. destruct (list_eq_dec (list_eq_dec N.eq_dec) p pe) as [E|NEp]; [|auto].
    subst p. rewrite GET, scan_app, R. reflexivity.
  - (* nothing newer at or above pe: the member is inserted *)
    simpl in GET.
    assert (W : in_whiteout_dir t pe = false).
    { destruct (in_whiteout_dir t pe) eqn:W; [|reflexivity]. exfalso.
      unfold in_whiteout_dir in W. apply in_whiteout_go_spec in W as (a & n & Ha & Ga & Dn).
      apply in_ancestors in Ha as [Ha|[Na Ba]].
      - subst a. destruct ROOT as (r & Gr & Wr & Dr). rewrite Gr in Ga. inversion Ga; subst n.
        destruct Dn; congruence.
      - rewrite (INV a Na) in Ga. destruct (scan (D ++ [(j, Some est)]) a) as [j' d| |] eqn:Sa; try discriminate.
        simpl in Ga. inversion Ga; subst n. clear Ga.
        apply scan_found in Sa as (s & Hs & Ej & Hd & Ed).
        apply in_app_or in Hs as [Hs|[Hs|[]]].
        + assert (Fd : efacts d) by (eapply OKD; eauto).
          assert (Rd : is_reg d = true).
          { pose proof (e_node_destructive j' d Fd) as X. destruct Dn as [Dn|Dn]; rewrite Dn in X; simpl in X; [auto|].
            rewrite orb_true_r in X. auto. }
          pose proof (scan_none_hides D pe R s Hs) as Hh.
          assert (hides (slot_es s) pe = true) by (apply hides_spec; exists d; rewrite Ed; auto). congruence.
        + subst s. simpl in Hd.
          assert (Fd : efacts d) by (apply OKT; exact Hd).
          assert (Rd : is_reg d = true).
          { pose proof (e_node_destructive j' d Fd) as X. destruct Dn as [Dn|Dn]; rewrite Dn in X; simpl in X; [auto|].
            rewrite orb_true_r in X. auto. }
          pose proof (SAME d Hd Rd) as X. rewrite Ed in X. congruence. }
    pose proof (fill_one_get _ _ _ _ Pvp NEpe GET W) as FG.
    destruct (OTHER (fill_one pe (e_node j e) t)) as [RT OT].
    { intros q Nq. rewrite FG. destruct (segs_eqb q pe) eqn:E; [apply segs_eqb_eq in E; contradiction|reflexivity]. }
    split; [exact RT|].
    intros p Np. destruct (list_eq_dec (list_eq_dec N.eq_dec) p pe) as [E|NEp]; [|auto].
    subst p. rewrite FG. assert (X : segs_eqb pe pe = true) by (apply segs_eqb_eq; reflexivity). rewrite X.
    rewrite scan_app, R. cbn [scan slot_es snd fst]. rewrite find_mem_app, FM. fold pe. rewrite X. reflexivity.
Qed.

(* ------------------------------------------------------------------ facts derived from the boolean domain *)
Lemma uniq_of_layer_okp : forall es seen, layer_okp seen es = true ->
  (forall d, In d es -> path_in seen (e_vsegs d) = false) /\ uniq es.
Proof.
  induction es as [|e r IH]; intros seen H; simpl in H.
  - split; [intros d []|intros d []].
  - repeat (apply andb_true_iff in H; destruct H as [H ?]).
    apply negb_true_iff in H.
    destruct (IH _ H0) as [N U]. split.
    + intros d [E|HI]; [subst; exact H|].
      specialize (N d HI). unfold path_in in *. rewrite existsb_app in N. apply orb_false_iff in N. tauto.
    + intros d [E|HI]; unfold find_mem; simpl.
      * subst. assert (X : segs_eqb (e_vsegs d) (e_vsegs d) = true) by (apply segs_eqb_eq; reflexivity). rewrite X. reflexivity.
      * destruct (segs_eqb (e_vsegs e) (e_vsegs d)) eqn:E.
        -- exfalso. specialize (N d HI). unfold path_in in N. rewrite existsb_app in N. apply orb_false_iff in N as [_ N].
           simpl in N. rewrite E in N. discriminate.
        -- apply U. exact HI.
Qed.

Lemma layer_okp_split : forall est seen e r, layer_okp seen (est ++ e :: r) = true ->
  path_in (seen ++ est) (e_vsegs e) = false /\
  (forall q, In q (parent_prefixes (e_vsegs e)) -> exists d, In d (seen ++ est) /\ is_dirk d = true /\ e_vsegs d = q) /\
  (forall d, In d (seen ++ est) -> is_reg d = true -> strictly_below (e_vsegs d) (e_vsegs e) = false).
Proof.
  induction est as [|x est IH]; intros seen e r H.
  - simpl in H. repeat (apply andb_true_iff in H; destruct H as [H ?]).
    rewrite app_nil_r. apply negb_true_iff in H. split; [exact H|]. split.
    + intros q HI. rewrite forallb_forall in H2. specialize (H2 q HI). apply existsb_exists in H2 as (d & Hd & Hx).
      apply andb_true_iff in Hx as [Hx1 Hx2]. apply segs_eqb_eq in Hx2. exists d. auto.
    + intros d Hd Rd. apply negb_true_iff in H1.
      destruct (strictly_below (e_vsegs d) (e_vsegs e)) eqn:B; [|reflexivity]. exfalso.
      rewrite <- not_true_iff_false in H1. apply H1. apply existsb_exists. exists d. split; [apply in_or_app; left; exact Hd|].
      rewrite Rd, B. reflexivity.
  - simpl in H. repeat (apply andb_true_iff in H; destruct H as [H ?]).
    specialize (IH (seen ++ [x]) e r H0). rewrite <- !app_assoc in IH. exact IH.
Qed.

Definition dlk (k : nat) (done : list slot) : list slot := filter (fun s => Nat.leb (fst s) k) done.

Lemma filter_decomp {T} (f : T -> bool) l : forall A' x B', filter f l = A' ++ x :: B' ->
  exists A0 B0, l = A0 ++ x :: B0 /\ A' = filter f A0 /\ B' = filter f B0.
Proof.
  induction l as [|y l IH]; intros A' x B' H; simpl in H.
  - destruct A'; discriminate.
  - destruct (f y) eqn:F.
    + destruct A' as [|a A'']; simpl in H; injection H as E1 E2.
      * exists [], l. subst y B'. auto.
      * destruct (IH _ _ _ E2) as (A0 & B0 & E & EA & EB).
        exists (y :: A0), B0. simpl. rewrite F. subst a l A'' B'. auto.
    + destruct (IH _ _ _ H) as (A0 & B0 & E & EA & EB). exists (y :: A0), B0. simpl. rewrite F. subst l A' B'. auto.
Qed.

(* the cross-layer condition as a proposition over the whole newest-first slot list *)
Definition XP (ds : list slot) : Prop :=
  forall A s' B, ds = A ++ s' :: B -> forall d, In d (slot_es s') -> is_reg d = true ->
    (exists s e, In s B /\ In e (slot_es s) /\ strictly_below (e_vsegs d) (e_vsegs e) = true) ->
    forall s'' x, In s'' A -> In x (slot_es s'') -> is_dirk x = true -> e_vsegs x <> e_vsegs d.

Lemma cross_okp_XP : forall ds newer, cross_okp newer ds = true ->
  forall A s' B, ds = A ++ s' :: B -> forall d, In d (slot_es s') -> is_reg d = true ->
    (exists s e, In s B /\ In e (slot_es s) /\ strictly_below (e_vsegs d) (e_vsegs e) = true) ->
    forall s'' x, In s'' (newer ++ A) -> In x (slot_es s'') -> is_dirk x = true -> e_vsegs x <> e_vsegs d.
Proof.
  induction ds as [|s0 ds IH]; intros newer H A s' B E; [destruct A; discriminate|].
  simpl in H. apply andb_true_iff in H as [H1 H2].
  destruct A as [|a A]; simpl in E; inversion E; subst.
  - intros d Hd Rd (s & e & Hs & He & Be) s'' x Hs'' Hx Dx Ex.
    rewrite app_nil_r in Hs''.
    rewrite forallb_forall in H1. specialize (H1 d Hd). apply negb_true_iff in H1.
    rewrite <- not_true_iff_false in H1. apply H1. rewrite Rd. simpl. apply andb_true_iff. split.
    + apply existsb_exists. exists s. split; [exact Hs|]. apply existsb_exists. exists e. auto.
    + apply existsb_exists. exists s''. split; [exact Hs''|]. apply existsb_exists. exists x. split; [exact Hx|].
      rewrite Dx. simpl. apply segs_eqb_eq. exact Ex.
  - intros d Hd Rd HB s'' x Hs''. eapply (IH (newer ++ [a]) H2 A s' B eq_refl d Hd Rd HB).
    rewrite <- app_assoc. exact Hs''.
Qed.

Record gfacts (cfg : config) (ds : list slot) : Prop := {
  g_ok : forall s d, In s ds -> In d (slot_es s) -> entry_ok cfg d = true;
  g_layer : forall s, In s ds -> layer_okp [] (slot_es s) = true;
  g_cross : XP ds }.

Lemma find_mem_app2 a b p : find_mem (a ++ b) p = match find_mem a p with Some x => Some x | None => find_mem b p end.
Proof.
  unfold find_mem. induction a as [|x a IH]; simpl; [reflexivity|].
  destruct (segs_eqb (e_vsegs x) p); [reflexivity|exact IH].
Qed.

Lemma find_mem_in es d : In d es -> find_mem es (e_vsegs d) <> None.
Proof.
  unfold find_mem. induction es as [|x es IH]; [intros []|]. intros [E|HI]; simpl.
  - subst. assert (X : segs_eqb (e_vsegs d) (e_vsegs d) = true) by (apply segs_eqb_eq; reflexivity). rewrite X. discriminate.
  - destruct (segs_eqb (e_vsegs x) (e_vsegs d)); [discriminate|auto].
Qed.

Lemma populate_go_id i ps cs :
  (forall q, In q ps -> get (nth i cs empty_trie) (render_abs q) <> None) -> populate_go i ps cs = cs.
Proof.
  induction ps as [|q r IH]; intro H; simpl; [reflexivity|].
  match goal with |- match ?x with _ => _ end = _ => destruct x eqn:G end.
  - apply IH. intros q' HI. apply H. right. exact HI.
  - exfalso. apply (H q (or_introl eq_refl)). exact G.
Qed.

Lemma scan_app_empty dl j p : found_node (scan (dl ++ [(j, Some [])]) p) = found_node (scan dl p).
Proof. rewrite scan_app. destruct (scan dl p); reflexivity. Qed.

Definition cur_part (j k : nat) (est : list entry) : list slot := if Nat.leb j k then [(j, Some est)] else [].

(* the state invariant while slot j is being processed: `done` newest first, all newer than j *)
Definition st_inv (n j : nat) (done : list slot) (est : list entry) (cs : list ftrie) : Prop :=
  length cs = n /\ forall k, (k < n)%nat -> inv (nth k cs empty_trie) (dlk k done ++ cur_part j k est).

Lemma entry_step cfg n j done est e r older st st' :
  gfacts cfg (done ++ (j, Some (est ++ e :: r)) :: older) ->
  Forall (fun s => (j < fst s)%nat) done -> (j < n)%nat ->
  st_inv n j done est (st_chains st) ->
  process_entry cfg j st e = Next st' ->
  st_inv n j done (est ++ [e]) (st_chains st').
Proof.
  intros G NEWER Jn [LEN INV] PE.
  set (ds := done ++ (j, Some (est ++ e :: r)) :: older) in *.
  assert (INJ : In (j, Some (est ++ e :: r)) ds) by (apply in_or_app; right; left; reflexivity).
  assert (Fe : efacts e).
  { eapply entry_ok_facts. eapply (g_ok _ _ G _ e INJ). simpl. apply in_or_app. right. left. reflexivity. }
  pose proof (g_layer _ _ G _ INJ) as LAY. cbn [slot_es snd] in LAY.
  destruct (layer_okp_split est [] e r LAY) as (NEW & PAR & SAME). cbn [app] in NEW, PAR, SAME.
  destruct (uniq_of_layer_okp _ _ LAY) as [_ UQall].
  assert (UQest : uniq est).
  { intros d Hd. specialize (UQall d (in_or_app _ _ _ (or_introl Hd))).
    rewrite find_mem_app2 in UQall. pose proof (find_mem_in est d Hd) as X.
    destruct (find_mem est (e_vsegs d)); [exact UQall|contradiction]. }
  (* chain j: the current layer's own view *)
  assert (DJ : dlk j done = []).
  { unfold dlk. clear -NEWER. induction NEWER as [|s dn H _ IHd]; [reflexivity|]. simpl.
    destruct (Nat.leb (fst s) j) eqn:L; [apply Nat.leb_le in L; lia|exact IHd]. }
  pose proof (INV j Jn) as [ROOTj INVj]. unfold cur_part in INVj. rewrite Nat.leb_refl, DJ in INVj. cbn [app] in INVj.
  assert (Gcur : get (nth j (st_chains st) empty_trie) (e_vp e) = None).
  { unfold get. rewrite (ef_path e Fe), (INVj _ (ef_ne e Fe)). cbn [scan slot_es snd fst].
    rewrite (path_in_find _ _ NEW). destruct (hides est (e_vsegs e)); reflexivity. }
  pose proof (process_entry_ok cfg j st e st' (g_ok _ _ G _ e INJ ltac:(simpl; apply in_or_app; right; left; reflexivity)) Gcur PE) as CH.
  unfold populate_dirs in CH. rewrite populate_go_id in CH.
  2:{ intros q HI. unfold get. rewrite (ef_par e Fe q HI).
      destruct (PAR q HI) as (d & Hd & Dd & Ed). apply in_parent_prefixes in HI as [Nq _].
      intro Z. pose proof (INVj q Nq) as Y. cbn [scan slot_es snd fst] in Y. rewrite <- Ed, (UQest d Hd) in Y. simpl in Y.
      rewrite <- Ed in Z. pose proof (eq_trans (eq_sym Y) Z) as W. discriminate W. }
  split; [rewrite CH, fill_from_length; exact LEN|].
  intros k Hk. rewrite CH, fill_from_nth', LEN. unfold touched, cur_part.
  assert (Lk : Nat.ltb k n = true) by (apply Nat.ltb_lt; exact Hk). rewrite Lk, andb_true_r.
  specialize (INV k Hk). unfold cur_part in INV.
  destruct (Nat.leb j k) eqn:JK; [|exact INV].
  eapply step_inv; [exact INV| | |exact NEW|exact SAME|].
  - intros s d Hs Hd. apply in_app_or in Hs as [Hs|[Hs|[]]].
    + eapply (g_ok _ _ G s d); [|exact Hd]. apply in_or_app. left. unfold dlk in Hs. apply filter_In in Hs as [Hs _]. exact Hs.
    + subst s. simpl in Hd. eapply (g_ok _ _ G _ d INJ). simpl.
      apply in_app_or in Hd as [Hd|[Hd|[]]]; apply in_or_app; [left; exact Hd|right; left; exact Hd].
  - intros s Hs. unfold dlk in Hs. apply filter_In in Hs as [Hs _].
    apply (uniq_of_layer_okp (slot_es s) []). apply (g_layer _ _ G). apply in_or_app. left. exact Hs.
  - intros A s' B ED d Hd Rd Bd s'' x Hs'' Hx Dx.
    unfold dlk in ED. apply filter_decomp in ED as (A0 & B0 & E0 & EA & EB).
    eapply (g_cross _ _ G A0 s' (B0 ++ (j, Some (est ++ e :: r)) :: older)).
    + unfold ds. rewrite E0, <- app_assoc. reflexivity.
    + exact Hd.
    + exact Rd.
    + exists (j, Some (est ++ e :: r)), e. split; [apply in_or_app; right; left; reflexivity|].
      split; [simpl; apply in_or_app; right; left; reflexivity|exact Bd].
    + subst A. apply filter_In in Hs'' as [Hs'' _]. exact Hs''.
    + exact Hx.
    + exact Dx.
Qed.

(* under entry_ok an entry is never skipped *)
Lemma process_entry_not_skip cfg i st e :
  entry_ok cfg e = true ->
  get (nth i (st_chains st) empty_trie) (e_vp e) = None ->
  process_entry cfg i st e <> Skip.
Proof.
  unfold entry_ok, e_node, e_vp, e_vsegs, e_whf, e_plan, process_entry.
  destruct (clean_str (e_name e)) as [ab sg] eqn:C.
  destruct (entry_vpath e (ab, sg)) as [[vab vsegs] wh] eqn:EV.
  cbn [fst snd].
  intros OK G.
  repeat (apply andb_true_iff in OK; destruct OK as [OK ?]).
  apply negb_true_iff in OK. subst ab.
  match goal with H : negb (match sg with _ => _ end) = true |- _ => apply negb_true_iff in H; rewrite H end.
  match goal with H : negb (_ || _) = true |- _ => apply negb_true_iff in H; rewrite H end.
  cbn [negb andb].
  rewrite G.
  destruct (e_kind e) eqn:K; try discriminate.
  - destruct (match disk_get (st_disk st) (i, sg) with Some _ => _ | None => _ end); discriminate.
  - destruct (write_file i sg (take_z (cfg_max_bytes cfg) (e_content e)) (st_disk st)); [|discriminate].
    destruct (Z.of_nat (length (e_content e)) >=? cfg_max_bytes cfg)%Z; discriminate.
  - match goal with H : _ && _ && _ = true |- _ =>
      apply andb_true_iff in H as [H HT]; apply andb_true_iff in H as [_ HN]; apply negb_true_iff in HT; apply negb_true_iff in HN end.
    destruct (e_target e) as [|c0 tl] eqn:T; [simpl in HN; discriminate|].
    rewrite HT. discriminate.
Qed.

Lemma layer_steps cfg n j done older : forall r est st st',
  gfacts cfg (done ++ (j, Some (est ++ r)) :: older) ->
  Forall (fun s => (j < fst s)%nat) done -> (j < n)%nat ->
  st_inv n j done est (st_chains st) ->
  process_layer cfg j r st = Some st' ->
  st_inv n j done (est ++ r) (st_chains st').
Proof.
  induction r as [|e r IH]; intros est st st' G NW Jn SI PL; simpl in PL.
  - inversion PL; subst. rewrite app_nil_r. exact SI.
  - assert (Gcur : get (nth j (st_chains st) empty_trie) (e_vp e) = None /\ entry_ok cfg e = true).
    { assert (INJ : In (j, Some (est ++ e :: r)) (done ++ (j, Some (est ++ e :: r)) :: older))
        by (apply in_or_app; right; left; reflexivity).
      assert (OKe : entry_ok cfg e = true)
        by (eapply (g_ok _ _ G _ e INJ); simpl; apply in_or_app; right; left; reflexivity).
      split; [|exact OKe].
      pose proof (entry_ok_facts _ _ OKe) as Fe.
      pose proof (g_layer _ _ G _ INJ) as LAY. cbn [slot_es snd] in LAY.
      destruct (layer_okp_split est [] e r LAY) as (NEW & _ & _). cbn [app] in NEW.
      destruct SI as [LEN INV]. pose proof (INV j Jn) as [_ INVj].
      assert (DJ : dlk j done = []).
      { unfold dlk. clear -NW. induction NW as [|s dn H _ IHd]; [reflexivity|]. simpl.
        destruct (Nat.leb (fst s) j) eqn:L; [apply Nat.leb_le in L; lia|exact IHd]. }
      unfold cur_part in INVj. rewrite Nat.leb_refl, DJ in INVj. cbn [app] in INVj.
      unfold get. rewrite (ef_path e Fe).
      pose proof (INVj _ (ef_ne e Fe)) as Y. cbn [scan slot_es snd fst] in Y.
      rewrite (path_in_find _ _ NEW) in Y. destruct (hides est (e_vsegs e)); exact Y. }
    destruct Gcur as [Gcur OKe].
    destruct (process_entry cfg j st e) as [| |st1] eqn:PE.
    + exfalso. eapply process_entry_not_skip; eauto.
    + discriminate.
    + pose proof (entry_step cfg n j done est e r older st st1 G NW Jn SI PE) as SI1.
      replace (est ++ e :: r) with ((est ++ [e]) ++ r) in * by (rewrite <- app_assoc; reflexivity).
      eapply IH; eauto.
Qed.

Lemma inv_ext t dl dl' : (forall p, found_node (scan dl p) = found_node (scan dl' p)) -> inv t dl -> inv t dl'.
Proof. intros E [R I]. split; [exact R|]. intros p Np. rewrite <- E. apply I. exact Np. Qed.

Fixpoint desc (l : list slot) : Prop :=
  match l with [] => True | s :: r => Forall (fun x => (fst x < fst s)%nat) r /\ desc r end.

Lemma dlk_app k a b : dlk k (a ++ b) = dlk k a ++ dlk k b.
Proof. unfold dlk. apply filter_app. Qed.

Lemma slots_steps cfg n : forall rem done st st',
  gfacts cfg (done ++ rem) -> desc rem ->
  (forall a b, In a done -> In b rem -> (fst b < fst a)%nat) ->
  (forall s, In s rem -> (fst s < n)%nat) ->
  length (st_chains st) = n ->
  (forall k, (k < n)%nat -> inv (nth k (st_chains st) empty_trie) (dlk k done)) ->
  fill_layers cfg rem st = Some st' ->
  length (st_chains st') = n /\
  forall k, (k < n)%nat -> inv (nth k (st_chains st') empty_trie) (dlk k (done ++ rem)).
Proof.
  induction rem as [|[j [es|]] rem IH]; intros done st st' G DS SEP LT LEN INV FL; simpl in FL.
  - inversion FL; subst. rewrite app_nil_r. auto.
  - destruct (process_layer cfg j es st) as [st1|] eqn:PL; [|discriminate].
    destruct DS as [DS1 DS2].
    assert (NW : Forall (fun s => (j < fst s)%nat) done).
    { apply Forall_forall. intros s Hs. apply (SEP s (j, Some es) Hs). left. reflexivity. }
    assert (Jn : (j < n)%nat) by (apply (LT (j, Some es)); left; reflexivity).
    assert (SI0 : st_inv n j done [] (st_chains st)).
    { split; [exact LEN|]. intros k Hk. specialize (INV k Hk). unfold cur_part.
      destruct (Nat.leb j k); [|rewrite app_nil_r; exact INV].
      eapply inv_ext; [|exact INV]. intro p. symmetry. apply scan_app_empty. }
    pose proof (layer_steps cfg n j done rem es [] st st1 G NW Jn SI0 PL) as [LEN1 INV1]. cbn [app] in INV1.
    assert (G' : gfacts cfg ((done ++ [(j, Some es)]) ++ rem)) by (rewrite <- app_assoc; exact G).
    cut (length (st_chains st') = n /\ forall k, (k < n)%nat -> inv (nth k (st_chains st') empty_trie) (dlk k ((done ++ [(j, Some es)]) ++ rem))).
    { intros [L R]. split; [exact L|]. intros k Hk. specialize (R k Hk). rewrite <- app_assoc in R. exact R. }
    eapply IH; try eassumption.
    + intros a b Ha Hb. apply in_app_or in Ha as [Ha|[Ha|[]]].
      * apply SEP; [exact Ha|right; exact Hb].
      * subst a. rewrite Forall_forall in DS1. apply DS1. exact Hb.
    + intros s Hs. apply LT. right. exact Hs.
    + intros k Hk. specialize (INV1 k Hk). rewrite dlk_app. unfold cur_part in INV1.
      unfold dlk at 2. simpl. destruct (Nat.leb j k); exact INV1.
  - destruct DS as [DS1 DS2].
    assert (G' : gfacts cfg ((done ++ [(j, None)]) ++ rem)) by (rewrite <- app_assoc; exact G).
    cut (length (st_chains st') = n /\ forall k, (k < n)%nat -> inv (nth k (st_chains st') empty_trie) (dlk k ((done ++ [(j, None)]) ++ rem))).
    { intros [L R]. split; [exact L|]. intros k Hk. specialize (R k Hk). rewrite <- app_assoc in R. exact R. }
    eapply IH; try eassumption.
    + intros a b Ha Hb. apply in_app_or in Ha as [Ha|[Ha|[]]].
      * apply SEP; [exact Ha|right; exact Hb].
      * subst a. rewrite Forall_forall in DS1. apply DS1. exact Hb.
    + intros s Hs. apply LT. right. exact Hs.
    + intros k Hk. specialize (INV k Hk). rewrite dlk_app. unfold dlk at 2. simpl.
      destruct (Nat.leb j k); [|rewrite app_nil_r; exact INV].
      eapply inv_ext; [|exact INV]. intro p. rewrite scan_app. destruct (scan (dlk k done) p); reflexivity.
Qed.

(* ------------------------------------------------------------------ index bookkeeping *)
Lemma index_from_fst {A} (l : list A) : forall b x, In x (index_from b l) -> (b <= fst x < b + length l)%nat.
Proof.
  induction l as [|y l IH]; intros b x H; simpl in H; [contradiction|].
  destruct H as [E|H]; [subst; simpl; lia|]. apply IH in H. simpl. lia.
Qed.

Lemma index_from_app {A} (l : list A) : forall b y, index_from b (l ++ [y]) = index_from b l ++ [((b + length l)%nat, y)].
Proof.
  induction l as [|z l IH]; intros b y; simpl; [rewrite Nat.add_0_r; reflexivity|].
  rewrite IH. replace (b + S (length l))%nat with (S b + length l)%nat by lia. reflexivity.
Qed.

Lemma desc_rev_index (l : list (option (list entry))) : forall b, desc (rev (index_from b l)).
Proof.
  induction l as [|y l IH] using rev_ind; intro b; [exact I|].
  rewrite index_from_app, rev_app_distr. simpl. split; [|apply IH].
  apply Forall_forall. intros x Hx. apply in_rev in Hx. apply index_from_fst in Hx. simpl. lia.
Qed.

Lemma filter_rev {A} (f : A -> bool) l : filter f (rev l) = rev (filter f l).
Proof.
  induction l as [|x l IH]; simpl; [reflexivity|].
  rewrite filter_app, IH. simpl. destruct (f x); simpl; [reflexivity|rewrite app_nil_r; reflexivity].
Qed.

Lemma filter_index_from {A} (l : list A) : forall b i,
  filter (fun s => Nat.leb (fst s) i) (index_from b l) = firstn (S i - b) (index_from b l).
Proof.
  induction l as [|y l IH]; intros b i; [cbn [index_from filter]; rewrite firstn_nil; reflexivity|]. cbn [index_from filter fst].
  destruct (Nat.leb b i) eqn:L.
  - apply Nat.leb_le in L. replace (S i - b)%nat with (S (i - b)) by lia. simpl. f_equal.
    rewrite IH. replace (S i - S b)%nat with (i - b)%nat by lia. reflexivity.
  - apply Nat.leb_gt in L. replace (S i - b)%nat with 0%nat by lia. simpl.
    rewrite IH. replace (S i - S b)%nat with 0%nat by lia. reflexivity.
Qed.

Lemma dlk_all im i : dlk i (rev (all_slots im)) = slots_upto im i.
Proof.
  unfold dlk, slots_upto, all_slots. rewrite filter_rev, filter_index_from. rewrite Nat.sub_0_r. reflexivity.
Qed.

Lemma gfacts_of_Dp cfg im : Dp cfg im = true -> gfacts cfg (rev (all_slots im)).
Proof.
  unfold Dp. intro H. apply andb_true_iff in H as [H X]. apply andb_true_iff in H as [_ H].
  rewrite forallb_forall in H.
  constructor.
  - intros s d Hs Hd. apply in_rev in Hs. specialize (H s Hs). apply andb_true_iff in H as [H _].
    rewrite forallb_forall in H. apply H. exact Hd.
  - intros s Hs. apply in_rev in Hs. specialize (H s Hs). apply andb_true_iff in H as [_ H]. exact H.
  - intros A s' B E d Hd Rd HB s'' x Hs''. eapply (cross_okp_XP _ [] X A s' B E d Hd Rd HB). exact Hs''.
Qed.

Lemma root_is_dir k : fn_is_dir (root_node k) = true /\ fn_wh (root_node k) = false.
Proof. split; reflexivity. Qed.

(* (b) every view of the implementation (before the final pruning) is the newest unhidden member *)
Theorem view_lookup_newest_lemma cfg im st :
  Dp cfg im = true -> load_unpruned cfg im = Some st ->
  forall i p, (i < length (init_slots im))%nat -> p <> [] ->
    impl_lookup st i p = newest_lookup im i p.
Proof.
  intros DP LD i p Hi Np.
  unfold load_unpruned in LD. destruct (negb (config_valid cfg)); [discriminate|].
  set (n := length (init_slots im)) in *.
  pose proof (gfacts_of_Dp _ _ DP) as G.
  assert (RES : length (st_chains st) = n /\
                forall k, (k < n)%nat -> inv (nth k (st_chains st) empty_trie) (dlk k ([] ++ rev (all_slots im)))).
  { eapply (slots_steps cfg n (rev (index_from 0 (init_slots im))) [] (init_state n) st).
    - exact G.
    - apply desc_rev_index.
    - intros a b [].
    - intros s Hs. apply in_rev in Hs. apply index_from_fst in Hs. unfold n. lia.
    - unfold init_state. simpl. rewrite map_length, seq_length. reflexivity.
    - intros k Hk. unfold init_state. simpl.
      rewrite (nth_indep _ empty_trie (Node (Some (root_node 0)) [])) by (rewrite map_length, seq_length; exact Hk).
      change (Node (Some (root_node 0)) []) with ((fun i => Node (Some (root_node i)) []) 0%nat).
      rewrite map_nth, seq_nth by exact Hk. simpl. split.
      + exists (root_node k). repeat split.
      + intros q Nq. destruct q; [contradiction|reflexivity].
    - exact LD. }
  destruct RES as [_ INV]. specialize (INV i Hi) as [_ INV]. cbn [app] in INV. rewrite dlk_all in INV.
  unfold impl_lookup, newest_lookup. rewrite (INV p Np).
  destruct (scan (slots_upto im i) p); reflexivity.
Qed.

(* ------------------------------------------------------------------ (c) the spec's oldest-first fold *)
Definition set_mlayer (j : nat) (m : member) : member :=
  match m with
  | MEntry p s => MEntry p {| se_kind := se_kind s; se_explicit := se_explicit s; se_perm := se_perm s; se_size := se_size s;
                              se_content := se_content s; se_target := se_target s; se_layer := j |}
  | x => x
  end.

Lemma classify_layer maxb j e : classify maxb j e = option_map (set_mlayer j) (classify maxb 0 e).
Proof.
  unfold classify. destruct (norm_name (e_name e)) as [[|x sg]|]; try reflexivity.
  destruct (str_eqb (last (x :: sg) []) s_opq); [reflexivity|].
  destruct (has_prefix s_wh (last (x :: sg) [])); [reflexivity|].
  destruct (e_kind e); try reflexivity.
  destruct (Z.of_nat (length (e_content e)) >=? maxb)%Z; reflexivity.
Qed.

Definition set_vlayer (j : nat) (v : vent) : vent :=
  {| ve_kind := ve_kind v; ve_perm := ve_perm v; ve_size := ve_size v; ve_layer := j; ve_dest := ve_dest v |}.

Lemma vent_node_layer j e : vent_of_node (e_node j e) = option_map (set_vlayer j) (vent_of_node (e_node 0 e)).
Proof. unfold vent_of_node, e_node. destruct (e_kind e); simpl; destruct (e_whf e); reflexivity. Qed.

Lemma vent_eqb_eq a b : vent_eqb a b = true -> a = b.
Proof.
  unfold vent_eqb. intro H. repeat (apply andb_true_iff in H; destruct H as [H ?]).
  destruct a, b; simpl in *.
  repeat match goal with
         | X : (_ =? _)%Z = true |- _ => apply Z.eqb_eq in X
         | X : (_ =? _)%nat = true |- _ => apply Nat.eqb_eq in X
         | X : segs_eqb _ _ = true |- _ => apply segs_eqb_eq in X
         end.
  assert (ve_kind = ve_kind0) by (destruct ve_kind, ve_kind0; simpl in *; congruence).
  congruence.
Qed.

(* what the spec makes of an admitted entry, in layer j *)
Lemma classify_ok cfg j e : entry_ok cfg e = true ->
  (e_whf e = true /\ classify (cfg_max_bytes cfg) j e = Some (MWhiteout (e_vsegs e))) \/
  (e_whf e = false /\ exists s, classify (cfg_max_bytes cfg) j e = Some (MEntry (e_vsegs e) s) /\
      vent_of_node (e_node j e) = Some (vent_of_sentry (e_vsegs e) s) /\
      (is_dir_entry (Some s) = is_dirk e)).
Proof.
  intro OK. pose proof (entry_ok_facts _ _ OK) as F.
  unfold entry_ok in OK. repeat (apply andb_true_iff in OK; destruct OK as [OK ?]).
  match goal with H : spec_member_ok _ _ = true |- _ => rename H into SM end.
  unfold spec_member_ok in SM. rewrite classify_layer.
  destruct (classify (cfg_max_bytes cfg) 0 e) as [[p|d|p s]|]; try discriminate.
  - apply andb_true_iff in SM as [W E]. apply segs_eqb_eq in E. subst p. left. auto.
  - repeat (apply andb_true_iff in SM; destruct SM as [SM ?]).
    apply negb_true_iff in SM.
    match goal with X : segs_eqb p (e_vsegs e) = true |- _ => apply segs_eqb_eq in X; subst p end.
    right. split; [exact SM|].
    eexists. split; [reflexivity|].
    rewrite vent_node_layer.
    match goal with X : opt_vent_eqb _ _ = true |- _ => rename X into VE end.
    match goal with X : match se_kind s with _ => _ end = true |- _ => rename X into KK end.
    destruct (vent_of_node (e_node 0 e)) as [v|]; [|discriminate]. simpl in VE. apply vent_eqb_eq in VE. subst v.
    split; [reflexivity|].
    unfold is_dir_entry, is_dirk. simpl. destruct (se_kind s), (e_kind e); try discriminate; reflexivity.
Qed.

Lemma s_lookup_filter (f : list seg -> bool) m p :
  s_lookup (filter (fun kv => f (fst kv)) m) p = if f p then s_lookup m p else None.
Proof.
  induction m as [|[k v] m IH]; simpl; [destruct (f p); reflexivity|].
  destruct (f k) eqn:Fk; simpl.
  - destruct (segs_eqb k p) eqn:E; [apply segs_eqb_eq in E; subst; rewrite Fk; reflexivity|exact IH].
  - destruct (segs_eqb k p) eqn:E; [apply segs_eqb_eq in E; subst; rewrite Fk in IH |- *; exact IH|exact IH].
Qed.

Lemma s_lookup_set m q v p : s_lookup (s_set m q v) p = if segs_eqb q p then Some v else s_lookup m p.
Proof.
  unfold s_set, s_remove. simpl. destruct (segs_eqb q p) eqn:E; [reflexivity|].
  rewrite (s_lookup_filter (fun k => negb (segs_eqb k q)) m p).
  destruct (segs_eqb p q) eqn:E2; [apply segs_eqb_eq in E2; subst; assert (segs_eqb q q = true) by (apply segs_eqb_eq; reflexivity); congruence|reflexivity].
Qed.

Lemma s_lookup_remove_below m q p :
  s_lookup (s_remove_below m q) p = if strictly_below q p then None else s_lookup m p.
Proof.
  unfold s_remove_below. rewrite (s_lookup_filter (fun k => negb (strictly_below q k)) m p).
  destruct (strictly_below q p); reflexivity.
Qed.

Definition mval (maxb : Z) (j : nat) (e : entry) : option sentry :=
  match classify maxb j e with Some (MEntry _ s) => Some s | _ => None end.

Definition file_above (es : list entry) (p : list seg) : bool :=
  existsb (fun d => is_reg d && negb (e_whf d) && strictly_below (e_vsegs d) p) es.

Lemma ensure_parents_id j p m :
  (forall q, In q (parent_prefixes p) -> is_dir_entry (s_lookup m q) = true) -> ensure_parents j p m = m.
Proof.
  unfold ensure_parents. generalize (parent_prefixes p). intro l. induction l as [|q l IH]; intro H; simpl; [reflexivity|].
  rewrite (H q (or_introl eq_refl)). apply IH. intros q' HI. apply H. right. exact HI.
Qed.

(* no member of a layer lies below a regular-file entry (file or whiteout) of the same layer *)
Lemma layer_no_below : forall es seen, layer_okp seen es = true ->
  forall d x, In d es -> In x (seen ++ es) -> is_reg x = true -> strictly_below (e_vsegs x) (e_vsegs d) = false.
Proof.
  induction es as [|e r IH]; intros seen H d x Hd Hx Rx; [destruct Hd|].
  simpl in H. repeat (apply andb_true_iff in H; destruct H as [H ?]).
  destruct Hd as [E|Hd].
  - subst d. apply negb_true_iff in H1.
    destruct (strictly_below (e_vsegs x) (e_vsegs e)) eqn:B; [|reflexivity]. exfalso.
    rewrite <- not_true_iff_false in H1. apply H1. apply existsb_exists.
    apply in_app_or in Hx as [Hx|[Hx|Hx]].
    + exists x. split; [apply in_or_app; left; exact Hx|]. rewrite Rx, B. reflexivity.
    + subst x. rewrite strictly_below_irrefl in B. discriminate.
    + exists x. split; [apply in_or_app; right; exact Hx|]. rewrite Rx, B. reflexivity.
  - eapply (IH (seen ++ [e]) H0 d x Hd); [|exact Rx]. rewrite <- app_assoc. exact Hx.
Qed.

Section Layer.
  Variable cfg : config.
  Variable j : nat.
  Variable es : list entry.
  Hypothesis OK : forall e, In e es -> entry_ok cfg e = true.
  Hypothesis LAY : layer_okp [] es = true.
  Variable L : list seg -> option sentry.      (* the lower layers after this layer's deletions *)

  Let maxb := cfg_max_bytes cfg.

  Definition linv (est : list entry) (M : fsmap) : Prop :=
    forall p, s_lookup M p = match find_mem est p with
                             | Some e => mval maxb j e
                             | None => if file_above est p then None else L p
                             end.

  Lemma fold_members : forall r est M, es = est ++ r ->
    (forall w, In w es -> e_whf w = true -> forall p, is_prefix (e_vsegs w) p = true -> L p = None) ->
    linv est M -> linv es (fold_left (add_member j) (members maxb j r) M).
  Proof.
    induction r as [|e r IH]; intros est M E LW INV.
    - rewrite app_nil_r in E. subst est. exact INV.
    - assert (He : In e es) by (rewrite E; apply in_or_app; right; left; reflexivity).
      pose proof (OK e He) as OKe. pose proof (entry_ok_facts _ _ OKe) as Fe.
      rewrite E in LAY. destruct (layer_okp_split est [] e r LAY) as (NEW & PAR & SAME). cbn [app] in NEW, PAR, SAME.
      destruct (uniq_of_layer_okp _ _ LAY) as [_ UQall].
      assert (UQest : uniq est).
      { intros d Hd. specialize (UQall d (in_or_app _ _ _ (or_introl Hd))).
        rewrite find_mem_app2 in UQall. pose proof (find_mem_in est d Hd) as X.
        destruct (find_mem est (e_vsegs d)); [exact UQall|contradiction]. }
      assert (NB : forall d, In d est -> is_reg e = true -> strictly_below (e_vsegs e) (e_vsegs d) = false).
      { intros d Hd Re. eapply (layer_no_below _ [] LAY d e); [apply in_or_app; left; exact Hd| |exact Re].
        simpl. apply in_or_app. right. left. reflexivity. }
      rewrite <- E in LAY.
      assert (FM : find_mem est (e_vsegs e) = None) by (apply path_in_find; exact NEW).
      assert (PARDIR : forall q, In q (parent_prefixes (e_vsegs e)) -> is_dir_entry (s_lookup M q) = true).
      { intros q HI. destruct (PAR q HI) as (d & Hd & Dd & Ed). rewrite (INV q), <- Ed, (UQest d Hd).
        unfold mval. destruct (classify_ok cfg j d (OK d ltac:(rewrite E; apply in_or_app; left; exact Hd))) as [[W C]|[W (s & C & _ & K)]].
        - destruct (ef_kind d (entry_ok_facts _ _ (OK d ltac:(rewrite E; apply in_or_app; left; exact Hd)))) as [(_ & _ & X)|(X & Y)]; congruence.
        - fold maxb in C. rewrite C. rewrite K. exact Dd. }
      simpl. destruct (classify_ok cfg j e OKe) as [[W C]|[W (s & C & _ & K)]]; fold maxb in C; rewrite C.
      + (* whiteout *)
        eapply (IH (est ++ [e])); [rewrite <- app_assoc; exact E|exact LW|].
        simpl. rewrite (ensure_parents_id j _ M PARDIR).
        intro p. rewrite find_mem_app, (INV p).
        destruct (find_mem est p) eqn:Fp; [reflexivity|].
        assert (FA : file_above (est ++ [e]) p = file_above est p).
        { unfold file_above. rewrite existsb_app. simpl. rewrite W. simpl. rewrite andb_false_r. simpl. apply orb_false_r. }
        rewrite FA.
        destruct (segs_eqb (e_vsegs e) p) eqn:Ep; [|reflexivity].
        apply segs_eqb_eq in Ep. subst p. unfold mval. rewrite C.
        destruct (file_above est (e_vsegs e)); [reflexivity|].
        apply (LW e He W). apply is_prefix_app. exists []. rewrite app_nil_r. reflexivity.
      + destruct (ef_kind e Fe) as [(Dk & Rk & _)|(Rk & Dk)].
        * (* directory *)
          eapply (IH (est ++ [e])); [rewrite <- app_assoc; exact E|exact LW|].
          simpl. rewrite (ensure_parents_id j _ M PARDIR).
          assert (SK : se_kind s = SKDir).
          { unfold is_dir_entry in K. rewrite Dk in K. destruct (se_kind s); try discriminate; reflexivity. }
          rewrite SK. intro p. rewrite s_lookup_set, find_mem_app, (INV p).
          assert (FA : file_above (est ++ [e]) p = file_above est p).
          { unfold file_above. rewrite existsb_app. simpl. rewrite Rk. simpl. apply orb_false_r. }
          rewrite FA.
          destruct (segs_eqb (e_vsegs e) p) eqn:Ep.
          -- apply segs_eqb_eq in Ep. subst p. rewrite FM. unfold mval. rewrite C. reflexivity.
          -- destruct (find_mem est p); reflexivity.
        * (* regular file *)
          eapply (IH (est ++ [e])); [rewrite <- app_assoc; exact E|exact LW|].
          simpl. rewrite (ensure_parents_id j _ M PARDIR).
          assert (SK : se_kind s <> SKDir).
          { unfold is_dir_entry in K. rewrite Dk in K. destruct (se_kind s); try discriminate; congruence. }
          assert (M' : forall p, s_lookup (match se_kind s with SKDir => s_set M (e_vsegs e) s | _ => s_set (s_remove_below M (e_vsegs e)) (e_vsegs e) s end) p
                       = if segs_eqb (e_vsegs e) p then Some s else if strictly_below (e_vsegs e) p then None else s_lookup M p).
          { intro p. destruct (se_kind s); [congruence| |]; rewrite s_lookup_set, s_lookup_remove_below; reflexivity. }
          intro p. rewrite M', find_mem_app, (INV p).
          destruct (segs_eqb (e_vsegs e) p) eqn:Ep.
          -- apply segs_eqb_eq in Ep. subst p. rewrite FM. unfold mval. rewrite C. reflexivity.
          -- assert (FA : file_above (est ++ [e]) p = file_above est p || strictly_below (e_vsegs e) p).
             { unfold file_above. rewrite existsb_app. simpl. rewrite Rk, W. simpl. rewrite orb_false_r. reflexivity. }
             rewrite FA.
             destruct (strictly_below (e_vsegs e) p) eqn:B.
             ++ destruct (find_mem est p) as [d|] eqn:Fp.
                ** exfalso. apply find_mem_some in Fp as [Hd Ed]. specialize (NB d Hd Rk). rewrite Ed in NB. congruence.
                ** rewrite orb_true_r. reflexivity.
             ++ rewrite orb_false_r. destruct (find_mem est p); reflexivity.
  Qed.
End Layer.

Lemma deleted_by_members cfg j es p :
  (forall e, In e es -> entry_ok cfg e = true) ->
  deleted_by (members (cfg_max_bytes cfg) j es) p = existsb (fun w => e_whf w && is_prefix (e_vsegs w) p) es.
Proof.
  induction es as [|e r IH]; intro OK; [reflexivity|].
  simpl. destruct (classify_ok cfg j e (OK e (or_introl eq_refl))) as [[W C]|[W (s & C & _)]]; rewrite C; simpl; rewrite W; simpl;
    rewrite IH by (intros x Hx; apply OK; right; exact Hx); reflexivity.
Qed.

Lemma apply_layer_lookup cfg j es m p :
  (forall e, In e es -> entry_ok cfg e = true) -> layer_okp [] es = true ->
  s_lookup (apply_layer (cfg_max_bytes cfg) j es m) p =
  match find_mem es p with
  | Some e => mval (cfg_max_bytes cfg) j e
  | None => if hides es p then None else s_lookup m p
  end.
Proof.
  intros OK LAY. unfold apply_layer.
  set (ms := members (cfg_max_bytes cfg) j es).
  set (lower := filter (fun kv => negb (deleted_by ms (fst kv))) m).
  assert (LL : forall q, s_lookup lower q = if deleted_by ms q then None else s_lookup m q).
  { intro q. unfold lower. rewrite (s_lookup_filter (fun k => negb (deleted_by ms k)) m q). destruct (deleted_by ms q); reflexivity. }
  pose proof (fold_members cfg j es OK LAY (s_lookup lower) es [] lower eq_refl) as FM.
  assert (LI : linv cfg j (s_lookup lower) es (fold_left (add_member j) ms lower)).
  { apply FM.
    - intros w Hw Ww q Pq. rewrite LL. unfold ms. rewrite (deleted_by_members cfg j es q OK).
      assert (X : existsb (fun w0 => e_whf w0 && is_prefix (e_vsegs w0) q) es = true)
        by (apply existsb_exists; exists w; rewrite Ww, Pq; auto).
      rewrite X. reflexivity.
    - intro q. reflexivity. }
  rewrite (LI p). destruct (find_mem es p) as [e|] eqn:F; [reflexivity|].
  rewrite LL. unfold ms. rewrite (deleted_by_members cfg j es p OK).
  destruct (hides es p) eqn:H.
  - apply hides_spec in H as (d & Hd & Rd & Bd).
    destruct (e_whf d) eqn:Wd.
    + assert (X : existsb (fun w0 => e_whf w0 && is_prefix (e_vsegs w0) p) es = true).
      { apply existsb_exists. exists d. split; [exact Hd|]. rewrite Wd. simpl.
        unfold strictly_below in Bd. apply andb_true_iff in Bd as [Bd _]. exact Bd. }
      rewrite X. destruct (file_above es p); reflexivity.
    + assert (X : file_above es p = true).
      { unfold file_above. apply existsb_exists. exists d. split; [exact Hd|]. rewrite Rd, Wd, Bd. reflexivity. }
      rewrite X. reflexivity.
  - assert (X : file_above es p = false).
    { unfold file_above. apply not_true_iff_false. intro T. apply existsb_exists in T as (d & Hd & Td).
      apply andb_true_iff in Td as [Td B]. apply andb_true_iff in Td as [R _].
      assert (hides es p = true) by (apply hides_spec; eauto). congruence. }
    rewrite X.
    assert (Y : existsb (fun w0 => e_whf w0 && is_prefix (e_vsegs w0) p) es = false).
    { apply not_true_iff_false. intro T. apply existsb_exists in T as (w & Hw & Tw).
      apply andb_true_iff in Tw as [Ww Pw].
      destruct (segs_eqb (e_vsegs w) p) eqn:E.
      - apply segs_eqb_eq in E. pose proof (find_mem_in es w Hw) as Z. rewrite E in Z. congruence.
      - assert (Rw : is_reg w = true).
        { destruct (ef_kind w (entry_ok_facts _ _ (OK w Hw))) as [(_ & _ & Z)|(Z & _)]; congruence. }
        assert (hides es p = true).
        { apply hides_spec. exists w. split; [exact Hw|]. split; [exact Rw|]. unfold strictly_below. rewrite Pw, E. reflexivity. }
        congruence. }
    rewrite Y. reflexivity.
Qed.

(* the overlay of the slots in l (oldest first) on top of m, looked up through the closed form *)
Definition spec_found (maxb : Z) (r : sres3) : option sentry :=
  match r with RFound j e => mval maxb j e | _ => None end.

Lemma apply_slots_lookup cfg : forall l m older,
  (forall s, In s l -> (forall e, In e (slot_es s) -> entry_ok cfg e = true) /\ layer_okp [] (slot_es s) = true) ->
  (forall p, s_lookup m p = spec_found (cfg_max_bytes cfg) (scan older p)) ->
  forall p, s_lookup (apply_slots (cfg_max_bytes cfg) l m) p = spec_found (cfg_max_bytes cfg) (scan (rev l ++ older) p).
Proof.
  induction l as [|[j [es|]] l IH]; intros m older OK INV p.
  - exact (INV p).
  - simpl. rewrite <- app_assoc. apply IH.
    + intros s Hs. apply OK. right. exact Hs.
    + intro q. destruct (OK (j, Some es) (or_introl eq_refl)) as [OKe LAY]. cbn [slot_es snd] in OKe, LAY.
      rewrite (apply_layer_lookup cfg j es m q OKe LAY). cbn [app scan slot_es snd fst].
      destruct (find_mem es q); [reflexivity|]. destruct (hides es q); [reflexivity|apply INV].
  - simpl. rewrite <- app_assoc. apply IH.
    + intros s Hs. apply OK. right. exact Hs.
    + intro q. cbn [app scan slot_es snd fst]. simpl. apply INV.
Qed.

Lemma firstn_In {A} (l : list A) : forall n x, In x (firstn n l) -> In x l.
Proof.
  induction l as [|y l IH]; intros n x H; destruct n; simpl in H; try contradiction.
  destruct H as [E|H]; [left; exact E|right; eapply IH; exact H].
Qed.

(* (c) the OCI overlay of layers 0..i is the newest unhidden member *)
Theorem spec_lookup_newest_lemma cfg im i p :
  Dp cfg im = true -> spec_lookup cfg im i p = newest_lookup im i p.
Proof.
  intro DP. pose proof (gfacts_of_Dp _ _ DP) as G.
  unfold spec_lookup, view_spec, newest_lookup, slots_upto.
  fold (all_slots im).
  pose proof (apply_slots_lookup cfg (firstn (S i) (all_slots im)) [] []) as H.
  rewrite app_nil_r in H. rewrite H.
  - destruct (scan (rev (firstn (S i) (all_slots im))) p) as [j e| |] eqn:S; try reflexivity.
    apply scan_found in S as (s & Hs & Ej & He & Ep).
    apply in_rev in Hs. apply firstn_In in Hs. 
    assert (OKe : entry_ok cfg e = true) by (eapply (g_ok _ _ G s e); [apply -> in_rev; exact Hs|exact He]).
    simpl. unfold mval.
    destruct (classify_ok cfg j e OKe) as [[W C]|[W (s0 & C & V & _)]]; rewrite C.
    + unfold vent_of_node. destruct (e_node_fields j e) as (_ & Wn & _). rewrite Wn, W. reflexivity.
    + rewrite V, Ep. reflexivity.
  - intros s Hs. apply firstn_In in Hs. split.
    + intros e He. eapply (g_ok _ _ G s e); [apply -> in_rev; exact Hs|exact He].
    + apply (g_layer _ _ G). apply -> in_rev. exact Hs.
  - intro q. reflexivity.
Qed.

(* (d) lookups agree on Dp, in every view, before the final pruning *)
Theorem view_eq_overlay_on_Dp_unpruned_lemma cfg im st :
  Dp cfg im = true -> load_unpruned cfg im = Some st ->
  forall i p, (i < length (init_slots im))%nat -> p <> [] ->
    impl_lookup st i p = spec_lookup cfg im i p.
Proof.
  intros DP LD i p Hi Np. rewrite (view_lookup_newest_lemma cfg im st DP LD i p Hi Np).
  symmetry. apply spec_lookup_newest_lemma. exact DP.
Qed.

(* ------------------------------------------------------------------ the final pruning touches the last view only *)
Lemma prune_keeps_earlier cfg st i :
  (S i < length (st_chains st))%nat ->
  nth i (st_chains (prune cfg st)) empty_trie = nth i (st_chains st) empty_trie /\
  length (st_chains (prune cfg st)) = length (st_chains st).
Proof.
  intro Hi. unfold prune, prune_with.
  destruct (rev (st_chains st)) as [|fin rest] eqn:R; [auto|].
  assert (E : st_chains st = rev rest ++ [fin]).
  { rewrite <- (rev_involutive (st_chains st)), R. reflexivity. }
  destruct (fold_left prune_remove _ _) as [fin' d']. simpl.
  rewrite E in Hi |- *. rewrite app_length in Hi. simpl in Hi.
  rewrite !app_nth1 by (rewrite rev_length in *; lia). split; [reflexivity|].
  rewrite !app_length. reflexivity.
Qed.

(* C04 on Dp for FromV1Image itself: every view except the last one (which the final pruning rewrites) *)
Theorem view_eq_overlay_on_Dp_lemma cfg im st :
  Dp cfg im = true -> load cfg im = Some st ->
  forall i p, (S i < length (init_slots im))%nat -> p <> [] ->
    impl_lookup st i p = spec_lookup cfg im i p.
Proof.
  intros DP LD i p Hi Np. unfold load in LD.
  destruct (load_unpruned cfg im) as [st0|] eqn:LU; [|discriminate]. inversion LD; subst st. clear LD.
  destruct (view_is_fold_of_fills_lemma cfg im st0 LU) as [LEN _].
  destruct (prune_keeps_earlier cfg st0 i ltac:(rewrite LEN; exact Hi)) as [E _].
  unfold impl_lookup. rewrite E.
  apply (view_eq_overlay_on_Dp_unpruned_lemma cfg im st0 DP LU i p); [lia|exact Np].
Qed.

(* the invariant itself, for later use (PruneProofs.v) *)
Lemma view_inv_lemma cfg im st :
  Dp cfg im = true -> load_unpruned cfg im = Some st ->
  forall i, (i < length (init_slots im))%nat -> inv (nth i (st_chains st) empty_trie) (slots_upto im i).
Proof.
  intros DP LD i Hi.
  unfold load_unpruned in LD. destruct (negb (config_valid cfg)); [discriminate|].
  set (n := length (init_slots im)) in *.
  pose proof (gfacts_of_Dp _ _ DP) as G.
  assert (RES : length (st_chains st) = n /\
                forall k, (k < n)%nat -> inv (nth k (st_chains st) empty_trie) (dlk k ([] ++ rev (all_slots im)))).
  { eapply (slots_steps cfg n (rev (index_from 0 (init_slots im))) [] (init_state n) st).
    - exact G.
    - apply desc_rev_index.
    - intros a b [].
    - intros s Hs. apply in_rev in Hs. apply index_from_fst in Hs. unfold n. lia.
    - unfold init_state. simpl. rewrite map_length, seq_length. reflexivity.
    - intros k Hk. unfold init_state. simpl.
      rewrite (nth_indep _ empty_trie (Node (Some (root_node 0)) [])) by (rewrite map_length, seq_length; exact Hk).
      change (Node (Some (root_node 0)) []) with ((fun i => Node (Some (root_node i)) []) 0%nat).
      rewrite map_nth, seq_nth by exact Hk. simpl. split.
      + exists (root_node k). repeat split.
      + intros q Nq. destruct q; [contradiction|reflexivity].
    - exact LD. }
  destruct RES as [_ INV]. specialize (INV i Hi). cbn [app] in INV. rewrite dlk_all in INV. exact INV.
Qed.

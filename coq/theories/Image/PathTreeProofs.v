(* Refinement of the path tree (PathTree.v = pathtree.go) to a finite map.

   Abstraction:  node_at t p : option (option V)
       None          no node at path p
       Some None     a node without value (an intermediate directory nobody inserted)
       Some (Some v) a node with value v
   pathtree_refines_map: Get / Insert / GetChildren / Walk / Remove commute with the map operations;
   for Remove this pins down exactly which ancestors disappear with the removed node. *)
From Coq Require Import List NArith Bool Lia.
From Scalibr Require Import Image.PathTree.
Import ListNotations.

Lemma str_eqb_eq a b : str_eqb a b = true <-> a = b.
Proof.
  revert b; induction a as [|x a IH]; intros [|y b]; simpl; split; intro H; try discriminate; auto.
  - apply andb_true_iff in H as [H1 H2]. apply N.eqb_eq in H1. apply IH in H2. congruence.
  - inversion H; subst. rewrite N.eqb_refl. simpl. apply IH. reflexivity.
Qed.

Lemma str_eqb_refl a : str_eqb a a = true.
Proof. apply str_eqb_eq. reflexivity. Qed.

Lemma str_eqb_neq a b : str_eqb a b = false <-> a <> b.
Proof.
  split; intro H.
  - intro E. apply str_eqb_eq in E. congruence.
  - destruct (str_eqb a b) eqn:E; auto. apply str_eqb_eq in E. contradiction.
Qed.

Lemma segs_eqb_eq a b : segs_eqb a b = true <-> a = b.
Proof.
  revert b; induction a as [|x a IH]; intros [|y b]; simpl; split; intro H; try discriminate; auto.
  - apply andb_true_iff in H as [H1 H2]. apply str_eqb_eq in H1. apply IH in H2. congruence.
  - inversion H; subst. rewrite str_eqb_refl. simpl. apply IH. reflexivity.
Qed.

(* q is a proper prefix of p *)
Fixpoint sprefix (q p : list seg) : bool :=
  match q, p with
  | [], _ :: _ => true
  | x :: q', y :: p' => str_eqb x y && sprefix q' p'
  | _, _ => false
  end.

(* a is a prefix of b (or equal) *)
Fixpoint prefix (a b : list seg) : bool :=
  match a, b with
  | [], _ => true
  | x :: a', y :: b' => str_eqb x y && prefix a' b'
  | _ :: _, [] => false
  end.

Section Refine.
  Context {V : Type}.
  Notation trie := (trie V).

  Implicit Types (cs r : list (seg * PathTree.trie V)) (t c n : PathTree.trie V) (s k : seg) (p q : list seg).

  Definition keys (cs : list (seg * trie)) : list seg := map fst cs.

  Definition node_at (t : trie) (p : list seg) : option (option V) := option_map tval (get_node p t).

  Lemma node_at_nil t : node_at t [] = Some (tval t).
  Proof. reflexivity. Qed.

  Lemma node_at_cons t s q :
    node_at t (s :: q) = match find_child (tchildren t) s with None => None | Some c => node_at c q end.
  Proof. unfold node_at. simpl. destruct (find_child (tchildren t) s); reflexivity. Qed.

  Lemma node_at_app t p q :
    node_at t (p ++ q) = match get_node p t with None => None | Some n => node_at n q end.
  Proof.
    revert t; induction p as [|s p IH]; intro t; simpl; [reflexivity|].
    rewrite node_at_cons. destruct (find_child (tchildren t) s); [apply IH|reflexivity].
  Qed.

  (* Get is the map lookup *)
  Theorem get_refines t p : get_segs p t = match node_at t p with Some (Some v) => Some v | _ => None end.
  Proof. unfold get_segs, node_at. destruct (get_node p t) as [n|]; simpl; [destruct (tval n)|]; reflexivity. Qed.

  (* ---------------------------------------------------------------- association-list facts *)
  Lemma find_set_same cs s c : find_child (set_child cs s c) s = Some c.
  Proof.
    induction cs as [|[k c0] r IH]; simpl.
    - rewrite str_eqb_refl. reflexivity.
    - destruct (str_eqb k s) eqn:E; simpl; rewrite E; auto.
  Qed.

  Lemma find_set_other cs s s' c : s <> s' -> find_child (set_child cs s c) s' = find_child cs s'.
  Proof.
    intro N. induction cs as [|[k c0] r IH]; simpl.
    - apply str_eqb_neq in N. rewrite N. reflexivity.
    - destruct (str_eqb k s) eqn:E; simpl.
      + apply str_eqb_eq in E; subst k. apply str_eqb_neq in N. rewrite N. reflexivity.
      + destruct (str_eqb k s'); auto.
  Qed.

  Lemma find_del_other cs s s' : s <> s' -> find_child (del_child cs s) s' = find_child cs s'.
  Proof.
    intro N. induction cs as [|[k c0] r IH]; simpl; [reflexivity|].
    destruct (str_eqb k s) eqn:E; simpl.
    - apply str_eqb_eq in E; subst k. apply str_eqb_neq in N. rewrite N. reflexivity.
    - destruct (str_eqb k s'); auto.
  Qed.

  Lemma find_none_notin cs s : find_child cs s = None <-> ~ In s (keys cs).
  Proof.
    induction cs as [|[k c0] r IH]; simpl; [tauto|].
    destruct (str_eqb k s) eqn:E.
    - apply str_eqb_eq in E. split; [discriminate|]. intro H. exfalso. apply H. left. exact E.
    - apply str_eqb_neq in E. rewrite IH. tauto.
  Qed.

  Lemma find_del_same cs s : NoDup (keys cs) -> find_child (del_child cs s) s = None.
  Proof.
    induction cs as [|[k c0] r IH]; simpl; intro ND; [reflexivity|].
    inversion ND; subst.
    destruct (str_eqb k s) eqn:E; simpl.
    - apply str_eqb_eq in E; subst k. apply find_none_notin. assumption.
    - rewrite E. apply IH. assumption.
  Qed.

  Lemma find_in cs s c : find_child cs s = Some c -> In (s, c) cs.
  Proof.
    induction cs as [|[k c0] r IH]; simpl; [discriminate|].
    destruct (str_eqb k s) eqn:E.
    - apply str_eqb_eq in E; subst. intro H; inversion H; subst. left; reflexivity.
    - intro H. right. auto.
  Qed.

  Lemma in_find cs s c : NoDup (keys cs) -> In (s, c) cs -> find_child cs s = Some c.
  Proof.
    induction cs as [|[k c0] r IH]; simpl; intros ND HI; [contradiction|].
    inversion ND; subst.
    destruct HI as [E|HI].
    - inversion E; subst. rewrite str_eqb_refl. reflexivity.
    - destruct (str_eqb k s) eqn:E.
      + apply str_eqb_eq in E; subst k. exfalso. apply H1. change s with (fst (s, c)). apply in_map. exact HI.
      + auto.
  Qed.

  Lemma keys_set cs s c : In s (keys cs) -> keys (set_child cs s c) = keys cs.
  Proof.
    induction cs as [|[k c0] r IH]; simpl; intro HI; [contradiction|].
    destruct (str_eqb k s) eqn:E; simpl; [reflexivity|].
    f_equal. apply IH. destruct HI as [HI|HI]; [|exact HI]. apply str_eqb_neq in E. contradiction.
  Qed.

  Lemma keys_set_new cs s c : ~ In s (keys cs) -> keys (set_child cs s c) = keys cs ++ [s].
  Proof.
    induction cs as [|[k c0] r IH]; simpl; intro HI; [reflexivity|].
    destruct (str_eqb k s) eqn:E; simpl.
    - apply str_eqb_eq in E. exfalso. apply HI. left. exact E.
    - f_equal. apply IH. tauto.
  Qed.

  Lemma nodup_snoc (l : list seg) s : NoDup l -> ~ In s l -> NoDup (l ++ [s]).
  Proof.
    induction l as [|a l IH]; simpl; intros ND NI.
    - constructor; [intros []|constructor].
    - inversion ND; subst. constructor.
      + rewrite in_app_iff. simpl. intros [H|[H|[]]]; [contradiction|subst; apply NI; left; reflexivity].
      + apply IH; [assumption|]. intro H. apply NI. right. exact H.
  Qed.

  Lemma nodup_set cs s c : NoDup (keys cs) -> NoDup (keys (set_child cs s c)).
  Proof.
    intro ND. destruct (in_dec (list_eq_dec N.eq_dec) s (keys cs)) as [HI|HN].
    - rewrite keys_set; assumption.
    - rewrite keys_set_new by assumption. apply nodup_snoc; assumption.
  Qed.

  Lemma in_del cs s k c : In (k, c) (del_child cs s) -> In (k, c) cs.
  Proof.
    induction cs as [|[k0 c0] r IH]; simpl; [tauto|].
    destruct (str_eqb k0 s); simpl; intro H; [right; exact H|].
    destruct H as [H|H]; [left; exact H|right; auto].
  Qed.

  Lemma nodup_del cs s : NoDup (keys cs) -> NoDup (keys (del_child cs s)).
  Proof.
    induction cs as [|[k0 c0] r IH]; simpl; intro ND; [constructor|].
    inversion ND; subst.
    destruct (str_eqb k0 s); simpl; [assumption|].
    constructor; [|auto].
    intro HI. apply H1. unfold keys in *. apply in_map_iff in HI as [[k c] [E HI]]. simpl in E; subst.
    apply in_del in HI. change k0 with (fst (k0, c)). apply in_map. exact HI.
  Qed.

  Lemma in_set cs s c k c1 : In (k, c1) (set_child cs s c) -> (k = s /\ c1 = c) \/ In (k, c1) cs.
  Proof.
    induction cs as [|[k0 c0] r IH]; simpl.
    - intros [E|[]]. inversion E; subst. left; auto.
    - destruct (str_eqb k0 s) eqn:E; simpl; intros [H|H].
      + inversion H; subst. apply str_eqb_eq in E. left; auto.
      + right; right; exact H.
      + right; left; exact H.
      + destruct (IH H) as [L|R]; [left; exact L|right; right; exact R].
  Qed.

  (* ---------------------------------------------------------------- well-formed trees *)
  (* Go maps have one entry per key *)
  Fixpoint wf (t : trie) : Prop :=
    match t with
    | Node _ cs => NoDup (keys cs) /\
                   (fix all (cs : list (seg * trie)) : Prop :=
                      match cs with [] => True | (_, c) :: r => wf c /\ all r end) cs
    end.

  Lemma wf_unfold v cs : wf (Node v cs) <-> NoDup (keys cs) /\ forall k c, In (k, c) cs -> wf c.
  Proof.
    simpl. split; intros [ND H]; split; auto.
    - induction cs as [|[k0 c0] r IH]; intros k c HI; [contradiction|].
      destruct H as [H0 Hr]. destruct HI as [E|HI]; [inversion E; subst; exact H0|].
      inversion ND; subst. eapply IH; eauto.
    - induction cs as [|[k0 c0] r IH]; [exact I|]. split.
      + eapply H. left. reflexivity.
      + inversion ND; subst. apply IH; auto. intros k c HI. eapply H. right. exact HI.
  Qed.

  Lemma wf_child t s c : wf t -> find_child (tchildren t) s = Some c -> wf c.
  Proof. destruct t as [v cs]. intros W F. apply wf_unfold in W as [_ H]. eapply H. apply find_in. exact F. Qed.

  Lemma wf_empty : wf (@empty_trie V).
  Proof. simpl. split; [constructor|exact I]. Qed.

  Lemma wf_set v cs s c : wf (Node v cs) -> wf c -> wf (Node v (set_child cs s c)).
  Proof.
    intros W Wc. apply wf_unfold in W as [ND H]. apply wf_unfold. split; [apply nodup_set; exact ND|].
    intros k c1 HI. apply in_set in HI as [[_ E]|HI]; [subst; exact Wc|eauto].
  Qed.

  Lemma wf_del v cs s : wf (Node v cs) -> wf (Node v (del_child cs s)).
  Proof.
    intros W. apply wf_unfold in W as [ND H]. apply wf_unfold. split; [apply nodup_del; exact ND|].
    intros k c1 HI. apply in_del in HI. eauto.
  Qed.

  Lemma wf_reval v v' cs : wf (Node v cs) -> wf (Node v' cs).
  Proof. simpl. tauto. Qed.

  (* ---------------------------------------------------------------- Insert *)
  Definition insert_map (f : list seg -> option (option V)) (p : list seg) (v : V) (q : list seg) : option (option V) :=
    if segs_eqb q p then Some (Some v)
    else if sprefix q p then match f q with None => Some None | x => x end
    else f q.

  Lemma node_at_empty q : node_at (@empty_trie V) q = match q with [] => Some None | _ => None end.
  Proof. destruct q; reflexivity. Qed.

  Lemma insert_at_spec p : forall v t t', insert_at p v t = Some t' -> forall q, node_at t' q = insert_map (node_at t) p v q.
  Proof.
    induction p as [|s p IH]; intros v t t' H q; unfold insert_map.
    - destruct t as [[x|] cs]; simpl in H; [discriminate|]. inversion H; subst.
      destruct q as [|s2 q]; simpl; [reflexivity|]. rewrite !node_at_cons. reflexivity.
    - destruct t as [tv cs]. simpl in H.
      destruct (insert_at p v (match find_child cs s with Some c => c | None => empty_trie end)) as [c'|] eqn:E; [|discriminate].
      inversion H; subst; clear H.
      destruct q as [|s2 q]; simpl; [reflexivity|].
      rewrite !node_at_cons. simpl.
      destruct (str_eqb s2 s) eqn:E2.
      + apply str_eqb_eq in E2; subst s2. rewrite find_set_same. simpl.
        rewrite (IH _ _ _ E q). unfold insert_map.
        destruct (find_child cs s) as [c|]; [reflexivity|].
        rewrite node_at_empty.
        destruct (segs_eqb q p) eqn:E3; [reflexivity|].
        destruct (sprefix q p) eqn:E4; [destruct q; reflexivity|].
        destruct q as [|a q]; [|reflexivity].
        destruct p; simpl in *; discriminate.
      + simpl. apply str_eqb_neq in E2. rewrite find_set_other by congruence. reflexivity.
  Qed.

  Lemma insert_at_none p : forall v t, insert_at p v t = None <-> exists x, get_segs p t = Some x.
  Proof.
    induction p as [|s p IH]; intros v t.
    - destruct t as [[x|] cs]; simpl; unfold get_segs; simpl; split; intro H; try discriminate; eauto.
      destruct H as [x H]; discriminate.
    - destruct t as [tv cs]. simpl. unfold get_segs. simpl.
      destruct (find_child cs s) as [c|] eqn:F.
      + specialize (IH v c). unfold get_segs in IH. rewrite <- IH.
        destruct (insert_at p v c); split; intro H; congruence.
      + split.
        * intro H. destruct (insert_at p v empty_trie) eqn:E; [discriminate|].
          apply IH in E as [x E]. unfold get_segs in E. destruct p; simpl in E; discriminate.
        * intros [x H]. discriminate.
  Qed.

  Lemma insert_at_wf p : forall v t t', wf t -> insert_at p v t = Some t' -> wf t'.
  Proof.
    induction p as [|s p IH]; intros v t t' W H.
    - destruct t as [[x|] cs]; simpl in H; [discriminate|]. inversion H; subst. eapply wf_reval; eauto.
    - destruct t as [tv cs]. simpl in H.
      destruct (insert_at p v (match find_child cs s with Some c => c | None => empty_trie end)) as [c'|] eqn:E; [|discriminate].
      inversion H; subst. apply wf_set; [exact W|].
      eapply IH; [|exact E]. destruct (find_child cs s) eqn:F; [|apply wf_empty].
      eapply (wf_child (Node tv cs)); eauto.
  Qed.

  (* Insert: either the path already carries a value (error, tree unchanged), or the new tree is the
     map update, with value-less nodes created on the way; the root is always overwritten *)
  Theorem insert_refines t p v :
    match insert_segs p v t with
    | InsOk t' => (p = [] \/ get_segs p t = None) /\ (forall q, node_at t' q = insert_map (node_at t) p v q) /\ (wf t -> wf t')
    | InsExists => p <> [] /\ exists x, get_segs p t = Some x
    | InsNotAbs => False
    end.
  Proof.
    unfold insert_segs. destruct p as [|s p].
    - split; [left; reflexivity|]. split.
      + intros q. unfold insert_map. destruct q as [|s q]; simpl; [reflexivity|].
        rewrite !node_at_cons. reflexivity.
      + destruct t. apply wf_reval.
    - destruct (insert_at (s :: p) v t) as [t'|] eqn:E.
      + split; [right|split].
        * destruct (get_segs (s :: p) t) eqn:G; [|reflexivity].
          assert (insert_at (s :: p) v t = None) by (apply insert_at_none; eauto). congruence.
        * apply insert_at_spec. exact E.
        * intro W. eapply insert_at_wf; eauto.
      + split; [discriminate|]. apply insert_at_none in E. exact E.
  Qed.

  (* ---------------------------------------------------------------- GetChildren *)
  Lemma child_values_spec cs v :
    NoDup (keys cs) -> (In v (child_values cs) <-> exists s c, find_child cs s = Some c /\ tval c = Some v).
  Proof.
    intro ND. induction cs as [|[k c0] r IH]; simpl.
    - split; [tauto|]. intros (s & c & H & _). discriminate.
    - inversion ND; subst. specialize (IH H2).
      split.
      + intro H. destruct (tval c0) as [x|] eqn:T.
        * destruct H as [H|H].
          -- subst. exists k, c0. rewrite str_eqb_refl. auto.
          -- apply IH in H as (s & c & F & Tc). exists s, c. split; [|exact Tc].
             destruct (str_eqb k s) eqn:E; [|exact F].
             apply str_eqb_eq in E; subst. apply find_in in F. exfalso. apply H1.
             change s with (fst (s, c)). apply in_map. exact F.
        * apply IH in H as (s & c & F & Tc). exists s, c. split; [|exact Tc].
          destruct (str_eqb k s) eqn:E; [|exact F].
          apply str_eqb_eq in E; subst. apply find_in in F. exfalso. apply H1.
          change s with (fst (s, c)). apply in_map. exact F.
      + intros (s & c & F & Tc). destruct (str_eqb k s) eqn:E.
        * inversion F; subst. rewrite Tc. left. reflexivity.
        * assert (In v (child_values r)) by (apply IH; eauto).
          destruct (tval c0); [right|]; assumption.
  Qed.

  (* GetChildren(p) = the values of the nodes p/s, for every segment s; nil iff there is no node at p *)
  Theorem get_children_refines t p :
    wf t ->
    match get_node p t with
    | None => node_at t p = None
    | Some n => node_at t p <> None /\
                forall v, In v (child_values (tchildren n)) <-> exists s, node_at t (p ++ [s]) = Some (Some v)
    end.
  Proof.
    intro W. destruct (get_node p t) as [n|] eqn:G; [|unfold node_at; rewrite G; reflexivity].
    split; [unfold node_at; rewrite G; discriminate|]. intro v.
    assert (Wn : wf n).
    { clear v. revert t W G. induction p as [|s p IH]; intros t W G; simpl in G.
      - inversion G; subst; exact W.
      - destruct (find_child (tchildren t) s) eqn:F; [|discriminate]. eapply IH; [|exact G]. eapply wf_child; eauto. }
    destruct n as [nv cs]. apply wf_unfold in Wn as [ND _]. simpl.
    rewrite child_values_spec by exact ND.
    split.
    - intros (s & c & F & T). exists s. rewrite node_at_app, G, node_at_cons. cbn [tchildren]. rewrite F, node_at_nil, T. reflexivity.
    - intros [s H]. rewrite node_at_app, G, node_at_cons in H. cbn [tchildren] in H.
      destruct (find_child cs s) as [c|] eqn:F; [|discriminate]. exists s, c. split; [exact F|].
      rewrite node_at_nil in H. inversion H. reflexivity.
  Qed.

  (* ---------------------------------------------------------------- Walk *)
  Section TrieInd.
    Variable P : trie -> Prop.
    Hypothesis H : forall v cs, (forall k c, In (k, c) cs -> P c) -> P (Node v cs).
    Lemma trie_ind2 : forall t, P t.
    Proof.
      fix IH 1. intros [v cs]. apply H.
      revert cs. fix IHcs 1. intros [|[k0 c0] r] k c HI.
      - destruct HI.
      - destruct HI as [E|HI].
        + assert (Pc0 : P c0) by apply IH. injection E as _ Ec. rewrite <- Ec. exact Pc0.
        + exact (IHcs r k c HI).
    Qed.
  End TrieInd.

  Lemma walk_from_spec : forall t, wf t -> forall pre q v,
    In (q, v) (walk_from pre t) <-> exists q', q = pre ++ q' /\ node_at t q' = Some (Some v).
  Proof.
    intro t. induction t as [tv cs IH] using trie_ind2. intros W pre q v.
    apply wf_unfold in W as [ND Wc].
    simpl. rewrite in_app_iff.
    assert (G : forall cs0, (forall k c, In (k, c) cs0 -> In (k, c) cs) -> NoDup (keys cs0) ->
              (In (q, v) ((fix go (cs : list (seg * trie)) : list (list seg * V) :=
                            match cs with [] => [] | (k, c) :: r => walk_from (pre ++ [k]) c ++ go r end) cs0)
               <-> exists k c q', In (k, c) cs0 /\ q = pre ++ k :: q' /\ node_at c q' = Some (Some v))).
    { induction cs0 as [|[k0 c0] r IHr]; intros Sub ND0.
      - split; [intros []|]. intros (k & c & q' & [] & _).
      - rewrite in_app_iff. inversion ND0; subst.
        rewrite (IH k0 c0 (Sub _ _ (or_introl eq_refl)) (Wc _ _ (Sub _ _ (or_introl eq_refl)))).
        rewrite IHr; [|intros; apply Sub; right; assumption|assumption].
        split.
        + intros [(q' & E & N)|(k & c & q' & HI & E & N)].
          * exists k0, c0, q'. rewrite <- app_assoc in E. simpl in E. split; [left; reflexivity|auto].
          * exists k, c, q'. split; [right; exact HI|auto].
        + intros (k & c & q' & [E0|HI] & E & N).
          * inversion E0; subst. left. exists q'. rewrite <- app_assoc. simpl. auto.
          * right. exists k, c, q'. auto. }
    rewrite (G cs (fun _ _ h => h) ND). clear G.
    split.
    - intros [HI|(k & c & q' & HI & E & N)].
      + destruct tv as [x|]; [|destruct HI]. destruct HI as [E|[]]. inversion E; subst.
        exists []. rewrite app_nil_r. split; reflexivity.
      + exists (k :: q'). split; [exact E|]. rewrite node_at_cons. simpl. rewrite (in_find _ _ _ ND HI). exact N.
    - intros (q' & E & N). destruct q' as [|k q'].
      + left. rewrite app_nil_r in E. subst. rewrite node_at_nil in N. simpl in N. inversion N; subst. left. reflexivity.
      + right. rewrite node_at_cons in N. simpl in N. destruct (find_child cs k) as [c|] eqn:F; [|discriminate].
        exists k, c, q'. split; [apply find_in; exact F|auto].
  Qed.

  (* Walk visits exactly the (path, value) pairs of the map *)
  Theorem walk_refines t : wf t -> forall q v, In (q, v) (walk t) <-> node_at t q = Some (Some v).
  Proof.
    intros W q v. unfold walk. rewrite walk_from_spec by exact W. simpl.
    split; [intros (q' & E & N); subst; exact N|intro N; exists q; auto].
  Qed.

  (* ---------------------------------------------------------------- Remove *)
  (* f is the map seen from some node: s is its only child *)
  Definition sole (f : list seg -> option (option V)) (s : seg) : Prop := forall s', f [s'] <> None -> s' = s.
  Definition below (f : list seg -> option (option V)) (pre : list seg) : list seg -> option (option V) :=
    fun q => f (pre ++ q).

  (* every node on the way down p (starting with the node f describes) has exactly one child *)
  Fixpoint chain_sole (f : list seg -> option (option V)) (p : list seg) : Prop :=
    match p with
    | [] => True
    | s :: p' => sole f s /\ chain_sole (below f [s]) p'
    end.

  (* erase the subtree at path c *)
  Definition cut_map (f : list seg -> option (option V)) (c : list seg) (q : list seg) : option (option V) :=
    if prefix c q then None else f q.

  Lemma below_node_at t s c : find_child (tchildren t) s = Some c -> forall q, below (node_at t) [s] q = node_at c q.
  Proof. intros F q. unfold below. simpl. rewrite node_at_cons, F. reflexivity. Qed.

  Lemma chain_sole_ext f g p : (forall q, f q = g q) -> chain_sole f p -> chain_sole g p.
  Proof.
    revert f g; induction p as [|s p IH]; intros f g E; simpl; [auto|].
    intros [S C]. split.
    - intros s' H. apply S. rewrite E. exact H.
    - eapply IH; [|exact C]. intros q. unfold below. apply E.
  Qed.

  Lemma sole_del t s : wf t -> find_child (tchildren t) s <> None ->
    (no_children (Node (tval t) (del_child (tchildren t) s)) = true <-> sole (node_at t) s).
  Proof.
    destruct t as [tv cs]. intros W F. apply wf_unfold in W as [ND _]. simpl in F |- *.
    unfold no_children, sole. simpl. split.
    - intros H s' N. rewrite node_at_cons in N. simpl in N.
      destruct (str_eqb s s') eqn:E; [apply str_eqb_eq in E; auto|].
      apply str_eqb_neq in E. rewrite <- (find_del_other cs s s' E) in N.
      destruct (del_child cs s); [simpl in N; congruence|discriminate].
    - intro S. destruct (del_child cs s) as [|[k c] r] eqn:D; [reflexivity|].
      assert (k = s).
      { apply S. rewrite node_at_cons. simpl.
        assert (In (k, c) cs) by (eapply in_del; rewrite D; left; reflexivity).
        rewrite (in_find _ _ _ ND H). unfold node_at. destruct c; simpl. discriminate. }
      subst k. pose proof (find_del_same cs s ND) as X. rewrite D in X. simpl in X. rewrite str_eqb_refl in X. discriminate.
  Qed.

  Lemma node_at_del t s q : wf t ->
    node_at (Node (tval t) (del_child (tchildren t) s)) q = cut_map (node_at t) [s] q.
  Proof.
    destruct t as [tv cs]. intro W. apply wf_unfold in W as [ND _]. simpl.
    unfold cut_map. destruct q as [|s2 q]; simpl; [reflexivity|].
    rewrite !node_at_cons. simpl.
    destruct (str_eqb s s2) eqn:E; simpl.
    - apply str_eqb_eq in E; subst. rewrite find_del_same by exact ND. reflexivity.
    - apply str_eqb_neq in E. rewrite find_del_other by exact E. reflexivity.
  Qed.

  Lemma node_at_set t s c q :
    node_at (Node (tval t) (set_child (tchildren t) s c)) q =
    match q with
    | [] => Some (tval t)
    | s2 :: q' => if str_eqb s s2 then node_at c q' else node_at t q
    end.
  Proof.
    destruct q as [|s2 q']; [reflexivity|]. rewrite !node_at_cons. simpl.
    destruct (str_eqb s s2) eqn:E.
    - apply str_eqb_eq in E; subst. rewrite find_set_same. reflexivity.
    - apply str_eqb_neq in E. rewrite find_set_other by exact E. reflexivity.
  Qed.

  (* remove_in, seen from node t (not the root), for a path p that exists below t:
     - cascade = true  iff every node from t down to the parent of the target has one child only;
       then t' has no child left (its own parent goes on deleting);
     - cascade = false: the subtree is cut at the deepest node on the path that keeps another child. *)
  Lemma remove_in_spec p : forall t, wf t -> p <> [] -> node_at t p <> None ->
    exists t' casc, remove_in p t = RmDone t' casc /\ wf t' /\ tval t' = tval t /\
      (casc = true -> chain_sole (node_at t) p /\ forall q, node_at t' q = cut_map (node_at t) [hd [] p] q) /\
      (casc = false -> exists pre s post, p = pre ++ s :: post /\
                         ~ sole (below (node_at t) pre) s /\ chain_sole (below (node_at t) (pre ++ [s])) post /\
                         forall q, node_at t' q = cut_map (node_at t) (pre ++ [s]) q).
  Proof.
    induction p as [|s p IH]; intros t W NE PR; [contradiction|].
    destruct p as [|s2 p].
    - (* the target is a child of t *)
      rewrite node_at_cons in PR. simpl.
      destruct (find_child (tchildren t) s) as [c|] eqn:F; [|contradiction].
      eexists _, _. split; [reflexivity|]. split; [destruct t; apply wf_del; exact W|]. split; [reflexivity|].
      assert (SD := sole_del t s W). rewrite F in SD. specialize (SD ltac:(discriminate)).
      split.
      + intro C. split; [simpl; split; [apply SD; exact C|exact I]|]. intro q. apply node_at_del. exact W.
      + intro C. exists [], s, []. split; [reflexivity|]. split.
        * intro S. apply SD in S. simpl in *. congruence.
        * split; [exact I|]. intro q. apply node_at_del. exact W.
    - (* go down *)
      rewrite node_at_cons in PR.
      change (remove_in (s :: s2 :: p) t) with
        (match find_child (tchildren t) s with
         | None => RmNotFound
         | Some c => match remove_in (s2 :: p) c with
                     | RmNotFound => RmNotFound
                     | RmDone c' true => let t' := Node (tval t) (del_child (tchildren t) s) in RmDone t' (no_children t')
                     | RmDone c' false => RmDone (Node (tval t) (set_child (tchildren t) s c')) false
                     end
         end).
      destruct (find_child (tchildren t) s) as [c|] eqn:F; [|contradiction].
      assert (Wc : wf c) by (eapply wf_child; eauto).
      destruct (IH c Wc ltac:(discriminate) PR) as (c' & casc & R & Wc' & Vc' & HT & HF).
      rewrite R. destruct casc.
      + destruct (HT eq_refl) as [CS _]. clear HF HT.
        eexists _, _. split; [reflexivity|]. split; [destruct t; apply wf_del; exact W|]. split; [reflexivity|].
        assert (SD := sole_del t s W). rewrite F in SD. specialize (SD ltac:(discriminate)).
        split.
        * intro C. split; [|intro q; apply node_at_del; exact W].
          change (sole (node_at t) s /\ chain_sole (below (node_at t) [s]) (s2 :: p)).
          split; [apply SD; exact C|].
          eapply chain_sole_ext; [|exact CS]. intro q. symmetry. apply below_node_at. exact F.
        * intro C. exists [], s, (s2 :: p). split; [reflexivity|]. split.
          -- intro S. apply SD in S. simpl in *. congruence.
          -- split; [|intro q; apply node_at_del; exact W].
             eapply chain_sole_ext; [|exact CS]. intro q. symmetry. apply below_node_at. exact F.
      + destruct (HF eq_refl) as (pre & s3 & post & E & NS & CS & CUT). clear HF HT.
        eexists _, _. split; [reflexivity|]. split; [destruct t; apply wf_set; assumption|]. split; [reflexivity|].
        split; [discriminate|]. intros _.
        exists (s :: pre), s3, post. split; [simpl; rewrite E; reflexivity|]. split.
        * intro S. apply NS. intros s' N. apply S. unfold below in *. simpl. rewrite node_at_cons, F. exact N.
        * split.
          -- eapply chain_sole_ext; [|exact CS]. intro q. unfold below. simpl. rewrite node_at_cons, F. reflexivity.
          -- intro q. rewrite node_at_set. unfold cut_map. destruct q as [|s4 q]; simpl; [reflexivity|].
             destruct (str_eqb s s4) eqn:E4.
             ++ apply str_eqb_eq in E4; subst s4. rewrite CUT. unfold cut_map. rewrite (node_at_cons t s q), F. reflexivity.
             ++ reflexivity.
  Qed.

  Lemma remove_in_notfound p : forall t, p <> [] -> node_at t p = None -> remove_in p t = RmNotFound.
  Proof.
    induction p as [|s p IH]; intros t NE PR; [contradiction|].
    rewrite node_at_cons in PR. destruct p as [|s2 p].
    - simpl. destruct (find_child (tchildren t) s); [discriminate|reflexivity].
    - change (remove_in (s :: s2 :: p) t) with
        (match find_child (tchildren t) s with
         | None => RmNotFound
         | Some c => match remove_in (s2 :: p) c with
                     | RmNotFound => RmNotFound
                     | RmDone c' true => let t' := Node (tval t) (del_child (tchildren t) s) in RmDone t' (no_children t')
                     | RmDone c' false => RmDone (Node (tval t) (set_child (tchildren t) s c')) false
                     end
         end).
      destruct (find_child (tchildren t) s) as [c|]; [|reflexivity].
      rewrite (IH c ltac:(discriminate) PR). reflexivity.
  Qed.

  (* Remove(p), stated on the map:
       - nothing happens for the root and for paths without a node;
       - a top-level node only loses its value (its subtree stays);
       - otherwise the subtree at p disappears together with every ancestor, below the top level,
         that has no other child left: the cut is at top-level-segment ++ pre ++ [s], where the node
         at pre still has another child (or the cut is directly below the top level). *)
  Theorem remove_refines t p : wf t ->
    let t' := fst (remove_segs p t) in
    wf t' /\
    snd (remove_segs p t) = match p with [] => None | _ => get_segs p t end /\
    match p with
    | [] => t' = t
    | [s] => forall q, node_at t' q = if segs_eqb q [s] then match node_at t [s] with None => None | Some _ => Some None end
                                      else node_at t q
    | s :: p' =>
        match node_at t p with
        | None => t' = t
        | Some _ =>
            exists cut, prefix cut p' = true /\ cut <> [] /\
              (forall q, node_at t' q = cut_map (node_at t) (s :: cut) q) /\
              (* everything strictly between the cut and the target had a single child *)
              (exists post, p' = cut ++ post /\ chain_sole (below (node_at t) (s :: cut)) post) /\
              (* and the cut is as high as allowed *)
              (length cut = 1 \/ ~ sole (below (node_at t) (s :: removelast cut)) (last cut []))
        end
    end.
  Proof.
    intro W. destruct p as [|s p]; [simpl; auto|]. cbv zeta.
    destruct p as [|s2 p].
    - (* top level: value cleared, node and children stay *)
      cbn [remove_segs]. destruct (find_child (tchildren t) s) as [c|] eqn:F; cbn [fst snd].
      + assert (Wc : wf c) by (eapply wf_child; eauto).
        split; [destruct t as [tv cs]; apply wf_set; [exact W|destruct c as [cv ccs]; eapply wf_reval; exact Wc]|].
        split; [unfold get_segs; cbn [get_node]; rewrite F; reflexivity|].
        intro q. rewrite node_at_set. rewrite (node_at_cons t s []), F, node_at_nil.
        destruct q as [|s3 q]; [reflexivity|].
        cbn [segs_eqb].
        destruct (str_eqb s s3) eqn:E.
        * apply str_eqb_eq in E; subst s3. rewrite str_eqb_refl.
          destruct q as [|s4 q]; [reflexivity|].
          cbn [segs_eqb andb]. rewrite (node_at_cons t s), F, !node_at_cons. reflexivity.
        * assert (E' : str_eqb s3 s = false) by (apply str_eqb_neq; apply str_eqb_neq in E; congruence).
          rewrite E'. reflexivity.
      + split; [exact W|]. split; [unfold get_segs; cbn [get_node]; rewrite F; reflexivity|].
        intro q. destruct (segs_eqb q [s]) eqn:E; [|reflexivity].
        apply segs_eqb_eq in E; subst. rewrite node_at_cons, F. reflexivity.
    - change (remove_segs (s :: s2 :: p) t) with
        (match find_child (tchildren t) s with
         | None => (t, None)
         | Some c => match remove_in (s2 :: p) c with
                     | RmNotFound => (t, None)
                     | RmDone c' _ => (Node (tval t) (set_child (tchildren t) s c'), get_segs (s2 :: p) c)
                     end
         end).
      rewrite node_at_cons.
      destruct (find_child (tchildren t) s) as [c|] eqn:F.
      + assert (Wc : wf c) by (eapply wf_child; eauto).
        destruct (node_at c (s2 :: p)) as [x|] eqn:PR.
        * destruct (remove_in_spec (s2 :: p) c Wc ltac:(discriminate) ltac:(congruence))
            as (c' & casc & R & Wc' & Vc' & HT & HF).
          rewrite R. cbn [fst snd]. split; [destruct t; apply wf_set; assumption|].
          split; [unfold get_segs; cbn [get_node]; rewrite F; reflexivity|].
          destruct casc.
          -- destruct (HT eq_refl) as [CS CUT]. exists [s2]. split; [simpl; rewrite str_eqb_refl; reflexivity|].
             split; [discriminate|]. split; [|split].
             ++ intro q. rewrite node_at_set. unfold cut_map. destruct q as [|s4 q]; simpl; [reflexivity|].
                destruct (str_eqb s s4) eqn:E4; [|reflexivity].
                apply str_eqb_eq in E4; subst s4. rewrite CUT. unfold cut_map. simpl. rewrite (node_at_cons t s q), F. reflexivity.
             ++ exists p. split; [reflexivity|]. simpl in CS. destruct CS as [_ CS].
                eapply chain_sole_ext; [|exact CS]. intro q. unfold below. simpl. rewrite (node_at_cons t s), F. reflexivity.
             ++ left. reflexivity.
          -- destruct (HF eq_refl) as (pre & s3 & post & E & NS & CS & CUT).
             exists (pre ++ [s3]). split.
             { rewrite E. clear. induction pre; simpl; [rewrite str_eqb_refl; reflexivity|rewrite str_eqb_refl; exact IHpre]. }
             split; [destruct pre; discriminate|]. split; [|split].
             ++ intro q. rewrite node_at_set. unfold cut_map. destruct q as [|s4 q]; simpl; [reflexivity|].
                destruct (str_eqb s s4) eqn:E4; [|reflexivity].
                apply str_eqb_eq in E4; subst s4. rewrite CUT. unfold cut_map. rewrite (node_at_cons t s q), F. reflexivity.
             ++ exists post. split; [rewrite E, <- app_assoc; reflexivity|].
                eapply chain_sole_ext; [|exact CS]. intro q. unfold below. simpl. rewrite (node_at_cons t s), F. reflexivity.
             ++ right. rewrite removelast_last, last_last. intro S. apply NS.
                intros s' N. apply S. unfold below in *. simpl. rewrite (node_at_cons t s), F. exact N.
        * rewrite (remove_in_notfound (s2 :: p) c ltac:(discriminate) PR). cbn [fst snd].
          split; [exact W|]. split; [|reflexivity].
          assert (G : get_node (s2 :: p) c = None)
            by (unfold node_at in PR; destruct (get_node (s2 :: p) c); [discriminate|reflexivity]).
          unfold get_segs.
          change (get_node (s :: s2 :: p) t) with
            (match find_child (tchildren t) s with None => None | Some c => get_node (s2 :: p) c end).
          rewrite F, G. reflexivity.
      + cbn [fst snd]. split; [exact W|]. split; [|reflexivity]. unfold get_segs. cbn [get_node]. rewrite F. reflexivity.
  Qed.

End Refine.

(* the five refinement facts as one statement *)
Lemma pathtree_refines_map_lemma : forall (V : Type) (t : trie V), wf t ->
  (forall p, get_segs p t = match node_at t p with Some (Some v) => Some v | _ => None end) /\
  (forall p v, match insert_segs p v t with
               | InsOk t' => (p = [] \/ get_segs p t = None) /\
                             (forall q, node_at t' q = insert_map (node_at t) p v q) /\ wf t'
               | InsExists => p <> [] /\ exists x, get_segs p t = Some x
               | InsNotAbs => False
               end) /\
  (forall p, match get_node p t with
             | None => node_at t p = None
             | Some n => node_at t p <> None /\
                         forall v, In v (child_values (tchildren n)) <-> exists s, node_at t (p ++ [s]) = Some (Some v)
             end) /\
  (forall q v, In (q, v) (walk t) <-> node_at t q = Some (Some v)) /\
  (forall p, let t' := fst (remove_segs p t) in
     wf t' /\
     snd (remove_segs p t) = match p with [] => None | _ => get_segs p t end /\
     match p with
     | [] => t' = t
     | [s] => forall q, node_at t' q = if segs_eqb q [s] then match node_at t [s] with None => None | Some _ => Some None end
                                       else node_at t q
     | s :: p' =>
         match node_at t p with
         | None => t' = t
         | Some _ =>
             exists cut, prefix cut p' = true /\ cut <> [] /\
               (forall q, node_at t' q = cut_map (node_at t) (s :: cut) q) /\
               (exists post, p' = cut ++ post /\ chain_sole (below (node_at t) (s :: cut)) post) /\
               (length cut = 1%nat \/ ~ sole (below (node_at t) (s :: removelast cut)) (last cut []))
         end
     end).
Proof.
  intros V t W. split; [intro p; apply get_refines|].
  split.
  { intros p v. pose proof (insert_refines t p v) as H. destruct (insert_segs p v t); auto.
    destruct H as (A & B & C). auto. }
  split; [intro p; apply get_children_refines; exact W|].
  split; [apply walk_refines; exact W|].
  intro p. apply remove_refines. exact W.
Qed.

(* C11 - model of strategy/relax/relax.go: patchVulns (the outer loop) and reqsToRelax. Model + spec only.
   Packages and requirement strings are interned as N in the order of their strings, so that the N order
   is resolve.VersionKey.Compare on (package, requirement). NpmRelaxer.Relax (modelled in Relax.v), the
   resolver, the matcher and ConstrainingSubgraph are oracles here. *)
From Coq Require Import List ZArith NArith Bool Arith PeanoNat.
From Scalibr Require Import Lib.SortSearch RemedC11.Upgrade RemedC11.Suggest RemedC11.Override.
Import ListNotations.

Definition req := N.

(* one resolution.Vulnerability of resolved.Vulns as the relax strategy sees it: the direct requirements
   (package of the direct dependency, requirement string on the root edge) that the constraining
   subgraphs hold responsible, and - specification side - the direct dependencies from which the
   vulnerable node is reachable at all *)
Record xvuln := { xv_id : vid; xv_directs : list (pkg * req); xv_reach : list pkg }.

(* a PatchRequirement call: package, requirement before, relaxed requirement *)
Definition xpatch := (pkg * req * req)%type.
Definition x_pkg (q : xpatch) : pkg := fst (fst q).
Definition x_old (q : xpatch) : req := snd (fst q).
Definition x_new (q : xpatch) : req := snd q.
Definition x_override (q : xpatch) : pkg * req := (x_pkg q, x_new q).

Inductive xres :=
| XOk (iters : list (list xpatch))            (* returned (resolved, nil) *)
| XImpossible (iters : list (list xpatch))    (* ErrPatchImpossible; the last list is the interrupted pass *)
| XErr (iters : list (list xpatch))           (* another error (re-resolution failed) *)
| XOutOfFuel (iters : list (list xpatch)).

Definition xiters_of (r : xres) : list (list xpatch) :=
  match r with XOk i => i | XImpossible i => i | XErr i => i | XOutOfFuel i => i end.
Definition xpatches_of (r : xres) : list xpatch := concat (xiters_of r).

(* resolve.VersionKey.Compare on (package, requirement string) *)
Definition pr_cmp (a b : pkg * req) : comparison :=
  match N.compare (fst a) (fst b) with
  | Eq => N.compare (snd a) (snd b)
  | c => c
  end.

(* slices.CompactFunc on a sorted list *)
Fixpoint compact (l : list (pkg * req)) : list (pkg * req) :=
  match l with
  | a :: (b :: _) as t => if pair_eqb a b then compact t else a :: compact t
  | _ => l
  end.

Section RelaxLoop.
  Variable relax_req : pkg -> req -> option req.     (* NpmRelaxer.Relax(req, config): None = (req, false) *)
  Variable analyse : list (pkg * req) -> option (list xvuln).
      (* resolve + FindVulnerabilities + MatchVuln + constraining subgraphs of the manifest with these
         requirement replacements applied (in order); for [] it is the ResolvedGraph passed in *)
  Variable cfg : config.
  Variable vuln_ids : list vid.

  (* reqsToRelax: the responsible direct requirements of the vulnerabilities to fix, sorted, compacted *)
  Definition relevant (v : xvuln) : bool := existsb (N.eqb (xv_id v)) vuln_ids.

  Definition reqs_to_relax (vs : list xvuln) : list (pkg * req) :=
    compact (isort pr_cmp (flat_map xv_directs (filter relevant vs))).

  (* the pass over toRelax; false = ErrPatchImpossible (level none, or nothing to relax to) *)
  Fixpoint relax_each (rs : list (pkg * req)) (acc : list xpatch) : list xpatch * bool :=
    match rs with
    | [] => (rev acc, true)
    | (p, r) :: rs' =>
        if level_eqb (config_get cfg p) LNone then (rev acc, false)
        else match relax_req p r with
             | None => (rev acc, false)
             | Some r' => relax_each rs' ((p, r, r') :: acc)
             end
    end.

  Fixpoint relax_loop (fuel : nat) (ovs : list (pkg * req)) (todo : list (pkg * req))
                      (acc : list (list xpatch)) : xres :=
    match fuel with
    | 0 => XOutOfFuel (rev acc)
    | S f =>
        match todo with
        | [] => XOk (rev acc)
        | _ =>
            let '(ps, ok) := relax_each todo [] in
            if negb ok then XImpossible (rev (ps :: acc))
            else
              let ovs' := ovs ++ map x_override ps in
              match analyse ovs' with
              | None => XErr (rev (ps :: acc))
              | Some vs => relax_loop f ovs' (reqs_to_relax vs) (ps :: acc)
              end
        end
    end.

  Definition run_relax (fuel : nat) : xres :=
    match analyse [] with
    | None => XErr []
    | Some vs => relax_loop fuel [] (reqs_to_relax vs) []
    end.

  (* ---- specification side *)
  Variable init : pkg -> req.                        (* the requirement the manifest has for a package *)
  (* the requirement in force after the replacements ovs *)
  Definition cur_req (ovs : list (pkg * req)) (p : pkg) : req :=
    match last_override ovs p with Some r => r | None => init p end.

  (* termination measure: hm p r = position, in the package's ascending version list, of the highest
     version matching requirement r; every relaxation moves it strictly up, below bound p *)
  Definition relax_bound (bound : pkg -> nat) (pkgs : list pkg) : nat :=
    S (fold_right (fun p n => bound p + n) 0 pkgs).
End RelaxLoop.

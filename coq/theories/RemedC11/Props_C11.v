(* C11 - guided remediation only upgrades, and only as far as the policy allows.
   Only statements here; proofs are in Proofs.v. *)
From Coq Require Import List ZArith NArith Bool Arith Permutation.
From Scalibr Require Import Lib.SortSearch RemedC11.Upgrade RemedC11.Suggest RemedC11.Relax RemedC11.Override RemedC11.RelaxLoop RemedC11.Proofs.
Import ListNotations.

(* ---- level semantics *)
(* Level.Allows is "the most significant differing component is no more significant than the level" *)
Theorem allows_eq_spec : forall l d, allows l d = allows_spec l d.
Proof. exact allows_eq_spec_lemma. Qed.
Print Assumptions allows_eq_spec.

Theorem config_get_correct : forall c p, config_get_spec c p (config_get c p).
Proof. exact config_get_meets_spec. Qed.
Print Assumptions config_get_correct.

(* NewConfigFromStrings followed by Get: the last valid "pkg:level" spec naming the package decides (split
   at the last colon, exact lower-case level words, case-sensitive package names), else the last valid
   default spec, else major *)
Theorem config_parse_correct : forall specs k,
  sconfig_get (config_parse specs) k = config_parse_get_spec specs k.
Proof. exact config_parse_correct_lemma. Qed.
Print Assumptions config_parse_correct.

(* "JSONStream:none" freezes JSONStream and nothing else; "org.x:pa:minor" names the package org.x:pa *)
Example ex_config_parse :
  let specs := [[74;83;79;78;83;116;114;101;97;109;58;110;111;110;101]%N;   (* JSONStream:none *)
                [111;114;103;46;120;58;112;97;58;109;105;110;111;114]%N;    (* org.x:pa:minor *)
                [112;97;116;99;104]%N] in                                   (* patch *)
  sconfig_get (config_parse specs) [74;83;79;78;83;116;114;101;97;109]%N = LNone /\
  sconfig_get (config_parse specs) [106;115;111;110;115;116;114;101;97;109]%N = Patch /\
  sconfig_get (config_parse specs) [111;114;103;46;120;58;112;97]%N = Minor.
Proof. vm_compute. auto. Qed.

(* allowed steps compose: if a->b and b->c are within the level then so is a->c, provided
   Difference reports the first differing component of (major, minor, patch, rest) *)
Theorem allows_compose : forall (V : Type) (d : V -> V -> diff) (comp : V -> comps),
  (forall a b, first_component_diffb (comp a) (comp b) (d a b) = true) ->
  forall l a b c, allows l (d a b) = true -> allows l (d b c) = true -> allows l (d a c) = true.
Proof. exact allows_compose_lemma. Qed.
Print Assumptions allows_compose.

(* ---- bulk update (Maven): suggestMavenVersion / MavenSuggester.Suggest *)
(* a suggested version passed the level check against the version the requirement stands for *)
Theorem suggest_within_level : forall (V : Type) parses cmp dif verr l c vs v,
  suggest_maven_version V parses cmp dif verr l c vs = SNew v ->
  exists cur, current_of V parses cmp c vs = Some cur /\ allows l (dif v cur) = true /\
              In v vs /\ parses v = true.
Proof. exact suggest_within_level_lemma. Qed.
Print Assumptions suggest_within_level.

(* no update is proposed for a package configured as none *)
Theorem suggest_none_untouched : forall (V : Type) veqb cfg rs ups,
  suggest_all V veqb cfg rs [] = SuggOk ups ->
  forall u, In u ups -> config_get cfg (fst (fst u)) <> LNone.
Proof. intros V veqb cfg rs ups H. eapply suggest_none_untouched_gen; [exact H|intros u []]. Qed.
Print Assumptions suggest_none_untouched.

(* the suggestion is never below the version the requirement stands for (any antisymmetric Compare,
   any Difference, listed or not) *)
Theorem suggest_not_downgrade : forall (V : Type) parses cmp dif,
  (forall a b, cmp b a = CompOpp (cmp a b)) ->
  forall verr l c vs cur v,
  current_of V parses cmp c vs = Some cur ->
  suggest_maven_version V parses cmp dif verr l c vs = SNew v -> cmp cur v <> Gt.
Proof. exact suggest_not_downgrade_lemma. Qed.
Print Assumptions suggest_not_downgrade.

(* and there is no nil dereference left: without a current version or without a candidate the
   requirement is returned as it is *)
Theorem suggest_no_panic : forall (V : Type) parses cmp dif verr l c vs,
  suggest_maven_version V parses cmp dif verr l c vs <> SPanic.
Proof. exact suggest_no_panic_lemma. Qed.
Print Assumptions suggest_no_panic.

Definition ex_cmp (a b : N) : comparison := N.compare a b.
Definition ex_dif (a b : N) : diff := if N.eqb a b then Same else DiffMajor.

(* the former witnesses: requirement 5 unknown to the registry, which lists 3 (resp. 7 under level patch) *)
Example ex_suggest_unknown_current_kept :
  suggest_maven_version N (fun _ => true) ex_cmp ex_dif false Major (CSimple (Some 5%N)) [3%N] = SKeep /\
  suggest_maven_version N (fun _ => true) ex_cmp ex_dif false Patch (CSimple (Some 5%N)) [7%N] = SKeep.
Proof. vm_compute. auto. Qed.

(* and a changed requirement is STRICTLY above the version the old one stands for: a version that
   compares equal (a different spelling, 1.0 -> 1.0.0) is not proposed *)
Theorem suggest_strictly_up : forall (V : Type) parses cmp dif,
  (forall a b, cmp b a = CompOpp (cmp a b)) ->
  forall verr l c vs cur v,
  current_of V parses cmp c vs = Some cur ->
  suggest_maven_version V parses cmp dif verr l c vs = SNew v -> cmp cur v = Lt.
Proof. exact suggest_strictly_up_lemma. Qed.
Print Assumptions suggest_strictly_up.

(* the former witness: requirement 2 ("1.0"), registry version 3 ("1.0.0"), equal in the order: kept *)
Example ex_suggest_respelling_kept :
  suggest_maven_version N (fun _ => true) (fun a b => N.compare (N.div2 a) (N.div2 b)) (fun _ _ => Same)
                        false Major (CSimple (Some 2%N)) [3%N] = SKeep.
Proof. vm_compute. reflexivity. Qed.

(* non-vacuity: a listed current version, an allowed higher version, a disallowed one *)
Example ex_suggest_on_D :
  suggest_maven_version N (fun _ => true) ex_cmp (fun a b => if N.eqb a b then Same else if N.ltb 8 a then DiffMajor else DiffMinor)
                        false Minor (CSimple (Some 5%N)) [9%N; 5%N; 7%N; 3%N] = SNew 7%N.
Proof. vm_compute. reflexivity. Qed.

(* ---- relaxing direct constraints (npm): NpmRelaxer.Relax
   base = the version the requirement resolves to when that is not the highest match (npm prefers the
   version tagged latest); relax_from = base, or the highest match. *)
Theorem relax_none_untouched : forall (V : Type) parses matches is_pre dif c_ok verr base vers,
  relax_npm V parses matches is_pre dif LNone c_ok verr base vers = None.
Proof. exact relax_none_lemma. Qed.
Print Assumptions relax_none_untouched.

(* the new lower bound lies strictly above the highest version the old requirement matches (hence above
   whatever it resolves to), for any list of versions that is strictly ascending in the ecosystem order *)
Theorem relax_strictly_up : forall (V : Type) parses matches is_pre dif (cmp : V -> V -> comparison)
                                   l c_ok verr base vers op best,
  ssorted cmp vers = true ->
  relax_npm V parses matches is_pre dif l c_ok verr base vers = Some (op, best) ->
  exists lst, highest_match V parses matches vers = Some lst /\ cmp lst best = Lt.
Proof. exact relax_strictly_up_lemma. Qed.
Print Assumptions relax_strictly_up.

(* the step from the resolved version to the new lower bound is within the level *)
Theorem relax_level_checked : forall (V : Type) parses matches is_pre dif l c_ok verr base vers op best,
  relax_npm V parses matches is_pre dif l c_ok verr base vers = Some (op, best) ->
  exists from, relax_from V parses matches base vers = Some from /\
               allows l (dif_or_other V dif from best) = true.
Proof. exact relax_level_checked_lemma. Qed.
Print Assumptions relax_level_checked.

(* for every valid level, everything the new range can admit is within the level of the resolved
   version - for a strictly ascending version list with the resolved version not above the highest
   match, when Difference reports the first differing component and classifies every strictly ordered
   pair (never Same / Other) *)
Theorem relax_range_within_level : forall (V : Type) parses matches is_pre dif (cmp : V -> V -> comparison)
                                          (comp : V -> comps),
  (forall a b, first_component_diffb (comp a) (comp b) (dif_or_other V dif a b) = true) ->
  (forall a b, cmp a b = Lt -> classified (dif_or_other V dif a b) = true) ->
  (forall a b c, cmp a b <> Gt -> cmp b c = Lt -> cmp a c = Lt) ->
  forall l c_ok verr base vers op best,
  ssorted cmp vers = true ->
  (forall b lst, base = Some b -> highest_match V parses matches vers = Some lst -> cmp b lst <> Gt) ->
  relax_npm V parses matches is_pre dif l c_ok verr base vers = Some (op, best) ->
  valid_level l = true ->
  exists from, relax_from V parses matches base vers = Some from /\
    forall v, range_admits V dif cmp op best v = true -> allows l (dif_or_other V dif from v) = true.
Proof.
  intros V parses matches is_pre dif cmp comp H1 H2 H3. apply relax_range_lemma with (comp := comp); assumption.
Qed.
Print Assumptions relax_range_within_level.

(* the former witnesses. 1 = "1.2.3-alpha" (pinned), 2 = "1.2.3", 3 = "1.3.0", level patch: "~1.2.3" *)
Definition ex_rdif (a b : N) : option diff :=
  match a, b with
  | 1%N, 2%N => Some DiffPrerelease
  | 1%N, 3%N | 2%N, 3%N => Some DiffMinor
  | _, _ => if N.eqb a b then Some Same else Some DiffMajor
  end.

Example ex_relax_prerelease_step_tilde :
  relax_npm N (fun _ => true) (N.eqb 1) (N.eqb 1) ex_rdif Patch true false None [1%N; 2%N; 3%N] = Some (Tilde, 2%N).
Proof. vm_compute. reflexivity. Qed.

(* 1 = "1.1.3" (tagged latest: what ">=1.0.0" resolves to), 2 = "2.1.1" (highest match), 3 = "2.2.2-alpha",
   level minor: measured from 1 the step to 3 is major and refused; measured from 2 it was accepted *)
Definition ex_rdif3 (a b : N) : option diff :=
  match a, b with
  | 2%N, 3%N => Some DiffMinor
  | _, _ => if N.eqb a b then Some Same else Some DiffMajor
  end.

Example ex_relax_from_resolved :
  relax_npm N (fun _ => true) (fun v => N.leb v 2) (N.eqb 3) ex_rdif3 Minor true false (Some 1%N) [1%N; 2%N; 3%N] = None /\
  relax_npm N (fun _ => true) (fun v => N.leb v 2) (N.eqb 3) ex_rdif3 Minor true false None [1%N; 2%N; 3%N] = Some (Caret, 3%N).
Proof. vm_compute. auto. Qed.

(* non-vacuity: the chain 1.2.3 -> ~1.2.5 under level minor (versions 3,4,5 patch steps, 6 minor, 7 major) *)
Definition ex_rdif2 (a b : N) : option diff :=
  if N.eqb a b then Some Same
  else if N.leb 7 a || N.leb 7 b then Some DiffMajor
  else if N.leb 6 a || N.leb 6 b then Some DiffMinor else Some DiffPatch.

Example ex_relax_on_D :
  relax_npm N (fun _ => true) (N.eqb 3) (fun _ => false) ex_rdif2 Minor true false None [3%N; 4%N; 5%N; 6%N; 7%N]
  = Some (Tilde, 5%N).
Proof. vm_compute. reflexivity. Qed.

(* ---- the outer loop of the relax strategy: relax.patchVulns
   A replacement is (package, requirement before, relaxed requirement). NpmRelaxer.Relax, the resolver, the
   matcher and the constraining subgraphs are arbitrary. *)

(* only requirements that a constraining subgraph of one of the vulnerabilities to fix holds responsible
   are ever replaced, never those of a package configured as none, and always by what Relax returned *)
Theorem relax_only_touches_responsible_directs : forall relax_req analyse cfg vuln_ids fuel q,
  In q (xpatches_of (run_relax relax_req analyse cfg vuln_ids fuel)) ->
  config_get cfg (x_pkg q) <> LNone /\ relax_req (x_pkg q) (x_old q) = Some (x_new q) /\
  exists ovs vs v, analyse ovs = Some vs /\ In v vs /\ In (xv_id v) vuln_ids /\
                   In (x_pkg q, x_old q) (xv_directs v).
Proof. intros. eapply relax_touches_responsible_lemma; eauto. Qed.
Print Assumptions relax_only_touches_responsible_directs.

(* termination. Measure: for every package p of the finite universe pkgs, hm p r is the position (in p's
   ascending version list, below bound p) of the highest version matching the requirement r in force;
   every pass replaces at least one requirement and every replacement moves its hm strictly up, so no
   (package, position) pair is reached twice and there are at most sum of bound p replacements.
   Premises: Relax moves hm strictly up within bound (cf. relax_strictly_up), and the requirement found on
   a root edge is the one in force for that package. *)
Theorem relax_terminates : forall relax_req analyse cfg vuln_ids (init : pkg -> req)
                                  (hm : pkg -> req -> nat) (bound : pkg -> nat) (pkgs : list pkg),
  (forall p r r', relax_req p r = Some r' -> hm p r < hm p r' /\ hm p r' < bound p) ->
  (forall ovs vs v p r, analyse ovs = Some vs -> In v vs -> In (xv_id v) vuln_ids ->
                        In (p, r) (xv_directs v) -> r = cur_req init ovs p /\ In p pkgs) ->
  forall fuel, relax_bound bound pkgs <= fuel ->
  forall i, run_relax relax_req analyse cfg vuln_ids fuel <> XOutOfFuel i.
Proof.
  intros rr an cfg ids init hm bound pkgs H1 H2 fuel Hf i.
  eapply relax_terminates_lemma; eauto.
Qed.
Print Assumptions relax_terminates.

(* non-vacuity: package 1 with requirement 10 is relaxed twice (10 -> 11 -> 12) before the vulnerability
   9 is gone; package 2 (configured none) is never responsible *)
Definition xl_relax (p : pkg) (r : req) : option req := if N.ltb r 12 then Some (N.succ r) else None.
Definition xl_analyse (ovs : list (pkg * req)) : option (list xvuln) :=
  match last_override ovs 1%N with
  | Some 12%N => Some []
  | Some r => Some [ {| xv_id := 9%N; xv_directs := [(1%N, r); (1%N, r)]; xv_reach := [1%N] |} ]
  | None => Some [ {| xv_id := 9%N; xv_directs := [(1%N, 10%N)]; xv_reach := [1%N] |};
                   {| xv_id := 8%N; xv_directs := [(2%N, 5%N)]; xv_reach := [2%N] |} ]
  end.

Example ex_relax_loop :
  run_relax xl_relax xl_analyse [(2%N, LNone)] [9%N] (relax_bound (fun _ => 3) [1%N])
  = XOk [[(1%N, 10%N, 11%N)]; [(1%N, 11%N, 12%N)]].
Proof. vm_compute. reflexivity. Qed.

(* ---- overriding transitive versions (Maven): override.patchVulns
   A patch is (package, version resolved before the iteration, overriding version). The resolver, the
   matcher, IsAffected, Difference, the version lists and the configuration are arbitrary. *)

(* every override stays within the package's level, measured from the version resolved before it;
   a package configured as none is never overridden (any fuel, any universe, no premise) *)
Theorem override_within_level : forall versions_of rank dif affected analyse cfg vuln_ids fuel q,
  In q (patches_of (run_patch_vulns versions_of rank dif affected analyse cfg vuln_ids fuel)) ->
  allows (config_get cfg (p_pkg q)) (dif (p_from q) (p_to q)) = true.
Proof. intros. eapply override_within_level_lemma; eauto. Qed.
Print Assumptions override_within_level.

Theorem override_none_untouched : forall versions_of rank dif affected analyse cfg vuln_ids fuel q,
  In q (patches_of (run_patch_vulns versions_of rank dif affected analyse cfg vuln_ids fuel)) ->
  config_get cfg (p_pkg q) <> LNone.
Proof. intros. eapply override_within_level_lemma; eauto. Qed.
Print Assumptions override_none_untouched.

(* the sorted version list does not depend on the sorting algorithm: when the versions parse and are
   pairwise different in the order, any ascending permutation of them is the list the model computes,
   which is also Lib.SortSearch's insertion sort. (Go's slices.SortFunc is insertion sort up to 12 elements
   and an unstable pdqsort above; only "returns a sorted permutation" is assumed of it.) *)
Theorem sort_unique_on_distinct : forall rank vs, wf_versions rank vs ->
  (forall s, Permutation s vs -> sasc rank s -> s = sorted_versions rank vs) /\
  sorted_versions rank vs = isort (zc rank) vs.
Proof.
  intros rank vs H. split; [intros s; apply sort_unique_on_distinct_lemma; exact H|apply sorted_versions_isort; exact H].
Qed.
Print Assumptions sort_unique_on_distinct.

(* every override is a listed version strictly above the resolved one in the ecosystem order, when
   every package's versions parse and are pairwise different in that order (wf_versions) and resolved
   versions parse (they need not be listed) *)
Theorem override_strictly_up : forall versions_of rank dif affected analyse cfg vuln_ids,
  (forall p, wf_versions rank (versions_of p)) ->
  (forall ovs vulns rv p v cl, analyse ovs = Some vulns -> In rv vulns -> In (p, v, cl) (rv_nodes rv) ->
                               rank v <> None) ->
  forall fuel q,
  In q (patches_of (run_patch_vulns versions_of rank dif affected analyse cfg vuln_ids fuel)) ->
  In (p_to q) (versions_of (p_pkg q)) /\ rank_lt rank (p_from q) (p_to q) = true.
Proof. intros vo rank dif aff an cfg ids H1 H2 fuel q. apply override_strictly_up_lemma; assumption. Qed.
Print Assumptions override_strictly_up.

(* termination within the stated bound, for every resolver: no (package, version) override is requested
   twice. pkgs is any list holding the packages that can turn up vulnerable. *)
Theorem override_terminates : forall versions_of rank dif affected analyse cfg vuln_ids pkgs,
  (forall ovs vulns rv p v cl, analyse ovs = Some vulns -> In rv vulns -> In (p, v, cl) (rv_nodes rv) ->
                               In p pkgs) ->
  forall fuel, fuel_bound versions_of pkgs <= fuel ->
  forall i, run_patch_vulns versions_of rank dif affected analyse cfg vuln_ids fuel <> OOutOfFuel i.
Proof.
  intros vo rank dif aff an cfg ids pkgs H3 fuel Hf i.
  eapply override_terminates_lemma; eauto.
Qed.
Print Assumptions override_terminates.

(* ... and, by composition over the iterations, within the level measured from the version the
   package had when it was first overridden (orig_of), under the resolver premises and
   "Difference reports the first differing component" *)
Theorem override_within_level_of_original : forall versions_of rank dif affected analyse cfg vuln_ids,
  (forall p, wf_versions rank (versions_of p)) ->
  (forall ovs vulns rv p v cl, analyse ovs = Some vulns -> In rv vulns -> In (p, v, cl) (rv_nodes rv) ->
                               rank v <> None) ->
  (forall ovs vulns rv p v cl t, analyse ovs = Some vulns -> In rv vulns -> In (p, v, cl) (rv_nodes rv) ->
                                 last_override ovs p = Some t -> v = t) ->
  (forall ovs vulns rv rv' p v v' cl cl', analyse ovs = Some vulns -> In rv vulns -> In rv' vulns ->
                                 In (p, v, cl) (rv_nodes rv) -> In (p, v', cl') (rv_nodes rv') -> v = v') ->
  forall comp : ver -> comps,
  (forall a b, first_component_diffb (comp a) (comp b) (dif a b) = true) ->
  forall fuel q o,
  let r := run_patch_vulns versions_of rank dif affected analyse cfg vuln_ids fuel in
  In q (patches_of r) -> orig_of (patches_of r) (p_pkg q) = Some o ->
  allows (config_get cfg (p_pkg q)) (dif o (p_to q)) = true.
Proof.
  intros vo rank dif aff an cfg ids H1 H2 H3 H4 comp H5 fuel q o.
  eapply override_within_level_of_original_lemma; eauto.
Qed.
Print Assumptions override_within_level_of_original.

(* a resolver that does not honour overrides: package 1 has versions 1 < 2 < 3, the vulnerability 9
   affects 1 and 2; "package 1 is at version 2" whatever was overridden (a direct soft requirement that a
   transitive hard range keeps out). The loop now stops after one pass. *)
Definition nt_versions (p : pkg) : list ver := if N.eqb p 1 then [1; 2; 3]%N else [].
Definition nt_rank (v : ver) : option Z := Some (Z.of_N v).
Definition nt_dif (a b : ver) : diff := if N.eqb a b then Same else DiffMinor.
Definition nt_affected (u : vid) (p : pkg) (v : ver) : bool := N.ltb v 3.
Definition nt_analyse (ovs : list (pkg * ver)) : option (list rvuln) :=
  Some [ {| rv_id := 9%N; rv_nodes := [(1%N, 2%N, false)] |} ].

Example ex_override_stubborn_resolver :
  run_patch_vulns nt_versions nt_rank nt_dif nt_affected nt_analyse [] [9%N] (fuel_bound nt_versions [1%N])
  = OOk [[(1%N, 2%N, 3%N)]].
Proof. vm_compute. reflexivity. Qed.

(* the package need not resolve to what was asked for: after the override 2 -> 3 of package 1 the
   resolver may report it at version 1 (below where it was) *)
Theorem override_resolved_version_refuted :
  exists analyse,
    run_patch_vulns nt_versions nt_rank nt_dif nt_affected analyse [] [9%N] 5 = OOk [[(1%N, 2%N, 3%N)]] /\
    analyse [(1%N, 3%N)] = Some [ {| rv_id := 8%N; rv_nodes := [(1%N, 1%N, false)] |} ] /\
    rank_lt nt_rank 1%N 2%N = true.
Proof.
  exists (fun ovs => match ovs with
                     | [] => Some [ {| rv_id := 9%N; rv_nodes := [(1%N, 2%N, false)] |} ]
                     | _ => Some [ {| rv_id := 8%N; rv_nodes := [(1%N, 1%N, false)] |} ]
                     end).
  vm_compute. auto.
Qed.
Print Assumptions override_resolved_version_refuted.

(* getVersionsGreater with a version that parses but is not listed: only higher versions are offered
   (the former witness: listed 1 and 2, given 5 -> nothing; given 1.5 between them -> 2) *)
Example ex_gvg_unlisted :
  get_versions_greater nt_rank [1%N; 2%N] 5%N = [] /\
  get_versions_greater (fun v => if N.eqb v 7 then Some 15%Z else Some (10 * Z.of_N v)%Z) [1%N; 2%N] 7%N = [2%N].
Proof. vm_compute. auto. Qed.

(* non-vacuity: two iterations in a universe that meets every premise *)
Definition ok_analyse (ovs : list (pkg * ver)) : option (list rvuln) :=
  match last_override ovs 1%N with
  | None => Some [ {| rv_id := 9%N; rv_nodes := [(1%N, 1%N, false)] |} ]
  | Some v => if N.ltb v 3 then Some [ {| rv_id := 9%N; rv_nodes := [(1%N, v, false)] |} ] else Some []
  end.

Example ex_override_run :
  run_patch_vulns nt_versions nt_rank (fun a b => if N.eqb a b then Same else if N.eqb b 3 then DiffMajor else DiffMinor)
                  (fun u p v => N.ltb v 2) ok_analyse [(1%N, Minor)] [9%N] (fuel_bound nt_versions [1%N])
  = OOk [[(1%N, 1%N, 2%N)]].
Proof. vm_compute. reflexivity. Qed.

(* C11 - model of guidedremediation/upgrade/upgrade.go: Level, Level.Allows, Config.Get.
   Model + spec only (no proofs here). *)
From Coq Require Import List ZArith NArith Bool.
Import ListNotations.

(* upgrade.Level: Major = 0, Minor, Patch, None; any other int is "invalid level" *)
Inductive level := Major | Minor | Patch | LNone | LInvalid.

(* deps.dev semver.Diff, in declaration order (most to least significant after Same/Other) *)
Inductive diff := Same | DiffOther | DiffMajor | DiffMinor | DiffPatch | DiffPrerelease | DiffBuild.

Definition level_eqb (a b : level) : bool :=
  match a, b with
  | Major, Major | Minor, Minor | Patch, Patch | LNone, LNone | LInvalid, LInvalid => true
  | _, _ => false
  end.

Definition diff_eqb (a b : diff) : bool :=
  match a, b with
  | Same, Same | DiffOther, DiffOther | DiffMajor, DiffMajor | DiffMinor, DiffMinor
  | DiffPatch, DiffPatch | DiffPrerelease, DiffPrerelease | DiffBuild, DiffBuild => true
  | _, _ => false
  end.

(* the Go int value of a Diff; `d < diff` in npm.go compares these *)
Definition diff_code (d : diff) : Z :=
  match d with
  | Same => 0 | DiffOther => 1 | DiffMajor => 2 | DiffMinor => 3
  | DiffPatch => 4 | DiffPrerelease => 5 | DiffBuild => 6
  end%Z.

(* func (level Level) Allows(diff semver.Diff) bool *)
Definition allows (l : level) (d : diff) : bool :=
  if diff_eqb d Same then true
  else match l with
       | Major => true
       | Minor => negb (diff_eqb d DiffMajor)
       | Patch => negb (diff_eqb d DiffMajor) && negb (diff_eqb d DiffMinor)
       | LNone => false
       | LInvalid => false
       end.

(* ---- specification of Allows, written independently: a difference has a weight (how
   significant the most significant differing component is), a level has a cap. *)
Definition diff_weight (d : diff) : nat :=
  match d with
  | Same => 0
  | DiffMajor => 3
  | DiffMinor => 2
  | DiffPatch | DiffPrerelease | DiffBuild | DiffOther => 1
  end.

Definition level_cap (l : level) : nat :=
  match l with Major => 3 | Minor => 2 | Patch => 1 | LNone => 0 | LInvalid => 0 end.

Definition allows_spec (l : level) (d : diff) : bool := Nat.leb (diff_weight d) (level_cap l).

(* ---- Config: map[string]Level. Package names are interned as N, 0 is the empty string
   (the key under which the default level is stored). A Go map has unique keys; the
   association list is searched front to back. *)
Definition pkgname := N.
Definition config := list (pkgname * level).

Fixpoint cfg_find (c : config) (p : pkgname) : option level :=
  match c with
  | [] => None
  | (k, l) :: c' => if N.eqb k p then Some l else cfg_find c' p
  end.

(* func (c Config) Get(pkg string) Level: explicit entry, else the entry under "", else the
   zero value of Level, which is Major *)
Definition config_get (c : config) (p : pkgname) : level :=
  match cfg_find c p with
  | Some l => l
  | None => match cfg_find c 0%N with Some l => l | None => Major end
  end.

(* specification of Get as a relation *)
Definition config_get_spec (c : config) (p : pkgname) (l : level) : Prop :=
  (In p (map fst c) -> cfg_find c p = Some l) /\
  (~ In p (map fst c) -> In 0%N (map fst c) -> cfg_find c 0%N = Some l) /\
  (~ In p (map fst c) -> ~ In 0%N (map fst c) -> l = Major).

(* ---- NewConfigFromStrings: every spec is "pkg:level" (split at the LAST colon; without a colon the
   whole spec is the level and pkg is empty = the default); levels are the exact lower-case words; invalid
   specs are ignored; a later spec for the same pkg overwrites an earlier one. Strings are byte lists. *)
Definition str := list N.

Fixpoint str_eqb (a b : str) : bool :=
  match a, b with
  | [], [] => true
  | x :: a', y :: b' => N.eqb x y && str_eqb a' b'
  | _, _ => false
  end.

(* strings.LastIndex(c, ":") as a split: (text before the last colon, text after it) *)
Fixpoint split_last_colon (s : str) : option (str * str) :=
  match s with
  | [] => None
  | c :: s' =>
      match split_last_colon s' with
      | Some (p, l) => Some (c :: p, l)
      | None => if N.eqb c 58 then Some ([], s') else None
      end
  end.

Definition level_word (w : str) : option level :=
  if str_eqb w [109;97;106;111;114]%N then Some Major           (* "major" *)
  else if str_eqb w [109;105;110;111;114]%N then Some Minor      (* "minor" *)
  else if str_eqb w [112;97;116;99;104]%N then Some Patch        (* "patch" *)
  else if str_eqb w [110;111;110;101]%N then Some LNone          (* "none" *)
  else None.

Definition spec_entry (s : str) : option (str * level) :=
  let '(p, w) := match split_last_colon s with Some pw => pw | None => ([], s) end in
  match level_word w with Some l => Some (p, l) | None => None end.

Definition sconfig := list (str * level).

Fixpoint sconfig_set (c : sconfig) (k : str) (l : level) : sconfig :=
  match c with
  | [] => [(k, l)]
  | (k', l') :: c' => if str_eqb k' k then (k, l) :: c' else (k', l') :: sconfig_set c' k l
  end.

Definition config_parse (specs : list str) : sconfig :=
  fold_left (fun c s => match spec_entry s with Some (k, l) => sconfig_set c k l | None => c end) specs [].

Fixpoint sconfig_find (c : sconfig) (k : str) : option level :=
  match c with
  | [] => None
  | (k', l) :: c' => if str_eqb k' k then Some l else sconfig_find c' k
  end.

Definition sconfig_get (c : sconfig) (k : str) : level :=
  match sconfig_find c k with
  | Some l => l
  | None => match sconfig_find c [] with Some l => l | None => Major end
  end.

(* specification: the LAST valid spec naming the package decides, else the last valid default spec,
   else major *)
Definition last_for (specs : list str) (k : str) : option level :=
  fold_left (fun r s => match spec_entry s with
                        | Some (k', l) => if str_eqb k' k then Some l else r
                        | None => r
                        end) specs None.

Definition config_parse_get_spec (specs : list str) (k : str) : level :=
  match last_for specs k with
  | Some l => l
  | None => match last_for specs [] with Some l => l | None => Major end
  end.

(* ---- the shape deps.dev's Difference is assumed to have: versions carry a major, minor and
   patch number and a remainder (prerelease / build / further elements); Difference names the
   first of these that differs. Boolean form, used to validate the assumption on recorded
   difference tables. *)
Record comps := { c_maj : Z; c_min : Z; c_pat : Z; c_rest : Z }.

Definition first_component_diffb (ca cb : comps) (d : diff) : bool :=
  if negb (Z.eqb (c_maj ca) (c_maj cb)) then diff_eqb d DiffMajor
  else if negb (Z.eqb (c_min ca) (c_min cb)) then diff_eqb d DiffMinor
  else if negb (Z.eqb (c_pat ca) (c_pat cb)) then diff_eqb d DiffPatch
  else if Z.eqb (c_rest ca) (c_rest cb) then diff_eqb d Same
  else diff_eqb d DiffOther || diff_eqb d DiffPrerelease || diff_eqb d DiffBuild.

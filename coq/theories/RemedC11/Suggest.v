(* C11 - model of guidedremediation/internal/suggest/maven.go: suggestMavenVersion and the
   per-requirement loop of MavenSuggester.Suggest. Model + spec only. *)
From Coq Require Import List ZArith NArith Bool.
From Scalibr Require Import RemedC11.Upgrade.
Import ListNotations.

Definition is_lt (c : comparison) : bool := match c with Lt => true | _ => false end.
Definition is_gt (c : comparison) : bool := match c with Gt => true | _ => false end.

Section Suggest.
  Variable V : Type.                       (* a version string of the package *)
  Variable parses : V -> bool.             (* semver.Maven.Parse succeeds *)
  Variable cmp : V -> V -> comparison.     (* a.Compare(b) on parsed versions (mavenutil.CompareVersions
                                              for a package without special-casing) *)
  Variable dif : V -> V -> diff.           (* second result of v.Difference(u) *)

  (* what semver.Maven.ParseConstraint(req.Version) yields *)
  Inductive constr :=
  | CBad                                   (* does not parse: error *)
  | CSimple (cur : option V)               (* IsSimple; cur = Parse(req.Version), None on error *)
  | CRange (m : V -> bool).                (* a range; m = constraint.MatchVersion *)

  Inductive sres :=
  | SErr                                   (* an error is returned *)
  | SPanic                                 (* nil pointer dereference (observable only; the model never yields it) *)
  | SKeep                                  (* req returned unchanged *)
  | SNew (v : V).                          (* req.Version = v.String() *)

  (* semvers: the versions that parse, in the client's order *)
  Definition semvers (vs : list V) : list V := filter parses vs.

  (* current.Compare(v) < 0 with a possibly nil current (nil sorts first) *)
  Definition nil_lt (cur : option V) (v : V) : bool :=
    match cur with None => true | Some c => is_lt (cmp c v) end.

  (* "Guess the latest version satisfying the constraint is being used" *)
  Fixpoint guess_current (m : V -> bool) (vs : list V) (cur : option V) : option V :=
    match vs with
    | [] => cur
    | v :: vs' => guess_current m vs' (if m v && nil_lt cur v then Some v else cur)
    end.

  (* mavenutil.CompareVersions(vk, v, newReq) < 0 ; newReq nil gives 1 *)
  Definition below_new (v : V) (nr : option V) : bool :=
    match nr with None => false | Some n => is_lt (cmp v n) end.

  (* the loop computing newReq: versions below the running maximum, and versions not above the current
     version (equal-comparing respellings included), are skipped; then the level check *)
  Fixpoint pick (l : level) (cur : V) (vs : list V) (nr : option V) : option V :=
    match vs with
    | [] => nr
    | v :: vs' =>
        if below_new v nr || negb (is_gt (cmp v cur)) then pick l cur vs' nr
        else if allows l (dif v cur) then pick l cur vs' (Some v) else pick l cur vs' nr
    end.

  Definition current_of (c : constr) (vs : list V) : option V :=
    match c with
    | CBad => None
    | CSimple cur => cur
    | CRange m => guess_current m (semvers vs) None
    end.

  (* suggestMavenVersion; verr = cl.Versions returned an error. Without a current version (a range no
     known version matches) or without a candidate the requirement is returned unchanged. *)
  Definition suggest_maven_version (verr : bool) (l : level) (c : constr) (vs : list V) : sres :=
    if verr then SErr else
    match c with
    | CBad => SErr
    | CSimple None => SErr
    | CSimple (Some cur) =>
        match pick l cur (semvers vs) None with
        | Some v => SNew v
        | None => SKeep
        end
    | CRange m =>
        match guess_current m (semvers vs) None with
        | None => SKeep
        | Some cur =>
            match pick l cur (semvers vs) None with
            | Some v => if m v then SKeep else SNew v
            | None => SKeep
            end
        end
    end.
End Suggest.

Arguments CBad {V}.
Arguments CSimple {V} _.
Arguments CRange {V} _.
Arguments SErr {V}.
Arguments SPanic {V}.
Arguments SKeep {V}.
Arguments SNew {V} _.

(* ---- MavenSuggester.Suggest: one entry per requirement of the manifest *)
Record sreq (V : Type) := {
  sr_name : pkgname;
  sr_req : V;                  (* the requirement string as written (a version or a range) *)
  sr_skip : bool;              (* dev dependency with IgnoreDev, or an unresolved ${property} *)
  sr_in_base : bool;           (* OriginalDependency finds it in the base project *)
  sr_res : sres V              (* what suggestMavenVersion returns for it *)
}.
Arguments sr_name {V}. Arguments sr_req {V}. Arguments sr_skip {V}. Arguments sr_in_base {V}. Arguments sr_res {V}.

Inductive sugg (V : Type) :=
| SuggErr                                        (* Suggest returns an error *)
| SuggPanic
| SuggOk (ups : list (pkgname * V * V)).         (* PackageUpdates: name, from, to *)
Arguments SuggErr {V}. Arguments SuggPanic {V}. Arguments SuggOk {V}.

Section SuggestAll.
  Variable V : Type.
  Variable veqb : V -> V -> bool.                (* string equality of requirement / version strings *)

  Fixpoint suggest_all (cfg : config) (rs : list (sreq V)) (acc : list (pkgname * V * V)) : sugg V :=
    match rs with
    | [] => SuggOk (rev acc)
    | r :: rs' =>
        if level_eqb (config_get cfg (sr_name r)) LNone then suggest_all cfg rs' acc
        else if sr_skip r then suggest_all cfg rs' acc
        else match sr_res r with
             | SErr => SuggErr
             | SPanic => SuggPanic
             | SKeep => suggest_all cfg rs' acc
             | SNew v => if veqb v (sr_req r) then suggest_all cfg rs' acc
                         else if sr_in_base r then suggest_all cfg rs' ((sr_name r, sr_req r, v) :: acc)
                         else suggest_all cfg rs' acc
             end
    end.
End SuggestAll.

(* ---- specification, stated on the observable result.
   A suggested version v for a requirement whose assumed current version is cur: *)
Section SuggestSpec.
  Variable V : Type.
  Variable cmp : V -> V -> comparison.
  Variable dif : V -> V -> diff.

  Definition sugg_within_level (l : level) (cur v : V) : bool := allows l (dif v cur).
  Definition sugg_not_down (cur v : V) : bool := negb (is_gt (cmp cur v)).
End SuggestSpec.

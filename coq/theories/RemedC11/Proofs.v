(* C11 - lemmas and proofs for Upgrade / Suggest / Relax / Override. *)
From Coq Require Import List ZArith NArith Bool Arith Lia Permutation PeanoNat.
From Coq Require Import Sorted.
From Scalibr Require Import Lib.SortSearch RemedC11.Upgrade RemedC11.Suggest RemedC11.Relax RemedC11.Override RemedC11.RelaxLoop.
Import ListNotations.

(* ======================================================================= Upgrade *)

Lemma allows_eq_spec_lemma : forall l d, allows l d = allows_spec l d.
Proof. intros [] []; reflexivity. Qed.

Lemma allows_same : forall l, allows l Same = true.
Proof. intros []; reflexivity. Qed.

Lemma allows_major_all : forall d, allows Major d = true.
Proof. intros []; reflexivity. Qed.

Lemma allows_diffmajor_inv : forall l, allows l DiffMajor = true -> l = Major.
Proof. intros [] H; cbv in H; congruence. Qed.

Lemma allows_none_inv : forall d, allows LNone d = true -> d = Same.
Proof. intros [] H; cbv in H; congruence. Qed.

Lemma level_eqb_eq : forall a b, level_eqb a b = true <-> a = b.
Proof. intros [] []; simpl; split; congruence. Qed.

Lemma diff_eqb_eq : forall a b, diff_eqb a b = true <-> a = b.
Proof. intros [] []; simpl; split; congruence. Qed.

Lemma cfg_find_In : forall c p l, cfg_find c p = Some l -> In (p, l) c.
Proof.
  induction c as [|[k l'] c IH]; simpl; intros p l H; [discriminate|].
  destruct (N.eqb_spec k p).
  - inversion H; subst. left; reflexivity.
  - right. apply IH. exact H.
Qed.

Lemma cfg_find_None : forall c p, cfg_find c p = None <-> ~ In p (map fst c).
Proof.
  induction c as [|[k l'] c IH]; simpl; intros p.
  - split; auto.
  - destruct (N.eqb_spec k p).
    + split; [discriminate|]. intros H. exfalso. apply H. left. exact e.
    + rewrite IH. split; intros H; [intros [E|E]; [congruence|auto]|intros E; apply H; right; exact E].
Qed.

Lemma config_get_meets_spec : forall c p, config_get_spec c p (config_get c p).
Proof.
  intros c p. unfold config_get_spec, config_get.
  destruct (cfg_find c p) eqn:E.
  - split; [reflexivity|]. assert (In p (map fst c)).
    { apply cfg_find_In in E. change p with (fst (p, l)). apply in_map. exact E. }
    split; intros; contradiction.
  - apply cfg_find_None in E. split; [intros; contradiction|].
    destruct (cfg_find c 0%N) eqn:E0.
    + split; [reflexivity|]. intros _ H0. exfalso. apply H0.
      apply cfg_find_In in E0. change 0%N with (fst (0%N, l)). apply in_map. exact E0.
    + split; [|reflexivity]. intros _ H0. apply cfg_find_None in E0. contradiction.
Qed.

(* ---- NewConfigFromStrings followed by Get *)
Lemma str_eqb_eq : forall a b, str_eqb a b = true <-> a = b.
Proof.
  induction a as [|x a IH]; intros [|y b]; simpl; split; try congruence; try reflexivity.
  - intros H. apply andb_true_iff in H as [H1 H2]. apply N.eqb_eq in H1. apply IH in H2. congruence.
  - intros H. inversion H; subst. rewrite N.eqb_refl. apply IH. reflexivity.
Qed.

Lemma str_eqb_refl : forall a, str_eqb a a = true.
Proof. intros a. apply str_eqb_eq. reflexivity. Qed.

Lemma sconfig_find_set : forall c k' l k,
  sconfig_find (sconfig_set c k' l) k = if str_eqb k' k then Some l else sconfig_find c k.
Proof.
  induction c as [|[k0 l0] c IH]; intros k' l k; cbn [sconfig_set sconfig_find]; [reflexivity|].
  destruct (str_eqb k0 k') eqn:E0; cbn [sconfig_find].
  - apply str_eqb_eq in E0. subst k0. destruct (str_eqb k' k); reflexivity.
  - rewrite IH. destruct (str_eqb k0 k) eqn:E1; [|reflexivity].
    apply str_eqb_eq in E1. subst k0. destruct (str_eqb k' k) eqn:E2; [|reflexivity].
    apply str_eqb_eq in E2. subst k'. rewrite str_eqb_refl in E0. discriminate.
Qed.

Lemma config_parse_find : forall specs c k,
  sconfig_find (fold_left (fun c s => match spec_entry s with Some (k, l) => sconfig_set c k l | None => c end) specs c) k =
  fold_left (fun r s => match spec_entry s with
                        | Some (k', l) => if str_eqb k' k then Some l else r
                        | None => r
                        end) specs (sconfig_find c k).
Proof.
  induction specs as [|s specs IH]; intros c k; cbn [fold_left]; [reflexivity|].
  rewrite IH. destruct (spec_entry s) as [[k' l]|]; [|reflexivity].
  rewrite sconfig_find_set. reflexivity.
Qed.

Lemma config_parse_correct_lemma : forall specs k,
  sconfig_get (config_parse specs) k = config_parse_get_spec specs k.
Proof.
  intros specs k. unfold sconfig_get, config_parse_get_spec, config_parse, last_for.
  rewrite !config_parse_find. reflexivity.
Qed.

(* ---- composition of allowed differences *)
Section Compose.
  Variable V : Type.
  Variable d : V -> V -> diff.
  Variable comp : V -> comps.
  Hypothesis diff_first_component : forall a b, first_component_diffb (comp a) (comp b) (d a b) = true.

  Lemma fcd_cases : forall a b,
    (c_maj (comp a) <> c_maj (comp b) /\ d a b = DiffMajor) \/
    (c_maj (comp a) = c_maj (comp b) /\ c_min (comp a) <> c_min (comp b) /\ d a b = DiffMinor) \/
    (c_maj (comp a) = c_maj (comp b) /\ c_min (comp a) = c_min (comp b) /\ c_pat (comp a) <> c_pat (comp b) /\ d a b = DiffPatch) \/
    (c_maj (comp a) = c_maj (comp b) /\ c_min (comp a) = c_min (comp b) /\ c_pat (comp a) = c_pat (comp b) /\
       c_rest (comp a) = c_rest (comp b) /\ d a b = Same) \/
    (c_maj (comp a) = c_maj (comp b) /\ c_min (comp a) = c_min (comp b) /\ c_pat (comp a) = c_pat (comp b) /\
       c_rest (comp a) <> c_rest (comp b) /\ (d a b = DiffOther \/ d a b = DiffPrerelease \/ d a b = DiffBuild)).
  Proof.
    intros a b. pose proof (diff_first_component a b) as H. unfold first_component_diffb in H.
    destruct (Z.eqb_spec (c_maj (comp a)) (c_maj (comp b))) as [E1|E1]; simpl in H.
    2:{ left. split; [exact E1|]. apply diff_eqb_eq. exact H. }
    destruct (Z.eqb_spec (c_min (comp a)) (c_min (comp b))) as [E2|E2]; simpl in H.
    2:{ right; left. repeat split; auto. apply diff_eqb_eq. exact H. }
    destruct (Z.eqb_spec (c_pat (comp a)) (c_pat (comp b))) as [E3|E3]; simpl in H.
    2:{ right; right; left. repeat split; auto. apply diff_eqb_eq. exact H. }
    destruct (Z.eqb_spec (c_rest (comp a)) (c_rest (comp b))) as [E4|E4].
    - right; right; right; left. repeat split; auto. apply diff_eqb_eq. exact H.
    - right; right; right; right. repeat split; auto.
      apply orb_true_iff in H as [H|H]; [apply orb_true_iff in H as [H|H]|]; apply diff_eqb_eq in H; auto.
  Qed.

  Lemma allows_compose_lemma : forall l a b c,
    allows l (d a b) = true -> allows l (d b c) = true -> allows l (d a c) = true.
  Proof.
    intros l a b c Hab Hbc.
    destruct (fcd_cases a b) as [[N1 D1]|[[M1 [N1 D1]]|[[M1 [M2 [N1 D1]]]|[[M1 [M2 [M3 [R1 D1]]]]|[M1 [M2 [M3 [R1 D1]]]]]]]];
    destruct (fcd_cases b c) as [[N2 D2]|[[P1 [N2 D2]]|[[P1 [P2 [N2 D2]]]|[[P1 [P2 [P3 [R2 D2]]]]|[P1 [P2 [P3 [R2 D2]]]]]]]];
    destruct (fcd_cases a c) as [[N3 D3]|[[Q1 [N3 D3]]|[[Q1 [Q2 [N3 D3]]]|[[Q1 [Q2 [Q3 [R3 D3]]]]|[Q1 [Q2 [Q3 [R3 D3]]]]]]]];
    rewrite ?D1, ?D2, ?D3 in *;
    try (exfalso; congruence);
    try (destruct l; cbv in *; congruence);
    try (destruct D1 as [D1|[D1|D1]]; rewrite D1 in *);
    try (destruct D2 as [D2|[D2|D2]]; rewrite D2 in *);
    try (destruct D3 as [D3|[D3|D3]]; rewrite D3 in *);
    try (destruct l; cbv in *; congruence).
  Qed.
End Compose.

(* ======================================================================= Suggest *)
Section SuggestProofs.
  Variable V : Type.
  Variable parses : V -> bool.
  Variable cmp : V -> V -> comparison.
  Variable dif : V -> V -> diff.

  (* every version picked passed the level check against the current version and is not below it *)
  Lemma pick_allowed : forall l cur vs nr v,
    pick V cmp dif l cur vs nr = Some v ->
    nr = Some v \/ (In v vs /\ allows l (dif v cur) = true /\ cmp v cur = Gt).
  Proof.
    induction vs as [|v0 vs IH]; intros nr v H; cbn [pick] in H.
    - left. exact H.
    - destruct (below_new V cmp v0 nr || negb (is_gt (cmp v0 cur))) eqn:EB.
      + destruct (IH _ _ H) as [E|[I A]]; [left; exact E|right; split; [right; exact I|exact A]].
      + apply orb_false_iff in EB as [_ EC]. apply negb_false_iff in EC.
        assert (EC' : cmp v0 cur = Gt) by (destruct (cmp v0 cur); simpl in EC; congruence). clear EC. rename EC' into EC.
        destruct (allows l (dif v0 cur)) eqn:EA.
        * destruct (IH _ _ H) as [E|[I A]].
          -- inversion E; subst. right. split; [left; reflexivity|]. split; [exact EA|exact EC].
          -- right; split; [right; exact I|exact A].
        * destruct (IH _ _ H) as [E|[I A]]; [left; exact E|right; split; [right; exact I|exact A]].
  Qed.

  Lemma semvers_In : forall vs v, In v (semvers V parses vs) <-> In v vs /\ parses v = true.
  Proof. intros vs v. unfold semvers. apply filter_In. Qed.

  (* what a changed requirement looks like *)
  Lemma suggest_new_inv : forall verr l c vs v,
    suggest_maven_version V parses cmp dif verr l c vs = SNew v ->
    exists cur, current_of V parses cmp c vs = Some cur /\ allows l (dif v cur) = true /\
                cmp v cur = Gt /\ In v vs /\ parses v = true.
  Proof.
    intros verr l c vs v H. unfold suggest_maven_version in H.
    destruct verr; [discriminate|].
    destruct c as [|[cur|]|m]; try discriminate.
    - destruct (pick V cmp dif l cur (semvers V parses vs) None) as [w|] eqn:EP; [|discriminate].
      inversion H; subst. exists cur. split; [reflexivity|].
      destruct (pick_allowed _ _ _ _ _ EP) as [E|[I [A B]]]; [discriminate|].
      apply semvers_In in I. tauto.
    - cbn [current_of].
      destruct (guess_current V cmp m (semvers V parses vs) None) as [cur|] eqn:EG; [|discriminate].
      destruct (pick V cmp dif l cur (semvers V parses vs) None) as [w|] eqn:EP; [|discriminate].
      destruct (m w); [discriminate|]. inversion H; subst. exists cur. split; [reflexivity|].
      destruct (pick_allowed _ _ _ _ _ EP) as [E|[I [A B]]]; [discriminate|].
      apply semvers_In in I. tauto.
  Qed.

  Lemma suggest_within_level_lemma : forall verr l c vs v,
    suggest_maven_version V parses cmp dif verr l c vs = SNew v ->
    exists cur, current_of V parses cmp c vs = Some cur /\ allows l (dif v cur) = true /\
                In v vs /\ parses v = true.
  Proof.
    intros verr l c vs v H. destruct (suggest_new_inv _ _ _ _ _ H) as [cur [A [B [_ [C D]]]]].
    exists cur. auto.
  Qed.

  Lemma suggest_strictly_up_lemma :
    (forall a b, cmp b a = CompOpp (cmp a b)) ->
    forall verr l c vs cur v,
    current_of V parses cmp c vs = Some cur ->
    suggest_maven_version V parses cmp dif verr l c vs = SNew v -> cmp cur v = Lt.
  Proof.
    intros Hanti verr l c vs cur v HC H.
    destruct (suggest_new_inv _ _ _ _ _ H) as [cur' [A [_ [B _]]]].
    rewrite HC in A. inversion A; subst cur'.
    rewrite (Hanti v cur), B. reflexivity.
  Qed.

  Lemma suggest_not_downgrade_lemma :
    (forall a b, cmp b a = CompOpp (cmp a b)) ->
    forall verr l c vs cur v,
    current_of V parses cmp c vs = Some cur ->
    suggest_maven_version V parses cmp dif verr l c vs = SNew v -> cmp cur v <> Gt.
  Proof.
    intros Hanti verr l c vs cur v HC H. rewrite (suggest_strictly_up_lemma Hanti _ _ _ _ _ _ HC H). discriminate.
  Qed.

  Lemma suggest_no_panic_lemma : forall verr l c vs,
    suggest_maven_version V parses cmp dif verr l c vs <> SPanic.
  Proof.
    intros verr l c vs. unfold suggest_maven_version.
    destruct verr; [discriminate|].
    destruct c as [|[cur|]|m]; try discriminate.
    - destruct (pick V cmp dif l cur (semvers V parses vs) None); discriminate.
    - destruct (guess_current V cmp m (semvers V parses vs) None) as [cur|]; [|discriminate].
      destruct (pick V cmp dif l cur (semvers V parses vs) None) as [w|]; [|discriminate].
      destruct (m w); discriminate.
  Qed.
End SuggestProofs.

Lemma suggest_none_untouched_gen : forall (V : Type) (veqb : V -> V -> bool) cfg rs acc ups,
  suggest_all V veqb cfg rs acc = SuggOk ups ->
  (forall u, In u acc -> config_get cfg (fst (fst u)) <> LNone) ->
  forall u, In u ups -> config_get cfg (fst (fst u)) <> LNone.
Proof.
  intros V veqb cfg. induction rs as [|r rs IH]; intros acc ups H Hacc u Hu; cbn [suggest_all] in H.
  - inversion H; subst. apply Hacc. apply in_rev. exact Hu.
  - destruct (level_eqb (config_get cfg (sr_name r)) LNone) eqn:EL; [eapply IH; eauto|].
    destruct (sr_skip r); [eapply IH; eauto|].
    destruct (sr_res r) as [| | |v]; try discriminate; [eapply IH; eauto|].
    destruct (veqb v (sr_req r)); [eapply IH; eauto|].
    destruct (sr_in_base r); [|eapply IH; eauto].
    eapply IH; [exact H| |exact Hu].
    intros u' [E|I]; [|apply Hacc; exact I]. subst u'. simpl.
    intros E. apply level_eqb_eq in E. congruence.
Qed.

(* ======================================================================= Relax *)
Section RelaxProofs.
  Variable V : Type.
  Variable parses matches is_pre : V -> bool.
  Variable dif : V -> V -> option diff.
  Variable cmp : V -> V -> comparison.

  Notation scan := (scan_top V parses matches is_pre).
  Notation bloop := (best_loop V parses is_pre dif).
  Notation dov := (dif_or_other V dif).

  Definition pm (v : V) : bool := parses v && matches v.

  (* what the downward scan returns *)
  Lemma scan_top_spec : forall rv above next np lst nx ab np',
    scan rv above next np = (Some lst, Some (nx, ab), np') ->
    exists rv1 rv2, rv = rv1 ++ lst :: rv2 /\ pm lst = true /\ (forall x, In x rv1 -> pm x = false) /\
      (next = Some (nx, ab) \/ exists r1 r2, rv1 = r1 ++ nx :: r2 /\ ab = rev r1 ++ above).
  Proof.
    induction rv as [|v rv IH]; intros above next np lst nx ab np' H; cbn [scan_top] in H; [discriminate|].
    destruct (parses v) eqn:EP; cbn [negb] in H.
    - destruct (matches v) eqn:EM.
      + inversion H; subst. exists [], rv. split; [reflexivity|]. split; [unfold pm; rewrite EP, EM; reflexivity|].
        split; [intros x []|left; reflexivity].
      + assert (Hv : pm v = false) by (unfold pm; rewrite EP, EM; reflexivity).
        destruct (negb (is_pre v) || np).
        * destruct (IH _ _ _ _ _ _ _ H) as [rv1 [rv2 [E [Hl [Hn Hx]]]]].
          exists (v :: rv1), rv2. split; [rewrite E; reflexivity|]. split; [exact Hl|].
          split; [intros x [<-|I]; auto|].
          right. destruct Hx as [Hx|[r1 [r2 [E1 E2]]]].
          -- inversion Hx; subst. exists [], rv1. split; reflexivity.
          -- exists (v :: r1), r2. split; [rewrite E1; reflexivity|].
             rewrite E2. cbn [rev]. rewrite <- app_assoc. reflexivity.
        * destruct (IH _ _ _ _ _ _ _ H) as [rv1 [rv2 [E [Hl [Hn Hx]]]]].
          exists (v :: rv1), rv2. split; [rewrite E; reflexivity|]. split; [exact Hl|].
          split; [intros x [<-|I]; auto|].
          destruct Hx as [Hx|[r1 [r2 [E1 E2]]]]; [left; exact Hx|right].
          exists (v :: r1), r2. split; [rewrite E1; reflexivity|].
          rewrite E2. cbn [rev]. rewrite <- app_assoc. reflexivity.
    - assert (Hv : pm v = false) by (unfold pm; rewrite EP; reflexivity).
      destruct (IH _ _ _ _ _ _ _ H) as [rv1 [rv2 [E [Hl [Hn Hx]]]]].
      exists (v :: rv1), rv2. split; [rewrite E; reflexivity|]. split; [exact Hl|].
      split; [intros x [<-|I]; auto|].
      destruct Hx as [Hx|[r1 [r2 [E1 E2]]]]; [left; exact Hx|right].
      exists (v :: r1), r2. split; [rewrite E1; reflexivity|].
      rewrite E2. cbn [rev]. rewrite <- app_assoc. reflexivity.
  Qed.

  Lemma find_app_skip : forall (f : V -> bool) l1 x l2,
    (forall y, In y l1 -> f y = false) -> f x = true -> find f (l1 ++ x :: l2) = Some x.
  Proof.
    induction l1 as [|y l1 IH]; intros x l2 Hn Hx; simpl.
    - rewrite Hx. reflexivity.
    - rewrite (Hn y (or_introl eq_refl)). apply IH; auto. intros z Hz. apply Hn. right. exact Hz.
  Qed.

  (* decomposition of vers around the highest match and the next version *)
  Lemma scan_top_vers : forall vers lst nx ab np',
    scan (rev vers) [] None true = (Some lst, Some (nx, ab), np') ->
    highest_match V parses matches vers = Some lst /\
    exists pre mid, vers = pre ++ lst :: mid ++ nx :: ab.
  Proof.
    intros vers lst nx ab np' H.
    destruct (scan_top_spec _ _ _ _ _ _ _ _ H) as [rv1 [rv2 [E [Hl [Hn Hx]]]]].
    split.
    - unfold highest_match. rewrite E. apply find_app_skip; auto.
    - destruct Hx as [Hx|[r1 [r2 [E1 E2]]]]; [discriminate|].
      exists (rev rv2), (rev r2).
      rewrite <- (rev_involutive vers), E, E1. rewrite app_nil_r in E2. subst ab.
      rewrite rev_app_distr. cbn [rev]. rewrite rev_app_distr. cbn [rev].
      repeat rewrite <- app_assoc. reflexivity.
  Qed.

  Lemma best_loop_cases : forall l cmpv d0 np vs b r,
    bloop l cmpv d0 np vs b = r ->
    r = b \/ (In r vs /\ exists d, dif cmpv r = Some d /\ allows l d = true).
  Proof.
    induction vs as [|v vs IH]; intros b r H; cbn [best_loop] in H; [left; congruence|].
    destruct (dif cmpv v) as [d|] eqn:ED.
    - destruct (allows l d) eqn:EA; cbn [negb] in H; [|left; congruence].
      destruct (Z.ltb (diff_code d) (diff_code d0)); [left; congruence|].
      destruct (parses v); cbn [negb] in H.
      + destruct (negb (is_pre v) || np).
        * destruct (IH _ _ H) as [E|[I X]]; [|right; split; [right; exact I|exact X]].
          right. rewrite E. split; [left; reflexivity|exists d; auto].
        * destruct (IH _ _ H) as [E|[I X]]; [left; exact E|right; split; [right; exact I|exact X]].
      + destruct (IH _ _ H) as [E|[I X]]; [left; exact E|right; split; [right; exact I|exact X]].
    - destruct (IH _ _ H) as [E|[I X]]; [left; exact E|right; split; [right; exact I|exact X]].
  Qed.

  Lemma relax_none_lemma : forall c_ok verr base vers, relax_npm V parses matches is_pre dif LNone c_ok verr base vers = None.
  Proof. reflexivity. Qed.

  (* the common shape of a successful relaxation; from = the version the upgrade is measured from *)
  Lemma relax_some_inv : forall l c_ok verr base vers op best,
    relax_npm V parses matches is_pre dif l c_ok verr base vers = Some (op, best) ->
    l <> LNone /\
    exists lst nx ab pre mid from,
      highest_match V parses matches vers = Some lst /\
      relax_from V parses matches base vers = Some from /\
      vers = pre ++ lst :: mid ++ nx :: ab /\
      In best (nx :: ab) /\
      allows l (dov from nx) = true /\
      allows l (dov from best) = true /\
      (op = Caret -> Z.ltb (diff_code (dov from nx)) 4 = true).
  Proof.
    intros l c_ok verr base vers op best H. unfold relax_npm in H.
    destruct (level_eqb l LNone) eqn:EL; [discriminate|].
    split; [intros E; subst; discriminate|].
    destruct c_ok; cbn [negb] in H; [|discriminate].
    destruct verr; [discriminate|].
    destruct (scan (rev vers) [] None true) as [[olst onext] np'] eqn:ES.
    destruct onext as [[nx ab]|]; [|destruct olst; discriminate].
    destruct olst as [lst|]; [|discriminate].
    destruct (scan_top_vers _ _ _ _ _ ES) as [HH [pre [mid EV]]].
    set (from := match base with Some b => b | None => lst end) in *.
    assert (HF : relax_from V parses matches base vers = Some from).
    { unfold relax_from, from. destruct base; [reflexivity|exact HH]. }
    destruct (allows l (dov from nx)) eqn:EA; cbn [negb] in H; [|discriminate].
    exists lst, nx, ab, pre, mid, from. split; [exact HH|]. split; [exact HF|]. split; [exact EV|].
    destruct (diff_eqb (dov from nx) DiffMajor) eqn:EM.
    - (* one major step: level must be major *)
      apply diff_eqb_eq in EM. rewrite EM in EA. apply allows_diffmajor_inv in EA. subst l.
      cbn [diff_eqb] in H. inversion H; subst.
      split; [|split; [apply allows_major_all|split; [apply allows_major_all|intros _; rewrite EM; reflexivity]]].
      destruct (best_loop_cases Major nx DiffMinor np' ab nx _ eq_refl) as [E|[I _]]; [rewrite E; left; reflexivity|right; exact I].
    - assert (EB : bloop l from (dov from nx) np' ab nx = best /\
                   op = (if Z.leb (diff_code DiffPatch) (diff_code (dov from nx)) then Tilde else Caret)) by (inversion H; auto).
      destruct EB as [EB EO]. clear H.
      assert (HT : op = Caret -> Z.ltb (diff_code (dov from nx)) 4 = true).
      { intros HT. rewrite HT in EO. change (diff_code DiffPatch) with 4%Z in EO.
        destruct (Z.leb_spec 4 (diff_code (dov from nx))); [discriminate|]. apply Z.ltb_lt. assumption. }
      destruct (best_loop_cases l from (dov from nx) np' ab nx best EB) as [E|[I [d [Ed Ad]]]].
      + rewrite E. split; [left; reflexivity|]. split; [exact EA|]. split; [exact EA|exact HT].
      + split; [right; exact I|]. split; [exact EA|]. split; [|exact HT].
        unfold dif_or_other. rewrite Ed. exact Ad.
  Qed.

  Lemma relax_level_checked_lemma : forall l c_ok verr base vers op best,
    relax_npm V parses matches is_pre dif l c_ok verr base vers = Some (op, best) ->
    exists from, relax_from V parses matches base vers = Some from /\ allows l (dov from best) = true.
  Proof.
    intros l c_ok verr base vers op best H.
    destruct (relax_some_inv _ _ _ _ _ _ _ H) as [_ [lst [nx [ab [pre [mid [from [_ [HF [_ [_ [_ [A _]]]]]]]]]]]]].
    exists from. auto.
  Qed.

  (* strictly sorted list: everything after a position is greater *)
  Lemma ssorted_app_after : forall (l1 : list V) x l2,
    ssorted cmp (l1 ++ x :: l2) = true -> forall y, In y l2 -> ltb cmp x y = true.
  Proof.
    induction l1 as [|z l1 IH]; intros x l2 HS y Hy; cbn [app ssorted] in HS.
    - apply andb_true_iff in HS as [G _]. rewrite all_gt_In in G. apply G. exact Hy.
    - apply andb_true_iff in HS as [_ S]. eapply IH; eauto.
  Qed.

  Lemma relax_strictly_up_lemma : forall l c_ok verr base vers op best,
    ssorted cmp vers = true ->
    relax_npm V parses matches is_pre dif l c_ok verr base vers = Some (op, best) ->
    exists lst, highest_match V parses matches vers = Some lst /\ cmp lst best = Lt.
  Proof.
    intros l c_ok verr base vers op best HS H.
    destruct (relax_some_inv _ _ _ _ _ _ _ H) as [_ [lst [nx [ab [pre [mid [from [HH [_ [EV [IB _]]]]]]]]]]].
    exists lst. split; [exact HH|].
    rewrite EV in HS.
    assert (L : ltb cmp lst best = true).
    { eapply ssorted_app_after; [exact HS|]. apply in_or_app. right. exact IB. }
    unfold ltb in L. destruct (cmp lst best); congruence.
  Qed.

  (* ---- what the emitted range admits *)
  Variable comp : V -> comps.
  Hypothesis diff_first_component : forall a b, first_component_diffb (comp a) (comp b) (dov a b) = true.

  Hypothesis diff_classified : forall a b, cmp a b = Lt -> classified (dov a b) = true.

  (* the resolved version is not above the highest match *)
  Hypothesis cmp_le_lt_trans : forall a b c, cmp a b <> Gt -> cmp b c = Lt -> cmp a c = Lt.

  Lemma relax_range_lemma : forall l c_ok verr base vers op best,
    ssorted cmp vers = true ->
    (forall b lst, base = Some b -> highest_match V parses matches vers = Some lst -> cmp b lst <> Gt) ->
    relax_npm V parses matches is_pre dif l c_ok verr base vers = Some (op, best) ->
    valid_level l = true ->
    exists from, relax_from V parses matches base vers = Some from /\
      forall v, range_admits V dif cmp op best v = true -> allows l (dov from v) = true.
  Proof.
    intros l c_ok verr base vers op best HS HB H HD.
    destruct (relax_some_inv _ _ _ _ _ _ _ H) as [_ [lst [nx [ab [pre [mid [from [HH [HF [EV [_ [AN [A HC]]]]]]]]]]]]].
    exists from. split; [exact HF|]. intros v HR.
    apply (allows_compose_lemma V dov comp diff_first_component l from best v A).
    unfold range_admits in HR. apply andb_true_iff in HR as [_ HR].
    destruct l; cbn [valid_level] in HD; try discriminate.
    - apply allows_major_all.
    - destruct op; [apply andb_true_iff in HR as [HR _]|];
        destruct (dov best v); cbv in HR |- *; congruence.
    - destruct op.
      + apply andb_true_iff in HR as [H1 H2].
        destruct (dov best v); cbv in H1, H2 |- *; congruence.
      + (* a caret range under level patch would need an unclassified step from -> nx *)
        exfalso. specialize (HC eq_refl).
        assert (L : cmp lst nx = Lt).
        { assert (L' : ltb cmp lst nx = true).
          { rewrite EV in HS. eapply ssorted_app_after; [exact HS|]. apply in_or_app. right. left. reflexivity. }
          unfold ltb in L'. destruct (cmp lst nx); congruence. }
        assert (L2 : cmp from nx = Lt).
        { unfold relax_from in HF. destruct base as [b|].
          - inversion HF; subst. eapply cmp_le_lt_trans; [eapply HB; eauto|exact L].
          - rewrite HH in HF. inversion HF; subst. exact L. }
        assert (C : classified (dov from nx) = true) by (apply diff_classified; exact L2).
        destruct (dov from nx); cbv in AN, HC, C; congruence.
  Qed.
End RelaxProofs.

(* ======================================================================= Override: getVersionsGreater *)
(* elements of the sorted list, for any comparator *)
Lemma ins_back_elems : forall c x rp z, In z (ins_back c x rp) <-> z = x \/ In z rp.
Proof.
  intros c x. induction rp as [|y rp IH]; intros z; cbn [ins_back].
  - simpl. intuition congruence.
  - destruct (is_lt (c x y)); simpl; [rewrite IH|]; intuition congruence.
Qed.

Lemma fold_ins_elems : forall c l rp z,
  In z (fold_left (fun rp x => ins_back c x rp) l rp) <-> In z l \/ In z rp.
Proof.
  intros c. induction l as [|x l IH]; intros rp z; cbn [fold_left].
  - simpl. intuition.
  - rewrite IH, ins_back_elems. simpl. intuition congruence.
Qed.

Lemma gvg_subset : forall rank vs vk w, In w (get_versions_greater rank vs vk) -> In w vs.
Proof.
  intros rank vs vk w H. unfold get_versions_greater in H.
  match type of H with In _ (skipn ?n ?l) => assert (Hs : In w l) by (rewrite <- (firstn_skipn n l); apply in_or_app; right; exact H) end.
  unfold sorted_versions in Hs. destruct (is_sorted (cmpf rank vs) vs); [exact Hs|].
  unfold go_sort in Hs. apply in_rev in Hs. apply fold_ins_elems in Hs. destruct Hs as [Hs|[]]. exact Hs.
Qed.


Section GvgProofs.
  Variable rank : ver -> option Z.
  Definition rk (v : ver) : Z := match rank v with Some r => r | None => 0%Z end.

  (* strictly descending / ascending by rank, in the strong (all pairs) form *)
  Fixpoint sdesc (l : list ver) : Prop :=
    match l with [] => True | y :: l' => (forall z, In z l' -> (rk z < rk y)%Z) /\ sdesc l' end.
  Fixpoint sasc (l : list ver) : Prop :=
    match l with [] => True | y :: l' => (forall z, In z l' -> (rk y < rk z)%Z) /\ sasc l' end.

  Variable L : list ver.                      (* the listed versions *)
  Variable c : ver -> ver -> comparison.
  Hypothesis Hc : forall a b, In a L -> In b L -> c a b = Z.compare (rk a) (rk b).
  Hypothesis rank_inj : forall a b, In a L -> In b L -> rk a = rk b -> a = b.

  Lemma c_lt : forall a b, In a L -> In b L -> is_lt (c a b) = true <-> (rk a < rk b)%Z.
  Proof.
    intros a b Ha Hb. rewrite (Hc a b Ha Hb). unfold is_lt.
    destruct (Z.compare_spec (rk a) (rk b)); split; intros; try lia; try discriminate; reflexivity.
  Qed.

  Lemma ins_back_spec : forall x rp,
    In x L -> incl rp L -> sdesc rp -> ~ In x rp ->
    sdesc (ins_back c x rp) /\ (forall z, In z (ins_back c x rp) <-> z = x \/ In z rp).
  Proof.
    intros x rp Hx. induction rp as [|y rp IH]; intros Hi Hs Hn; cbn [ins_back].
    - split; [simpl; split; [intros z []|exact I]|]. intros z; simpl; intuition congruence.
    - assert (Hy : In y L) by (apply Hi; left; reflexivity).
      assert (Hi' : incl rp L) by (intros z Hz; apply Hi; right; exact Hz).
      destruct Hs as [Hs1 Hs2].
      destruct (is_lt (c x y)) eqn:E.
      + apply (c_lt x y Hx Hy) in E.
        destruct (IH Hi' Hs2 (fun H => Hn (or_intror H))) as [IH1 IH2].
        split.
        * simpl. split; [|exact IH1]. intros z Hz. apply IH2 in Hz. destruct Hz as [->|Hz]; [exact E|apply Hs1; exact Hz].
        * intros z. simpl. rewrite IH2. intuition congruence.
      + assert (Hlt : (rk y < rk x)%Z).
        { assert (~ (rk x < rk y)%Z) by (intros H; apply (c_lt x y Hx Hy) in H; congruence).
          assert (rk x <> rk y).
          { intros H'. apply Hn. left. symmetry. apply rank_inj; auto. }
          lia. }
        split.
        * simpl. split; [|split; [exact Hs1|exact Hs2]].
          intros z [<-|Hz]; [exact Hlt|]. specialize (Hs1 z Hz). lia.
        * intros z. simpl. intuition congruence.
  Qed.

  Lemma fold_ins_spec : forall l rp,
    incl l L -> incl rp L -> sdesc rp -> NoDup l -> (forall z, In z l -> ~ In z rp) ->
    sdesc (fold_left (fun rp x => ins_back c x rp) l rp) /\
    (forall z, In z (fold_left (fun rp x => ins_back c x rp) l rp) <-> In z l \/ In z rp).
  Proof.
    induction l as [|x l IH]; intros rp Hl Hr Hs Hnd Hdis; cbn [fold_left].
    - split; [exact Hs|]. intros z; simpl; intuition congruence.
    - assert (Hx : In x L) by (apply Hl; left; reflexivity).
      inversion Hnd as [|? ? Hnx Hnd']; subst.
      destruct (ins_back_spec x rp Hx Hr Hs (Hdis x (or_introl eq_refl))) as [S1 S2].
      destruct (IH (ins_back c x rp)) as [R1 R2].
      + intros z Hz; apply Hl; right; exact Hz.
      + intros z Hz. apply S2 in Hz. destruct Hz as [->|Hz]; auto.
      + exact S1.
      + exact Hnd'.
      + intros z Hz Hin. apply S2 in Hin. destruct Hin as [->|Hin]; [contradiction|].
        apply (Hdis z (or_intror Hz)). exact Hin.
      + split; [exact R1|]. intros z. rewrite R2, S2. simpl. intuition congruence.
  Qed.

  Lemma sasc_app_one : forall l y, sasc l -> (forall z, In z l -> (rk z < rk y)%Z) -> sasc (l ++ [y]).
  Proof.
    induction l as [|x l IH]; intros y Hs Hy; simpl.
    - split; [intros z []|exact I].
    - destruct Hs as [H1 H2]. split.
      + intros z Hz. apply in_app_or in Hz. destruct Hz as [Hz|[<-|[]]]; [apply H1; exact Hz|apply Hy; left; reflexivity].
      + apply IH; [exact H2|]. intros z Hz. apply Hy. right. exact Hz.
  Qed.

  Lemma sdesc_rev : forall l, sdesc l -> sasc (rev l).
  Proof.
    induction l as [|y l IH]; intros Hs; simpl; [exact I|].
    destruct Hs as [H1 H2]. apply sasc_app_one; [apply IH; exact H2|].
    intros z Hz. apply in_rev in Hz. apply H1. exact Hz.
  Qed.

  Lemma go_sort_spec : forall l, incl l L -> NoDup l ->
    sasc (go_sort c l) /\ (forall z, In z (go_sort c l) <-> In z l).
  Proof.
    intros l Hl Hnd. unfold go_sort.
    destruct (fold_ins_spec l [] Hl (fun z (H : In z []) => match H with end) I Hnd (fun z _ (H : In z []) => H)) as [S1 S2].
    split; [apply sdesc_rev; exact S1|].
    intros z. rewrite <- in_rev. rewrite S2. simpl. intuition congruence.
  Qed.

  (* adjacent non-decreasing + distinct ranks = strictly ascending *)
  Lemma is_sorted_sasc : forall l, incl l L -> NoDup l -> is_sorted c l = true -> sasc l.
  Proof.
    induction l as [|a l IH]; intros Hl Hnd Hs; [exact I|].
    inversion Hnd as [|? ? Hna Hnd']; subst.
    assert (Ha : In a L) by (apply Hl; left; reflexivity).
    assert (Hl' : incl l L) by (intros z Hz; apply Hl; right; exact Hz).
    destruct l as [|b l].
    - simpl. split; [intros z []|exact I].
    - cbn [is_sorted] in Hs. apply andb_true_iff in Hs as [H1 H2].
      assert (IHs := IH Hl' Hnd' H2).
      split; [|exact IHs].
      assert (Hb : In b L) by (apply Hl'; left; reflexivity).
      assert (Hab : (rk a < rk b)%Z).
      { assert (~ (rk b < rk a)%Z).
        { intros H. apply (c_lt b a Hb Ha) in H. rewrite H in H1. discriminate. }
        assert (rk a <> rk b).
        { intros H'. apply Hna. left. symmetry. apply rank_inj; auto. }
        lia. }
      intros z [<-|Hz]; [exact Hab|]. destruct IHs as [I1 _]. specialize (I1 z Hz). lia.
  Qed.

  Lemma sasc_split : forall (t : Z) l, sasc l ->
    exists a b, l = a ++ b /\ (forall x, In x a -> (rk x < t)%Z) /\ (forall x, In x b -> (t <= rk x)%Z).
  Proof.
    intros t. induction l as [|y l IH]; intros Hs.
    - exists [], []. split; [reflexivity|]. split; intros x [].
    - destruct Hs as [H1 H2]. destruct (Z_lt_ge_dec (rk y) t) as [Hlt|Hge].
      + destruct (IH H2) as [a [b [E [Ha Hb]]]]. exists (y :: a), b. split; [rewrite E; reflexivity|].
        split; [intros x [<-|Hx]; auto|exact Hb].
      + exists [], (y :: l). split; [reflexivity|]. split; [intros x []|].
        intros x [<-|Hx]; [lia|]. specialize (H1 x Hx). lia.
  Qed.

  Lemma sasc_app_r : forall a b, sasc (a ++ b) -> sasc b.
  Proof. induction a as [|x a IH]; intros b H; [exact H|]. destruct H as [_ H]. apply IH. exact H. Qed.

  (* the list handed to the binary search is strictly ascending with the same elements *)
  Lemma gvg_suffix : forall s vk,
    incl s L -> In vk L -> sasc s ->
    let off := bsearch_idx (fun e => is_lt (c e vk)) vk s in
    let found := Nat.ltb off (length s) && match c (nth off s vk) vk with Eq => true | _ => false end in
    forall w, In w (skipn (if found then S off else off) s) -> In w s /\ (rk vk < rk w)%Z.
  Proof.
    intros s vk Hs Hvk Hasc off found w Hw.
    destruct (sasc_split (rk vk) s Hasc) as [a [b [E [Ha Hb]]]].
    assert (Hoff : off = length a).
    { unfold off. rewrite E. apply bsearch_idx_spec.
      - apply forallb_forall. intros x Hx. apply c_lt; [apply Hs; rewrite E; apply in_or_app; left; exact Hx|exact Hvk|apply Ha; exact Hx].
      - apply forallb_forall. intros x Hx. apply negb_true_iff.
        destruct (is_lt (c x vk)) eqn:EL; [|reflexivity].
        apply c_lt in EL; [|apply Hs; rewrite E; apply in_or_app; right; exact Hx|exact Hvk].
        specialize (Hb x Hx). lia. }
    assert (Hb_asc : sasc b) by (apply sasc_app_r with a; rewrite <- E; exact Hasc).
    destruct b as [|y b].
    - (* nothing at or above vk *)
      assert (found = false).
      { unfold found. rewrite Hoff, E, app_nil_r. rewrite Nat.ltb_irrefl. reflexivity. }
      rewrite H, Hoff, E, app_nil_r in Hw. rewrite skipn_all in Hw. destruct Hw.
    - assert (Hy : In y L) by (apply Hs; rewrite E; apply in_or_app; right; left; reflexivity).
      assert (Hnth : nth off s vk = y).
      { rewrite Hoff, E. rewrite app_nth2 by (unfold ge; apply Nat.le_refl). rewrite Nat.sub_diag. reflexivity. }
      assert (Hlen : Nat.ltb off (length s) = true).
      { apply Nat.ltb_lt. rewrite Hoff, E, app_length. simpl. lia. }
      destruct Hb_asc as [B1 B2].
      destruct (c y vk) eqn:EC.
      + (* found: skip it *)
        assert (found = true) by (unfold found; rewrite Hlen, Hnth, EC; reflexivity).
        rewrite H in Hw.
        assert (Eyv : rk y = rk vk).
        { rewrite (Hc y vk Hy Hvk) in EC. apply Z.compare_eq in EC. exact EC. }
        replace (S off) with (length (a ++ [y])) in Hw by (rewrite app_length, Hoff; simpl; lia).
        replace s with ((a ++ [y]) ++ b) in Hw by (rewrite E, <- app_assoc; reflexivity).
        rewrite skipn_app, Nat.sub_diag, skipn_all in Hw. simpl in Hw.
        split; [rewrite E; apply in_or_app; right; right; exact Hw|].
        specialize (B1 w Hw). lia.
      + exfalso. rewrite (Hc y vk Hy Hvk) in EC. pose proof (proj1 (Z.compare_lt_iff _ _) EC).
        specialize (Hb y (or_introl eq_refl)). lia.
      + assert (found = false) by (unfold found; rewrite Hlen, Hnth, EC; reflexivity).
        rewrite H, Hoff, E in Hw. rewrite skipn_app, Nat.sub_diag, skipn_all in Hw. simpl in Hw.
        split; [rewrite E; apply in_or_app; right; exact Hw|].
        rewrite (Hc y vk Hy Hvk) in EC. pose proof (proj1 (Z.compare_gt_iff _ _) EC).
        destruct Hw as [<-|Hw]; [lia|]. specialize (B1 w Hw). lia.
  Qed.
End GvgProofs.

(* ======================================================================= Override: patchVulns *)
Lemma NoDup_app_one : forall {A} (l : list A) x, NoDup l -> ~ In x l -> NoDup (l ++ [x]).
Proof.
  induction l as [|y l IH]; intros x Hnd Hn; simpl.
  - constructor; [intros []|constructor].
  - inversion Hnd; subst. constructor.
    + intros H. apply in_app_or in H. destruct H as [H|[H|[]]]; [contradiction|]. subst. apply Hn. left. reflexivity.
    + apply IH; [assumption|]. intros H. apply Hn. right. exact H.
Qed.

Section OverrideProofs.
  Variable versions_of : pkg -> list ver.
  Variable rank : ver -> option Z.
  Variable dif : ver -> ver -> diff.
  Variable affected : vid -> pkg -> ver -> bool.
  Variable analyse : list (pkg * ver) -> option (list rvuln).
  Variable cfg : config.
  Variable vuln_ids : list vid.

  Notation gvg := (get_versions_greater rank).
  Notation pgroup := (patch_group versions_of rank dif affected cfg).
  Notation pgroups := (patch_groups versions_of rank dif affected cfg).
  Notation iter := (iteration versions_of rank dif affected analyse cfg vuln_ids).
  Notation pvulns := (patch_vulns versions_of rank dif affected analyse cfg vuln_ids).

  (* ---- getVersionsGreater on a well-formed version list *)
  Lemma parsed_cmpf : forall L, (forall v, In v L -> rank v <> None) ->
    forall a b, In a L -> In b L -> cmpf rank L a b = Z.compare (rk rank a) (rk rank b).
  Proof.
    intros L Hp a b Ha Hb. unfold cmpf, sem, rk.
    assert (Ea : existsb (N.eqb a) L = true) by (apply existsb_exists; exists a; split; [exact Ha|apply N.eqb_refl]).
    assert (Eb : existsb (N.eqb b) L = true) by (apply existsb_exists; exists b; split; [exact Hb|apply N.eqb_refl]).
    rewrite Ea, Eb. specialize (Hp a Ha) as Pa. specialize (Hp b Hb) as Pb.
    destruct (rank a); [|congruence]. destruct (rank b); [|congruence]. reflexivity.
  Qed.

  Lemma wf_cmpf : forall vs, wf_versions rank vs ->
    forall a b, In a vs -> In b vs -> cmpf rank vs a b = Z.compare (rk rank a) (rk rank b).
  Proof. intros vs [Hp _]. apply parsed_cmpf. exact Hp. Qed.

  Lemma wf_rank_inj : forall vs, wf_versions rank vs ->
    forall a b, In a vs -> In b vs -> rk rank a = rk rank b -> a = b.
  Proof.
    intros vs [Hp [_ Hi]] a b Ha Hb E. apply Hi; auto. unfold rk in E.
    specialize (Hp a Ha) as Pa. specialize (Hp b Hb) as Pb.
    destruct (rank a); [|congruence]. destruct (rank b); [|congruence]. congruence.
  Qed.

  (* every version offered lies strictly above the given one - listed or not, as long as it parses *)
  Lemma gvg_greater : forall vs vk, wf_versions rank vs -> rank vk <> None ->
    forall w, In w (gvg vs vk) -> In w vs /\ rank_lt rank vk w = true.
  Proof.
    intros vs vk Hwf Hvk w Hw.
    pose proof (wf_cmpf vs Hwf) as Hc. pose proof (wf_rank_inj vs Hwf) as Hinj.
    destruct Hwf as [Hp [Hnd Hi]].
    assert (Hc' : forall a b, In a (vk :: vs) -> In b (vk :: vs) ->
              cmpf rank (vk :: vs) a b = Z.compare (rk rank a) (rk rank b)).
    { apply parsed_cmpf. intros v [<-|Hv]; [exact Hvk|apply Hp; exact Hv]. }
    assert (Hs : sasc rank (sorted_versions rank vs) /\ (forall z, In z (sorted_versions rank vs) <-> In z vs)).
    { unfold sorted_versions. destruct (is_sorted (cmpf rank vs) vs) eqn:E.
      - split; [|intros z; reflexivity]. apply (is_sorted_sasc rank vs (cmpf rank vs) Hc Hinj vs); auto. apply incl_refl.
      - apply (go_sort_spec rank vs (cmpf rank vs) Hc Hinj vs); auto. apply incl_refl. }
    destruct Hs as [S1 S2].
    unfold get_versions_greater in Hw.
    apply (gvg_suffix rank (vk :: vs) (cmpf rank (vk :: vs)) Hc' (sorted_versions rank vs) vk) in Hw; auto.
    - destruct Hw as [W1 W2]. split; [apply S2; exact W1|].
      unfold rank_lt. unfold rk in W2.
      assert (In w vs) as Hwv by (apply S2; exact W1). specialize (Hp w Hwv) as Pw.
      destruct (rank vk); [|congruence]. destruct (rank w); [|congruence]. apply Z.ltb_lt. exact W2.
    - intros z Hz. right. apply S2. exact Hz.
    - left. reflexivity.
  Qed.

  (* ---- the sorted list does not depend on the sorting algorithm: on a well-formed version list ANY
     ascending permutation is the list the model computes (so slices.SortFunc - insertion sort up to 12
     elements, unstable pdqsort above - is only assumed to return a sorted permutation) *)
  Definition zc (a b : ver) : comparison := Z.compare (rk rank a) (rk rank b).

  Lemma zc_antisym : forall a b, zc b a = CompOpp (zc a b).
  Proof. intros a b. unfold zc. apply Z.compare_antisym. Qed.

  Lemma zc_lt_trans : forall a b c, zc a b = Lt -> zc b c = Lt -> zc a c = Lt.
  Proof. intros a b c. unfold zc. rewrite !Z.compare_lt_iff. lia. Qed.

  Lemma sasc_ssorted : forall l, sasc rank l -> ssorted zc l = true.
  Proof.
    induction l as [|x l IH]; intros H; [reflexivity|]. destruct H as [H1 H2]. cbn [ssorted].
    rewrite (IH H2), andb_true_r. apply all_gt_In. intros y Hy. unfold ltb, zc.
    specialize (H1 y Hy). apply Z.compare_lt_iff in H1. rewrite H1. reflexivity.
  Qed.

  Lemma sorted_versions_spec : forall vs, wf_versions rank vs ->
    sasc rank (sorted_versions rank vs) /\ Permutation (sorted_versions rank vs) vs.
  Proof.
    intros vs Hwf. pose proof (wf_cmpf vs Hwf) as Hc. pose proof (wf_rank_inj vs Hwf) as Hinj.
    destruct Hwf as [Hp [Hnd Hi]].
    unfold sorted_versions. destruct (is_sorted (cmpf rank vs) vs) eqn:E.
    - split; [|apply Permutation_refl]. apply (is_sorted_sasc rank vs (cmpf rank vs) Hc Hinj vs); auto. apply incl_refl.
    - destruct (go_sort_spec rank vs (cmpf rank vs) Hc Hinj vs (incl_refl _) Hnd) as [S1 S2]. split; [exact S1|].
      apply NoDup_Permutation; [|exact Hnd|exact S2].
      apply (ssorted_NoDup zc zc_antisym). apply sasc_ssorted. exact S1.
  Qed.

  Lemma sort_unique_on_distinct_lemma : forall vs s, wf_versions rank vs ->
    Permutation s vs -> sasc rank s -> s = sorted_versions rank vs.
  Proof.
    intros vs s Hwf HP HS. destruct (sorted_versions_spec vs Hwf) as [S1 S2].
    apply (ssorted_perm_unique zc zc_antisym).
    - apply sasc_ssorted. exact HS.
    - apply sasc_ssorted. exact S1.
    - rewrite HP. symmetry. exact S2.
  Qed.

  Lemma sorted_versions_isort : forall vs, wf_versions rank vs -> sorted_versions rank vs = isort zc vs.
  Proof.
    intros vs Hwf. destruct (sorted_versions_spec vs Hwf) as [S1 S2]. symmetry.
    apply (isort_unique zc zc_antisym zc_lt_trans); [exact S2|apply sasc_ssorted; exact S1].
  Qed.

  (* ---- the candidate scan *)
  Lemma scan_best_cases : forall l p vk vulns cands best n best' n',
    scan_best dif affected l p vk vulns cands best n = (best', n') ->
    (best' = best /\ n' = n) \/ (In best' cands /\ allows l (dif vk best') = true /\ n' < n).
  Proof.
    induction cands as [|c0 cs IH]; intros best n best' n' H; cbn [scan_best] in H.
    - left. inversion H; auto.
    - destruct (allows l (dif vk c0)) eqn:EA; cbn [negb] in H; [|left; inversion H; auto].
      destruct (Nat.ltb (count_affected affected p vulns c0) n) eqn:EL.
      + apply Nat.ltb_lt in EL.
        destruct (Nat.eqb (count_affected affected p vulns c0) 0) eqn:E0.
        * inversion H; subst. right. split; [left; reflexivity|]. split; [exact EA|lia].
        * destruct (IH _ _ _ _ H) as [[E1 E2]|[I [A Lt]]].
          -- subst. right. split; [left; reflexivity|]. split; [exact EA|exact EL].
          -- right. split; [right; exact I|]. split; [exact A|lia].
      + destruct (IH _ _ _ _ H) as [[E1 E2]|[I [A Lt]]]; [left; auto|right].
        split; [right; exact I|]. split; [exact A|exact Lt].
  Qed.

  Lemma patch_group_inv : forall iss g q, pgroup iss g = Some q ->
    fst (fst q) = g_pkg g /\ snd (fst q) = g_ver g /\
    config_get cfg (g_pkg g) <> LNone /\
    allows (config_get cfg (g_pkg g)) (dif (g_ver g) (snd q)) = true /\
    In (snd q) (gvg (versions_of (g_pkg g)) (g_ver g)) /\
    ~ In (to_override q) iss.
  Proof.
    intros iss g q H. unfold patch_group in H.
    destruct (level_eqb (config_get cfg (g_pkg g)) LNone) eqn:EL; [discriminate|].
    destruct (choose_best versions_of rank dif affected cfg g) as [best n] eqn:EC.
    destruct (existsb (pair_eqb (g_pkg g, best)) iss) eqn:EX; [discriminate|].
    destruct (Nat.ltb n (length (g_vulns g))) eqn:EN; [|discriminate].
    inversion H; subst. simpl. apply Nat.ltb_lt in EN.
    unfold choose_best in EC.
    destruct (scan_best_cases _ _ _ _ _ _ _ _ _ EC) as [[E1 E2]|[I [A _]]]; [lia|].
    repeat split; auto.
    - intros E. rewrite E in EL. discriminate.
    - intros Hin. unfold to_override in Hin. simpl in Hin.
      assert (existsb (pair_eqb (g_pkg g, best)) iss = true).
      { apply existsb_exists. exists (g_pkg g, best). split; [exact Hin|]. unfold pair_eqb. simpl. rewrite !N.eqb_refl. reflexivity. }
      congruence.
  Qed.

  (* the pass over the groups: every patch comes from a group, with some superset of the issued set *)
  Lemma patch_groups_In : forall gs iss q, In q (pgroups iss gs) ->
    exists g iss', In g gs /\ pgroup iss' g = Some q /\ incl iss iss'.
  Proof.
    induction gs as [|g gs IH]; intros iss q H; cbn [patch_groups] in H; [destruct H|].
    destruct (pgroup iss g) as [q0|] eqn:E.
    - destruct H as [<-|H].
      + exists g, iss. split; [left; reflexivity|]. split; [exact E|apply incl_refl].
      + destruct (IH _ _ H) as [g' [iss' [I1 [I2 I3]]]]. exists g', iss'. split; [right; exact I1|]. split; [exact I2|].
        intros x Hx. apply I3. right. exact Hx.
    - destruct (IH _ _ H) as [g' [iss' [I1 [I2 I3]]]]. exists g', iss'. split; [right; exact I1|]. split; [exact I2|exact I3].
  Qed.

  (* nothing is requested twice *)
  Lemma patch_groups_fresh : forall gs iss,
    NoDup (map to_override (pgroups iss gs)) /\ forall q, In q (pgroups iss gs) -> ~ In (to_override q) iss.
  Proof.
    induction gs as [|g gs IH]; intros iss; cbn [patch_groups]; [split; [constructor|intros q []]|].
    destruct (pgroup iss g) as [q0|] eqn:E; [|apply IH].
    destruct (IH (to_override q0 :: iss)) as [N1 N2]. split.
    - cbn [map]. constructor; [|exact N1]. intros Hin. apply in_map_iff in Hin as [q' [Eq Hq']].
      apply (N2 q' Hq'). left. symmetry. exact Eq.
    - intros q [<-|Hq].
      + destruct (patch_group_inv _ _ _ E) as [_ [_ [_ [_ [_ F]]]]]. exact F.
      + intros Hin. apply (N2 q Hq). right. exact Hin.
  Qed.

  (* ---- vkVulns *)
  Definition gkey (g : group) : pkg * ver := (g_pkg g, g_ver g).

  Lemma add_vuln_keys : forall gs p v u,
    map gkey (add_vuln gs p v u) = if existsb (key_eqb p v) gs then map gkey gs else map gkey gs ++ [(p, v)].
  Proof.
    induction gs as [|g gs IH]; intros p v u; cbn [add_vuln existsb map]; [reflexivity|].
    destruct (key_eqb p v g) eqn:E; cbn [orb map].
    - f_equal. unfold key_eqb in E. apply andb_true_iff in E as [E1 E2].
      apply N.eqb_eq in E1, E2. unfold gkey. simpl. congruence.
    - rewrite IH. destruct (existsb (key_eqb p v) gs); reflexivity.
  Qed.

  Lemma key_eqb_In : forall gs p v, existsb (key_eqb p v) gs = true <-> In (p, v) (map gkey gs).
  Proof.
    intros gs p v. rewrite existsb_exists. split.
    - intros [g [Hg E]]. unfold key_eqb in E. apply andb_true_iff in E as [E1 E2]. apply N.eqb_eq in E1, E2.
      apply in_map_iff. exists g. split; [unfold gkey; congruence|exact Hg].
    - intros H. apply in_map_iff in H as [g [E Hg]]. exists g. split; [exact Hg|].
      unfold gkey in E. inversion E. unfold key_eqb. rewrite !N.eqb_refl. reflexivity.
  Qed.

  (* every key comes from a node, keys stay duplicate-free *)
  Lemma add_nodes_keys : forall u nodes gs seen gs',
    add_nodes gs u nodes seen = Some gs' ->
    NoDup (map gkey gs) ->
    NoDup (map gkey gs') /\
    (forall k, In k (map gkey gs') -> In k (map gkey gs) \/ exists cl, In (fst k, snd k, cl) nodes).
  Proof.
    induction nodes as [|[[p v] cl] ns IH]; intros gs seen gs' H Hnd; cbn [add_nodes] in H.
    - inversion H; subst. split; [exact Hnd|]. intros k Hk. left. exact Hk.
    - destruct cl; [discriminate|].
      destruct (existsb (fun k => N.eqb (fst k) p && N.eqb (snd k) v) seen).
      + destruct (IH _ _ _ H Hnd) as [N1 N2]. split; [exact N1|].
        intros k Hk. destruct (N2 k Hk) as [A|[c A]]; [left; exact A|right; exists c; right; exact A].
      + assert (Hnd' : NoDup (map gkey (add_vuln gs p v u))).
        { rewrite add_vuln_keys. destruct (existsb (key_eqb p v) gs) eqn:E; [exact Hnd|].
          apply NoDup_app_one; [exact Hnd|]. intros Hin. apply key_eqb_In in Hin. congruence. }
        destruct (IH _ _ _ H Hnd') as [N1 N2]. split; [exact N1|].
        intros k Hk. destruct (N2 k Hk) as [A|[c A]]; [|right; exists c; right; exact A].
        rewrite add_vuln_keys in A. destruct (existsb (key_eqb p v) gs); [left; exact A|].
        apply in_app_or in A. destruct A as [A|[<-|[]]]; [left; exact A|].
        right. exists false. left. reflexivity.
  Qed.

  Lemma groups_of_keys : forall vs gs gs',
    groups_of vuln_ids gs vs = Some gs' ->
    NoDup (map gkey gs) ->
    NoDup (map gkey gs') /\
    (forall k, In k (map gkey gs') ->
       In k (map gkey gs) \/ exists rv cl, In rv vs /\ In (fst k, snd k, cl) (rv_nodes rv)).
  Proof.
    induction vs as [|rv vs IH]; intros gs gs' H Hnd; cbn [groups_of] in H.
    - inversion H; subst. split; [exact Hnd|]. intros k Hk. left. exact Hk.
    - destruct (existsb (N.eqb (rv_id rv)) vuln_ids).
      + destruct (add_nodes gs (rv_id rv) (rv_nodes rv) []) as [gs1|] eqn:EA; [|discriminate].
        destruct (add_nodes_keys _ _ _ _ _ EA Hnd) as [A1 A2].
        destruct (IH _ _ H A1) as [N1 N2]. split; [exact N1|].
        intros k Hk. destruct (N2 k Hk) as [B|[rv' [c [I1 I2]]]].
        * destruct (A2 k B) as [C|[c C]]; [left; exact C|right]. exists rv, c. split; [left; reflexivity|exact C].
        * right. exists rv', c. split; [right; exact I1|exact I2].
      + destruct (IH _ _ H Hnd) as [N1 N2]. split; [exact N1|].
        intros k Hk. destruct (N2 k Hk) as [B|[rv' [c [I1 I2]]]]; [left; exact B|right].
        exists rv', c. split; [right; exact I1|exact I2].
  Qed.

  (* what one pass of the loop issues *)
  Lemma iteration_inv : forall ovs ps, iter ovs = Some ps ->
    exists vulns gs, analyse ovs = Some vulns /\ groups_of vuln_ids [] vulns = Some gs /\
      ps = pgroups ovs gs /\ NoDup (map gkey gs) /\
      (forall g, In g gs -> exists rv cl, In rv vulns /\ In (g_pkg g, g_ver g, cl) (rv_nodes rv)).
  Proof.
    intros ovs ps H. unfold iteration in H.
    destruct (analyse ovs) as [vulns|] eqn:EA; [|discriminate].
    destruct (groups_of vuln_ids [] vulns) as [gs|] eqn:EG; [|discriminate].
    inversion H; subst. exists vulns, gs. repeat split; auto.
    - destruct (groups_of_keys _ _ _ EG (NoDup_nil _)) as [N1 _]. exact N1.
    - intros g Hg. destruct (groups_of_keys _ _ _ EG (NoDup_nil _)) as [_ N2].
      destruct (N2 (gkey g) (in_map gkey _ _ Hg)) as [[]|[rv [c [I1 I2]]]].
      exists rv, c. split; [exact I1|exact I2].
  Qed.

  Definition p_pkg (q : patch) : pkg := fst (fst q).
  Definition p_from (q : patch) : ver := snd (fst q).
  Definition p_to (q : patch) : ver := snd q.

  (* a statement about every issued patch follows from the statement about one pass *)
  Lemma patch_vulns_forall : forall (P : patch -> Prop),
    (forall ovs ps, iter ovs = Some ps -> forall q, In q ps -> P q) ->
    forall fuel ovs acc, (forall it, In it acc -> forall q, In q it -> P q) ->
    forall q, In q (patches_of (pvulns fuel ovs acc)) -> P q.
  Proof.
    intros P HP. induction fuel as [|f IH]; intros ovs acc Hacc q Hq; cbn [patch_vulns] in Hq.
    - unfold patches_of, iters_of in Hq. apply in_concat in Hq as [it [I1 I2]]. apply in_rev in I1. eapply Hacc; eauto.
    - destruct (iter ovs) as [[|p ps]|] eqn:EI.
      + unfold patches_of, iters_of in Hq. apply in_concat in Hq as [it [I1 I2]]. apply in_rev in I1. eapply Hacc; eauto.
      + eapply IH; [|exact Hq]. intros it [<-|Hit] q' Hq'; [eapply HP; eauto|eapply Hacc; eauto].
      + unfold patches_of, iters_of in Hq. apply in_concat in Hq as [it [I1 I2]]. apply in_rev in I1. eapply Hacc; eauto.
  Qed.

  Lemma override_within_level_lemma : forall fuel q,
    In q (patches_of (run_patch_vulns versions_of rank dif affected analyse cfg vuln_ids fuel)) ->
    config_get cfg (p_pkg q) <> LNone /\ allows (config_get cfg (p_pkg q)) (dif (p_from q) (p_to q)) = true.
  Proof.
    intros fuel q Hq. unfold run_patch_vulns in Hq.
    refine (patch_vulns_forall (fun q => config_get cfg (p_pkg q) <> LNone /\
             allows (config_get cfg (p_pkg q)) (dif (p_from q) (p_to q)) = true) _ fuel [] [] _ q Hq).
    - intros ovs ps HI q' Hq'. destruct (iteration_inv _ _ HI) as [vulns [gs [_ [_ [E _]]]]]. subst ps.
      apply patch_groups_In in Hq' as [g [iss' [Hg [F _]]]]. destruct (patch_group_inv _ _ _ F) as [E1 [E2 [N [A _]]]].
      unfold p_pkg, p_from, p_to. rewrite E1, E2. auto.
    - intros it [].
  Qed.

  (* ---- strictly upward: needs the universe to be well-formed and resolved versions to parse *)
  Hypothesis H_wf : forall p, wf_versions rank (versions_of p).
  Hypothesis H_parses : forall ovs vulns rv p v cl,
    analyse ovs = Some vulns -> In rv vulns -> In (p, v, cl) (rv_nodes rv) -> rank v <> None.

  Lemma iteration_patch : forall ovs ps q, iter ovs = Some ps -> In q ps ->
    rank (p_from q) <> None /\ In (p_to q) (versions_of (p_pkg q)) /\
    rank_lt rank (p_from q) (p_to q) = true /\
    exists vulns rv cl, analyse ovs = Some vulns /\ In rv vulns /\ In (p_pkg q, p_from q, cl) (rv_nodes rv).
  Proof.
    intros ovs ps q HI Hq. destruct (iteration_inv _ _ HI) as [vulns [gs [EA [_ [E [_ Hn]]]]]]. subst ps.
    apply patch_groups_In in Hq as [g [iss' [Hg [F _]]]]. destruct (patch_group_inv _ _ _ F) as [E1 [E2 [_ [_ [I _]]]]].
    destruct (Hn g Hg) as [rv [c [I1 I2]]].
    assert (Hl : rank (g_ver g) <> None) by (eapply H_parses; eauto).
    destruct (gvg_greater _ _ (H_wf (g_pkg g)) Hl _ I) as [G1 G2].
    unfold p_pkg, p_from, p_to. rewrite E1, E2. repeat split; auto.
    exists vulns, rv, c. auto.
  Qed.

  Lemma override_strictly_up_lemma : forall fuel q,
    In q (patches_of (run_patch_vulns versions_of rank dif affected analyse cfg vuln_ids fuel)) ->
    In (p_to q) (versions_of (p_pkg q)) /\ rank_lt rank (p_from q) (p_to q) = true.
  Proof.
    intros fuel q Hq. unfold run_patch_vulns in Hq.
    refine (patch_vulns_forall (fun q => In (p_to q) (versions_of (p_pkg q)) /\ rank_lt rank (p_from q) (p_to q) = true)
              _ fuel [] [] _ q Hq).
    - intros ovs ps HI q' Hq'. destruct (iteration_patch _ _ _ HI Hq') as [_ [A [B _]]]. auto.
    - intros it [].
  Qed.

  (* ---- termination *)
  Lemma last_override_app : forall a b p,
    last_override (a ++ b) p = match last_override b p with Some w => Some w | None => last_override a p end.
  Proof.
    induction a as [|[q v] a IH]; intros b p; cbn [app last_override].
    - destruct (last_override b p); reflexivity.
    - rewrite IH. destruct (last_override b p); [reflexivity|]. reflexivity.
  Qed.

  Lemma last_override_None : forall ovs p, last_override ovs p = None -> forall v, ~ In (p, v) ovs.
  Proof.
    induction ovs as [|[q w] ovs IH]; intros p H v Hin; [destruct Hin|].
    cbn [last_override] in H. destruct (last_override ovs p) eqn:E; [discriminate|].
    destruct (N.eqb_spec q p); [discriminate|].
    destruct Hin as [Hin|Hin]; [inversion Hin; congruence|]. eapply IH; eauto.
  Qed.

  Lemma last_override_In : forall ovs p t, last_override ovs p = Some t -> In (p, t) ovs.
  Proof.
    induction ovs as [|[q w] ovs IH]; intros p t H; cbn [last_override] in H; [discriminate|].
    destruct (last_override ovs p) eqn:E.
    - inversion H; subst. right. apply IH. exact E.
    - destruct (N.eqb_spec q p); [|discriminate]. inversion H; subst. left. reflexivity.
  Qed.

  Lemma last_override_unique : forall ovs p t w,
    NoDup (map fst ovs) -> last_override ovs p = Some t -> In (p, w) ovs -> w = t.
  Proof.
    induction ovs as [|[q v] ovs IH]; intros p t w Hnd H Hin; [destruct Hin|].
    cbn [map fst] in Hnd. inversion Hnd as [|? ? Hn Hnd']; subst.
    cbn [last_override] in H. destruct (last_override ovs p) eqn:E.
    - inversion H; subst. destruct Hin as [Hin|Hin]; [|eapply IH; eauto].
      inversion Hin; subst. exfalso. apply Hn. apply last_override_In in E.
      change p with (fst (p, t)). apply in_map. exact E.
    - destruct (N.eqb_spec q p); [|discriminate]. inversion H; subst.
      destruct Hin as [Hin|Hin]; [inversion Hin; reflexivity|].
      exfalso. apply Hn. change p with (fst (p, w)). apply in_map. exact Hin.
  Qed.

  Lemma NoDup_app_intro : forall {A} (a b : list A),
    NoDup a -> NoDup b -> (forall x, In x b -> ~ In x a) -> NoDup (a ++ b).
  Proof.
    induction a as [|y a IH]; intros b Ha Hb Hd; [exact Hb|].
    inversion Ha; subst. simpl. constructor.
    - intros H. apply in_app_or in H. destruct H as [H|H]; [contradiction|]. apply (Hd y H). left. reflexivity.
    - apply IH; auto. intros x Hx Hin. apply (Hd x Hx). right. exact Hin.
  Qed.

  Lemma NoDup_map_fst : forall {A B} (l : list (A * B)), NoDup (map fst l) -> NoDup l.
  Proof.
    induction l as [|x l IH]; intros H; [constructor|]. simpl in H. inversion H; subst.
    constructor; [|apply IH; assumption]. intros Hin. apply H2. apply in_map. exact Hin.
  Qed.

  Variable pkgs : list pkg.
  Hypothesis H_pkgs : forall ovs vulns rv p v cl,
    analyse ovs = Some vulns -> In rv vulns -> In (p, v, cl) (rv_nodes rv) -> In p pkgs.
  (* the resolver honours overrides ... *)
  Hypothesis H_res : forall ovs vulns rv p v cl t,
    analyse ovs = Some vulns -> In rv vulns -> In (p, v, cl) (rv_nodes rv) ->
    last_override ovs p = Some t -> v = t.
  (* ... and resolves one version per package *)
  Hypothesis H_one : forall ovs vulns rv rv' p v v' cl cl',
    analyse ovs = Some vulns -> In rv vulns -> In rv' vulns ->
    In (p, v, cl) (rv_nodes rv) -> In (p, v', cl') (rv_nodes rv') -> v = v'.

  Lemma groups_distinct_pkgs : forall (gs : list group),
    NoDup (map gkey gs) ->
    (forall g g', In g gs -> In g' gs -> g_pkg g = g_pkg g' -> g_ver g = g_ver g') ->
    NoDup (map g_pkg gs).
  Proof.
    induction gs as [|g gs IH]; intros Hnd Hone; [constructor|].
    cbn [map] in *. inversion Hnd as [|? ? Hn Hnd']; subst. constructor.
    - intros Hin. apply in_map_iff in Hin as [g' [E Hg']].
      apply Hn. apply in_map_iff. exists g'. split; [|exact Hg'].
      unfold gkey. rewrite E. f_equal. symmetry. apply Hone; [left; reflexivity|right; exact Hg'|congruence].
    - apply IH; [exact Hnd'|]. intros a b Ha Hb. apply Hone; right; assumption.
  Qed.

  Lemma patch_groups_pkgs : forall gs iss,
    NoDup (map g_pkg gs) -> NoDup (map p_pkg (pgroups iss gs)).
  Proof.
    induction gs as [|g gs IH]; intros iss Hnd; cbn [patch_groups map]; [constructor|].
    cbn [map] in Hnd. inversion Hnd as [|? ? Hn Hnd']; subst.
    destruct (pgroup iss g) as [q|] eqn:E; [|apply IH; exact Hnd'].
    cbn [map]. constructor; [|apply IH; exact Hnd'].
    intros Hin. apply in_map_iff in Hin as [q' [E' Hq']]. apply patch_groups_In in Hq' as [g' [iss' [Hg' [F _]]]].
    apply Hn. apply in_map_iff. exists g'. split; [|exact Hg'].
    destruct (patch_group_inv _ _ _ F) as [A _]. destruct (patch_group_inv _ _ _ E) as [B _].
    unfold p_pkg in E'. congruence.
  Qed.

  Lemma iteration_distinct : forall ovs ps, iter ovs = Some ps -> NoDup (map p_pkg ps).
  Proof.
    intros ovs ps HI. destruct (iteration_inv _ _ HI) as [vulns [gs [EA [_ [E [Hnd Hn]]]]]]. subst ps.
    apply patch_groups_pkgs. apply groups_distinct_pkgs; [exact Hnd|].
    intros g g' Hg Hg' Ep. destruct (Hn g Hg) as [rv [c [I1 I2]]]. destruct (Hn g' Hg') as [rv' [c' [J1 J2]]].
    rewrite <- Ep in J2. exact (H_one ovs vulns rv rv' (g_pkg g) (g_ver g) (g_ver g') c c' EA I1 J1 I2 J2).
  Qed.

  (* every override requested is a fresh (package, listed version) pair *)
  Definition ov_inv (ovs : list (pkg * ver)) : Prop :=
    NoDup ovs /\ incl ovs (all_pairs versions_of pkgs).

  Lemma rank_lt_rk : forall a b, rank_lt rank a b = true -> (rk rank a < rk rank b)%Z.
  Proof.
    intros a b H. unfold rank_lt in H. unfold rk.
    destruct (rank a); [|discriminate]. destruct (rank b); [|discriminate]. apply Z.ltb_lt. exact H.
  Qed.

  Lemma all_pairs_In : forall p v, In p pkgs -> In v (versions_of p) -> In (p, v) (all_pairs versions_of pkgs).
  Proof.
    intros p v Hp Hv. unfold all_pairs. apply in_flat_map. exists p. split; [exact Hp|]. apply in_map. exact Hv.
  Qed.

  Lemma ov_inv_step : forall ovs ps, ov_inv ovs -> iter ovs = Some ps ->
    ov_inv (ovs ++ map to_override ps).
  Proof.
    intros ovs ps [I1 I2] HI.
    destruct (iteration_inv _ _ HI) as [vulns [gs [EA [_ [E [_ Hn]]]]]]. subst ps.
    destruct (patch_groups_fresh gs ovs) as [F1 F2].
    split.
    - apply NoDup_app_intro; [exact I1|exact F1|].
      intros x Hx Hov. apply in_map_iff in Hx as [q [Eq Hq]]. subst x. exact (F2 q Hq Hov).
    - intros x Hx. apply in_app_or in Hx. destruct Hx as [Hx|Hx]; [apply I2; exact Hx|].
      apply in_map_iff in Hx as [q [Eq Hq]]. subst x.
      apply patch_groups_In in Hq as [g [iss' [Hg [F _]]]].
      destruct (patch_group_inv _ _ _ F) as [E1 [_ [_ [_ [I _]]]]].
      destruct (Hn g Hg) as [rv [c [R1 R2]]].
      unfold to_override. rewrite E1. apply all_pairs_In.
      + eapply H_pkgs; eauto.
      + eapply gvg_subset. exact I.
  Qed.

  Lemma all_pairs_length : forall l, length (all_pairs versions_of l) = fold_right (fun p n => length (versions_of p) + n) 0 l.
  Proof.
    unfold all_pairs. induction l as [|p ps IH]; [reflexivity|].
    cbn [flat_map fold_right]. rewrite app_length, map_length, IH. reflexivity.
  Qed.

  Lemma patch_vulns_fuel : forall fuel ovs acc,
    ov_inv ovs -> length (all_pairs versions_of pkgs) - length ovs < fuel ->
    forall i, pvulns fuel ovs acc <> OOutOfFuel i.
  Proof.
    induction fuel as [|f IH]; intros ovs acc Hinv Hlt i; [lia|].
    cbn [patch_vulns]. destruct (iter ovs) as [[|p ps]|] eqn:EI; try discriminate.
    pose proof (ov_inv_step _ _ Hinv EI) as Hinv'.
    apply IH; [exact Hinv'|].
    destruct Hinv' as [N1 N2].
    pose proof (NoDup_incl_length N1 N2) as Hle.
    rewrite app_length in *. cbn [map length] in *. lia.
  Qed.

  Lemma override_terminates_lemma : forall fuel,
    fuel_bound versions_of pkgs <= fuel ->
    forall i, run_patch_vulns versions_of rank dif affected analyse cfg vuln_ids fuel <> OOutOfFuel i.
  Proof.
    intros fuel Hf i. unfold run_patch_vulns. apply patch_vulns_fuel.
    - split; [constructor|intros x []].
    - unfold fuel_bound in Hf. rewrite all_pairs_length. simpl. lia.
  Qed.

  (* ---- within the level, measured from the version the package had originally *)
  Variable comp : ver -> comps.
  Hypothesis H_fc : forall a b, first_component_diffb (comp a) (comp b) (dif a b) = true.

  Definition orig_of (hist : list patch) (p : pkg) : option ver :=
    option_map p_from (find (fun q => N.eqb (p_pkg q) p) hist).

  Lemma orig_of_app_some : forall h1 h2 p o, orig_of h1 p = Some o -> orig_of (h1 ++ h2) p = Some o.
  Proof.
    induction h1 as [|q h1 IH]; intros h2 p o H; [discriminate|].
    unfold orig_of in *. cbn [app find] in *. destruct (N.eqb (p_pkg q) p); [exact H|apply IH; exact H].
  Qed.

  Lemma orig_of_app_none : forall h1 h2 p, orig_of h1 p = None -> orig_of (h1 ++ h2) p = orig_of h2 p.
  Proof.
    induction h1 as [|q h1 IH]; intros h2 p H; [reflexivity|].
    unfold orig_of in *. cbn [app find] in *. destruct (N.eqb (p_pkg q) p); [discriminate|apply IH; exact H].
  Qed.

  Lemma orig_of_none_notin : forall h p, orig_of h p = None -> forall q, In q h -> p_pkg q <> p.
  Proof.
    induction h as [|q0 h IH]; intros p H q Hq; [destruct Hq|].
    unfold orig_of in H. cbn [find] in H. destruct (N.eqb_spec (p_pkg q0) p); [discriminate|].
    destruct Hq as [<-|Hq]; [exact n|]. apply IH; [exact H|exact Hq].
  Qed.

  Lemma orig_of_distinct : forall ps q, NoDup (map p_pkg ps) -> In q ps -> orig_of ps (p_pkg q) = Some (p_from q).
  Proof.
    induction ps as [|q0 ps IH]; intros q Hnd Hq; [destruct Hq|].
    cbn [map] in Hnd. inversion Hnd as [|? ? Hn Hnd']; subst.
    unfold orig_of. cbn [find]. destruct Hq as [<-|Hq].
    - rewrite N.eqb_refl. reflexivity.
    - destruct (N.eqb_spec (p_pkg q0) (p_pkg q)) as [E|E].
      + exfalso. apply Hn. rewrite E. apply in_map. exact Hq.
      + apply IH; assumption.
  Qed.

  Definition hist_inv (hist : list patch) : Prop :=
    forall q o, In q hist -> orig_of hist (p_pkg q) = Some o ->
                allows (config_get cfg (p_pkg q)) (dif o (p_to q)) = true.

  Lemma hist_inv_step : forall hist ps,
    hist_inv hist -> iter (map to_override hist) = Some ps -> hist_inv (hist ++ ps).
  Proof.
    intros hist ps Hinv HI q o Hq Ho.
    pose proof (iteration_distinct _ _ HI) as Hd.
    apply in_app_or in Hq. destruct Hq as [Hq|Hq].
    - (* an earlier patch: its origin is unchanged *)
      destruct (orig_of hist (p_pkg q)) as [o'|] eqn:E.
      + rewrite (orig_of_app_some _ ps _ _ E) in Ho. inversion Ho; subst. apply Hinv; assumption.
      + exfalso. exact (orig_of_none_notin _ _ E q Hq eq_refl).
    - destruct (iteration_patch _ _ _ HI Hq) as [_ [_ [_ [vulns [rv [c [EA [R1 R2]]]]]]]].
      destruct (iteration_inv _ _ HI) as [vulns' [gs [EA' [_ [E' _]]]]].
      assert (Hal : allows (config_get cfg (p_pkg q)) (dif (p_from q) (p_to q)) = true).
      { subst ps. apply patch_groups_In in Hq as [g [iss' [Hg [F _]]]]. destruct (patch_group_inv _ _ _ F) as [E1 [E2 [_ [A _]]]].
        unfold p_pkg, p_from, p_to. rewrite E1, E2. exact A. }
      destruct (orig_of hist (p_pkg q)) as [o'|] eqn:E.
      + (* the package was overridden before: it now sits at the last override, by the resolver premise *)
        rewrite (orig_of_app_some _ ps _ _ E) in Ho. inversion Ho; subst o'.
        destruct (last_override (map to_override hist) (p_pkg q)) as [t|] eqn:EL.
        * assert (p_from q = t) by exact (H_res _ _ _ _ _ _ _ EA R1 R2 EL). subst t.
          apply last_override_In in EL. apply in_map_iff in EL as [q0 [E0 Hq0]].
          unfold to_override in E0. inversion E0 as [[Ep Et]].
          assert (A0 : allows (config_get cfg (p_pkg q0)) (dif o (p_to q0)) = true).
          { apply Hinv; [exact Hq0|]. unfold p_pkg. rewrite Ep. exact E. }
          unfold p_pkg in A0 at 1. rewrite Ep in A0. unfold p_to in A0. rewrite Et in A0.
          rewrite ?Ep. exact (allows_compose_lemma ver dif comp H_fc _ _ _ _ A0 Hal).
        * exfalso. unfold orig_of in E. destruct (find (fun q0 => N.eqb (p_pkg q0) (p_pkg q)) hist) as [q0|] eqn:EF; [|discriminate].
          apply find_some in EF as [Hq0 Eq0]. apply N.eqb_eq in Eq0.
          apply (last_override_None _ _ EL (p_to q0)). rewrite <- Eq0.
          change (p_pkg q0, p_to q0) with (to_override q0). apply in_map. exact Hq0.
      + rewrite (orig_of_app_none _ ps _ E), (orig_of_distinct _ _ Hd Hq) in Ho. inversion Ho; subst. exact Hal.
  Qed.

  Lemma patch_vulns_hist : forall fuel ovs acc,
    ovs = map to_override (concat (rev acc)) -> hist_inv (concat (rev acc)) ->
    hist_inv (patches_of (pvulns fuel ovs acc)).
  Proof.
    induction fuel as [|f IH]; intros ovs acc Eo Hinv; cbn [patch_vulns]; [exact Hinv|].
    destruct (iter ovs) as [[|p ps]|] eqn:EI; try exact Hinv.
    apply IH.
    - cbn [rev]. rewrite concat_app. cbn [concat]. rewrite app_nil_r, map_app, <- Eo. reflexivity.
    - cbn [rev]. rewrite concat_app. cbn [concat]. rewrite app_nil_r. apply hist_inv_step; [exact Hinv|].
      rewrite <- Eo. exact EI.
  Qed.

  Lemma override_within_level_of_original_lemma : forall fuel q o,
    let r := run_patch_vulns versions_of rank dif affected analyse cfg vuln_ids fuel in
    In q (patches_of r) -> orig_of (patches_of r) (p_pkg q) = Some o ->
    allows (config_get cfg (p_pkg q)) (dif o (p_to q)) = true.
  Proof.
    intros fuel q o r Hq Ho. unfold r, run_patch_vulns in *.
    apply (patch_vulns_hist fuel [] []); auto. intros q' o' [].
  Qed.
End OverrideProofs.

(* ======================================================================= Relax: the outer loop *)
(* ---- reqsToRelax yields a duplicate-free list *)
Lemma pr_cmp_eq : forall a b, pr_cmp a b = Eq <-> a = b.
Proof.
  intros [a1 a2] [b1 b2]. unfold pr_cmp. simpl. split.
  - destruct (N.compare_spec a1 b1) as [E1|E1|E1]; try discriminate. intros E2. apply N.compare_eq in E2. congruence.
  - intros E. inversion E; subst. rewrite !N.compare_refl. reflexivity.
Qed.

Lemma pr_cmp_antisym : forall a b, pr_cmp b a = CompOpp (pr_cmp a b).
Proof.
  intros [a1 a2] [b1 b2]. unfold pr_cmp. simpl. rewrite (N.compare_antisym a1 b1), (N.compare_antisym a2 b2).
  destruct (N.compare a1 b1); reflexivity.
Qed.

Definition pr_le (a b : pkg * req) : Prop := pr_cmp a b <> Gt.

Lemma pr_le_trans : forall a b c, pr_le a b -> pr_le b c -> pr_le a c.
Proof.
  intros [a1 a2] [b1 b2] [c1 c2]. unfold pr_le, pr_cmp. simpl. intros H1 H2.
  destruct (N.compare_spec a1 b1), (N.compare_spec b1 c1), (N.compare_spec a1 c1); subst; try lia; try congruence.
  destruct (N.compare_spec a2 b2), (N.compare_spec b2 c2), (N.compare_spec a2 c2); subst; try lia; try congruence.
Qed.

Lemma pr_le_antisym : forall a b, pr_le a b -> pr_le b a -> a = b.
Proof.
  intros a b H1 H2. apply pr_cmp_eq. unfold pr_le in *. rewrite (pr_cmp_antisym a b) in H2.
  destruct (pr_cmp a b); simpl in *; congruence.
Qed.

Lemma insert_sorted : forall x l, Sorted pr_le l -> Sorted pr_le (insert pr_cmp x l).
Proof.
  intros x. induction l as [|y l IH]; intros HS; cbn [insert].
  - constructor; constructor.
  - unfold leb. destruct (pr_cmp x y) eqn:E.
    + constructor; [exact HS|]. constructor. unfold pr_le. congruence.
    + constructor; [exact HS|]. constructor. unfold pr_le. congruence.
    + inversion HS as [|? ? HS' Hhd]; subst. constructor; [apply IH; exact HS'|].
      assert (Hyx : pr_le y x) by (unfold pr_le; rewrite (pr_cmp_antisym x y), E; discriminate).
      destruct l as [|z l]; cbn [insert]; [constructor; exact Hyx|].
      unfold leb. destruct (pr_cmp x z); constructor; try exact Hyx; inversion Hhd; assumption.
Qed.

Lemma isort_sorted : forall l, Sorted pr_le (isort pr_cmp l).
Proof. induction l as [|x l IH]; cbn [isort]; [constructor|apply insert_sorted; exact IH]. Qed.

Lemma pair_eqb_eq : forall a b, pair_eqb a b = true <-> a = b.
Proof.
  intros [a1 a2] [b1 b2]. unfold pair_eqb. simpl. rewrite andb_true_iff, !N.eqb_eq. split; [intros [-> ->]; reflexivity|intros E; inversion E; auto].
Qed.

Lemma compact_In : forall l x, In x (compact l) -> In x l.
Proof.
  induction l as [|a [|b t] IH]; intros x H; cbn [compact] in H; try exact H.
  destruct (pair_eqb a b); [right; apply IH; exact H|].
  destruct H as [<-|H]; [left; reflexivity|right; apply IH; exact H].
Qed.

Lemma compact_hd_le : forall l a x, StronglySorted pr_le (a :: l) -> In x (compact (a :: l)) -> pr_le a x.
Proof.
  intros l a x HS H. apply compact_In in H. destruct H as [<-|H].
  - unfold pr_le. rewrite (proj2 (pr_cmp_eq a a) eq_refl). discriminate.
  - inversion HS as [|? ? _ HF]; subst. rewrite Forall_forall in HF. apply HF. exact H.
Qed.

Lemma compact_NoDup : forall l, StronglySorted pr_le l -> NoDup (compact l).
Proof.
  induction l as [|a [|b t] IH]; intros HS; cbn [compact]; [constructor|constructor; [intros []|constructor]|].
  inversion HS as [|? ? HS' HF]; subst.
  destruct (pair_eqb a b) eqn:E; [apply IH; exact HS'|].
  constructor; [|apply IH; exact HS'].
  intros Hin. pose proof (compact_hd_le _ _ _ HS' Hin) as Hba.
  assert (Hab : pr_le a b) by (rewrite Forall_forall in HF; apply HF; left; reflexivity).
  assert (a = b) by (apply pr_le_antisym; assumption).
  apply pair_eqb_eq in H. congruence.
Qed.

Section RelaxLoopProofs.
  Variable relax_req : pkg -> req -> option req.
  Variable analyse : list (pkg * req) -> option (list xvuln).
  Variable cfg : config.
  Variable vuln_ids : list vid.

  Notation rtr := (reqs_to_relax vuln_ids).
  Notation reach := (relax_each relax_req cfg).
  Notation rloop := (relax_loop relax_req analyse cfg vuln_ids).

  Lemma reqs_to_relax_NoDup : forall vs, NoDup (rtr vs).
  Proof.
    intros vs. unfold reqs_to_relax. apply compact_NoDup. apply Sorted_StronglySorted.
    - intros a b c. apply pr_le_trans.
    - apply isort_sorted.
  Qed.

  Lemma reqs_to_relax_In : forall vs x, In x (rtr vs) ->
    exists v, In v vs /\ relevant vuln_ids v = true /\ In x (xv_directs v).
  Proof.
    intros vs x H. unfold reqs_to_relax in H. apply compact_In in H.
    apply (Permutation_in _ (Permutation_sym (isort_perm pr_cmp _))) in H.
    apply in_flat_map in H as [v [Hv Hx]]. apply filter_In in Hv as [Hv Hr]. exists v. auto.
  Qed.

  (* the pass over toRelax *)
  Definition x_key (q : xpatch) : pkg * req := (x_pkg q, x_old q).

  Lemma relax_each_spec : forall rs acc ps ok, reach rs acc = (ps, ok) ->
    exists ps', ps = rev acc ++ ps' /\
      (forall q, In q ps' -> In (x_key q) rs /\ config_get cfg (x_pkg q) <> LNone /\
                             relax_req (x_pkg q) (x_old q) = Some (x_new q)) /\
      (ok = true -> map x_key ps' = rs).
  Proof.
    induction rs as [|[p r] rs IH]; intros acc ps ok H; cbn [relax_each] in H.
    - inversion H; subst. exists []. rewrite app_nil_r. split; [reflexivity|]. split; [intros q []|reflexivity].
    - destruct (level_eqb (config_get cfg p) LNone) eqn:EL.
      + inversion H; subst. exists []. rewrite app_nil_r. split; [reflexivity|]. split; [intros q []|discriminate].
      + destruct (relax_req p r) as [r'|] eqn:ER.
        * destruct (IH _ _ _ H) as [ps' [E [Hq Hok]]]. exists ((p, r, r') :: ps').
          split; [rewrite E; cbn [rev]; rewrite <- app_assoc; reflexivity|]. split.
          -- intros q [<-|Hin].
             ++ split; [left; reflexivity|]. split; [|exact ER].
                unfold x_pkg. simpl. intros E'. rewrite E' in EL. discriminate.
             ++ destruct (Hq q Hin) as [A B]. split; [right; exact A|exact B].
          -- intros Ho. cbn [map]. rewrite (Hok Ho). reflexivity.
        * inversion H; subst. exists []. rewrite app_nil_r. split; [reflexivity|]. split; [intros q []|discriminate].
  Qed.

  (* what is known about a requirement replacement: where its old requirement came from *)
  Definition responsible (q : xpatch) : Prop :=
    config_get cfg (x_pkg q) <> LNone /\ relax_req (x_pkg q) (x_old q) = Some (x_new q) /\
    exists ovs vs v, analyse ovs = Some vs /\ In v vs /\ In (xv_id v) vuln_ids /\ In (x_key q) (xv_directs v).

  Definition todo_ok (ovs todo : list (pkg * req)) : Prop :=
    exists vs, analyse ovs = Some vs /\ todo = rtr vs.

  Lemma relevant_In : forall v, relevant vuln_ids v = true -> In (xv_id v) vuln_ids.
  Proof.
    intros v H. unfold relevant in H. apply existsb_exists in H as [u [Hu E]]. apply N.eqb_eq in E. subst. exact Hu.
  Qed.

  Lemma relax_loop_responsible : forall fuel ovs todo acc,
    todo_ok ovs todo -> (forall it, In it acc -> forall q, In q it -> responsible q) ->
    forall q, In q (xpatches_of (rloop fuel ovs todo acc)) -> responsible q.
  Proof.
    induction fuel as [|f IH]; intros ovs todo acc Htodo Hacc q Hq; cbn [relax_loop] in Hq.
    - unfold xpatches_of, xiters_of in Hq. apply in_concat in Hq as [it [I1 I2]]. apply in_rev in I1. eapply Hacc; eauto.
    - destruct todo as [|t0 todo'].
      + unfold xpatches_of, xiters_of in Hq. apply in_concat in Hq as [it [I1 I2]]. apply in_rev in I1. eapply Hacc; eauto.
      + destruct (reach (t0 :: todo') []) as [ps ok] eqn:ER.
        destruct (relax_each_spec _ _ _ _ ER) as [ps' [E [Hps _]]]. cbn [rev app] in E. subst ps'.
        assert (Hnew : forall q', In q' ps -> responsible q').
        { intros q' Hq'. destruct (Hps q' Hq') as [A [B C]]. split; [exact B|]. split; [exact C|].
          destruct Htodo as [vs [EA ET]]. rewrite ET in A.
          destruct (reqs_to_relax_In _ _ A) as [v [Hv [Hr Hx]]].
          exists ovs, vs, v. split; [exact EA|]. split; [exact Hv|]. split; [apply relevant_In; exact Hr|exact Hx]. }
        assert (Hacc' : forall it, In it (ps :: acc) -> forall q', In q' it -> responsible q').
        { intros it [<-|Hit]; [exact Hnew|apply Hacc; exact Hit]. }
        destruct ok; cbn [negb] in Hq.
        * destruct (analyse (ovs ++ map x_override ps)) as [vs'|] eqn:EA'.
          -- eapply IH; [| exact Hacc' | exact Hq]. exists vs'. split; [exact EA'|reflexivity].
          -- unfold xpatches_of, xiters_of in Hq. apply in_concat in Hq as [it [I1 I2]]. apply in_rev in I1. eapply Hacc'; eauto.
        * unfold xpatches_of, xiters_of in Hq. apply in_concat in Hq as [it [I1 I2]]. apply in_rev in I1. eapply Hacc'; eauto.
  Qed.

  Lemma relax_touches_responsible_lemma : forall fuel q,
    In q (xpatches_of (run_relax relax_req analyse cfg vuln_ids fuel)) -> responsible q.
  Proof.
    intros fuel q Hq. unfold run_relax in Hq. destruct (analyse []) as [vs|] eqn:EA; [|destruct Hq].
    eapply relax_loop_responsible; [| |exact Hq].
    - exists vs. split; [exact EA|reflexivity].
    - intros it [].
  Qed.

  (* ---- termination *)
  Variable init : pkg -> req.
  Variable hm : pkg -> req -> nat.
  Variable bound : pkg -> nat.
  Variable pkgs : list pkg.
  Notation cur := (cur_req init).

  (* a relaxation moves the highest matching version strictly up, within the package's versions *)
  Hypothesis H_up : forall p r r', relax_req p r = Some r' -> hm p r < hm p r' /\ hm p r' < bound p.
  (* the requirement found on a root edge is the one in force, of a package of the finite universe *)
  Hypothesis H_cur : forall ovs vs v p r, analyse ovs = Some vs -> In v vs -> In (xv_id v) vuln_ids ->
    In (p, r) (xv_directs v) -> r = cur ovs p /\ In p pkgs.

  Definition seen_of (ovs : list (pkg * req)) : list (pkg * nat) := map (fun x => (fst x, hm (fst x) (snd x))) ovs.
  Definition all_levels : list (pkg * nat) := flat_map (fun p => map (pair p) (seq 0 (bound p))) pkgs.

  Definition x_inv (ovs : list (pkg * req)) : Prop :=
    NoDup (seen_of ovs) /\ incl (seen_of ovs) all_levels /\
    forall p r, In (p, r) ovs -> hm p r <= hm p (cur ovs p).

  Lemma cur_req_app : forall a b p,
    cur (a ++ b) p = match last_override b p with Some r => r | None => cur a p end.
  Proof.
    intros a b p. unfold cur_req. rewrite last_override_app. destruct (last_override b p); reflexivity.
  Qed.

  Lemma all_levels_length : forall l,
    length (flat_map (fun p => map (pair p) (seq 0 (bound p))) l) = fold_right (fun p n => bound p + n) 0 l.
  Proof.
    induction l as [|p l IH]; [reflexivity|]. cbn [flat_map fold_right]. rewrite app_length, map_length, seq_length, IH. reflexivity.
  Qed.

  Lemma x_inv_step : forall ovs vs ps,
    x_inv ovs -> analyse ovs = Some vs -> reach (rtr vs) [] = (ps, true) ->
    x_inv (ovs ++ map x_override ps) /\ (rtr vs <> [] -> ps <> []).
  Proof.
    intros ovs vs ps [I1 [I2 I3]] EA ER.
    destruct (relax_each_spec _ _ _ _ ER) as [ps' [E [Hps Hok]]]. cbn [rev app] in E. subst ps'.
    specialize (Hok eq_refl).
    assert (Hq : forall q, In q ps -> x_old q = cur ovs (x_pkg q) /\ In (x_pkg q) pkgs /\
                                    hm (x_pkg q) (x_old q) < hm (x_pkg q) (x_new q) /\ hm (x_pkg q) (x_new q) < bound (x_pkg q)).
    { intros q Hin. destruct (Hps q Hin) as [A [_ C]].
      destruct (reqs_to_relax_In _ _ A) as [v [Hv [Hr Hx]]].
      destruct (H_cur ovs vs v _ _ EA Hv (relevant_In _ Hr) Hx) as [Ec Hp].
      destruct (H_up _ _ _ C) as [U1 U2]. auto. }
    (* distinct packages within the pass *)
    assert (Hdp : NoDup (map x_pkg ps)).
    { assert (Hk : NoDup (map x_key ps)) by (rewrite Hok; apply reqs_to_relax_NoDup).
      clear - Hk Hq. induction ps as [|q ps IH]; [constructor|]. cbn [map] in *. inversion Hk as [|? ? Hn Hk']; subst.
      constructor; [|apply IH; [intros q' H'; apply Hq; right; exact H'|exact Hk']].
      intros Hin. apply in_map_iff in Hin as [q' [Ep Hq']]. apply Hn. apply in_map_iff. exists q'. split; [|exact Hq'].
      unfold x_key. rewrite Ep. f_equal.
      destruct (Hq q (or_introl eq_refl)) as [A _]. destruct (Hq q' (or_intror Hq')) as [B _]. rewrite A, B, Ep. reflexivity. }
    assert (Hfst : map fst (map x_override ps) = map x_pkg ps) by (rewrite map_map; reflexivity).
    split; [|intros Hne Hnil; subst ps; cbn [map] in Hok; congruence].
    split; [|split].
    - unfold seen_of. rewrite map_app. apply NoDup_app_intro; [exact I1| |].
      + apply NoDup_map_fst. rewrite !map_map. cbn [fst]. exact Hdp.
      + intros [p k] Hn Ho. apply in_map_iff in Hn as [[p' r'] [En Hn]]. apply in_map_iff in Hn as [q [Eq Hin]].
        unfold x_override in Eq. inversion Eq; subst p' r'. cbn [fst snd] in En. inversion En; subst p k.
        apply in_map_iff in Ho as [[p0 r0] [Eo Ho]]. cbn [fst snd] in Eo. inversion Eo as [[Ep Ek]]. subst p0.
        destruct (Hq q Hin) as [A [_ [B _]]]. specialize (I3 _ _ Ho). rewrite <- A in I3. lia.
    - unfold seen_of. rewrite map_app. intros x Hx. apply in_app_or in Hx. destruct Hx as [Hx|Hx]; [apply I2; exact Hx|].
      apply in_map_iff in Hx as [[p' r'] [En Hn]]. apply in_map_iff in Hn as [q [Eq Hin]].
      unfold x_override in Eq. inversion Eq; subst p' r'. cbn [fst snd] in En. subst x.
      destruct (Hq q Hin) as [_ [P [_ B]]]. unfold all_levels. apply in_flat_map. exists (x_pkg q). split; [exact P|].
      apply in_map. apply in_seq. lia.
    - intros p r Hin. rewrite cur_req_app.
      destruct (last_override (map x_override ps) p) as [t|] eqn:EL.
      + assert (Ht : In (p, t) (map x_override ps)) by (apply last_override_In; exact EL).
        apply in_app_or in Hin. destruct Hin as [Hin|Hin].
        * apply in_map_iff in Ht as [q [Eq Hq']]. unfold x_override in Eq. inversion Eq; subst p t.
          destruct (Hq q Hq') as [A [_ [B _]]]. specialize (I3 _ _ Hin). rewrite <- A in I3. lia.
        * assert (r = t).
          { apply (last_override_unique (map x_override ps) p t r); [rewrite map_map; exact Hdp|exact EL|exact Hin]. }
          subst. lia.
      + apply in_app_or in Hin. destruct Hin as [Hin|Hin]; [apply I3; exact Hin|].
        exfalso. eapply last_override_None; eauto.
  Qed.

  Lemma relax_loop_fuel : forall fuel ovs vs acc,
    x_inv ovs -> analyse ovs = Some vs -> length all_levels - length ovs < fuel ->
    forall i, rloop fuel ovs (rtr vs) acc <> XOutOfFuel i.
  Proof.
    induction fuel as [|f IH]; intros ovs vs acc Hinv EA Hlt i; [lia|].
    cbn [relax_loop]. destruct (rtr vs) as [|t0 todo'] eqn:ET; [discriminate|].
    destruct (reach (t0 :: todo') []) as [ps ok] eqn:ER. destruct ok; cbn [negb]; [|discriminate].
    rewrite <- ET in ER. destruct (x_inv_step _ _ _ Hinv EA ER) as [Hinv' Hne].
    destruct (analyse (ovs ++ map x_override ps)) as [vs'|] eqn:EA'; [|discriminate].
    apply IH; [exact Hinv'|exact EA'|].
    destruct Hinv' as [N1 [N2 _]]. pose proof (NoDup_incl_length N1 N2) as Hle.
    unfold seen_of in Hle. rewrite map_length in Hle. rewrite app_length, map_length in *.
    assert (ps <> []) by (apply Hne; rewrite ET; discriminate).
    destruct ps; [congruence|]. cbn [length] in *. lia.
  Qed.

  Lemma relax_terminates_lemma : forall fuel, relax_bound bound pkgs <= fuel ->
    forall i, run_relax relax_req analyse cfg vuln_ids fuel <> XOutOfFuel i.
  Proof.
    intros fuel Hf i. unfold run_relax. destruct (analyse []) as [vs|] eqn:EA; [|discriminate].
    apply relax_loop_fuel; [|exact EA|].
    - split; [constructor|]. split; [intros x []|intros p r []].
    - unfold relax_bound in Hf. unfold all_levels. rewrite all_levels_length. simpl. lia.
  Qed.
End RelaxLoopProofs.

(* C11 - model of strategy/override/override.go: getVersionsGreater, the candidate scan and the
   outer loop of patchVulns (Maven path). Model + spec only.
   Packages, versions (version strings) and vulnerability ids are interned as N. *)
From Coq Require Import List ZArith NArith Bool Arith PeanoNat.
From Scalibr Require Import Lib.SortSearch RemedC11.Upgrade RemedC11.Suggest.
Import ListNotations.

Definition pkg := N.
Definition ver := N.
Definition vid := N.

(* one resolution.Vulnerability of resolved.Vulns: its id and, per subgraph, the vulnerable node
   (package, resolved version) and whether one of its parent edges carries a Maven classifier/type *)
Record rvuln := { rv_id : vid; rv_nodes : list (pkg * ver * bool) }.

(* the vulnerabilities to fix at one resolved (package, version) *)
Record group := { g_pkg : pkg; g_ver : ver; g_vulns : list vid }.

(* a PatchRequirement call: package, version resolved before the iteration, overriding version *)
Definition patch := (pkg * ver * ver)%type.

Inductive ores :=
| OOk (iters : list (list patch))      (* returned (resolved, nil); patches per iteration *)
| OErr (iters : list (list patch))     (* returned an error after these iterations *)
| OOutOfFuel (iters : list (list patch)).

Section Override.
  Variable versions_of : pkg -> list ver.           (* cl.Versions(pk), the client's order *)
  Variable rank : ver -> option Z.                  (* Some r: the string parses, r = its position in
                                                       the ecosystem order; None: Parse fails *)
  Variable dif : ver -> ver -> diff.                (* sv.Difference(a, b), DiffOther on error *)
  Variable affected : vid -> pkg -> ver -> bool.    (* vulns.IsAffected(osv, pkg@ver) *)
  Variable analyse : list (pkg * ver) -> option (list rvuln).
      (* resolve + FindVulnerabilities + MatchVuln filter of the manifest with these overrides
         applied (in order); None = an error. For [] it is the ResolvedGraph passed in. *)
  Variable cfg : config.
  Variable vuln_ids : list vid.

  (* ---- getVersionsGreater *)
  (* semvers[key]: parsed version if key is one of the given versions and parses, else nil *)
  Definition sem (vs : list ver) (v : ver) : option Z :=
    if existsb (N.eqb v) vs then rank v else None.

  (* cmpFunc for Maven = mavenutil.CompareVersions on the map entries: nil sorts first,
     and nil against nil is -1 *)
  Definition cmpf (vs : list ver) (a b : ver) : comparison :=
    match sem vs a, sem vs b with
    | None, _ => Lt
    | Some _, None => Gt
    | Some x, Some y => Z.compare x y
    end.

  (* slices.IsSortedFunc *)
  Fixpoint is_sorted (c : ver -> ver -> comparison) (l : list ver) : bool :=
    match l with
    | a :: (b :: _) as t => negb (is_lt (c b a)) && is_sorted c t
    | _ => true
    end.

  (* slices.SortFunc on <= 12 elements is insertionSortCmpFunc: element i moves left while it
     is smaller than its left neighbour. rp = the sorted prefix, reversed. *)
  Fixpoint ins_back (c : ver -> ver -> comparison) (x : ver) (rp : list ver) : list ver :=
    match rp with
    | [] => [x]
    | y :: rp' => if is_lt (c x y) then y :: ins_back c x rp' else x :: rp
    end.

  Definition go_sort (c : ver -> ver -> comparison) (l : list ver) : list ver :=
    rev (fold_left (fun rp x => ins_back c x rp) l []).

  Definition sorted_versions (vs : list ver) : list ver :=
    if is_sorted (cmpf vs) vs then vs else go_sort (cmpf vs) vs.

  (* slices.BinarySearchFunc(versions, target, cmpFunc), then offset++ if found, then versions[offset:] *)
  Definition get_versions_greater (vs : list ver) (vk : ver) : list ver :=
    let s := sorted_versions vs in
    (* the given version gets its own entry in semvers when it parses, listed or not *)
    let c := cmpf (vk :: vs) in
    let off := bsearch_idx (fun e => is_lt (c e vk)) vk s in
    let found := Nat.ltb off (length s) &&
                 match c (nth off s vk) vk with Eq => true | _ => false end in
    skipn (if found then S off else off) s.

  (* ---- the ascending scan for "the minimal greater version that fixes as many as possible" *)
  Definition count_affected (p : pkg) (vulns : list vid) (v : ver) : nat :=
    length (filter (fun u => affected u p v) vulns).

  Fixpoint scan_best (l : level) (p : pkg) (vk : ver) (vulns : list vid) (cands : list ver)
                     (best : ver) (best_count : nat) : ver * nat :=
    match cands with
    | [] => (best, best_count)
    | c :: cs =>
        if negb (allows l (dif vk c)) then (best, best_count)
        else
          let n := count_affected p vulns c in
          if Nat.ltb n best_count
          then (if Nat.eqb n 0 then (c, 0) else scan_best l p vk vulns cs c n)
          else scan_best l p vk vulns cs best best_count
    end.

  Definition choose_best (g : group) : ver * nat :=
    scan_best (config_get cfg (g_pkg g)) (g_pkg g) (g_ver g) (g_vulns g)
              (get_versions_greater (versions_of (g_pkg g)) (g_ver g))
              (g_ver g) (length (g_vulns g)).

  Definition to_override (q : patch) : pkg * ver := (fst (fst q), snd q).

  Definition pair_eqb (a b : pkg * ver) : bool := N.eqb (fst a) (fst b) && N.eqb (snd a) (snd b).

  (* one VersionKey of vkVulns: skipped for level none; skipped when the best candidate was already
     requested earlier (issued); patched if the best candidate fixes something *)
  Definition patch_group (issued : list (pkg * ver)) (g : group) : option patch :=
    if level_eqb (config_get cfg (g_pkg g)) LNone then None
    else let '(best, n) := choose_best g in
         if existsb (pair_eqb (g_pkg g, best)) issued then None
         else if Nat.ltb n (length (g_vulns g)) then Some (g_pkg g, g_ver g, best) else None.

  (* the pass over vkVulns; every override requested is remembered at once *)
  Fixpoint patch_groups (issued : list (pkg * ver)) (gs : list group) : list patch :=
    match gs with
    | [] => []
    | g :: gs' =>
        match patch_group issued g with
        | Some q => q :: patch_groups (to_override q :: issued) gs'
        | None => patch_groups issued gs'
        end
    end.

  (* ---- building vkVulns from resolved.Vulns *)
  Definition key_eqb (p : pkg) (v : ver) (g : group) : bool := N.eqb (g_pkg g) p && N.eqb (g_ver g) v.

  Fixpoint add_vuln (gs : list group) (p : pkg) (v : ver) (u : vid) : list group :=
    match gs with
    | [] => [ {| g_pkg := p; g_ver := v; g_vulns := [u] |} ]
    | g :: gs' => if key_eqb p v g
                  then {| g_pkg := p; g_ver := v; g_vulns := g_vulns g ++ [u] |} :: gs'
                  else g :: add_vuln gs' p v u
    end.

  (* nodes of one vulnerability, with the seenVKs de-duplication; None = classifier/type edge *)
  Fixpoint add_nodes (gs : list group) (u : vid) (nodes : list (pkg * ver * bool)) (seen : list (pkg * ver))
    : option (list group) :=
    match nodes with
    | [] => Some gs
    | (p, v, cls) :: ns =>
        if cls then None
        else if existsb (fun k => N.eqb (fst k) p && N.eqb (snd k) v) seen then add_nodes gs u ns seen
        else add_nodes (add_vuln gs p v u) u ns ((p, v) :: seen)
    end.

  Fixpoint groups_of (gs : list group) (vs : list rvuln) : option (list group) :=
    match vs with
    | [] => Some gs
    | rv :: vs' =>
        if existsb (N.eqb (rv_id rv)) vuln_ids
        then match add_nodes gs (rv_id rv) (rv_nodes rv) [] with
             | None => None
             | Some gs' => groups_of gs' vs'
             end
        else groups_of gs vs'
    end.

  (* one pass of the outer loop: None = error, Some [] = loop ends. ovs = every override requested so
     far (it is both the state of the manifest and the `issued` set) *)
  Definition iteration (ovs : list (pkg * ver)) : option (list patch) :=
    match analyse ovs with
    | None => None
    | Some vulns =>
        match groups_of [] vulns with
        | None => None
        | Some gs => Some (patch_groups ovs gs)
        end
    end.

  Fixpoint patch_vulns (fuel : nat) (ovs : list (pkg * ver)) (acc : list (list patch)) : ores :=
    match fuel with
    | 0 => OOutOfFuel (rev acc)
    | S f =>
        match iteration ovs with
        | None => OErr (rev acc)
        | Some [] => OOk (rev acc)
        | Some ps => patch_vulns f (ovs ++ map to_override ps) (ps :: acc)
        end
    end.

  Definition run_patch_vulns (fuel : nat) : ores := patch_vulns fuel [] [].

  (* bound on the number of iterations: every package can be raised at most once per known version *)
  Definition fuel_bound (pkgs : list pkg) : nat :=
    S (fold_right (fun p n => length (versions_of p) + n) 0 pkgs).

  (* ---- specification side: the order on versions induced by rank *)
  Definition rank_lt (a b : ver) : bool :=
    match rank a, rank b with Some x, Some y => Z.ltb x y | _, _ => false end.

  Definition iters_of (r : ores) : list (list patch) :=
    match r with OOk i => i | OErr i => i | OOutOfFuel i => i end.

  Definition patches_of (r : ores) : list patch := concat (iters_of r).

  (* well-formed universe for a package: every listed version parses and no two compare equal *)
  Definition wf_versions (vs : list ver) : Prop :=
    (forall v, In v vs -> rank v <> None) /\ NoDup vs /\
    (forall a b, In a vs -> In b vs -> rank a = rank b -> a = b).
End Override.

(* PatchRequirement replaces an earlier override of the same package: the override in force for a
   package is the last one issued for it *)
Fixpoint last_override (ovs : list (pkg * ver)) (p : pkg) : option ver :=
  match ovs with
  | [] => None
  | (q, v) :: ovs' => match last_override ovs' p with
                      | Some w => Some w
                      | None => if N.eqb q p then Some v else None
                      end
  end.

(* all (package, listed version) pairs of the given packages *)
Definition all_pairs (versions_of : pkg -> list ver) (pkgs : list pkg) : list (pkg * ver) :=
  flat_map (fun p => map (pair p) (versions_of p)) pkgs.

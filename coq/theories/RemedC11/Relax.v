(* C11 - model of relaxer/npm.go: NpmRelaxer.Relax. Model + spec only.
   The constraint (after the tag fallback through MatchingVersions), the parsed-ness of a
   version string, IsPrerelease, Difference and the sorted list of concrete versions are oracles. *)
From Coq Require Import List ZArith NArith Bool.
From Scalibr Require Import RemedC11.Upgrade RemedC11.Suggest.
Import ListNotations.

Inductive rop := Tilde | Caret.
Definition rop_eqb (a b : rop) : bool :=
  match a, b with Tilde, Tilde | Caret, Caret => true | _, _ => false end.

Section Relax.
  Variable V : Type.
  Variable parses : V -> bool.              (* semver.NPM.Parse(s) succeeds *)
  Variable matches : V -> bool.             (* c.MatchVersion(v) for the requirement's constraint *)
  Variable is_pre : V -> bool.              (* v.IsPrerelease() *)
  Variable dif : V -> V -> option diff.     (* semver.NPM.Difference(a, b): None = error *)

  (* the downward scan. rv = the part of vers not yet visited, reversed (highest first);
     above = the versions already passed, ascending. Result: (highest matching version,
     next version outside the range together with the versions above it, nextIsPre). *)
  Fixpoint scan_top (rv above : list V) (next : option (V * list V)) (next_pre : bool)
    : option V * option (V * list V) * bool :=
    match rv with
    | [] => (None, next, next_pre)
    | v :: rv' =>
        if negb (parses v) then scan_top rv' (v :: above) next next_pre
        else if matches v then (Some v, next, next_pre)
        else if negb (is_pre v) || next_pre
             then scan_top rv' (v :: above) (Some (v, above)) (is_pre v)
             else scan_top rv' (v :: above) next next_pre
    end.

  (* "Find the highest version with the same difference" *)
  Fixpoint best_loop (l : level) (cmpv : V) (d0 : diff) (next_pre : bool) (vs : list V) (best : V) : V :=
    match vs with
    | [] => best
    | v :: vs' =>
        match dif cmpv v with
        | None => best_loop l cmpv d0 next_pre vs' best
        | Some d =>
            if negb (allows l d) then best
            else if Z.ltb (diff_code d) (diff_code d0) then best
            else if negb (parses v) then best_loop l cmpv d0 next_pre vs' best
            else if negb (is_pre v) || next_pre then best_loop l cmpv d0 next_pre vs' v
            else best_loop l cmpv d0 next_pre vs' best
        end
    end.

  Definition dif_or_other (a b : V) : diff := match dif a b with Some d => d | None => DiffOther end.

  (* NpmRelaxer.Relax. c_ok: a constraint could be obtained (requirement parses, or it is a tag
     with a matching version that parses); verr: cl.Versions failed; vers: concrete versions
     sorted by semver.NPM.Compare; base: the version the requirement resolves to (the last of
     cl.MatchingVersions) when it lies below the highest match, else None. None = (req, false). *)
  Definition relax_npm (l : level) (c_ok verr : bool) (base : option V) (vers : list V) : option (rop * V) :=
    if level_eqb l LNone then None
    else if negb c_ok then None
    else if verr then None
    else
      match scan_top (rev vers) [] None true with
      | (_, None, _) => None
      | (None, Some _, _) => None
      | (Some lst, Some (nx, above), next_pre) =>
          let from := match base with Some b => b | None => lst end in
          let d := dif_or_other from nx in
          if negb (allows l d) then None
          else
            let '(cmpv, d0) := if diff_eqb d DiffMajor then (nx, DiffMinor) else (from, d) in
            let best := best_loop l cmpv d0 next_pre above nx in
            Some (if Z.leb (diff_code DiffPatch) (diff_code d0) then Tilde else Caret, best)
      end.

  (* ---- specification side *)
  (* the version the old requirement resolves to: the highest parsing, matching version *)
  Definition highest_match (vers : list V) : option V :=
    find (fun v => parses v && matches v) (rev vers).

  (* the version the upgrade is measured from *)
  Definition relax_from (base : option V) (vers : list V) : option V :=
    match base with Some b => Some b | None => highest_match vers end.

  Variable cmp : V -> V -> comparison.      (* semver.NPM.Compare *)

  (* what "~best" / "^best" can admit, expressed with Difference: at least best, same major
     (and same minor for ~). For 0.x versions npm's caret is narrower; this is an upper bound. *)
  Definition range_admits (op : rop) (best v : V) : bool :=
    negb (is_gt (cmp best v)) &&
    match op with
    | Tilde => negb (diff_eqb (dif_or_other best v) DiffMajor) && negb (diff_eqb (dif_or_other best v) DiffMinor)
    | Caret => negb (diff_eqb (dif_or_other best v) DiffMajor)
    end.

  (* the levels a configuration can hold *)
  Definition valid_level (l : level) : bool :=
    match l with Major | Minor | Patch => true | LNone | LInvalid => false end.

  (* premise about Difference used with a strictly ascending version list: two versions that differ in
     the order differ in a classified component (never Same / Other) *)
  Definition classified (d : diff) : bool := Z.leb 2 (diff_code d).
End Relax.

(* C11 - record types of the generated cases files and the per-case checks
   (model = observed; spec on observed). Evaluated by vm_compute in .build/cases/. *)
From Coq Require Import List ZArith NArith Bool Arith.
From Scalibr Require Import Lib.SortSearch RemedC11.Upgrade RemedC11.Suggest RemedC11.Relax RemedC11.Override RemedC11.RelaxLoop.
Import ListNotations.

Fixpoint bad_indices {A} (ok : A -> bool) (l : list A) (i : nat) : list nat :=
  match l with
  | [] => []
  | x :: l' => if ok x then bad_indices ok l' (S i) else i :: bad_indices ok l' (S i)
  end.

(* ---- tables as functions *)
Fixpoint lookup1 {A} (t : list (N * A)) (d : A) (k : N) : A :=
  match t with
  | [] => d
  | (k', a) :: t' => if N.eqb k k' then a else lookup1 t' d k
  end.

Fixpoint lookup2 {A} (t : list (N * N * A)) (d : A) (a b : N) : A :=
  match t with
  | [] => d
  | (a', b', x) :: t' => if N.eqb a a' && N.eqb b b' then x else lookup2 t' d a b
  end.

Definition memN (l : list N) (k : N) : bool := existsb (N.eqb k) l.

Definition rank_cmp (t : list (N * Z)) (a b : N) : comparison :=
  Z.compare (lookup1 t 0%Z a) (lookup1 t 0%Z b).

(* ================= stream A: Level.Allows and Config.Get ================= *)
Record acase := { a_level : level; a_diff : diff; a_observed : bool }.

Definition acase_model_ok (c : acase) : bool := Bool.eqb (allows (a_level c) (a_diff c)) (a_observed c).
Definition acase_spec_ok (c : acase) : bool := Bool.eqb (allows_spec (a_level c) (a_diff c)) (a_observed c).

Record gcase := { g_cfg : config; g_name : N; g_observed : level }.

Definition gcase_model_ok (c : gcase) : bool := level_eqb (config_get (g_cfg c) (g_name c)) (g_observed c).

(* the spec of Get, evaluated: explicit entry wins, else the entry under the empty name, else major *)
Definition gcase_spec_ok (c : gcase) : bool :=
  let keys := map fst (g_cfg c) in
  let entry k := lookup1 (g_cfg c) Major k in
  if memN keys (g_name c) then level_eqb (g_observed c) (entry (g_name c))
  else if memN keys 0%N then level_eqb (g_observed c) (entry 0%N)
  else level_eqb (g_observed c) Major.

Definition acase_prop_ok := acase_spec_ok.
Definition acase_dom (c : acase) : bool := true.
Definition gcase_prop_ok := gcase_spec_ok.
Definition gcase_dom (c : gcase) : bool := true.

(* NewConfigFromStrings + Get on spec strings *)
Record pcase := { p_specs : list str; p_query : str; p_observed : level }.
Definition pcase_model_ok (c : pcase) : bool := level_eqb (sconfig_get (config_parse (p_specs c)) (p_query c)) (p_observed c).
Definition pcase_spec_ok (c : pcase) : bool := level_eqb (config_parse_get_spec (p_specs c) (p_query c)) (p_observed c).
Definition pcase_prop_ok := pcase_spec_ok.
Definition pcase_dom (c : pcase) : bool := true.

(* ================= stream B: suggestMavenVersion ================= *)
Definition sres_eqb (a b : sres N) : bool :=
  match a, b with
  | SErr, SErr | SPanic, SPanic | SKeep, SKeep => true
  | SNew x, SNew y => N.eqb x y
  | _, _ => false
  end.

Record scase := {
  s_level : level;
  s_verr : bool;                   (* cl.Versions failed *)
  s_ckind : N;                     (* 0 = constraint does not parse, 1 = simple, 2 = range *)
  s_cur : option N;                (* simple: Some id when Parse(req.Version) succeeds *)
  s_versions : list N;             (* cl.Versions, the client's order *)
  s_parses : list N;
  s_matches : list N;              (* constraint.MatchVersion *)
  s_rank : list (N * Z);           (* position of each parsing string in the Maven order *)
  s_dif : list (N * N * diff);     (* (v, c) -> v.Difference(c) *)
  s_consistent : bool;             (* Compare restricted to these strings is the preorder given by s_rank *)
  s_observed : sres N
}.

Definition s_constr (c : scase) : constr N :=
  match s_ckind c with
  | 0%N => CBad
  | 1%N => CSimple (s_cur c)
  | _ => CRange (memN (s_matches c))
  end.

Definition scase_model (c : scase) : sres N :=
  suggest_maven_version N (memN (s_parses c)) (rank_cmp (s_rank c)) (lookup2 (s_dif c) DiffOther)
                        (s_verr c) (s_level c) (s_constr c) (s_versions c).

(* a simple requirement whose suggestion is the very string it was: indistinguishable from "unchanged" *)
Definition s_canon (c : scase) (r : sres N) : sres N :=
  match r, s_ckind c, s_cur c with
  | SNew v, 1%N, Some cur => if N.eqb v cur then SKeep else r
  | _, _, _ => r
  end.

Definition scase_model_ok (c : scase) : bool := sres_eqb (s_canon c (scase_model c)) (s_canon c (s_observed c)).

(* specification side. The version the requirement is taken to stand for: the written version
   (simple), or a parsing, matching version of greatest rank (the first such in the list). *)
Definition s_candidates (c : scase) : list N :=
  filter (fun v => memN (s_parses c) v && memN (s_matches c) v) (s_versions c).

Definition spec_current (c : scase) : option N :=
  match s_ckind c with
  | 1%N => s_cur c
  | 2%N => find (fun v => forallb (fun w => negb (is_gt (rank_cmp (s_rank c) w v))) (s_candidates c)) (s_candidates c)
  | _ => None
  end.

Fixpoint distinct_ranks (t : list (N * Z)) (l : list N) : bool :=
  match l with
  | [] => true
  | v :: l' => forallb (fun w => negb (Z.eqb (lookup1 t 0%Z v) (lookup1 t 0%Z w))) l' && distinct_ranks t l'
  end.

(* D: Compare is the preorder the ranks describe *)
Definition scase_dom (c : scase) : bool := s_consistent c.

(* the property on the observed result: no panic; a suggested version is within the level of, and
   not below, the current one; a changed requirement is strictly above it *)
Definition scase_prop_ok (c : scase) : bool :=
  match s_observed c with
  | SPanic => false
  | SErr | SKeep => true
  | SNew v =>
      match spec_current c with
      | None => false
      | Some cur =>
          sugg_within_level N (lookup2 (s_dif c) DiffOther) (s_level c) cur v &&
          sugg_not_down N (rank_cmp (s_rank c)) cur v &&
          is_lt (rank_cmp (s_rank c) cur v)
      end
  end.

(* no panic is claimed everywhere; the order-dependent parts on D *)
Definition scase_spec_ok (c : scase) : bool :=
  negb (sres_eqb (s_observed c) SPanic) && (negb (scase_dom c) || scase_prop_ok c).

(* ================= MavenSuggester.Suggest over the requirements of a manifest ================= *)
Definition sugg_eqb (a b : sugg N) : bool :=
  match a, b with
  | SuggErr, SuggErr | SuggPanic, SuggPanic => true
  | SuggOk x, SuggOk y =>
      Nat.eqb (length x) (length y) &&
      forallb (fun p => let '((n1, f1, t1), (n2, f2, t2)) := p in N.eqb n1 n2 && N.eqb f1 f2 && N.eqb t1 t2) (combine x y)
  | _, _ => false
  end.

Record qcase := { q_cfg : config; q_reqs : list (sreq N);
  q_listed : bool;   (* D: Compare is a total preorder on the versions of every declared package *)
  q_judged : list (N * comparison * diff);
                     (* per returned update whose declared requirement stands for a known version cur:
                        package, Compare(cur, VersionTo), Difference(VersionTo, cur) *)
  q_observed : sugg N }.

Definition qcase_model_ok (c : qcase) : bool :=
  sugg_eqb (suggest_all N N.eqb (q_cfg c) (q_reqs c) []) (q_observed c).

(* no update names a package configured as none; (on D) every update is strictly upward and within
   the level, judged against its own declaration *)
Definition qcase_none_ok (c : qcase) : bool :=
  match q_observed c with
  | SuggOk ups => forallb (fun u => negb (level_eqb (config_get (q_cfg c) (fst (fst u))) LNone)) ups
  | _ => true
  end.
Definition qcase_prop_ok (c : qcase) : bool :=
  match q_observed c with
  | SuggOk ups => qcase_none_ok c &&
                  forallb (fun j => let '(p, cm, d) := j in is_lt cm && allows (config_get (q_cfg c) p) d) (q_judged c)
  | SuggErr => true
  | SuggPanic => false
  end.
Definition qcase_dom (c : qcase) : bool := q_listed c.
Definition qcase_spec_ok (c : qcase) : bool :=
  match q_observed c with
  | SuggPanic => false
  | _ => if qcase_dom c then qcase_prop_ok c else qcase_none_ok c
  end.

(* ================= result oracle: one PackageUpdate of FixVulns / Update ================= *)
Record ucase := {
  u_strategy : N;            (* 0 = Update (Maven), 1 = relax (npm), 2 = override (Maven) *)
  u_level : level;           (* UpgradeConfig.Get(update.Name) *)
  u_known : bool;            (* the package resolves both without and with the update *)
  u_cmp : comparison;        (* Compare(version without the update, version with it) *)
  u_dif : diff;              (* Difference of the two *)
  u_op : N;                  (* relax: 0 = "~", 1 = "^", 2 = other *)
  u_listed : bool;           (* override only: the two versions are not differently written versions that compare
                                equal (2.0.2.Final -> 2.0.2; wf_versions premise of override_strictly_up) *)
  u_honoured : bool;         (* override, update: the package resolves to what the old / new requirement asks for *)
  u_indep : bool;            (* the other updates of the run leave this package where the original manifest has it *)
  u_consistent : bool
}.

Definition ucase_strict (c : ucase) : bool := u_known c && negb (level_eqb (u_level c) LNone) && is_lt (u_cmp c).
Definition ucase_prop_ok (c : ucase) : bool := ucase_strict c && allows (u_level c) (u_dif c).
Definition ucase_model_ok (c : ucase) : bool := true.
Definition ucase_dom (c : ucase) : bool :=
  u_consistent c &&
  match u_strategy c with
  | 0%N => u_honoured c
  | 1%N => valid_level (u_level c)
  | _ => u_listed c && u_honoured c && u_indep c
  end.
(* when another update of the same run already lifts the package (through a hard requirement of the
   updated dependency), this update has no effect of its own: then only "not below, within the level,
   not a none package" is claimed *)
Definition ucase_weak (c : ucase) : bool :=
  u_known c && negb (level_eqb (u_level c) LNone) && negb (is_gt (u_cmp c)) && allows (u_level c) (u_dif c).
(* (for override, updates of different patches that influence each other's package are outside the
   domain altogether - known finding: combined patches can pull a package down - see ucase_dom) *)
Definition ucase_spec_ok (c : ucase) : bool :=
  if ucase_dom c then (if u_indep c then ucase_prop_ok c else ucase_weak c)
  else negb (u_consistent c) || match u_strategy c with 1%N => (if u_indep c then ucase_strict c else true) | _ => true end.

(* ================= stream C: NpmRelaxer.Relax ================= *)
Record rcase := {
  r_level : level;
  r_cok : bool;                          (* a constraint was obtained (directly or through the tag fallback) *)
  r_verr : bool;                         (* cl.Versions failed *)
  r_vers : list N;                       (* concrete versions after slices.SortFunc(vers, semver.NPM.Compare) *)
  r_parses : list N;
  r_matches : list N;
  r_pre : list N;
  r_dif : list (N * N * option diff);    (* (a, b) -> semver.NPM.Difference(a, b) for a before b *)
  r_rank : list (N * Z);
  r_consistent : bool;
  r_base : option N;                     (* last of cl.MatchingVersions(req) when it sits below the highest match *)
  r_resolved : option N;                 (* specification side: the version the requirement resolves to *)
  r_observed : option (rop * N)          (* Some (op, v): req.Version = op ++ v, true;  None: (req, false) *)
}.

Definition r_difo (c : rcase) : N -> N -> option diff := lookup2 (r_dif c) None.

Definition rcase_model (c : rcase) : option (rop * N) :=
  relax_npm N (memN (r_parses c)) (memN (r_matches c)) (memN (r_pre c)) (r_difo c)
            (r_level c) (r_cok c) (r_verr c) (r_base c) (r_vers c).

Definition ropv_eqb (a b : option (rop * N)) : bool :=
  match a, b with
  | None, None => true
  | Some (o1, v1), Some (o2, v2) => rop_eqb o1 o2 && N.eqb v1 v2
  | _, _ => false
  end.

Definition rcase_model_ok (c : rcase) : bool := ropv_eqb (rcase_model c) (r_observed c).

(* the version the upgrade is judged from: what the old requirement resolves to *)
Definition r_from (c : rcase) : option N :=
  match r_resolved c with
  | Some b => Some b
  | None => highest_match N (memN (r_parses c)) (memN (r_matches c)) (r_vers c)
  end.

(* the property on the observed result, in two parts *)
Definition rcase_prop_core (c : rcase) : bool :=
  match r_observed c with
  | None => true
  | Some (op, best) =>
      negb (level_eqb (r_level c) LNone) &&
      match r_from c with
      | None => false
      | Some from => is_lt (rank_cmp (r_rank c) from best) &&
                     allows (r_level c) (dif_or_other N (r_difo c) from best)
      end
  end.

Definition rcase_prop_range (c : rcase) : bool :=
  match r_observed c with
  | None => true
  | Some (op, best) =>
      match r_from c with
      | None => false
      | Some from =>
          forallb (fun v => negb (range_admits N (r_difo c) (rank_cmp (r_rank c)) op best v) ||
                            allows (r_level c) (dif_or_other N (r_difo c) from v)) (r_vers c)
      end
  end.

Definition rcase_prop_ok (c : rcase) : bool := rcase_prop_core c && rcase_prop_range c.

(* D: Compare is the preorder of the ranks, every version parses, no two compare equal, and Difference
   classifies every pair (never Same / Other / an error) *)
Definition rcase_dom_core (c : rcase) : bool :=
  r_consistent c && forallb (memN (r_parses c)) (r_vers c) && distinct_ranks (r_rank c) (r_vers c) &&
  forallb (fun e => match snd e with Some d => classified d | None => false end) (r_dif c) &&
  match r_resolved c, highest_match N (memN (r_parses c)) (memN (r_matches c)) (r_vers c) with
  | Some b, Some lst => negb (is_gt (rank_cmp (r_rank c) b lst))
  | _, _ => true
  end.

Definition rcase_dom (c : rcase) : bool := rcase_dom_core c && valid_level (r_level c).

Definition rcase_spec_ok (c : rcase) : bool :=
  (negb (rcase_dom_core c) || rcase_prop_core c) && (negb (rcase_dom c) || rcase_prop_range c).

(* ================= stream D: override ================= *)
Fixpoint lookup_opt {A} (t : list (N * A)) (k : N) : option A :=
  match t with
  | [] => None
  | (k', a) :: t' => if N.eqb k k' then Some a else lookup_opt t' k
  end.

Definition listN_eqb (a b : list N) : bool :=
  Nat.eqb (length a) (length b) && forallb (fun p => N.eqb (fst p) (snd p)) (combine a b).

(* getVersionsGreater *)
Record vcase := {
  v_versions : list N;          (* cl.Versions, the client's order *)
  v_rank : list (N * Z);        (* strings that parse, with their position in the Maven order *)
  v_vk : N;                     (* the version to start from *)
  v_consistent : bool;
  v_observed : list N
}.

Definition vcase_model_ok (c : vcase) : bool :=
  listN_eqb (get_versions_greater (lookup_opt (v_rank c)) (v_versions c) (v_vk c)) (v_observed c).

Definition v_rank_lt (c : vcase) (a b : N) : bool := rank_lt (lookup_opt (v_rank c)) a b.

Fixpoint ascending (lt : N -> N -> bool) (l : list N) : bool :=
  match l with
  | a :: (b :: _) as t => lt a b && ascending lt t
  | _ => true
  end.

(* exactly the versions above vk, ascending *)
Definition vcase_prop_ok (c : vcase) : bool :=
  forallb (v_rank_lt c (v_vk c)) (v_observed c) &&
  forallb (fun w => negb (v_rank_lt c (v_vk c) w) || memN (v_observed c) w) (v_versions c) &&
  forallb (memN (v_versions c)) (v_observed c) &&
  ascending (v_rank_lt c) (v_observed c).

Definition wf_versionsb (rk : N -> option Z) (vs : list N) : bool :=
  forallb (fun v => match rk v with Some _ => true | None => false end) vs &&
  distinct_ranks (map (fun v => (v, match rk v with Some r => r | None => 0%Z end)) vs) vs.

Definition vcase_dom (c : vcase) : bool :=
  v_consistent c && wf_versionsb (lookup_opt (v_rank c)) (v_versions c) &&
  match lookup_opt (v_rank c) (v_vk c) with Some _ => true | None => false end.

Definition vcase_spec_ok (c : vcase) : bool := negb (vcase_dom c) || vcase_prop_ok c.

(* patchVulns *)
Definition ovs_eqb (a b : list (N * N)) : bool :=
  let eqp (p q : N * N) := N.eqb (fst p) (fst q) && N.eqb (snd p) (snd q) in
  Nat.eqb (length a) (length b) && forallb (fun p => existsb (eqp p) b) a && forallb (fun p => existsb (eqp p) a) b.

(* PatchRequirement replaces an earlier override of the same package: the manifest (hence what the
   resolver answers) depends on the last override per package only *)
Fixpoint norm_ovs (ovs : list (N * N)) : list (N * N) :=
  match ovs with
  | [] => []
  | (q, v) :: ovs' => if existsb (fun r => N.eqb (fst r) q) ovs' then norm_ovs ovs' else (q, v) :: norm_ovs ovs'
  end.

Fixpoint lookup_ovs {A} (t : list (list (N * N) * A)) (d : A) (k : list (N * N)) : A :=
  match t with
  | [] => d
  | (k', a) :: t' => if ovs_eqb (norm_ovs k) (norm_ovs k') then a else lookup_ovs t' d k
  end.

Record ocase := {
  o_cfg : config;
  o_vuln_ids : list N;
  o_versions : list (N * list N);              (* cl.Versions per package *)
  o_rank : list (N * Z);
  o_dif : list (N * N * diff);
  o_affected : list (N * N * N);               (* (vulnerability, package, version) that IsAffected accepts *)
  o_analyse : list (list (N * N) * option (list rvuln));
  o_consistent : bool;
  o_observed : ores
}.

Definition o_versions_of (c : ocase) (p : N) : list N := lookup1 (o_versions c) [] p.
Definition o_affectedb (c : ocase) (u p v : N) : bool :=
  existsb (fun t => N.eqb (fst (fst t)) u && N.eqb (snd (fst t)) p && N.eqb (snd t) v) (o_affected c).

Definition ocase_model (c : ocase) : ores :=
  run_patch_vulns (o_versions_of c) (lookup_opt (o_rank c)) (lookup2 (o_dif c) DiffOther) (o_affectedb c)
                  (lookup_ovs (o_analyse c) (Some [])) (o_cfg c) (o_vuln_ids c)
                  (fuel_bound (o_versions_of c) (map fst (o_versions c))).

Definition patch_eqb (a b : patch) : bool :=
  N.eqb (fst (fst a)) (fst (fst b)) && N.eqb (snd (fst a)) (snd (fst b)) && N.eqb (snd a) (snd b).

Definition iter_eqb (a b : list patch) : bool :=
  Nat.eqb (length a) (length b) && forallb (fun p => existsb (patch_eqb p) b) a && forallb (fun p => existsb (patch_eqb p) a) b.

Fixpoint iters_eqb (a b : list (list patch)) : bool :=
  match a, b with
  | [], [] => true
  | x :: a', y :: b' => iter_eqb x y && iters_eqb a' b'
  | _, _ => false
  end.

(* one list of iterations is a prefix of the other *)
Fixpoint iters_prefix_eqb (a b : list (list patch)) : bool :=
  match a, b with
  | x :: a', y :: b' => iter_eqb x y && iters_prefix_eqb a' b'
  | _, _ => true
  end.

(* a run that was cut off (fuel in the model, patch budget / watchdog on the implementation) is
   compared on the iterations both sides performed *)
Definition ores_eqb (a b : ores) : bool :=
  match a, b with
  | OOk x, OOk y | OErr x, OErr y => iters_eqb x y
  | OOutOfFuel x, OOutOfFuel y => iters_prefix_eqb x y
  | _, _ => false
  end.

Definition ocase_model_ok (c : ocase) : bool := ores_eqb (ocase_model c) (o_observed c).

(* the property on the observed PatchRequirement calls: terminated; every override is strictly above
   the version resolved before it, within the package's level both of that version and of the version
   the package had originally, and never on a package configured as none *)
Definition first_from (ps : list patch) (p : N) (d : N) : N :=
  match find (fun q => N.eqb (fst (fst q)) p) ps with Some q => snd (fst q) | None => d end.

Definition ocase_prop_core (c : ocase) : bool :=
  match o_observed c with
  | OOutOfFuel _ => false
  | _ =>
      forallb (fun q =>
        let '(p, from, to) := q in
        let l := config_get (o_cfg c) p in
        negb (level_eqb l LNone) &&
        rank_lt (lookup_opt (o_rank c)) from to &&
        allows l (lookup2 (o_dif c) DiffOther from to)) (patches_of (o_observed c))
  end.

Definition ocase_prop_orig (c : ocase) : bool :=
  let ps := patches_of (o_observed c) in
  forallb (fun q =>
    let '(p, from, to) := q in
    allows (config_get (o_cfg c) p) (lookup2 (o_dif c) DiffOther (first_from ps p from) to)) ps.

Definition ocase_prop_ok (c : ocase) : bool := ocase_prop_core c && ocase_prop_orig c.

(* the resolver premises of override_terminates, evaluated on the recorded answers: an overridden
   package resolves to the overriding version; one version per package among the vulnerable nodes *)
Definition nodes_of (vs : list rvuln) : list (N * N) := flat_map (fun rv => map fst (rv_nodes rv)) vs.

Definition resolver_honours (c : ocase) : bool :=
  forallb (fun e =>
    match snd e with
    | None => true
    | Some vs =>
        let ns := nodes_of vs in
        forallb (fun n => match last_override (fst e) (fst n) with Some w => N.eqb w (snd n) | None => true end) ns &&
        forallb (fun n => forallb (fun m => negb (N.eqb (fst n) (fst m)) || N.eqb (snd n) (snd m)) ns) ns
    end) (o_analyse c).

Definition ocase_dom_core (c : ocase) : bool :=
  o_consistent c && forallb (fun pv => wf_versionsb (lookup_opt (o_rank c)) (snd pv)) (o_versions c).

Definition ocase_dom (c : ocase) : bool := ocase_dom_core c && resolver_honours c.

(* termination, strictly upward, within the level of the version resolved before, never a none package:
   on every well-formed universe; within the level of the original version: where the resolver honours
   the overrides *)
Definition ocase_spec_ok (c : ocase) : bool :=
  match o_observed c with OOutOfFuel _ => false | _ => true end &&
  (negb (ocase_dom_core c) || ocase_prop_core c) && (negb (ocase_dom c) || ocase_prop_orig c).

(* ================= stream: relax.patchVulns (the outer loop of the relax strategy) ================= *)
Record xcase := {
  x_cfg : config;
  x_vuln_ids : list N;
  x_relax : list (N * N * option N);              (* (package, requirement) -> NpmRelaxer.Relax *)
  x_analyse : list (list (N * N) * option (list xvuln));
  x_init : list (N * N);                          (* the manifest's requirement per direct dependency *)
  x_hm : list (N * N * nat);                      (* (package, requirement) -> position of its highest match *)
  x_bound : list (N * nat);                       (* number of versions per package *)
  x_observed : xres
}.

Definition x_analysef (c : xcase) : list (N * N) -> option (list xvuln) := lookup_ovs (x_analyse c) (Some []).
Definition x_boundf (c : xcase) (p : N) : nat := lookup1 (x_bound c) 0 p.

Definition xcase_model (c : xcase) : xres :=
  run_relax (lookup2 (x_relax c) None) (x_analysef c) (x_cfg c) (x_vuln_ids c)
            (relax_bound (x_boundf c) (map fst (x_bound c))).

Definition xpatch_eqb (a b : xpatch) : bool :=
  N.eqb (x_pkg a) (x_pkg b) && N.eqb (x_old a) (x_old b) && N.eqb (x_new a) (x_new b).

Fixpoint list_eqb {A} (e : A -> A -> bool) (a b : list A) : bool :=
  match a, b with
  | [], [] => true
  | x :: a', y :: b' => e x y && list_eqb e a' b'
  | _, _ => false
  end.

Fixpoint list_prefix_eqb {A} (e : A -> A -> bool) (a b : list A) : bool :=
  match a, b with
  | x :: a', y :: b' => e x y && list_prefix_eqb e a' b'
  | _, _ => true
  end.

(* reqsToRelax sorts: the order inside a pass is part of the comparison *)
Definition nonempty_passes (x : list (list xpatch)) : list (list xpatch) :=
  filter (fun it => match it with [] => false | _ => true end) x.

(* (a pass interrupted before its first replacement leaves no trace) *)
Definition xres_eqb (a b : xres) : bool :=
  match a, b with
  | XOk x, XOk y | XImpossible x, XImpossible y | XErr x, XErr y =>
      list_eqb (list_eqb xpatch_eqb) (nonempty_passes x) (nonempty_passes y)
  | XOutOfFuel x, XOutOfFuel y => list_prefix_eqb (list_eqb xpatch_eqb) (nonempty_passes x) (nonempty_passes y)
  | _, _ => false
  end.

Definition xcase_model_ok (c : xcase) : bool := xres_eqb (xcase_model c) (x_observed c).

(* the property on the observed replacements: the loop ended; per pass (with the state the manifest had
   then) every replaced requirement belongs to a direct dependency from which a vulnerable node of one of
   the vulnerabilities to fix is reachable, never to a none package; on D it moves the highest matching
   version strictly up *)
Definition x_hmf (c : xcase) (p r : N) : nat := lookup2 (x_hm c) 0 p r.

Fixpoint x_passes_ok (c : xcase) (ovs : list (N * N)) (its : list (list xpatch)) : bool :=
  match its with
  | [] => true
  | ps :: its' =>
      let vs := match x_analysef c ovs with Some vs => vs | None => [] end in
      forallb (fun q =>
        negb (level_eqb (config_get (x_cfg c) (x_pkg q)) LNone) &&
        existsb (fun v => memN (x_vuln_ids c) (xv_id v) && memN (xv_reach v) (x_pkg q)) vs) ps &&
      x_passes_ok c (ovs ++ map x_override ps) its'
  end.

Definition xcase_prop_core (c : xcase) : bool :=
  match x_observed c with XOutOfFuel _ => false | _ => true end &&
  x_passes_ok c [] (xiters_of (x_observed c)).

Definition xcase_prop_up (c : xcase) : bool :=
  forallb (fun q => Nat.ltb (x_hmf c (x_pkg q) (x_old q)) (x_hmf c (x_pkg q) (x_new q))) (xpatches_of (x_observed c)).

Definition xcase_prop_ok (c : xcase) : bool := xcase_prop_core c && xcase_prop_up c.

(* D: the premises of relax_terminates on the recorded answers *)
Definition xcase_dom (c : xcase) : bool :=
  forallb (fun e => match snd e with
                    | Some r' => let '(p, r) := fst e in
                                 Nat.ltb (x_hmf c p r) (x_hmf c p r') && Nat.ltb (x_hmf c p r') (x_boundf c p)
                    | None => true
                    end) (x_relax c) &&
  forallb (fun e => match snd e with
                    | Some vs => forallb (fun v => forallb (fun d =>
                                   N.eqb (snd d) (cur_req (lookup1 (x_init c) 0%N) (fst e) (fst d)) &&
                                   memN (map fst (x_bound c)) (fst d)) (xv_directs v)) vs
                    | None => true
                    end) (x_analyse c).

(* "the computation terminates" is claimed at full strength: a run that had to be cut off (confirmed
   watchdog timeout, patch or resolution budget) fails the property whatever the domain *)
Definition xcase_spec_ok (c : xcase) : bool :=
  match x_observed c with XOutOfFuel _ => false | _ => true end &&
  x_passes_ok c [] (xiters_of (x_observed c)) && (negb (xcase_dom c) || xcase_prop_up c).

(* The modelled Maven tokeniser (newMavenVersion: split, transitions, normalisation, trimming) only
   produces well-formed token lists; with it the structure-level theorems lift to all byte strings. *)
From Coq Require Import List ZArith NArith Bool Lia Arith.
From Scalibr Require Import Semantic.Cmp Semantic.LexPad Semantic.Bytes Semantic.Generated_Tables Semantic.DecProofs.
From Scalibr Require Import Semantic.Maven Semantic.MavenProofs.
Import ListNotations.
Open Scope nat_scope.

(* ------------------------------------------------------------------ tokens before trimming *)
Lemma norm_piece_canon : forall p last, canon_value (norm_piece p last) = true.
Proof.
  intros p last. unfold norm_piece.
  cbv zeta. set (c := if last then _ else _). destruct (big_of_string c) eqn:E; unfold canon_value.
  - rewrite big_of_string_Z_to_dec. apply bytes_eqb_refl.
  - rewrite E. reflexivity.
Qed.

Lemma toks_of_pieces_wf : forall ps pfx, forallb tok_wf (toks_of_pieces pfx ps) = true.
Proof.
  induction ps as [|p r IH]; intros pfx; [reflexivity|]. cbn [toks_of_pieces forallb].
  rewrite IH. unfold tok_wf. cbn [mt_null mt_value negb]. rewrite norm_piece_canon. reflexivity.
Qed.

Lemma toks_of_pieces_prefix : forall ps pfx, rest_prefix_ok {| mt_prefix := pfx; mt_value := []; mt_null := false |} = true ->
  forallb rest_prefix_ok (toks_of_pieces pfx ps) = true.
Proof.
  induction ps as [|p r IH]; intros pfx H; [reflexivity|]. cbn [toks_of_pieces forallb].
  rewrite (IH s_dash eq_refl). unfold rest_prefix_ok in *. cbn [mt_prefix] in *. rewrite H. reflexivity.
Qed.

Lemma trans_split_nonempty : forall rs cur prev, trans_split rs cur prev <> [].
Proof.
  induction rs as [|r rest IH]; intros cur prev; cbn [trans_split]; [discriminate|].
  destruct prev as [[pb pd]|]; [|apply IH].
  destruct (pd && negb (rune_is_digit r)); [discriminate|].
  destruct (negb pd && rune_is_digit r); [discriminate | apply IH].
Qed.

Definition sep_prefix (p : bytes) : Prop := p = s_dot \/ p = s_dash.

Lemma raw_split_shape : forall s pfx cur, exists raw rest,
  raw_split s pfx cur = (pfx, raw) :: rest /\ Forall (fun pr : bytes * bytes => sep_prefix (fst pr)) rest.
Proof.
  induction s as [|c r IH]; intros pfx cur; cbn [raw_split].
  - exists (rev cur), []. split; [reflexivity | constructor].
  - destruct ((c =? 45)%N || (c =? 46)%N) eqn:E.
    + destruct (IH [c] []) as (raw' & rest' & E' & F'). exists (rev cur), (([c], raw') :: rest').
      split; [rewrite E'; reflexivity|]. constructor; [|exact F'].
      apply orb_true_iff in E as [E|E]; apply N.eqb_eq in E; subst c; [right | left]; reflexivity.
    + apply IH.
Qed.

Lemma group_tokens_ok : forall pr : bytes * bytes, sep_prefix (fst pr) ->
  forallb rest_prefix_ok (toks_of_pieces (fst pr) (pieces (snd pr))) = true.
Proof.
  intros pr H. apply toks_of_pieces_prefix. unfold rest_prefix_ok. cbn [mt_prefix].
  destruct H as [-> | ->]; reflexivity.
Qed.

Lemma tokenise_shape : forall s, exists h t, tokenise s = h :: t /\ mt_prefix h = [] /\
  forallb rest_prefix_ok t = true /\ forallb tok_wf (h :: t) = true.
Proof.
  intros s. unfold tokenise. destruct (raw_split_shape s [] []) as (raw & rest & E & F). rewrite E.
  cbn [flat_map fst snd].
  destruct (pieces raw) as [|p ps] eqn:P; [exfalso; exact (trans_split_nonempty _ _ _ P)|].
  cbn [toks_of_pieces]. eexists _, _. split; [reflexivity|]. split; [reflexivity|].
  assert (forallb rest_prefix_ok (flat_map (fun pr : bytes * bytes => toks_of_pieces (fst pr) (pieces (snd pr))) rest) = true) as R.
  { clear E. induction F as [|pr rest' Hp F' IHF]; [reflexivity|]. cbn [flat_map]. rewrite forallb_app, (group_tokens_ok pr Hp). exact IHF. }
  assert (forallb tok_wf (flat_map (fun pr : bytes * bytes => toks_of_pieces (fst pr) (pieces (snd pr))) rest) = true) as W.
  { clear. induction rest as [|pr rest' IH]; [reflexivity|]. cbn [flat_map]. rewrite forallb_app, toks_of_pieces_wf. exact IH. }
  split.
  - rewrite forallb_app, (toks_of_pieces_prefix ps s_dash eq_refl). exact R.
  - change (forallb tok_wf ((toks_of_pieces [] (p :: ps)) ++ flat_map (fun pr : bytes * bytes => toks_of_pieces (fst pr) (pieces (snd pr))) rest) = true).
    rewrite forallb_app, toks_of_pieces_wf. exact W.
Qed.

(* ------------------------------------------------------------------ the trimming loop *)
Lemma incl_remove_at {A} : forall i (l : list A), incl (remove_at i l) l.
Proof.
  induction i; intros [|x l]; simpl; try apply incl_refl.
  - apply incl_tl, incl_refl.
  - intros y [->|H]; [left; reflexivity | right; apply IHi; exact H].
Qed.

Lemma trim_loop_head : forall fuel h t i, exists t', trim_loop fuel (h :: t) i = h :: t' /\ incl t' t.
Proof.
  induction fuel; intros h t i; [exists t; split; [reflexivity | apply incl_refl]|].
  destruct i as [|i']; [exists t; split; [reflexivity | apply incl_refl]|].
  cbn [trim_loop]. destruct (should_trim (nth (S i') (h :: t) dummy_tok)).
  - change (remove_at (S i') (h :: t)) with (h :: remove_at i' t).
    destruct (IHfuel h (remove_at i' t) i') as (t' & E & I). exists t'. split; [exact E|].
    eapply incl_tran; [exact I | apply incl_remove_at].
  - destruct (skip_left (h :: t) (S i')) as [[|j']|]; try (exists t; split; [reflexivity | apply incl_refl]).
    apply IHfuel.
Qed.

Lemma length_remove_at {A} : forall i (l : list A), i < length l -> S (length (remove_at i l)) = length l.
Proof.
  induction i; intros [|x l] H.
  - simpl in H. inversion H.
  - reflexivity.
  - simpl in H. inversion H.
  - change (remove_at (S i) (x :: l)) with (x :: remove_at i l). cbn [length]. f_equal. apply IHi.
    simpl in H. apply Nat.succ_lt_mono. exact H.
Qed.

Lemma last_remove_at {A} (d : A) : forall i (l : list A), S i < length l -> last (remove_at i l) d = last l d.
Proof.
  induction i; intros [|x l] H; simpl in H; try lia.
  - destruct l as [|y l]; [simpl in H; lia | reflexivity].
  - destruct l as [|y l]; [simpl in H; lia|].
    change (remove_at (S i) (x :: y :: l)) with (x :: remove_at i (y :: l)).
    assert (remove_at i (y :: l) <> []) as NE.
    { intros E. assert (i < length (y :: l)) as B by (simpl in *; lia). pose proof (length_remove_at i (y :: l) B) as K. rewrite E in K. simpl in K, H. lia. }
    destruct (remove_at i (y :: l)) as [|z r] eqn:R; [contradiction|].
    change (last (x :: z :: r) d) with (last (z :: r) d). rewrite <- R.
    change (last (x :: y :: l) d) with (last (y :: l) d). apply IHi. simpl. simpl in H. lia.
Qed.

Lemma nth_pred_last {A} (d : A) : forall (l : list A) n, S n = length l -> nth n l d = last l d.
Proof.
  induction l as [|x l IH]; intros n H; simpl in H; [lia|].
  destruct l as [|y l].
  - simpl in H. assert (n = 0) by lia. subst. reflexivity.
  - destruct n; [simpl in H; lia|]. change (last (x :: y :: l) d) with (last (y :: l) d).
    cbn [nth]. apply IH. simpl in *. lia.
Qed.

Lemma skip_left_le : forall toks i j, skip_left toks i = Some j -> j <= i.
Proof.
  induction i; intros j H; cbn [skip_left] in H.
  - destruct (bytes_eqb _ _); inversion H. lia.
  - destruct (bytes_eqb _ _); [inversion H; lia|]. apply IHi in H. lia.
Qed.

Definition trim_inv (toks : list mtok) (i : nat) : Prop :=
  S i = length toks \/ should_trim (last toks dummy_tok) = false.

Lemma trim_loop_last : forall fuel toks i, i < fuel -> i < length toks -> trim_inv toks i ->
  length (trim_loop fuel toks i) = 1 \/ should_trim (last (trim_loop fuel toks i) dummy_tok) = false.
Proof.
  induction fuel; intros toks i Hf Hl Inv; [lia|].
  destruct i as [|i']; cbn [trim_loop].
  - destruct Inv as [E|E]; [left; lia | right; exact E].
  - destruct (should_trim (nth (S i') toks dummy_tok)) eqn:T.
    + pose proof (length_remove_at (S i') toks Hl) as LR.
      apply IHfuel; [lia | lia|].
      destruct (Nat.eq_dec (S (S i')) (length toks)) as [E|NE].
      * left. lia.
      * destruct Inv as [E|E]; [contradiction|]. right. rewrite last_remove_at by lia. exact E.
    + assert (should_trim (last toks dummy_tok) = false) as L.
      { destruct Inv as [E|E]; [|exact E]. rewrite <- (nth_pred_last dummy_tok toks (S i') E). exact T. }
      destruct (skip_left toks (S i')) as [[|j']|] eqn:SK; try (right; exact L).
      apply skip_left_le in SK. apply IHfuel; [lia | lia | right; exact L].
Qed.

Lemma rev_hd_last {A} (d : A) : forall (l : list A) x r, rev l = x :: r -> x = last l d.
Proof.
  intros l x r H. assert (l = rev (x :: r)) as E by (rewrite <- H, rev_involutive; reflexivity).
  subst l. simpl. rewrite last_last. reflexivity.
Qed.

(* ------------------------------------------------------------------ the parser *)
Theorem parse_maven_wf : forall s v, parse_maven s = Ok v -> maven_wf v = true.
Proof.
  intros s v H. unfold parse_maven in H. injection H as <-.
  destruct (tokenise_shape s) as (h & t & E & PH & PT & WF). rewrite E.
  set (n := length (h :: t)).
  destruct (trim_loop_head n h t (n - 1)) as (t' & ET & I).
  pose proof (trim_loop_last n (h :: t) (n - 1)) as L.
  assert (n - 1 < n) as B1 by (unfold n; simpl; lia).
  assert (trim_inv (h :: t) (n - 1)) as TI by (left; unfold n; simpl; lia).
  specialize (L B1 B1 TI).
  unfold maven_wf. cbn [mv_tokens]. fold n. rewrite ET in *.
  rewrite PH. cbn [is_nil andb].
  assert (forallb rest_prefix_ok t' = true) as P'.
  { apply forallb_forall. intros x Hx. rewrite forallb_forall in PT. apply PT, I, Hx. }
  assert (forallb tok_wf (h :: t') = true) as W'.
  { simpl in WF. apply andb_true_iff in WF as [Wh Wt]. simpl. rewrite Wh. simpl.
    apply forallb_forall. intros x Hx. rewrite forallb_forall in Wt. apply Wt, I, Hx. }
  rewrite P', W'. cbn [andb].
  unfold last_ok. destruct (rev t') as [|x r] eqn:R; [reflexivity|].
  destruct L as [L|L].
  - simpl in L. assert (t' = []) by (destruct t'; [reflexivity | simpl in L; lia]). subst t'. discriminate.
  - pose proof (rev_hd_last dummy_tok t' x r R) as EX. subst x.
    destruct t' as [|y t'']; [discriminate|]. change (last (h :: y :: t'') dummy_tok) with (last (y :: t'') dummy_tok) in L.
    rewrite L. reflexivity.
Qed.

(* ------------------------------------------------------------------ string-level theorems *)
Lemma maven_str_antisym_lemma : forall a b, compare_str_maven b a = oppO (compare_str_maven a b).
Proof.
  intros a b. unfold compare_str_maven.
  destruct (parse_maven a) as [v| |] eqn:Ea; try discriminate; destruct (parse_maven b) as [w| |] eqn:Eb; try discriminate.
  cbn [obind]. apply cmp_maven_antisym; eapply parse_maven_wf; eassumption.
Qed.

Definition valid_maven_string (s : bytes) : bool :=
  match parse_maven s with Ok v => valid_maven v | _ => false end.
Definition maven_rel_strings (a b c : bytes) : bool :=
  match parse_maven a, parse_maven b, parse_maven c with
  | Ok u, Ok v, Ok w => maven_rel u v w
  | _, _, _ => false
  end.

Lemma maven_str_laws_on_D : forall a b c,
  valid_maven_string a = true -> valid_maven_string b = true -> valid_maven_string c = true ->
  maven_rel_strings a b c = true ->
  (leO (compare_str_maven a b) = true -> leO (compare_str_maven b c) = true -> leO (compare_str_maven a c) = true) /\
  (compare_str_maven a b = Ok Eq -> compare_str_maven a c = compare_str_maven b c).
Proof.
  intros a b c. unfold valid_maven_string, maven_rel_strings, compare_str_maven.
  destruct (parse_maven a) as [u| |]; try discriminate.
  destruct (parse_maven b) as [v| |]; try discriminate.
  destruct (parse_maven c) as [w| |]; try discriminate.
  cbn [obind]. apply cmp_maven_laws_on_D.
Qed.

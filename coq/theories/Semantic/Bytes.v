(* Go string primitives on byte lists, as used by /repo/semantic: strings.Compare, strings.Split on a
   one-byte separator, big.Int.SetString(s, 10), decimal printing, ASCII classes, range-over-string
   (UTF-8 decoding with U+FFFD replacement), strings.ToLower (ASCII part), strings.TrimSpace.
   Library file: definitions and the generic lemmas about them. *)
From Coq Require Import List ZArith NArith Bool Lia Arith.
From Scalibr Require Import Semantic.Cmp Semantic.LexPad Semantic.Generated_Tables.
Import ListNotations.
Open Scope N_scope.

Definition bytes := list N.

(* ------------------------------------------------------------------ comparison / equality *)
Definition bytes_cmp : bytes -> bytes -> comparison := shortlex N.compare.   (* strings.Compare *)

Lemma bytes_cmp_tp : TotalPreorder bytes_cmp.
Proof. apply shortlex_total_preorder. apply Ncompare_tp. Qed.

Fixpoint bytes_eqb (a b : bytes) : bool :=
  match a, b with
  | [], [] => true
  | x :: a', y :: b' => N.eqb x y && bytes_eqb a' b'
  | _, _ => false
  end.

Lemma bytes_eqb_eq : forall a b, bytes_eqb a b = true <-> a = b.
Proof.
  induction a; destruct b; simpl; split; intros H; try discriminate; try reflexivity.
  - apply andb_true_iff in H as [H1 H2]. apply N.eqb_eq in H1. apply IHa in H2. congruence.
  - injection H as -> ->. rewrite N.eqb_refl. apply IHa. reflexivity.
Qed.

Lemma bytes_cmp_eq : forall a b, bytes_cmp a b = Eq -> a = b.
Proof.
  induction a; destruct b; simpl; intros H; try discriminate; [reflexivity|].
  destruct (N.compare a n) eqn:E; try discriminate.
  apply N.compare_eq in E. subst. f_equal. apply IHa. exact H.
Qed.

Definition optZ_eqb (a b : option Z) : bool :=
  match a, b with Some x, Some y => Z.eqb x y | None, None => true | _, _ => false end.
Fixpoint list_eqb {A} (e : A -> A -> bool) (a b : list A) : bool :=
  match a, b with [], [] => true | x :: a', y :: b' => e x y && list_eqb e a' b' | _, _ => false end.

Definition is_nil {A} (l : list A) : bool := match l with [] => true | _ => false end.

Fixpoint has_prefix (p s : bytes) : bool :=
  match p, s with
  | [], _ => true
  | x :: p', y :: s' => N.eqb x y && has_prefix p' s'
  | _ :: _, [] => false
  end.

Fixpoint drop_n {A} (n : nat) (l : list A) : list A :=
  match n, l with O, _ => l | S n', [] => [] | S n', _ :: r => drop_n n' r end.

Definition trim_prefix (p s : bytes) : bytes := if has_prefix p s then drop_n (length p) s else s.

(* ------------------------------------------------------------------ classes *)
Definition is_digit (c : N) : bool := (48 <=? c) && (c <=? 57).
Definition is_upper (c : N) : bool := (65 <=? c) && (c <=? 90).
Definition is_lower (c : N) : bool := (97 <=? c) && (c <=? 122).
Definition is_letter (c : N) : bool := is_upper c || is_lower c.
Definition lower_byte (c : N) : N := if is_upper c then c + 32 else c.

(* ------------------------------------------------------------------ strings.Split(s, sep) for a one-byte sep *)
Fixpoint split_on (sep : N) (s : bytes) : list bytes :=
  match s with
  | [] => [[]]
  | c :: r => if N.eqb c sep then [] :: split_on sep r
              else match split_on sep r with
                   | [] => [[c]]
                   | h :: t => (c :: h) :: t
                   end
  end.

(* strings.Cut / Index on a one-byte separator: (before, after, found) *)
Fixpoint cut_on (sep : N) (s : bytes) : bytes * bytes * bool :=
  match s with
  | [] => ([], [], false)
  | c :: r => if N.eqb c sep then ([], r, true)
              else match cut_on sep r with (b, a, f) => (c :: b, a, f) end
  end.

Definition contains (sep : N) (s : bytes) : bool := existsb (N.eqb sep) s.

(* text before the first occurrence (whole string if none) *)
Definition before_first (sep : N) (s : bytes) : bytes := fst (fst (cut_on sep s)).

(* ------------------------------------------------------------------ numbers *)
Fixpoint digits_val (s : bytes) (acc : N) : N :=
  match s with [] => acc | c :: r => digits_val r (acc * 10 + (c - 48)) end.

Definition all_digits (s : bytes) : bool := negb (is_nil s) && forallb is_digit s.

(* new(big.Int).SetString(s, 10): optional sign, then at least one decimal digit, nothing else *)
Definition unsigned_of_string (s : bytes) : option Z :=
  if all_digits s then Some (Z.of_N (digits_val s 0)) else None.
Definition big_of_string (s : bytes) : option Z :=
  match s with
  | [] => None
  | c :: r => if c =? 45 then option_map Z.opp (unsigned_of_string r)
              else if c =? 43 then unsigned_of_string r
              else unsigned_of_string s
  end.

(* strconv.Atoi: same syntax (no underscores in base 10), but fails outside int64 *)
Definition atoi_ok (s : bytes) : bool :=
  match big_of_string s with
  | Some z => ((- 9223372036854775808 <=? z) && (z <=? 9223372036854775807))%Z
  | None => false
  end.

Fixpoint dec_digits (fuel : nat) (n : N) (acc : bytes) : bytes :=
  match fuel with
  | O => acc
  | S f => if n <? 10 then (48 + n) :: acc else dec_digits f (n / 10) ((48 + n mod 10) :: acc)
  end.
Definition N_to_dec (n : N) : bytes := dec_digits (S (N.to_nat (N.size n))) n [].
(* big.Int.String() / %d *)
Definition Z_to_dec (z : Z) : bytes :=
  match z with
  | Z0 => [48]
  | Zpos p => N_to_dec (Npos p)
  | Zneg p => 45 :: N_to_dec (Npos p)
  end.

(* numeric-or-text identifiers: both numeric -> by value; both text -> byte order;
   mixed -> numeric is higher iff [num_high] *)
Definition numstr_cmp (num_high : bool) (a b : bytes) : comparison :=
  match big_of_string a, big_of_string b with
  | Some x, Some y => Z.compare x y
  | None, None => bytes_cmp a b
  | Some _, None => if num_high then Gt else Lt
  | None, Some _ => if num_high then Lt else Gt
  end.

Lemma numstr_cmp_tp : forall h, TotalPreorder (numstr_cmp h).
Proof.
  intros h. apply TotalPreorder_intro; unfold numstr_cmp.
  - intros x. destruct (big_of_string x); [apply Z.compare_refl | apply (tp_refl _ bytes_cmp_tp)].
  - intros x y. destruct (big_of_string x), (big_of_string y), h; simpl; try reflexivity;
      try apply Z.compare_antisym; apply (tp_antisym _ bytes_cmp_tp).
  - intros x y z. destruct (big_of_string x) eqn:Ex, (big_of_string y) eqn:Ey, h; intros H; try discriminate.
    + apply Z.compare_eq in H. subst. reflexivity.
    + apply Z.compare_eq in H. subst. reflexivity.
    + apply bytes_cmp_eq in H. subst. reflexivity.
    + apply bytes_cmp_eq in H. subst. reflexivity.
  - intros x y z.
    destruct (big_of_string x), (big_of_string y), (big_of_string z), h; intros H1 H2;
      try discriminate; try reflexivity;
      try (rewrite Z.compare_lt_iff in *; lia);
      apply (tp_lt_trans _ bytes_cmp_tp _ _ _ H1 H2).
Qed.

(* ------------------------------------------------------------------ UTF-8 (range over string) *)
Definition is_cont (b : N) : bool := (128 <=? b) && (b <=? 191).
Definition in_rng (lo hi b : N) : bool := (lo <=? b) && (b <=? hi).

(* utf8.DecodeRuneInString: (size, code point, valid). Invalid or short encodings: size 1, U+FFFD. *)
Definition decode_rune (s : bytes) : nat * N * bool :=
  let bad := (1%nat, 65533, false) in
  match s with
  | [] => (0%nat, 65533, false)
  | b0 :: r =>
    if b0 <? 128 then (1%nat, b0, true)
    else if in_rng 194 223 b0 then
      match r with
      | b1 :: _ => if is_cont b1 then (2%nat, (b0 - 192) * 64 + (b1 - 128), true) else bad
      | _ => bad
      end
    else if in_rng 224 239 b0 then
      match r with
      | b1 :: b2 :: _ =>
        let lo := if b0 =? 224 then 160 else 128 in
        let hi := if b0 =? 237 then 159 else 191 in
        if in_rng lo hi b1 && is_cont b2
        then (3%nat, (b0 - 224) * 4096 + (b1 - 128) * 64 + (b2 - 128), true) else bad
      | _ => bad
      end
    else if in_rng 240 244 b0 then
      match r with
      | b1 :: b2 :: b3 :: _ =>
        let lo := if b0 =? 240 then 144 else 128 in
        let hi := if b0 =? 244 then 143 else 191 in
        if in_rng lo hi b1 && is_cont b2 && is_cont b3
        then (4%nat, (b0 - 240) * 262144 + (b1 - 128) * 4096 + (b2 - 128) * 64 + (b3 - 128), true) else bad
      | _ => bad
      end
    else bad
  end.

(* one entry per iteration of `for _, c := range s`: (bytes consumed, code point, valid) *)
Fixpoint runes_fuel (fuel : nat) (s : bytes) : list (bytes * N * bool) :=
  match fuel with
  | O => []
  | S f => match s with
           | [] => []
           | _ => match decode_rune s with
                  | (sz, cp, ok) => (firstn sz s, cp, ok) :: runes_fuel f (drop_n sz s)
                  end
           end
  end.
Definition runes (s : bytes) : list (bytes * N * bool) := runes_fuel (length s) s.

Definition replacement : bytes := [239; 191; 189].

(* concatenation of string(c) over the runes of s: invalid bytes become U+FFFD *)
Definition sanitize (s : bytes) : bytes :=
  flat_map (fun r : bytes * N * bool => match r with (bs, _, ok) => if ok then bs else replacement end) (runes s).

Definition is_ascii (s : bytes) : bool := forallb (fun c => c <? 128) s.

(* utf8.EncodeRune / string(rune) for a valid code point *)
Definition encode_rune (cp : N) : bytes :=
  if cp <? 128 then [cp]
  else if cp <? 2048 then [192 + cp / 64; 128 + cp mod 64]
  else if cp <? 65536 then [224 + cp / 4096; 128 + (cp / 64) mod 64; 128 + cp mod 64]
  else [240 + cp / 262144; 128 + (cp / 4096) mod 64; 128 + (cp / 64) mod 64; 128 + cp mod 64].

Fixpoint assoc_N (tbl : list (N * N)) (k : N) : option N :=
  match tbl with
  | [] => None
  | (a, v) :: r => if a =? k then Some v else assoc_N r k
  end.

(* unicode.ToLower: ASCII, and the toolchain's table below gen_unicode_lower_limit (U+0530: Latin-1,
   Latin Extended, IPA, Greek, Cyrillic), generated by harness/cmd/semtables.  Code points at or above
   the limit are left unchanged: NOT modelled (Armenian, Georgian, Latin Extended Additional, Greek
   Extended, full-width forms ...); the harness keeps inputs where that matters out of the
   correspondence and counts them. *)
Definition lower_cp (cp : N) : N :=
  if cp <? 128 then lower_byte cp
  else match assoc_N gen_unicode_lower_pairs cp with Some l => l | None => cp end.

(* strings.ToLower: the ASCII fast path is bytewise; otherwise strings.Map(unicode.ToLower, s), which
   re-encodes every changed rune and turns every invalid byte into U+FFFD *)
Definition to_lower (s : bytes) : bytes :=
  if is_ascii s then map lower_byte s
  else flat_map (fun r : bytes * N * bool =>
                   match r with
                   | (bs, cp, ok) => if ok then (if lower_cp cp =? cp then bs else encode_rune (lower_cp cp)) else replacement
                   end) (runes s).

(* unicode.IsSpace *)
Definition is_space_cp (cp : N) : bool :=
  in_rng 9 13 cp || (cp =? 32) || (cp =? 133) || (cp =? 160) || (cp =? 5760) ||
  in_rng 8192 8202 cp || (cp =? 8232) || (cp =? 8233) || (cp =? 8239) || (cp =? 8287) || (cp =? 12288).

Definition rune_is_space (r : bytes * N * bool) : bool :=
  match r with (_, cp, ok) => ok && is_space_cp cp end.

Fixpoint drop_while {A} (f : A -> bool) (l : list A) : list A :=
  match l with [] => [] | x :: r => if f x then drop_while f r else l end.

(* longest prefix satisfying f, and the rest *)
Fixpoint span {A} (f : A -> bool) (l : list A) : list A * list A :=
  match l with
  | [] => ([], [])
  | x :: r => if f x then let (a, b) := span f r in (x :: a, b) else ([], l)
  end.

(* strings.TrimSpace *)
Definition trim_space (s : bytes) : bytes :=
  let rs := drop_while rune_is_space (runes s) in
  let rs := rev (drop_while rune_is_space (rev rs)) in
  flat_map (fun r : bytes * N * bool => fst (fst r)) rs.

(* TotalPreorder is extensional *)
Lemma tp_ext {A} (c c' : A -> A -> comparison) :
  (forall x y, c x y = c' x y) -> TotalPreorder c' -> TotalPreorder c.
Proof.
  intros E TP. constructor; intros.
  - rewrite E. apply (tp_refl c' TP).
  - rewrite !E. apply (tp_antisym c' TP).
  - rewrite E in *. eapply (tp_trans_le c' TP); eauto.
Qed.

(* Padded lexicographic comparison: the Go loop
       n := max(len(a), len(b)); for i := range n { diff := cmp(a.Fetch(i), b.Fetch(i)); if diff != 0 { return diff } }; return 0
   where Fetch(i) yields a default element beyond the end.
   [lexn n l1 l2] is that loop for n iterations ([hd d]/[tl] = Fetch with default d); simultaneous
   structural recursion on both lists is rejected by the guard checker, hence recursion on n.
   Also: [shortlex] (compare the common prefix, then the longer list wins) and the variants whose
   element comparison can panic.  Library file: definitions and their proofs. *)
From Coq Require Import List ZArith NArith Bool Lia Arith.
From Scalibr Require Import Semantic.Cmp.
Import ListNotations.

Section LexPad.
  Context {A : Type} (d : A) (c : A -> A -> comparison).

  Fixpoint lexn (n : nat) (l1 l2 : list A) : comparison :=
    match n with
    | O => Eq
    | S n' => match c (hd d l1) (hd d l2) with
              | Eq => lexn n' (tl l1) (tl l2)
              | r => r
              end
    end.

  Definition lexpad (l1 l2 : list A) : comparison :=
    lexn (Nat.max (length l1) (length l2)) l1 l2.

  Hypothesis TP : TotalPreorder c.

  Lemma lexn_nil : forall k, lexn k [] [] = Eq.
  Proof. induction k; simpl; [reflexivity|]. rewrite (tp_refl c TP). exact IHk. Qed.

  Lemma lexn_more : forall n k l1 l2, length l1 <= n -> length l2 <= n ->
    lexn (n + k) l1 l2 = lexn n l1 l2.
  Proof.
    induction n; intros k l1 l2 H1 H2.
    - destruct l1; [|simpl in H1; lia]. destruct l2; [|simpl in H2; lia]. simpl. apply lexn_nil.
    - simpl. destruct (c (hd d l1) (hd d l2)); try reflexivity.
      apply IHn; [destruct l1 | destruct l2]; simpl in *; lia.
  Qed.

  Lemma lexpad_as_lexn : forall n l1 l2, length l1 <= n -> length l2 <= n -> lexpad l1 l2 = lexn n l1 l2.
  Proof.
    intros n l1 l2 H1 H2. unfold lexpad.
    replace n with (Nat.max (length l1) (length l2) + (n - Nat.max (length l1) (length l2))) by lia.
    symmetry. apply lexn_more; lia.
  Qed.

  Lemma lexn_refl : forall n l, lexn n l l = Eq.
  Proof. induction n; intros; simpl; [reflexivity|]. rewrite (tp_refl c TP). apply IHn. Qed.

  Lemma lexn_antisym : forall n l1 l2, lexn n l2 l1 = CompOpp (lexn n l1 l2).
  Proof.
    induction n; intros; simpl; [reflexivity|].
    rewrite (tp_antisym c TP (hd d l1) (hd d l2)).
    destruct (c (hd d l1) (hd d l2)); simpl; try reflexivity. apply IHn.
  Qed.

  Lemma lexn_eq_compat : forall n l1 l2 l3, lexn n l1 l2 = Eq -> lexn n l1 l3 = lexn n l2 l3.
  Proof.
    induction n; intros l1 l2 l3 H; simpl in *; [reflexivity|].
    destruct (c (hd d l1) (hd d l2)) eqn:E; try discriminate.
    rewrite (tp_eq_compat_l c TP _ _ (hd d l3) E).
    destruct (c (hd d l2) (hd d l3)); try reflexivity. apply IHn; exact H.
  Qed.

  Lemma lexn_lt_trans : forall n l1 l2 l3, lexn n l1 l2 = Lt -> lexn n l2 l3 = Lt -> lexn n l1 l3 = Lt.
  Proof.
    induction n; intros l1 l2 l3 H1 H2; simpl in *; [discriminate|].
    destruct (c (hd d l1) (hd d l2)) eqn:E1; try discriminate.
    - rewrite (tp_eq_compat_l c TP _ _ (hd d l3) E1).
      destruct (c (hd d l2) (hd d l3)) eqn:E2; try discriminate; try reflexivity.
      eapply IHn; eauto.
    - destruct (c (hd d l2) (hd d l3)) eqn:E2; try discriminate.
      + rewrite <- (tp_eq_compat_r c TP _ _ (hd d l1) E2), E1. reflexivity.
      + rewrite (tp_lt_trans c TP _ _ _ E1 E2). reflexivity.
  Qed.

  Theorem lexpad_total_preorder : TotalPreorder lexpad.
  Proof.
    apply TotalPreorder_intro.
    - intros x. unfold lexpad. apply lexn_refl.
    - intros x y. unfold lexpad. rewrite (Nat.max_comm (length y) (length x)). apply lexn_antisym.
    - intros x y z H.
      set (n := Nat.max (length x) (Nat.max (length y) (length z))).
      rewrite (lexpad_as_lexn n x y) in H by lia.
      rewrite (lexpad_as_lexn n x z), (lexpad_as_lexn n y z) by lia.
      apply lexn_eq_compat; exact H.
    - intros x y z H1 H2.
      set (n := Nat.max (length x) (Nat.max (length y) (length z))).
      rewrite (lexpad_as_lexn n x y) in H1 by lia.
      rewrite (lexpad_as_lexn n y z) in H2 by lia.
      rewrite (lexpad_as_lexn n x z) by lia.
      eapply lexn_lt_trans; eauto.
  Qed.
End LexPad.

(* ------------------------------------------------------------------ shortlex *)
(* "for i := range min(len a, len b) { ... if diff != 0 return }; longer wins" *)
Section ShortLex.
  Context {A : Type} (c : A -> A -> comparison).

  Fixpoint shortlex (l1 l2 : list A) {struct l1} : comparison :=
    match l1, l2 with
    | [], [] => Eq
    | [], _ :: _ => Lt
    | _ :: _, [] => Gt
    | a :: l1', b :: l2' => match c a b with Eq => shortlex l1' l2' | r => r end
    end.

  Hypothesis TP : TotalPreorder c.

  Lemma shortlex_refl : forall l, shortlex l l = Eq.
  Proof. induction l; simpl; [reflexivity|]. rewrite (tp_refl c TP). exact IHl. Qed.

  Lemma shortlex_antisym : forall l1 l2, shortlex l2 l1 = CompOpp (shortlex l1 l2).
  Proof.
    induction l1; destruct l2; simpl; try reflexivity.
    rewrite (tp_antisym c TP a a0). destruct (c a a0); simpl; try reflexivity. apply IHl1.
  Qed.

  Lemma shortlex_eq_compat : forall l1 l2 l3, shortlex l1 l2 = Eq -> shortlex l1 l3 = shortlex l2 l3.
  Proof.
    induction l1; destruct l2; intros l3 H; simpl in *; try discriminate; [reflexivity|].
    destruct (c a a0) eqn:E; try discriminate.
    destruct l3; [reflexivity|].
    rewrite (tp_eq_compat_l c TP _ _ a1 E). destruct (c a0 a1); try reflexivity. apply IHl1; exact H.
  Qed.

  Lemma shortlex_lt_trans : forall l1 l2 l3, shortlex l1 l2 = Lt -> shortlex l2 l3 = Lt -> shortlex l1 l3 = Lt.
  Proof.
    induction l1; destruct l2; intros l3 H1 H2; simpl in *; try discriminate.
    - destruct l3; [discriminate | reflexivity].
    - destruct l3; [discriminate|].
      destruct (c a a0) eqn:E1; try discriminate.
      + rewrite (tp_eq_compat_l c TP _ _ a1 E1).
        destruct (c a0 a1) eqn:E2; try discriminate; try reflexivity. eapply IHl1; eauto.
      + destruct (c a0 a1) eqn:E2; try discriminate.
        * rewrite <- (tp_eq_compat_r c TP _ _ a E2), E1. reflexivity.
        * rewrite (tp_lt_trans c TP _ _ _ E1 E2). reflexivity.
  Qed.

  Theorem shortlex_total_preorder : TotalPreorder shortlex.
  Proof.
    apply TotalPreorder_intro.
    - apply shortlex_refl.
    - intros; apply shortlex_antisym.
    - apply shortlex_eq_compat.
    - apply shortlex_lt_trans.
  Qed.
End ShortLex.

(* ------------------------------------------------------------------ element comparison that can panic *)
Section LexPadO.
  Context {A : Type} (d : A) (co : A -> A -> outcome comparison).

  Fixpoint lexnO (n : nat) (l1 l2 : list A) : outcome comparison :=
    match n with
    | O => Ok Eq
    | S n' => match co (hd d l1) (hd d l2) with
              | Ok Eq => lexnO n' (tl l1) (tl l2)
              | r => r
              end
    end.

  Definition lexpadO (l1 l2 : list A) : outcome comparison :=
    lexnO (Nat.max (length l1) (length l2)) l1 l2.

  Lemma lexnO_antisym : (forall x y, co y x = oppO (co x y)) ->
    forall n l1 l2, lexnO n l2 l1 = oppO (lexnO n l1 l2).
  Proof.
    intros AS. induction n; intros; simpl; [reflexivity|].
    rewrite (AS (hd d l1) (hd d l2)).
    destruct (co (hd d l1) (hd d l2)) as [[]| |]; simpl; try reflexivity. apply IHn.
  Qed.

  Lemma lexpadO_antisym : (forall x y, co y x = oppO (co x y)) ->
    forall l1 l2, lexpadO l2 l1 = oppO (lexpadO l1 l2).
  Proof. intros AS l1 l2. unfold lexpadO. rewrite (Nat.max_comm (length l2)). apply lexnO_antisym; exact AS. Qed.

  Lemma lexnO_refl : (forall x, co x x = Ok Eq) -> forall n l, lexnO n l l = Ok Eq.
  Proof. intros R. induction n; intros; simpl; [reflexivity|]. rewrite R. apply IHn. Qed.

  Lemma lexpadO_refl : (forall x, co x x = Ok Eq) -> forall l, lexpadO l l = Ok Eq.
  Proof. intros R l. apply lexnO_refl; exact R. Qed.

  (* on elements where the comparison is pure, lexnO is lexn *)
  Context (good : A -> bool) (c : A -> A -> comparison).
  Hypothesis pure : forall x y, good x = true -> good y = true -> co x y = Ok (c x y).
  Hypothesis good_d : good d = true.

  Lemma good_hd : forall l, forallb good l = true -> good (hd d l) = true.
  Proof. destruct l; simpl; [intros; exact good_d|]. intros H. apply andb_true_iff in H. tauto. Qed.
  Lemma good_tl : forall l, forallb good l = true -> forallb good (tl l) = true.
  Proof. destruct l; simpl; [auto|]. intros H. apply andb_true_iff in H. tauto. Qed.

  Lemma lexnO_pure : forall n l1 l2, forallb good l1 = true -> forallb good l2 = true ->
    lexnO n l1 l2 = Ok (lexn d c n l1 l2).
  Proof.
    induction n; intros l1 l2 G1 G2; simpl; [reflexivity|].
    rewrite (pure _ _ (good_hd l1 G1) (good_hd l2 G2)).
    destruct (c (hd d l1) (hd d l2)); try reflexivity.
    apply IHn; apply good_tl; assumption.
  Qed.

  Lemma lexpadO_pure : forall l1 l2, forallb good l1 = true -> forallb good l2 = true ->
    lexpadO l1 l2 = Ok (lexpad d c l1 l2).
  Proof. intros. apply lexnO_pure; assumption. Qed.
End LexPadO.

(* ------------------------------------------------------------------ nil-able big.Int *)
(* x.Cmp(y) on *big.Int: pointer-equal (both nil) is 0 without any dereference; exactly one nil panics *)
Definition ocmp (a b : option Z) : outcome comparison :=
  match a, b with
  | Some x, Some y => Ok (Z.compare x y)
  | None, None => Ok Eq
  | _, _ => Panic
  end.

Definition is_some {A} (o : option A) : bool := match o with Some _ => true | None => false end.
Definition oval (o : option Z) : Z := match o with Some z => z | None => 0%Z end.

Lemma ocmp_antisym : forall x y, ocmp y x = oppO (ocmp x y).
Proof. intros [x|] [y|]; simpl; try reflexivity. rewrite Z.compare_antisym. reflexivity. Qed.

Lemma ocmp_refl : forall x, ocmp x x = Ok Eq.
Proof. intros [x|]; simpl; [rewrite Z.compare_refl|]; reflexivity. Qed.

Lemma ocmp_pure : forall x y, is_some x = true -> is_some y = true -> ocmp x y = Ok (by_key oval Z.compare x y).
Proof. intros [x|] [y|]; simpl; try discriminate. reflexivity. Qed.

(* components.Cmp of semantic/version.go: Fetch pads with big.NewInt(0) *)
Definition comps_cmp (a b : list (option Z)) : outcome comparison := lexpadO (Some 0%Z) ocmp a b.
Definition comps_cmp_pure (a b : list (option Z)) : comparison := lexpad (Some 0%Z) (by_key oval Z.compare) a b.

Lemma comps_cmp_antisym : forall a b, comps_cmp b a = oppO (comps_cmp a b).
Proof. apply lexpadO_antisym. apply ocmp_antisym. Qed.
Lemma comps_cmp_refl : forall a, comps_cmp a a = Ok Eq.
Proof. apply lexpadO_refl. apply ocmp_refl. Qed.
Lemma comps_cmp_is_pure : forall a b, forallb is_some a = true -> forallb is_some b = true ->
  comps_cmp a b = Ok (comps_cmp_pure a b).
Proof. apply lexpadO_pure; [apply ocmp_pure | reflexivity]. Qed.
Lemma comps_cmp_pure_tp : TotalPreorder comps_cmp_pure.
Proof. apply lexpad_total_preorder. apply by_key_tp. apply Zcompare_tp. Qed.

(* ------------------------------------------------------------------ further lemmas (used by Alpine) *)
Section LexPadOn.
  Context {A : Type} (d : A) (co : A -> A -> outcome comparison) (good : A -> bool).
  Hypothesis good_d : good d = true.

  Lemma lexnO_antisym_on :
    (forall x y, good x = true -> good y = true -> co y x = oppO (co x y)) ->
    forall n l1 l2, forallb good l1 = true -> forallb good l2 = true ->
      lexnO d co n l2 l1 = oppO (lexnO d co n l1 l2).
  Proof.
    intros AS. induction n; intros l1 l2 G1 G2; simpl; [reflexivity|].
    rewrite (AS (hd d l1) (hd d l2) (good_hd d good good_d l1 G1) (good_hd d good good_d l2 G2)).
    destruct (co (hd d l1) (hd d l2)) as [[]| |]; simpl; try reflexivity.
    apply IHn; apply good_tl; assumption.
  Qed.

  Lemma lexpadO_antisym_on :
    (forall x y, good x = true -> good y = true -> co y x = oppO (co x y)) ->
    forall l1 l2, forallb good l1 = true -> forallb good l2 = true ->
      lexpadO d co l2 l1 = oppO (lexpadO d co l1 l2).
  Proof.
    intros AS l1 l2 G1 G2. unfold lexpadO. rewrite (Nat.max_comm (length l2)).
    apply lexnO_antisym_on; assumption.
  Qed.

  Lemma lexnO_refl_on : (forall x, good x = true -> co x x = Ok Eq) ->
    forall n l, forallb good l = true -> lexnO d co n l l = Ok Eq.
  Proof.
    intros R. induction n; intros l G; simpl; [reflexivity|].
    rewrite (R _ (good_hd d good good_d l G)). apply IHn. apply good_tl; exact G.
  Qed.

  Lemma lexpadO_refl_on : (forall x, good x = true -> co x x = Ok Eq) ->
    forall l, forallb good l = true -> lexpadO d co l l = Ok Eq.
  Proof. intros R l G. apply lexnO_refl_on; assumption. Qed.
End LexPadOn.

Lemma lexn_map {A B} (f : A -> B) (d : A) (c : B -> B -> comparison) :
  forall n l1 l2, lexn d (by_key f c) n l1 l2 = lexn (f d) c n (map f l1) (map f l2).
Proof.
  induction n; intros l1 l2; simpl; [reflexivity|]. unfold by_key at 1.
  replace (hd (f d) (map f l1)) with (f (hd d l1)) by (destruct l1; reflexivity).
  replace (hd (f d) (map f l2)) with (f (hd d l2)) by (destruct l2; reflexivity).
  destruct (c (f (hd d l1)) (f (hd d l2))); try reflexivity.
  rewrite IHn. f_equal; [destruct l1 | destruct l2]; reflexivity.
Qed.

Lemma lexpad_map {A B} (f : A -> B) (d : A) (c : B -> B -> comparison) :
  forall l1 l2, lexpad d (by_key f c) l1 l2 = lexpad (f d) c (map f l1) (map f l2).
Proof. intros. unfold lexpad. rewrite !map_length. apply lexn_map. Qed.

(* unfolding one position *)
Section LexPadCons.
  Context {A : Type} (d : A).

  Lemma lexpadO_cons_cons (co : A -> A -> outcome comparison) : forall x a y b,
    lexpadO d co (x :: a) (y :: b) = thenO (co x y) (lexpadO d co a b).
  Proof. intros. unfold lexpadO. simpl. destruct (co x y) as [[]| |]; reflexivity. Qed.

  Lemma lexpadO_nil_cons (co : A -> A -> outcome comparison) : forall y b,
    lexpadO d co [] (y :: b) = thenO (co d y) (lexpadO d co [] b).
  Proof. intros. unfold lexpadO. simpl. destruct (co d y) as [[]| |]; reflexivity. Qed.

  Lemma lexpadO_cons_nil (co : A -> A -> outcome comparison) : forall x a,
    lexpadO d co (x :: a) [] = thenO (co x d) (lexpadO d co a []).
  Proof. intros. unfold lexpadO. simpl. rewrite Nat.max_0_r. destruct (co x d) as [[]| |]; reflexivity. Qed.

  Lemma lexpad_cons_cons (c : A -> A -> comparison) : forall x a y b,
    lexpad d c (x :: a) (y :: b) = thenc (c x y) (lexpad d c a b).
  Proof. intros. unfold lexpad. simpl. destruct (c x y); reflexivity. Qed.

  Lemma lexpad_nil_cons (c : A -> A -> comparison) : forall y b,
    lexpad d c [] (y :: b) = thenc (c d y) (lexpad d c [] b).
  Proof. intros. unfold lexpad. simpl. destruct (c d y); reflexivity. Qed.

  Lemma lexpad_cons_nil (c : A -> A -> comparison) : forall x a,
    lexpad d c (x :: a) [] = thenc (c x d) (lexpad d c a []).
  Proof. intros. unfold lexpad. simpl. rewrite Nat.max_0_r. destruct (c x d); reflexivity. Qed.
End LexPadCons.

(* no panic when the element comparison does not panic on the elements present *)
Lemma lexnO_no_panic_on {A} (d : A) (co : A -> A -> outcome comparison) (good : A -> bool) :
  good d = true -> (forall x y, good x = true -> good y = true -> co x y <> Panic) ->
  forall n l1 l2, forallb good l1 = true -> forallb good l2 = true -> lexnO d co n l1 l2 <> Panic.
Proof.
  intros Gd NP. induction n; intros l1 l2 G1 G2; simpl; [discriminate|].
  pose proof (NP _ _ (good_hd d good Gd l1 G1) (good_hd d good Gd l2 G2)) as H.
  destruct (co (hd d l1) (hd d l2)) as [[]| |]; try discriminate; [|contradiction].
  apply IHn; apply good_tl; assumption.
Qed.

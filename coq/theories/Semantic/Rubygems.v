(* Model of semantic/version-rubygems.go. No proofs here. *)
From Coq Require Import List ZArith NArith Bool.
From Scalibr Require Import Semantic.Cmp Semantic.LexPad Semantic.Bytes.
Import ListNotations.
Open Scope N_scope.

(* type rubyGemsVersion struct { Original string; Segments []string } *)
Record rubygems := { rg_original : bytes; rg_segments : list bytes }.

(* canonicalizeRubyGemVersion: a '.' is inserted at every digit/non-digit transition.
   The Go loop ranges over runes and appends string(c): a byte scan of [sanitize str]. *)
Fixpoint rg_canon (s : bytes) (check_prev prev_digit : bool) : bytes :=
  match s with
  | [] => []
  | c :: r =>
    if c =? 46 then 46 :: rg_canon r false prev_digit
    else let d := is_digit c in
         (if check_prev && negb (Bool.eqb prev_digit d) then [46; c] else [c]) ++ rg_canon r true d
  end.

Definition canonicalize_rubygems (s : bytes) : bytes := rg_canon (sanitize s) false true.

Definition is_numeric (s : bytes) : bool := match big_of_string s with Some _ => true | None => false end.

(* groupSegments: leading numeric segments / everything from the first non-numeric one *)
Fixpoint group_segments (segs : list bytes) : list bytes * list bytes :=
  match segs with
  | [] => ([], [])
  | s :: r => if is_numeric s then let (n, b) := group_segments r in (s :: n, b)
              else ([], segs)
  end.

(* removeZeros: drop trailing segments equal to "0" *)
Definition is_zero_seg (s : bytes) : bool := bytes_eqb s [48].
Definition remove_zeros (segs : list bytes) : list bytes := rev (drop_while is_zero_seg (rev segs)).

Definition canonical_segments (segs : list bytes) : list bytes :=
  let (n, b) := group_segments segs in remove_zeros n ++ remove_zeros b.

Definition parse_rubygems (s : bytes) : outcome rubygems :=
  Ok {| rg_original := s; rg_segments := canonical_segments (split_on 46 (canonicalize_rubygems s)) |}.

(* compareRubyGemsComponents: fetch(.., "0") padding; numeric segments above non-numeric ones *)
Definition seg_cmp : bytes -> bytes -> comparison := numstr_cmp true.

Definition cmp_rubygems (v w : rubygems) : outcome comparison :=
  Ok (lexpad [48] seg_cmp (rg_segments v) (rg_segments w)).

Definition compare_str_rubygems (a b : bytes) : outcome comparison :=
  obind (parse_rubygems a) (fun v => obind (parse_rubygems b) (fun w => cmp_rubygems v w)).

Definition valid_rubygems (v : rubygems) : bool := true.

Definition rubygems_eqb (v w : rubygems) : bool :=
  bytes_eqb (rg_original v) (rg_original w) && list_eqb bytes_eqb (rg_segments v) (rg_segments w).

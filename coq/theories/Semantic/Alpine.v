(* Model of the comparison in semantic/version-alpine.go, on the parsed structure.  No proofs here.
   The regular-expression driven tokeniser (front end) is NOT modelled: structures are taken from
   the implementation through the hook. *)
From Coq Require Import List ZArith NArith Bool.
From Scalibr Require Import Semantic.Cmp Semantic.LexPad Semantic.Bytes Semantic.Generated_Tables.
Import ListNotations.
Open Scope N_scope.

(* type alpineNumberComponent struct { original string; value *big.Int; index int } *)
Record anc := { an_original : bytes; an_value : option Z; an_index : Z }.
(* type alpineSuffix struct { weight int; number *big.Int } *)
Record asuffix := { as_weight : Z; as_number : option Z }.

Record alpine := {
  al_original : bytes;
  al_invalid : bool;
  al_remainder : bytes;
  al_components : list anc;
  al_letter : bytes;
  al_suffixes : list asuffix;
  al_hash : bytes;
  al_build : option Z }.

(* alpineNumberComponent.Cmp: components other than the first compare as STRINGS when either starts
   with '0' -- but only if BOTH have index <> 0, and a padded (absent) component has index 0.
   original[0] panics on an empty original. *)
Definition anc_cmp (a b : anc) : outcome comparison :=
  if negb (an_index a =? 0)%Z && negb (an_index b =? 0)%Z then
    match an_original a with
    | [] => Panic
    | c :: _ =>
      if c =? 48 then Ok (bytes_cmp (an_original a) (an_original b))
      else match an_original b with
           | [] => Panic
           | c' :: _ => if c' =? 48 then Ok (bytes_cmp (an_original a) (an_original b))
                        else ocmp (an_value a) (an_value b)
           end
    end
  else ocmp (an_value a) (an_value b).

(* alpineNumberComponents.Fetch default *)
Definition anc_pad : anc := {| an_original := [48]; an_value := Some 0%Z; an_index := 0%Z |}.

Definition al_comps_cmp (v w : alpine) : outcome comparison :=
  lexpadO anc_pad anc_cmp (al_components v) (al_components w).

(* compareLetters = strings.Compare (the two special cases agree with it) *)
Definition al_letter_cmp (v w : alpine) : comparison := bytes_cmp (al_letter v) (al_letter w).

(* alpineSuffix.Cmp; fetchSuffix pads with {weight 4 (= no suffix), number 0} (after fix 3b060d98) *)
Definition asuffix_cmp (a b : asuffix) : outcome comparison :=
  match Z.compare (as_weight a) (as_weight b) with
  | Eq => ocmp (as_number a) (as_number b)
  | c => Ok c
  end.
Definition asuffix_pad : asuffix := {| as_weight := gen_alpine_suffix_pad_weight; as_number := Some 0%Z |}.

(* weightAlpineSuffixString: looked up in the generated (probed) table; a name outside it gets the
   heaviest weight, as the Go function's final return does *)
Fixpoint assoc_weight (tbl : list (bytes * Z)) (k : bytes) (dflt : Z) : Z :=
  match tbl with
  | [] => dflt
  | (n, w) :: r => if bytes_eqb n k then w else assoc_weight r k dflt
  end.
Definition suffix_weight (name : bytes) : Z :=
  assoc_weight gen_alpine_suffix_weights name (fold_left Z.max (map snd gen_alpine_suffix_weights) 0%Z).

Definition al_suffixes_cmp (v w : alpine) : outcome comparison :=
  lexpadO asuffix_pad asuffix_cmp (al_suffixes v) (al_suffixes w).

(* compareBuildComponents: only when both are non-nil *)
Definition al_build_cmp (v w : alpine) : comparison :=
  match al_build v, al_build w with
  | Some x, Some y => Z.compare x y
  | _, _ => Eq
  end.

(* compareRemainder: an empty remainder is greater *)
Definition al_remainder_cmp (v w : alpine) : comparison :=
  match al_remainder v, al_remainder w with
  | [], _ :: _ => Gt
  | _ :: _, [] => Lt
  | _, _ => Eq
  end.

(* alpineVersion.compare *)
Definition cmp_alpine (v w : alpine) : outcome comparison :=
  if al_invalid v && al_invalid w then Ok (bytes_cmp (al_original v) (al_original w))
  else
    thenO (al_comps_cmp v w)
   (thenO (Ok (al_letter_cmp v w))
   (thenO (al_suffixes_cmp v w)
          (Ok (thenc (al_build_cmp v w) (al_remainder_cmp v w))))).

(* ------------------------------------------------------------------ domains *)
(* every structure the parser builds: originals are non-empty *)
Definition alpine_wf (v : alpine) : bool := forallb (fun c => negb (is_nil (an_original c))) (al_components v).

(* a component as the tokeniser produces it: digits, value = their number *)
Definition anc_parsed (c : anc) : bool :=
  all_digits (an_original c) && optZ_eqb (an_value c) (Some (Z.of_N (digits_val (an_original c) 0))).

(* D: after the first component, no zero written with more than one digit ("00", "000", ...).
   Such a component equals the padding numerically but is above "0" as a string. *)
Definition anc_tail_ok (c : anc) : bool :=
  anc_parsed c && negb (an_index c =? 0)%Z &&
  (negb (Z.of_N (digits_val (an_original c) 0) =? 0)%Z || bytes_eqb (an_original c) [48]).
Definition anc_head_ok (c : anc) : bool := anc_parsed c && (an_index c =? 0)%Z.

Definition comps_ok (l : list anc) : bool :=
  match l with [] => true | h :: t => anc_head_ok h && forallb anc_tail_ok t end.

(* the same without the restriction D (used to state the refutation) *)
Definition anc_tail_parsed (c : anc) : bool := anc_parsed c && negb (an_index c =? 0)%Z.
Definition comps_parsed (l : list anc) : bool :=
  match l with [] => true | h :: t => anc_head_ok h && forallb anc_tail_parsed t end.

Definition alpine_rest_ok (v : alpine) : bool :=
  negb (al_invalid v) && forallb (fun s => is_some (as_number s)) (al_suffixes v) && is_some (al_build v).

Definition valid_alpine_noD (v : alpine) : bool := alpine_rest_ok v && comps_parsed (al_components v).
Definition valid_alpine (v : alpine) : bool := alpine_rest_ok v && comps_ok (al_components v).

Definition anc_eqb (a b : anc) : bool :=
  bytes_eqb (an_original a) (an_original b) && optZ_eqb (an_value a) (an_value b) && (an_index a =? an_index b)%Z.
Definition asuffix_eqb (a b : asuffix) : bool := (as_weight a =? as_weight b)%Z && optZ_eqb (as_number a) (as_number b).
Definition alpine_eqb (v w : alpine) : bool :=
  bytes_eqb (al_original v) (al_original w) && Bool.eqb (al_invalid v) (al_invalid w) &&
  bytes_eqb (al_remainder v) (al_remainder w) && list_eqb anc_eqb (al_components v) (al_components w) &&
  bytes_eqb (al_letter v) (al_letter w) && list_eqb asuffix_eqb (al_suffixes v) (al_suffixes w) &&
  bytes_eqb (al_hash v) (al_hash w) && optZ_eqb (al_build v) (al_build w).

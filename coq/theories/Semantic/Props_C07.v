(* C07 - Ecosystem version comparison is total, consistent and a valid ordering.
   Only statements here; proofs are in the *Proofs.v files of each ecosystem.
   Conventions: strings are byte lists; results are [outcome comparison]
   (Ok Lt / Ok Eq / Ok Gt = Go's -1 / 0 / +1, Err = returned error, Panic = Go panic);
   [oppO] negates a result and leaves Err / Panic as they are; [leO r] is "r is Ok and <= 0". *)
From Coq Require Import List ZArith NArith Bool String.
From Scalibr Require Import Semantic.Cmp Semantic.LexPad Semantic.Bytes Semantic.Str Semantic.Generated_Tables.
From Scalibr Require Import Semantic.Semver Semantic.SemverProofs Semantic.Nuget Semantic.NugetProofs.
From Scalibr Require Import Semantic.Cran Semantic.CranProofs Semantic.Rubygems Semantic.RubygemsProofs.
From Scalibr Require Import Semantic.Debian Semantic.DebianProofs Semantic.DebianLoopProofs Semantic.Redhat Semantic.RedhatProofs Semantic.RedhatLoopProofs.
From Scalibr Require Import Semantic.Pypi Semantic.PypiProofs Semantic.PypiParse Semantic.PypiParseProofs Semantic.Packagist Semantic.PackagistProofs.
From Scalibr Require Import Semantic.Alpine Semantic.AlpineProofs Semantic.AlpineParse Semantic.AlpineParseProofs Semantic.Maven Semantic.MavenProofs Semantic.MavenParseProofs.
Import ListNotations.
Open Scope string_scope.

(* ================================================================== semver family
   npm, crates.io, Go, Hex, Pub, ConanCenter: semantic.Parse(a, eco) then CompareStr(b). *)

(* never panics, for any two byte strings *)
Theorem semver_total : forall a b : bytes, compare_str_semver a b <> Panic.
Proof. exact semver_total_lemma. Qed.
Print Assumptions semver_total.

(* (and never rejects a string) *)
Theorem semver_accepts_everything : forall a b : bytes, exists c, compare_str_semver a b = Ok c.
Proof. exact semver_never_errors_lemma. Qed.
Print Assumptions semver_accepts_everything.

(* comparing b with a is the exact negation of comparing a with b: all strings ... *)
Theorem semver_antisym : forall a b : bytes, compare_str_semver b a = oppO (compare_str_semver a b).
Proof. exact semver_str_antisym_lemma. Qed.
Print Assumptions semver_antisym.

(* ... and all structures, including ones with nil components that the parser never builds *)
Theorem semver_struct_antisym : forall v w : semver, cmp_semver w v = oppO (cmp_semver v w).
Proof. exact cmp_semver_antisym. Qed.
Print Assumptions semver_struct_antisym.

Theorem semver_refl : forall a : bytes, compare_str_semver a a = Ok Eq.
Proof. exact semver_str_refl_lemma. Qed.
Print Assumptions semver_refl.

Theorem semver_struct_refl : forall v : semver, cmp_semver v v = Ok Eq.
Proof. exact cmp_semver_refl. Qed.
Print Assumptions semver_struct_refl.

(* transitive on every triple of nil-free structures ... *)
Theorem semver_trans_on_valid : forall u v w : semver,
  valid_semver u = true -> valid_semver v = true -> valid_semver w = true ->
  leO (cmp_semver u v) = true -> leO (cmp_semver v w) = true -> leO (cmp_semver u w) = true.
Proof. exact (proj1 cmp_semver_laws_on_valid). Qed.
Print Assumptions semver_trans_on_valid.

(* ... equality is a congruence there ... *)
Theorem semver_eq_equiv : forall u v w : semver,
  valid_semver u = true -> valid_semver v = true -> valid_semver w = true ->
  cmp_semver u v = Ok Eq -> cmp_semver u w = cmp_semver v w.
Proof. exact (proj2 cmp_semver_laws_on_valid). Qed.
Print Assumptions semver_eq_equiv.

(* ... and every string parses to such a structure, so the order is a total preorder on ALL strings *)
Theorem semver_trans_all_strings : forall a b c : bytes,
  leO (compare_str_semver a b) = true -> leO (compare_str_semver b c) = true ->
  leO (compare_str_semver a c) = true.
Proof. exact semver_str_trans_lemma. Qed.
Print Assumptions semver_trans_all_strings.

Theorem semver_eq_equiv_all_strings : forall a b c : bytes,
  compare_str_semver a b = Ok Eq -> compare_str_semver a c = compare_str_semver b c.
Proof. exact semver_str_eq_equiv_lemma. Qed.
Print Assumptions semver_eq_equiv_all_strings.

(* labelled TEST (not the unbounded claim): semver.org section 11 precedence chain, plus the
   numeric-precedence example of item 2 *)
Example semver_agrees_canonical :
  ascending compare_str_semver
    (map b ["1.0.0-alpha"; "1.0.0-alpha.1"; "1.0.0-alpha.beta"; "1.0.0-beta"; "1.0.0-beta.2";
            "1.0.0-beta.11"; "1.0.0-rc.1"; "1.0.0"; "2.0.0"; "2.1.0"; "2.1.1"; "10.0.0"]) = true
  /\ all_equal compare_str_semver (map b ["1.0.0"; "1.0.0+build.5"; "v1.0.0"; "1.0"; "1"]) = true.
Proof. vm_compute. split; reflexivity. Qed.

(* non-vacuity: valid structures exist that are not trivially equal, incl. a 30-digit component *)
Example semver_nonvacuous :
  valid_semver (parse_semver_like_version (b "1.2.3-rc.1") 3) = true /\
  compare_str_semver (b "1.123456789012345678901234567890.0") (b "1.123456789012345678901234567891.0-x") = Ok Lt /\
  compare_str_semver (b "1.0.0-1") (b "1.0.0-a") = Ok Lt.
Proof. vm_compute. repeat split; reflexivity. Qed.

(* ================================================================== NuGet
   same scan with 4 components; Build compared after lower-casing. *)
Theorem nuget_total : forall a b : bytes, exists c, compare_str_nuget a b = Ok c.
Proof. exact nuget_total_lemma. Qed.
Print Assumptions nuget_total.

Theorem nuget_antisym : forall a b : bytes, compare_str_nuget b a = oppO (compare_str_nuget a b).
Proof. exact nuget_str_antisym_lemma. Qed.
Print Assumptions nuget_antisym.

Theorem nuget_struct_antisym : forall v w : semver, cmp_nuget w v = oppO (cmp_nuget v w).
Proof. exact cmp_nuget_antisym. Qed.
Print Assumptions nuget_struct_antisym.

Theorem nuget_refl : forall a : bytes, compare_str_nuget a a = Ok Eq.
Proof. exact nuget_str_refl_lemma. Qed.
Print Assumptions nuget_refl.

Theorem nuget_struct_refl : forall v : semver, cmp_nuget v v = Ok Eq.
Proof. exact cmp_nuget_refl. Qed.
Print Assumptions nuget_struct_refl.

Theorem nuget_trans_on_valid : forall u v w : semver,
  valid_nuget u = true -> valid_nuget v = true -> valid_nuget w = true ->
  leO (cmp_nuget u v) = true -> leO (cmp_nuget v w) = true -> leO (cmp_nuget u w) = true.
Proof. exact (proj1 cmp_nuget_laws_on_valid). Qed.
Print Assumptions nuget_trans_on_valid.

Theorem nuget_eq_equiv : forall u v w : semver,
  valid_nuget u = true -> valid_nuget v = true -> valid_nuget w = true ->
  cmp_nuget u v = Ok Eq -> cmp_nuget u w = cmp_nuget v w.
Proof. exact (proj2 cmp_nuget_laws_on_valid). Qed.
Print Assumptions nuget_eq_equiv.

Theorem nuget_trans_all_strings : forall a b c : bytes,
  leO (compare_str_nuget a b) = true -> leO (compare_str_nuget b c) = true -> leO (compare_str_nuget a c) = true.
Proof. exact nuget_str_trans_lemma. Qed.
Print Assumptions nuget_trans_all_strings.

Theorem nuget_eq_equiv_all_strings : forall a b c : bytes,
  compare_str_nuget a b = Ok Eq -> compare_str_nuget a c = compare_str_nuget b c.
Proof. exact nuget_str_eq_equiv_lemma. Qed.
Print Assumptions nuget_eq_equiv_all_strings.

(* labelled TEST: NuGet docs "Version ordering" (case-insensitive prerelease labels, 4th component) *)
Example nuget_agrees_canonical :
  ascending compare_str_nuget
    (map b ["1.0.0-alpha"; "1.0.0-alpha.1"; "1.0.0-alpha.beta"; "1.0.0-BETA"; "1.0.0-beta.2"; "1.0.0-beta.11";
            "1.0.0-RC.1"; "1.0.0"; "1.0.0.1"; "1.0.1"; "1.1"]) = true
  /\ all_equal compare_str_nuget (map b ["1.0.0-BETA"; "1.0.0-beta"; "1.0.0.0-Beta+AA"; "1.0-bEtA"]) = true.
Proof. vm_compute. split; reflexivity. Qed.

(* ================================================================== CRAN  (after fix 38e33aec) *)
(* never panics, for any two byte strings: a component that is not a decimal number is still stored
   as a nil *big.Int, but CompareStr answers ErrInvalidVersion before comparing *)
Theorem cran_total : forall a b : bytes, compare_str_cran a b <> Panic.
Proof. exact cran_str_total. Qed.
Print Assumptions cran_total.

Theorem cran_struct_total : forall v w : cran, cmp_cran v w <> Panic.
Proof. exact cmp_cran_total. Qed.
Print Assumptions cran_struct_total.

(* on the CRAN grammar (every component a number) a result is returned *)
Theorem cran_ok_on_valid : forall a b : bytes,
  valid_cran_string a = true -> valid_cran_string b = true -> exists c, compare_str_cran a b = Ok c.
Proof. exact cran_str_ok_on_valid. Qed.
Print Assumptions cran_ok_on_valid.

Theorem cran_antisym : forall a b : bytes, compare_str_cran b a = oppO (compare_str_cran a b).
Proof. exact cran_str_antisym_lemma. Qed.
Print Assumptions cran_antisym.

Theorem cran_struct_antisym : forall v w : cran, cmp_cran w v = oppO (cmp_cran v w).
Proof. exact cmp_cran_antisym. Qed.
Print Assumptions cran_struct_antisym.

(* a string compares equal to itself, or is rejected (a non-numeric component) *)
Theorem cran_refl : forall a : bytes, compare_str_cran a a = Ok Eq \/ compare_str_cran a a = Err.
Proof. exact cran_str_refl_lemma. Qed.
Print Assumptions cran_refl.

Theorem cran_struct_refl : forall v : cran, cmp_cran v v = Ok Eq \/ cmp_cran v v = Err.
Proof. exact cmp_cran_refl. Qed.
Print Assumptions cran_struct_refl.

Theorem cran_trans_on_valid : forall u v w : cran,
  valid_cran u = true -> valid_cran v = true -> valid_cran w = true ->
  leO (cmp_cran u v) = true -> leO (cmp_cran v w) = true -> leO (cmp_cran u w) = true.
Proof. exact (proj1 cmp_cran_laws_on_valid). Qed.
Print Assumptions cran_trans_on_valid.

Theorem cran_eq_equiv : forall u v w : cran,
  valid_cran u = true -> valid_cran v = true -> valid_cran w = true ->
  cmp_cran u v = Ok Eq -> cmp_cran u w = cmp_cran v w.
Proof. exact (proj2 cmp_cran_laws_on_valid). Qed.
Print Assumptions cran_eq_equiv.

(* labelled TEST: R's package_version ordering ('.' and '-' equivalent, numeric components,
   a longer version with equal prefix is greater) *)
Example cran_agrees_canonical :
  ascending compare_str_cran (map b ["0.01"; "0.1-1"; "0.9"; "0.75"; "1.0-0"; "1.0.0.1"; "1.1-0"; "1.10"; "2.0"]) = true
  /\ all_equal compare_str_cran (map b ["0.01.0"; "0.1-0"; "0-1.0"; "000.1.00"]) = true
  /\ valid_cran_string (b "1.123456789012345678901234567890-7") = true
  /\ valid_cran_string (b "1.0-a") = false /\ valid_cran_string (b "") = false
  (* regression of the fixed finding cran-nil-component-panic *)
  /\ compare_str_cran (b "") (b "1.0") = Err /\ compare_str_cran (b "1.0") (b "1.a") = Err.
Proof. vm_compute. repeat split; reflexivity. Qed.

(* ================================================================== RubyGems *)
Theorem rubygems_total : forall a b : bytes, exists c, compare_str_rubygems a b = Ok c.
Proof. exact rubygems_total_lemma. Qed.
Print Assumptions rubygems_total.

Theorem rubygems_antisym : forall a b : bytes, compare_str_rubygems b a = oppO (compare_str_rubygems a b).
Proof. exact rubygems_str_antisym_lemma. Qed.
Print Assumptions rubygems_antisym.

Theorem rubygems_struct_antisym : forall v w : rubygems, cmp_rubygems w v = oppO (cmp_rubygems v w).
Proof. exact cmp_rubygems_antisym. Qed.
Print Assumptions rubygems_struct_antisym.

Theorem rubygems_refl : forall a : bytes, compare_str_rubygems a a = Ok Eq.
Proof. exact rubygems_str_refl_lemma. Qed.
Print Assumptions rubygems_refl.

Theorem rubygems_struct_refl : forall v : rubygems, cmp_rubygems v v = Ok Eq.
Proof. exact cmp_rubygems_refl. Qed.
Print Assumptions rubygems_struct_refl.

(* every structure is valid: transitive on ALL segment lists *)
Theorem rubygems_trans_on_valid : forall u v w : rubygems,
  leO (cmp_rubygems u v) = true -> leO (cmp_rubygems v w) = true -> leO (cmp_rubygems u w) = true.
Proof. intros u v w. exact (proj1 cmp_rubygems_laws u v w eq_refl eq_refl eq_refl). Qed.
Print Assumptions rubygems_trans_on_valid.

Theorem rubygems_eq_equiv : forall u v w : rubygems,
  cmp_rubygems u v = Ok Eq -> cmp_rubygems u w = cmp_rubygems v w.
Proof. intros u v w. exact (proj2 cmp_rubygems_laws u v w eq_refl eq_refl eq_refl). Qed.
Print Assumptions rubygems_eq_equiv.

Theorem rubygems_trans_all_strings : forall a b c : bytes,
  leO (compare_str_rubygems a b) = true -> leO (compare_str_rubygems b c) = true -> leO (compare_str_rubygems a c) = true.
Proof. exact rubygems_str_trans_lemma. Qed.
Print Assumptions rubygems_trans_all_strings.

Theorem rubygems_eq_equiv_all_strings : forall a b c : bytes,
  compare_str_rubygems a b = Ok Eq -> compare_str_rubygems a c = compare_str_rubygems b c.
Proof. exact rubygems_str_eq_equiv_lemma. Qed.
Print Assumptions rubygems_eq_equiv_all_strings.

(* labelled TEST: Gem::Version documentation (prerelease segments sort before the release,
   "1.0.b1 < 1.0", trailing zeros are insignificant, letter/digit transitions split) *)
Example rubygems_agrees_canonical :
  ascending compare_str_rubygems
    (map b ["0.9"; "1.0.a1"; "1.0.a2"; "1.0.b1"; "1.0.b10"; "1.0.rc1"; "1.0"; "1.0.1"; "1.1.a"; "1.1"; "1.10"; "2"]) = true
  /\ all_equal compare_str_rubygems (map b ["1.0"; "1"; "1.0.0"; "1.0.0.0"]) = true
  /\ all_equal compare_str_rubygems (map b ["1.0.b1"; "1.0b1"; "1.0.b.1"; "1.b1"]) = true.
Proof. vm_compute. repeat split; reflexivity. Qed.

(* ================================================================== Debian / Ubuntu *)
Theorem debian_total : forall a b : bytes, compare_str_debian a b <> Panic.
Proof. exact debian_total_lemma. Qed.
Print Assumptions debian_total.

Theorem debian_antisym : forall a b : bytes, compare_str_debian b a = oppO (compare_str_debian a b).
Proof. exact debian_str_antisym_lemma. Qed.
Print Assumptions debian_antisym.

Theorem debian_struct_antisym : forall v w : debian, cmp_debian w v = oppO (cmp_debian v w).
Proof. exact cmp_debian_antisym. Qed.
Print Assumptions debian_struct_antisym.

(* a string compares equal to itself, or is rejected (epoch not a number) *)
Theorem debian_refl : forall a : bytes, compare_str_debian a a = Ok Eq \/ compare_str_debian a a = Err.
Proof. exact debian_str_refl_or_err_lemma. Qed.
Print Assumptions debian_refl.

Theorem debian_struct_refl : forall v : debian, cmp_debian v v = Ok Eq.
Proof. exact cmp_debian_refl. Qed.
Print Assumptions debian_struct_refl.

Theorem debian_trans_on_valid : forall u v w : debian,
  valid_debian u = true -> valid_debian v = true -> valid_debian w = true ->
  leO (cmp_debian u v) = true -> leO (cmp_debian v w) = true -> leO (cmp_debian u w) = true.
Proof. exact (proj1 cmp_debian_laws_on_valid). Qed.
Print Assumptions debian_trans_on_valid.

Theorem debian_eq_equiv : forall u v w : debian,
  valid_debian u = true -> valid_debian v = true -> valid_debian w = true ->
  cmp_debian u v = Ok Eq -> cmp_debian u w = cmp_debian v w.
Proof. exact (proj2 cmp_debian_laws_on_valid). Qed.
Print Assumptions debian_eq_equiv.

(* the model used above compares token lists; the Go source interleaves both strings in one loop.
   [deb_loop_cmp] is that loop written out literally, and it computes the same function: *)
Theorem debian_loop_equiv : forall a b : bytes, deb_loop_cmp a b = deb_str_cmp a b.
Proof. exact deb_loop_cmp_equiv. Qed.
Print Assumptions debian_loop_equiv.

(* every accepted string is a valid structure *)
Theorem debian_parse_valid : forall (s : bytes) (v : debian), parse_debian s = Ok v -> valid_debian v = true.
Proof. exact parse_debian_valid. Qed.
Print Assumptions debian_parse_valid.

(* labelled TEST: deb-version(7): epoch first, '~' sorts before everything (even the end),
   letters before non-letters, numeric parts by value, missing revision = "0" *)
Example debian_agrees_canonical :
  ascending compare_str_debian
    (map b ["1.0~~"; "1.0~~a"; "1.0~"; "1.0"; "1.0-0+b1"; "1.0-1"; "1.0a"; "1.0+"; "1.0.1"; "1.2"; "1.10"; "1:0.1"; "2:0"]) = true
  /\ all_equal compare_str_debian (map b ["1.0"; "0:1.0"; "1.0-0"; " 1.00-00 "; "0:01.0"]) = true
  /\ compare_str_debian (b "x:1") (b "1") = Err.
Proof. vm_compute. repeat split; reflexivity. Qed.

(* the generated constants of weighDebianChar give the deb-version(7) character order:
   '~' < end of string < letters < everything else *)
Example debian_weight_table :
  let w := map deb_weight [b "~"; b ""; b "A"; b "Z"; b "a"; b "z"; b "+"; b "-"; b "."; b ":"] in
  (* strictly increasing: '~' < end of run < letters (ASCII order) < other characters (ASCII order) *)
  forallb (fun p => (fst p <? snd p)%Z) (combine w (tl w)) = true.
Proof. vm_compute. reflexivity. Qed.

(* ================================================================== Red Hat *)
Theorem redhat_total : forall a b : bytes, exists c, compare_str_redhat a b = Ok c.
Proof. exact redhat_total_lemma. Qed.
Print Assumptions redhat_total.

Theorem redhat_antisym : forall a b : bytes, compare_str_redhat b a = oppO (compare_str_redhat a b).
Proof. exact redhat_str_antisym_lemma. Qed.
Print Assumptions redhat_antisym.

Theorem redhat_struct_antisym : forall v w : redhat, cmp_redhat w v = oppO (cmp_redhat v w).
Proof. exact cmp_redhat_antisym. Qed.
Print Assumptions redhat_struct_antisym.

Theorem redhat_refl : forall a : bytes, compare_str_redhat a a = Ok Eq.
Proof. exact redhat_str_refl_lemma. Qed.
Print Assumptions redhat_refl.

Theorem redhat_struct_refl : forall v : redhat, cmp_redhat v v = Ok Eq.
Proof. exact cmp_redhat_refl. Qed.
Print Assumptions redhat_struct_refl.

Theorem redhat_trans_on_valid : forall u v w : redhat,
  leO (cmp_redhat u v) = true -> leO (cmp_redhat v w) = true -> leO (cmp_redhat u w) = true.
Proof. intros u v w. exact (proj1 cmp_redhat_laws u v w eq_refl eq_refl eq_refl). Qed.
Print Assumptions redhat_trans_on_valid.

Theorem redhat_eq_equiv : forall u v w : redhat,
  cmp_redhat u v = Ok Eq -> cmp_redhat u w = cmp_redhat v w.
Proof. intros u v w. exact (proj2 cmp_redhat_laws u v w eq_refl eq_refl eq_refl). Qed.
Print Assumptions redhat_eq_equiv.

Theorem redhat_trans_all_strings : forall a b c : bytes,
  leO (compare_str_redhat a b) = true -> leO (compare_str_redhat b c) = true -> leO (compare_str_redhat a c) = true.
Proof. exact redhat_str_trans_lemma. Qed.
Print Assumptions redhat_trans_all_strings.

Theorem redhat_eq_equiv_all_strings : forall a b c : bytes,
  compare_str_redhat a b = Ok Eq -> compare_str_redhat a c = compare_str_redhat b c.
Proof. exact redhat_str_eq_equiv_lemma. Qed.
Print Assumptions redhat_eq_equiv_all_strings.

(* the model used above compares token lists; [rh_loop_component_cmp] is the Go loop of
   compareRedHatComponents written out literally (trim, tilde, caret, end, digit / letter runs, leading zeros,
   length, strcmp), and it computes the same function: *)
Theorem redhat_loop_equiv : forall a b : bytes, rh_loop_component_cmp a b = rh_component_cmp a b.
Proof. exact rh_loop_component_equiv. Qed.
Print Assumptions redhat_loop_equiv.

(* labelled TEST: rpmvercmp rules (rpm.org "rpm-version(7)"): '~' before everything, '^' after the
   base version but before any further segment, digits beat letters, leading zeros ignored,
   separators are equivalent, epoch first *)
Example redhat_agrees_canonical :
  ascending compare_str_redhat
    (map b ["1.0~rc1"; "1.0~rc1^git1"; "1.0~rc2"; "1.0"; "1.0^git1"; "1.0^git2"; "1.0.a"; "1.0.1"; "1.0.1-1"; "1.0.1-2.el8"; "1.0.10"; "1:0.1"]) = true
  /\ all_equal compare_str_redhat (map b ["1.0.1"; "1_0_1"; "1.0.01"; "0:1.0.1"; "1+0+1"]) = true.
Proof. vm_compute. repeat split; reflexivity. Qed.

(* ================================================================== PyPI
   The front end (ToLower, the PEP 440 regular expression as a backtracking matcher with Go's
   leftmost-first preference, parseLetterVersion with the generated spelling table, local labels,
   the legacy tokeniser) is modelled in PypiParse.v and tied to the code by the parse correspondence. *)
Definition ln0 : letnum := {| ln_letter := []; ln_number := None |}.
Definition py (rel : list Z) (pre : letnum) (post dev : option Z) (loc : list bytes) : pypi :=
  {| py_epoch := Some 0%Z; py_release := map Some rel; py_pre := pre;
     py_post := {| ln_letter := match post with Some _ => b "post" | None => [] end; ln_number := post |};
     py_dev := {| ln_letter := match dev with Some _ => b "dev" | None => [] end; ln_number := dev |};
     py_local := loc; py_legacy := [] |}.
Definition pre_of (l : string) (n : Z) : letnum := {| ln_letter := b l; ln_number := Some n |}.

(* never panics on structures the parser can build (epoch / release numbers present, a
   pre-release number comes with its letter) *)
Theorem pypi_struct_total : forall v w : pypi, valid_pypi v = true -> valid_pypi w = true -> exists c, cmp_pypi v w = Ok c.
Proof. exact cmp_pypi_total_on_valid. Qed.
Print Assumptions pypi_struct_total.

(* the front end only builds such structures ... *)
Theorem pypi_parse_valid : forall (s : bytes) (v : pypi), parse_pypi s = Ok v -> valid_pypi v = true.
Proof. exact parse_pypi_valid. Qed.
Print Assumptions pypi_parse_valid.

(* ... so Parse + CompareStr never panics, for any two byte strings *)
Theorem pypi_total : forall a b : bytes, compare_str_pypi a b <> Panic.
Proof. exact pypi_str_total. Qed.
Print Assumptions pypi_total.

Theorem pypi_antisym : forall a b : bytes, compare_str_pypi b a = oppO (compare_str_pypi a b).
Proof. exact pypi_str_antisym. Qed.
Print Assumptions pypi_antisym.

Theorem pypi_refl : forall a : bytes, compare_str_pypi a a = Ok Eq \/ compare_str_pypi a a = Err.
Proof. exact pypi_str_refl. Qed.
Print Assumptions pypi_refl.

Theorem pypi_trans_all_strings : forall a b c : bytes,
  leO (compare_str_pypi a b) = true -> leO (compare_str_pypi b c) = true -> leO (compare_str_pypi a c) = true.
Proof. exact pypi_str_trans. Qed.
Print Assumptions pypi_trans_all_strings.

Theorem pypi_eq_equiv_all_strings : forall a b c : bytes,
  compare_str_pypi a b = Ok Eq -> compare_str_pypi a c = compare_str_pypi b c.
Proof. exact pypi_str_eq_equiv. Qed.
Print Assumptions pypi_eq_equiv_all_strings.

(* antisymmetry: ALL structures (nil epoch, nil components, empty letters included) *)
Theorem pypi_struct_antisym : forall v w : pypi, cmp_pypi w v = oppO (cmp_pypi v w).
Proof. exact cmp_pypi_antisym. Qed.
Print Assumptions pypi_struct_antisym.

(* reflexivity: all structures whose pre-release, if present, has a letter (otherwise letter[0] panics) *)
Theorem pypi_struct_refl : forall v : pypi, pre_ok v = true -> cmp_pypi v v = Ok Eq.
Proof. exact cmp_pypi_refl. Qed.
Print Assumptions pypi_struct_refl.

(* (a structure the front end never builds) *)
Theorem pypi_struct_refl_refuted : exists v : pypi, cmp_pypi v v = Panic.
Proof. exists (py [1%Z] {| ln_letter := []; ln_number := Some 1%Z |} None None []). vm_compute. reflexivity. Qed.
Print Assumptions pypi_struct_refl_refuted.

Theorem pypi_trans_on_valid : forall u v w : pypi,
  valid_pypi u = true -> valid_pypi v = true -> valid_pypi w = true ->
  leO (cmp_pypi u v) = true -> leO (cmp_pypi v w) = true -> leO (cmp_pypi u w) = true.
Proof. exact (proj1 cmp_pypi_laws_on_valid). Qed.
Print Assumptions pypi_trans_on_valid.

Theorem pypi_eq_equiv : forall u v w : pypi,
  valid_pypi u = true -> valid_pypi v = true -> valid_pypi w = true ->
  cmp_pypi u v = Ok Eq -> cmp_pypi u w = cmp_pypi v w.
Proof. exact (proj2 cmp_pypi_laws_on_valid). Qed.
Print Assumptions pypi_eq_equiv.

(* labelled TEST: PEP 440 "Summary of permitted suffixes and relative ordering":
   1.dev0 < 1.0.dev456 < 1.0a1 < 1.0a2.dev456 < 1.0a12.dev456 < 1.0a12 < 1.0b1.dev456 < 1.0b2 <
   1.0b2.post345.dev456 < 1.0b2.post345 < 1.0rc1.dev456 < 1.0rc1 < 1.0 < 1.0+abc.5 < 1.0+abc.7 < 1.0+5 <
   1.0.post456.dev34 < 1.0.post456 < 1.1.dev1    (structures written out by hand) *)
Definition pypi_chain : list pypi :=
  [ py [1;0] ln0 None (Some 456) [[]];
    py [1;0] (pre_of "a" 1) None None [[]];
    py [1;0] (pre_of "a" 2) None (Some 456) [[]];
    py [1;0] (pre_of "a" 12) None (Some 456) [[]];
    py [1;0] (pre_of "a" 12) None None [[]];
    py [1;0] (pre_of "b" 1) None (Some 456) [[]];
    py [1;0] (pre_of "b" 2) None None [[]];
    py [1;0] (pre_of "b" 2) (Some 345) (Some 456) [[]];
    py [1;0] (pre_of "b" 2) (Some 345) None [[]];
    py [1;0] (pre_of "rc" 1) None (Some 456) [[]];
    py [1;0] (pre_of "rc" 1) None None [[]];
    py [1;0] ln0 None None [[]];
    py [1;0] ln0 None None [b "abc"; b "5"];
    py [1;0] ln0 None None [b "abc"; b "7"];
    py [1;0] ln0 None None [b "5"];
    py [1;0] ln0 (Some 456) (Some 34) [[]];
    py [1;0] ln0 (Some 456) None [[]];
    py [1;1] ln0 None (Some 1) [[]] ]%Z.

Fixpoint ascending_s {V} (c : V -> V -> outcome comparison) (l : list V) : bool :=
  match l with
  | [] => true
  | x :: r => forallb (fun y => is_lt (c x y) && is_gt (c y x)) r && ascending_s c r
  end.

Example pypi_agrees_canonical :
  ascending_s cmp_pypi pypi_chain = true /\ forallb valid_pypi pypi_chain = true
  (* the same chain, and PEP 440's normalisation examples, through the modelled parser *)
  /\ ascending compare_str_pypi
       (map b ["1.dev0"; "1.0.dev456"; "1.0a1"; "1.0a2.dev456"; "1.0a12.dev456"; "1.0a12"; "1.0b1.dev456"; "1.0b2"; "1.0b2.post345.dev456";
               "1.0b2.post345"; "1.0rc1.dev456"; "1.0rc1"; "1.0"; "1.0+abc.5"; "1.0+abc.7"; "1.0+5"; "1.0.post456.dev34"; "1.0.post456";
               "1.0.15"; "1.1.dev1"; "1!0.1"]) = true
  /\ all_equal compare_str_pypi (map b ["1.0a1"; "1.0alpha1"; "1.0-A1"; " v1.0.a.1 "; "1.0_ALPHA_1"]) = true
  /\ all_equal compare_str_pypi (map b ["1.0.post1"; "1.0-1"; "1.0post1"; "1.0.r1"; "1.0-REV-1"]) = true
  /\ all_equal compare_str_pypi (map b ["1.0+ubuntu-1"; "1.0+ubuntu.1"; "1.0+Ubuntu_1"]) = true
  (* legacy versions sort below every PEP 440 version *)
  /\ ascending compare_str_pypi (map b ["1.0-foo"; "1.0-foo-1"; "0.0.dev0"]) = true.
Proof. vm_compute. repeat split; reflexivity. Qed.

(* comparePre only looks at letter[0]: the generated spelling table must send every pre-release
   spelling to a, b or rc, whose first bytes are ordered a < b < r *)
Example pypi_letter_table_ordered :
  map (switch_lookup gen_pypi_letter_aliases) (map b ["a"; "alpha"; "b"; "beta"; "c"; "rc"; "pre"; "preview"; "post"; "rev"; "r"; "dev"]) =
  map b ["a"; "a"; "b"; "b"; "rc"; "rc"; "rc"; "rc"; "post"; "post"; "post"; "dev"] /\
  (hd 0%N (b "a") <? hd 0%N (b "b"))%N && (hd 0%N (b "b") <? hd 0%N (b "rc"))%N = true.
Proof. vm_compute. repeat split; reflexivity. Qed.

(* ================================================================== Packagist
   front end (canonicalisation + split) modelled in Packagist.v; comparison on the component lists *)
Definition pk (l : list string) : packagist := {| pk_original := []; pk_components := map b l |}.

Theorem packagist_total : forall v w : packagist, exists c, cmp_packagist v w = Ok c.
Proof. intros v w. eexists. reflexivity. Qed.
Print Assumptions packagist_total.

Theorem packagist_antisym : forall v w : packagist, cmp_packagist w v = oppO (cmp_packagist v w).
Proof. exact cmp_packagist_antisym. Qed.
Print Assumptions packagist_antisym.

Theorem packagist_refl : forall v : packagist, cmp_packagist v v = Ok Eq.
Proof. exact cmp_packagist_refl. Qed.
Print Assumptions packagist_refl.

(* The property FAILS for the code that exists: a qualifier starting with '#' (PHP's stand-in for
   "a number") ties with EVERY number:  1.5 = 1.# and 1.# = 1.7  but  1.5 < 1.7 *)
Theorem packagist_hash_eq_not_transitive_refuted : exists u v w : packagist,
  cmp_packagist u v = Ok Eq /\ cmp_packagist v w = Ok Eq /\ cmp_packagist u w = Ok Lt.
Proof. exists (pk ["1"; "5"]), (pk ["1"; "#"]), (pk ["1"; "7"]). vm_compute. repeat split; reflexivity. Qed.
Print Assumptions packagist_hash_eq_not_transitive_refuted.

(* D: no qualifier starts with '#' (numbers of any size are fine since fix cefe0305) *)
Theorem packagist_trans_on_D : forall u v w : packagist,
  valid_packagist u = true -> valid_packagist v = true -> valid_packagist w = true ->
  leO (cmp_packagist u v) = true -> leO (cmp_packagist v w) = true -> leO (cmp_packagist u w) = true.
Proof. exact (proj1 cmp_packagist_laws_on_valid). Qed.
Print Assumptions packagist_trans_on_D.

Theorem packagist_eq_equiv_on_D : forall u v w : packagist,
  valid_packagist u = true -> valid_packagist v = true -> valid_packagist w = true ->
  cmp_packagist u v = Ok Eq -> cmp_packagist u w = cmp_packagist v w.
Proof. exact (proj2 cmp_packagist_laws_on_valid). Qed.
Print Assumptions packagist_eq_equiv_on_D.

(* ---- the same for all byte strings, through the modelled front end *)
Theorem packagist_total_all_strings : forall a b : bytes, exists c, compare_str_packagist a b = Ok c.
Proof. exact packagist_str_total. Qed.
Print Assumptions packagist_total_all_strings.

Theorem packagist_antisym_all_strings : forall a b : bytes, compare_str_packagist b a = oppO (compare_str_packagist a b).
Proof. exact packagist_str_antisym. Qed.
Print Assumptions packagist_antisym_all_strings.

Theorem packagist_refl_all_strings : forall a : bytes, compare_str_packagist a a = Ok Eq.
Proof. exact packagist_str_refl. Qed.
Print Assumptions packagist_refl_all_strings.

Theorem packagist_trans_on_D_strings : forall a b c : bytes,
  valid_packagist_string a = true -> valid_packagist_string b = true -> valid_packagist_string c = true ->
  leO (compare_str_packagist a b) = true -> leO (compare_str_packagist b c) = true -> leO (compare_str_packagist a c) = true.
Proof. intros a b c Ha Hb Hc. exact (proj1 (packagist_str_laws_on_valid a b c Ha Hb Hc)). Qed.
Print Assumptions packagist_trans_on_D_strings.

Theorem packagist_eq_equiv_on_D_strings : forall a b c : bytes,
  valid_packagist_string a = true -> valid_packagist_string b = true -> valid_packagist_string c = true ->
  compare_str_packagist a b = Ok Eq -> compare_str_packagist a c = compare_str_packagist b c.
Proof. intros a b c Ha Hb Hc. exact (proj2 (packagist_str_laws_on_valid a b c Ha Hb Hc)). Qed.
Print Assumptions packagist_eq_equiv_on_D_strings.

(* labelled TEST on strings: composer spellings and PHP's order of special forms *)
Example packagist_strings_canonical :
  ascending compare_str_packagist (map b ["1.0-dev"; "1.0-alpha1"; "1.0a2"; "1.0-beta1"; "1.0RC1"; "1.0"; "1.0.1"; "1.0-p1"; "1.1"; "1.10"]) = true
  /\ all_equal compare_str_packagist (map b ["1.0-RC1"; "1.0RC1"; "1.0-rc1"; "v1.0_RC+1"; "1.0.rc.1"]) = true
  /\ valid_packagist_string (b "1.99999999999999999999-beta2") = true /\ valid_packagist_string (b "1.#") = false.
Proof. vm_compute. repeat split; reflexivity. Qed.

(* labelled TEST: PHP version_compare order of special forms: dev < alpha = a < beta = b < RC = rc < # (number) < pl = p *)
Example packagist_agrees_canonical :
  ascending_s cmp_packagist
    [pk ["1";"0";"dev"]; pk ["1";"0";"alpha";"1"]; pk ["1";"0";"alpha";"2"]; pk ["1";"0";"b";"1"]; pk ["1";"0";"RC";"1"];
     pk ["1";"0"]; pk ["1";"0";"1"]; pk ["1";"0";"pl";"1"]; pk ["1";"1"]; pk ["1";"10"]] = true
  /\ forallb valid_packagist [pk ["1";"0";"dev"]; pk ["1";"0";"RC";"1"]; pk ["1";"99999999999999999999"]] = true
  /\ valid_packagist (pk ["1"; "#"]) = false
  (* regression of the fixed finding packagist-atoi-bigint: 1 < 1.5 < 1.99999999999999999999 *)
  /\ ascending_s cmp_packagist [pk ["1"]; pk ["1"; "5"]; pk ["1"; "99999999999999999999"]] = true.
Proof. vm_compute. repeat split; reflexivity. Qed.

(* the generated weight table orders the special forms as PHP's version_compare documents:
   anything else = dev < alpha (a) < beta (b) < RC = rc < # (a number) < pl (p) *)
Example packagist_table_order :
  map pk_weight (map b ["dev"; "alpha"; "a"; "beta"; "b"; "RC"; "rc"; "#"; "p"; "pl"; "patch"; "stable"]) =
  [0; 1; 1; 2; 2; 3; 3; 4; 5; 5; 5; 0]%nat /\ hash_weight = 4%nat.
Proof. vm_compute. split; reflexivity. Qed.

(* ================================================================== Alpine
   front end (the five regex-driven steps of parseAlpineVersion) modelled in AlpineParse.v *)
Definition anc_of (i : Z) (s : string) : anc :=
  {| an_original := b s; an_value := Some (Z.of_N (digits_val (b s) 0)); an_index := i |}.
Fixpoint ancs (i : Z) (l : list string) : list anc :=
  match l with [] => [] | s :: r => anc_of i s :: ancs (i + 1) r end.
(* suffixes are given by NAME; their weight is looked up in the table generated from weightAlpineSuffixString *)
Definition alp (comps : list string) (letter : string) (sufs : list (string * Z)) (build : Z) : alpine :=
  {| al_original := []; al_invalid := false; al_remainder := []; al_components := ancs 0 comps;
     al_letter := b letter; al_suffixes := map (fun p => {| as_weight := suffix_weight (b (fst p)); as_number := Some (snd p) |}) sufs;
     al_hash := []; al_build := Some build |}.

Theorem alpine_total : forall v w : alpine, valid_alpine v = true -> valid_alpine w = true -> exists c, cmp_alpine v w = Ok c.
Proof. exact cmp_alpine_total_on_valid. Qed.
Print Assumptions alpine_total.

(* antisymmetry / reflexivity: every structure whose number components have a non-empty original
   (what the tokeniser builds); an empty original would make original[0] panic on one side only *)
Theorem alpine_antisym : forall v w : alpine, alpine_wf v = true -> alpine_wf w = true ->
  cmp_alpine w v = oppO (cmp_alpine v w).
Proof. exact cmp_alpine_antisym. Qed.
Print Assumptions alpine_antisym.

Theorem alpine_refl : forall v : alpine, alpine_wf v = true -> cmp_alpine v v = Ok Eq.
Proof. exact cmp_alpine_refl. Qed.
Print Assumptions alpine_refl.

(* The property FAILS for the code that exists: an absent component is padded with index 0 and
   compares numerically, a present one with a leading zero compares as a string:
   1.0 = 1 and 1 = 1.00 but 1.0 < 1.00 *)
Theorem alpine_eq_not_transitive_refuted : exists u v w : alpine,
  valid_alpine_noD u = true /\ valid_alpine_noD v = true /\ valid_alpine_noD w = true /\
  cmp_alpine u v = Ok Eq /\ cmp_alpine v w = Ok Eq /\ cmp_alpine u w = Ok Lt.
Proof. exists (alp ["1"; "0"] "" [] 0), (alp ["1"] "" [] 0), (alp ["1"; "00"] "" [] 0). vm_compute. repeat split; reflexivity. Qed.
Print Assumptions alpine_eq_not_transitive_refuted.

(* D: after the first component, no zero written with several digits ("00", "000", ...) *)
Theorem alpine_trans_on_D : forall u v w : alpine,
  valid_alpine u = true -> valid_alpine v = true -> valid_alpine w = true ->
  leO (cmp_alpine u v) = true -> leO (cmp_alpine v w) = true -> leO (cmp_alpine u w) = true.
Proof. exact (proj1 cmp_alpine_laws_on_valid). Qed.
Print Assumptions alpine_trans_on_D.

Theorem alpine_eq_equiv_on_D : forall u v w : alpine,
  valid_alpine u = true -> valid_alpine v = true -> valid_alpine w = true ->
  cmp_alpine u v = Ok Eq -> cmp_alpine u w = cmp_alpine v w.
Proof. exact (proj2 cmp_alpine_laws_on_valid). Qed.
Print Assumptions alpine_eq_equiv_on_D.

(* ---- all byte strings, through the modelled front end *)
Theorem alpine_total_all_strings : forall a b : bytes, compare_str_alpine a b <> Panic.
Proof. exact alpine_str_total. Qed.
Print Assumptions alpine_total_all_strings.

Theorem alpine_antisym_all_strings : forall a b : bytes, compare_str_alpine b a = oppO (compare_str_alpine a b).
Proof. exact alpine_str_antisym. Qed.
Print Assumptions alpine_antisym_all_strings.

Theorem alpine_refl_all_strings : forall a : bytes, compare_str_alpine a a = Ok Eq \/ compare_str_alpine a a = Err.
Proof. exact alpine_str_refl. Qed.
Print Assumptions alpine_refl_all_strings.

Theorem alpine_trans_on_D_strings : forall a b c : bytes,
  valid_alpine_string a = true -> valid_alpine_string b = true -> valid_alpine_string c = true ->
  leO (compare_str_alpine a b) = true -> leO (compare_str_alpine b c) = true -> leO (compare_str_alpine a c) = true.
Proof. intros a b c Ha Hb Hc. exact (proj1 (alpine_str_laws_on_D a b c Ha Hb Hc)). Qed.
Print Assumptions alpine_trans_on_D_strings.

Theorem alpine_eq_equiv_on_D_strings : forall a b c : bytes,
  valid_alpine_string a = true -> valid_alpine_string b = true -> valid_alpine_string c = true ->
  compare_str_alpine a b = Ok Eq -> compare_str_alpine a c = compare_str_alpine b c.
Proof. intros a b c Ha Hb Hc. exact (proj2 (alpine_str_laws_on_D a b c Ha Hb Hc)). Qed.
Print Assumptions alpine_eq_equiv_on_D_strings.

(* labelled TEST on strings (apk-tools), incl. the refuted equality chain and a rejected version *)
Example alpine_strings_canonical :
  ascending compare_str_alpine
    (map b ["1.2_alpha"; "1.2_beta1"; "1.2_pre"; "1.2_rc1"; "1.2"; "1.2-r1"; "1.2_cvs"; "1.2_svn"; "1.2_git"; "1.2_hg"; "1.2_p"; "1.2_p1"; "1.2a"; "1.2.1"; "1.10"]) = true
  /\ compare_str_alpine (b "1.0") (b "1") = Ok Eq /\ compare_str_alpine (b "1") (b "1.00") = Ok Eq /\ compare_str_alpine (b "1.0") (b "1.00") = Ok Lt
  /\ valid_alpine_string (b "1.0.01_rc1-r2") = true /\ valid_alpine_string (b "1.00") = false
  /\ compare_str_alpine (b "1.") (b "1") = Err.
Proof. vm_compute. repeat split; reflexivity. Qed.

(* labelled TEST: apk-tools suffix order alpha < beta < pre < rc < (none) < cvs < svn < git < hg < p,
   letters, -r build.  The second conjunct is the regression of the fixed finding
   alpine-cvs-suffix-equals-none (fix 3b060d98): 1.2 < 1.2_cvs. *)
Example alpine_agrees_canonical :
  ascending_s cmp_alpine
    [alp ["1";"2"] "" [("alpha",1)] 0; alp ["1";"2"] "" [("beta",1)] 0; alp ["1";"2"] "" [("pre",1)] 0; alp ["1";"2"] "" [("rc",1)] 0;
     alp ["1";"2"] "" [] 0; alp ["1";"2"] "" [] 1; alp ["1";"2"] "" [("cvs",0)] 0; alp ["1";"2"] "" [("cvs",1)] 0; alp ["1";"2"] "" [("svn",0)] 0;
     alp ["1";"2"] "" [("git",0)] 0; alp ["1";"2"] "" [("hg",0)] 0; alp ["1";"2"] "" [("p",0)] 0; alp ["1";"2"] "a" [] 0; alp ["1";"2";"1"] "" [] 0; alp ["1";"10"] "" [] 0]%Z = true
  /\ cmp_alpine (alp ["1";"2"] "" [] 0) (alp ["1";"2"] "" [("cvs",0)] 0)%Z = Ok Lt
  (* the weight a missing suffix is padded with lies strictly between rc and cvs in the generated (probed) table *)
  /\ (suffix_weight (b "rc") <? gen_alpine_suffix_pad_weight)%Z && (gen_alpine_suffix_pad_weight <? suffix_weight (b "cvs"))%Z = true
  /\ valid_alpine (alp ["1";"0";"01"] "" [] 0) = true /\ valid_alpine (alp ["1";"00"] "" [] 0) = false.
Proof. vm_compute. repeat split; reflexivity. Qed.

(* ================================================================== Maven *)
Theorem maven_total : forall a b : bytes, compare_str_maven a b <> Panic.
Proof. exact maven_total_lemma. Qed.
Print Assumptions maven_total.

Theorem maven_struct_total : forall v w : maven, cmp_maven v w <> Panic.
Proof. exact cmp_maven_no_panic. Qed.
Print Assumptions maven_struct_total.

Theorem maven_refl : forall a : bytes, compare_str_maven a a = Ok Eq.
Proof. exact maven_str_refl_lemma. Qed.
Print Assumptions maven_refl.

Theorem maven_struct_refl : forall v : maven, cmp_maven v v = Ok Eq.
Proof. exact cmp_maven_refl. Qed.
Print Assumptions maven_struct_refl.

(* the "equal" verdict is symmetric on every pair of structures *)
Theorem maven_eq_symmetric : forall v w : maven, cmp_maven v w = Ok Eq -> cmp_maven w v = Ok Eq.
Proof. exact cmp_maven_eq_sym. Qed.
Print Assumptions maven_eq_symmetric.

(* The property FAILS for the code that exists (and for Maven's own ComparableVersion rules):
   1 < 1.a < 1-rc < 1        ('.'-qualifier < '-'-qualifier, while the padding follows the other side's separator)
   1.0.rc < 1 < 1.sp < 1.0.rc (an absent token equals a '.'-prefixed 0 but sorts below "sp" and unknown words,
                               which sort below every number) *)
Theorem maven_trans_refuted :
  (exists a b c : bytes, compare_str_maven a b = Ok Lt /\ compare_str_maven b c = Ok Lt /\ compare_str_maven c a = Ok Lt) /\
  (exists a b c : bytes, compare_str_maven a b = Ok Lt /\ compare_str_maven b c = Ok Lt /\ compare_str_maven c a = Ok Lt /\
     (* this one without any '-' at all *)
     forallb (fun s => negb (contains 45%N s)) [a; b; c] = true).
Proof.
  split.
  - exists (b "1"), (b "1.a"), (b "1-rc"). vm_compute. repeat split; reflexivity.
  - exists (b "1.0.rc"), (b "1"), (b "1.sp"). vm_compute. repeat split; reflexivity.
Qed.
Print Assumptions maven_trans_refuted.

(* antisymmetry: every pair of well-formed structures (tokens as the tokeniser builds them: not
   null, numbers in canonical decimal form, first token without separator, the others after '.'
   or '-', trailing null values trimmed).  Without canonical numbers it fails: "5" and "05" are
   neither equal nor less than each other, so both orders answer +1. *)
Theorem maven_struct_antisym : forall v w : maven,
  maven_wf v = true -> maven_wf w = true -> cmp_maven w v = oppO (cmp_maven v w).
Proof. exact cmp_maven_antisym. Qed.
Print Assumptions maven_struct_antisym.

(* The domain D on which transitivity and equality-equivalence hold for Maven:
     valid_maven  (per version)  well-formed, and every '.'-prefixed qualifier is one of
                                 alpha beta milestone rc snapshot "" (ga/final/release);
     maven_rel    (per triple)   wherever two of the versions both have a token, the separators agree. *)
Theorem maven_trans_on_D : forall u v w : maven,
  valid_maven u = true -> valid_maven v = true -> valid_maven w = true -> maven_rel u v w = true ->
  leO (cmp_maven u v) = true -> leO (cmp_maven v w) = true -> leO (cmp_maven u w) = true.
Proof. intros u v w Hu Hv Hw R. exact (proj1 (cmp_maven_laws_on_D u v w Hu Hv Hw R)). Qed.
Print Assumptions maven_trans_on_D.

Theorem maven_eq_equiv_on_D : forall u v w : maven,
  valid_maven u = true -> valid_maven v = true -> valid_maven w = true -> maven_rel u v w = true ->
  cmp_maven u v = Ok Eq -> cmp_maven u w = cmp_maven v w.
Proof. intros u v w Hu Hv Hw R. exact (proj2 (cmp_maven_laws_on_D u v w Hu Hv Hw R)). Qed.
Print Assumptions maven_eq_equiv_on_D.

(* the modelled tokeniser (split on '.'/'-', digit/letter transitions, alias rewriting, canonical
   numbers, trimming of trailing null values) only builds well-formed token lists ... *)
Theorem maven_parse_wf : forall (s : bytes) (v : maven), parse_maven s = Ok v -> maven_wf v = true.
Proof. exact parse_maven_wf. Qed.
Print Assumptions maven_parse_wf.

(* ... hence antisymmetry for ALL byte strings *)
Theorem maven_antisym : forall a b : bytes, compare_str_maven b a = oppO (compare_str_maven a b).
Proof. exact maven_str_antisym_lemma. Qed.
Print Assumptions maven_antisym.

(* and the order laws on D, stated on strings (the domain is evaluated on what the string parses to) *)
Theorem maven_trans_on_D_strings : forall a b c : bytes,
  valid_maven_string a = true -> valid_maven_string b = true -> valid_maven_string c = true ->
  maven_rel_strings a b c = true ->
  leO (compare_str_maven a b) = true -> leO (compare_str_maven b c) = true -> leO (compare_str_maven a c) = true.
Proof. intros a b c Ha Hb Hc R. exact (proj1 (maven_str_laws_on_D a b c Ha Hb Hc R)). Qed.
Print Assumptions maven_trans_on_D_strings.

Theorem maven_eq_equiv_on_D_strings : forall a b c : bytes,
  valid_maven_string a = true -> valid_maven_string b = true -> valid_maven_string c = true ->
  maven_rel_strings a b c = true ->
  compare_str_maven a b = Ok Eq -> compare_str_maven a c = compare_str_maven b c.
Proof. intros a b c Ha Hb Hc R. exact (proj2 (maven_str_laws_on_D a b c Ha Hb Hc R)). Qed.
Print Assumptions maven_eq_equiv_on_D_strings.

(* non-vacuity: parsed versions in D whose separators agree, with distinct results; the two
   refutation witnesses lie outside D for the stated reasons *)
Definition pm (s : string) : maven := match parse_maven (b s) with Ok v => v | _ => {| mv_tokens := [] |} end.
Example maven_D_nonvacuous :
  forallb valid_maven [pm "1.1-rc-1"; pm "1.2-sp-1"; pm "1.2-foo"; pm "1.10.1-alpha"; pm "2.ga.1"] = true /\
  maven_rel (pm "1.1-rc-1") (pm "1.2-sp-1") (pm "1.2-foo") = true /\
  cmp_maven (pm "1.1-rc-1") (pm "1.2-sp-1") = Ok Lt /\ cmp_maven (pm "1.2-sp-1") (pm "1.2-foo") = Ok Lt /\
  maven_rel (pm "1") (pm "1.a") (pm "1-rc") = false /\ valid_maven (pm "1.a") = false /\ valid_maven (pm "1.sp") = false /\
  maven_wf (pm "1.a") = true /\ maven_wf (pm "1.sp") = true /\ maven_wf (pm "1.0.rc") = true.
Proof. vm_compute. repeat split; reflexivity. Qed.

(* the generated Maven tables are what the lemmas above were proved about *)
Example maven_tables :
  gen_maven_keyword_order = map b ["alpha"; "beta"; "milestone"; "rc"; "snapshot"; ""; "sp"] /\
  map (fun q => norm_piece (b q) true) ["cr"; "GA"; "final"; "Release"; ""; "a"; "b"; "m"; "Alpha"; "007"] =
    map b ["rc"; ""; ""; ""; "0"; "a"; "b"; "m"; "alpha"; "7"] /\
  map (fun q => norm_piece (b q) false) ["a"; "B"; "m"; "cr"; "x"] = map b ["alpha"; "beta"; "milestone"; "rc"; "x"] /\
  forallb (fun v => should_trim {| mt_prefix := s_dash; mt_value := b v; mt_null := false |}) ["0"; ""] = true /\
  gen_maven_empty_dot_padding_for = [b "sp"].
Proof. vm_compute. repeat split; reflexivity. Qed.

(* labelled TEST: Maven POM reference, "Version Order Specification" *)
Example maven_agrees_canonical :
  ascending compare_str_maven
    (map b ["1-alpha"; "1-alpha-2"; "1-beta"; "1-milestone"; "1-rc"; "1-snapshot"; "1"; "1-sp"; "1-sp-1"; "1-foo"; "1-1"; "1.1"; "1.2"; "1.10"; "2"]) = true
  /\ all_equal compare_str_maven (map b ["1"; "1.0"; "1.0.0"; "1-ga"; "1-final"; "1.0-RELEASE"; "1-0"; "1.ga"]) = true
  /\ all_equal compare_str_maven (map b ["1-rc"; "1-cr"; "1-RC"; "1rc"]) = true
  /\ all_equal compare_str_maven (map b ["1-a1"; "1-alpha-1"; "1alpha1"; "1-ALPHA1"]) = true.
Proof. vm_compute. repeat split; reflexivity. Qed.

(* Model of the comparison in semantic/version-pypi.go, on the parsed structure.  No proofs here.
   The PEP 440 regular expression and the legacy tokeniser (the front end) are NOT modelled: the
   structures are taken from the implementation through the hook semantic.VerifParse. *)
From Coq Require Import List ZArith NArith Bool.
From Scalibr Require Import Semantic.Cmp Semantic.LexPad Semantic.Bytes.
Import ListNotations.
Open Scope N_scope.

(* type letterAndNumber struct { letter string; number *big.Int } *)
Record letnum := { ln_letter : bytes; ln_number : option Z }.

(* type pyPIVersion struct { epoch *big.Int; release components; pre, post, dev letterAndNumber; local, legacy []string } *)
Record pypi := {
  py_epoch : option Z;
  py_release : list (option Z);
  py_pre : letnum; py_post : letnum; py_dev : letnum;
  py_local : list bytes;
  py_legacy : list bytes }.

(* compareLegacy: a version with legacy parts sorts below every PEP 440 version; two legacy
   versions by strings.Compare of the joined parts *)
Definition legacy_cmp (v w : pypi) : comparison :=
  match py_legacy v, py_legacy w with
  | [], [] => Eq
  | [], _ :: _ => Gt
  | _ :: _, [] => Lt
  | a, b => bytes_cmp (concat a) (concat b)
  end.

(* shouldApplyPreTrick *)
Definition pre_trick (v : pypi) : bool :=
  negb (is_some (ln_number (py_pre v))) && negb (is_some (ln_number (py_post v))) && is_some (ln_number (py_dev v)).

(* comparePre; pre.letter[0] panics (index out of range) when the letter is empty *)
Definition pre_cmp (v w : pypi) : outcome comparison :=
  if pre_trick v && pre_trick w then Ok Eq
  else if pre_trick v then Ok Lt
  else if pre_trick w then Ok Gt
  else match ln_number (py_pre v), ln_number (py_pre w) with
       | None, None => Ok Eq
       | None, Some _ => Ok Gt
       | Some _, None => Ok Lt
       | Some x, Some y =>
         match ln_letter (py_pre v), ln_letter (py_pre w) with
         | a :: _, c :: _ => Ok (thenc (N.compare a c) (Z.compare x y))
         | _, _ => Panic
         end
       end.

(* comparePost: no post segment sorts first *)
Definition post_cmp (v w : pypi) : comparison :=
  match ln_number (py_post v), ln_number (py_post w) with
  | None, None => Eq
  | None, Some _ => Lt
  | Some _, None => Gt
  | Some x, Some y => Z.compare x y
  end.

(* compareDev: no dev segment sorts last *)
Definition dev_cmp (v w : pypi) : comparison :=
  match ln_number (py_dev v), ln_number (py_dev w) with
  | None, None => Eq
  | None, Some _ => Gt
  | Some _, None => Lt
  | Some x, Some y => Z.compare x y
  end.

(* compareLocal: numeric segments above text segments; then the longer list *)
Definition local_cmp (v w : pypi) : comparison := shortlex (numstr_cmp true) (py_local v) (py_local w).

(* pypiCompareVersion *)
Definition cmp_pypi (v w : pypi) : outcome comparison :=
  thenO (Ok (legacy_cmp v w))
 (thenO (ocmp (py_epoch v) (py_epoch w))
 (thenO (comps_cmp (py_release v) (py_release w))
 (thenO (pre_cmp v w)
        (Ok (thenc (post_cmp v w) (thenc (dev_cmp v w) (local_cmp v w))))))).

(* what the parser can build: epoch and release numbers present; a pre-release number comes with its letter *)
Definition pre_ok (v : pypi) : bool :=
  negb (is_some (ln_number (py_pre v))) || negb (is_nil (ln_letter (py_pre v))).
Definition valid_pypi (v : pypi) : bool :=
  is_some (py_epoch v) && forallb is_some (py_release v) && pre_ok v.

Definition letnum_eqb (a b : letnum) : bool :=
  bytes_eqb (ln_letter a) (ln_letter b) && optZ_eqb (ln_number a) (ln_number b).
Definition pypi_eqb (v w : pypi) : bool :=
  optZ_eqb (py_epoch v) (py_epoch w) && list_eqb optZ_eqb (py_release v) (py_release w) &&
  letnum_eqb (py_pre v) (py_pre w) && letnum_eqb (py_post v) (py_post w) && letnum_eqb (py_dev v) (py_dev w) &&
  list_eqb bytes_eqb (py_local v) (py_local w) && list_eqb bytes_eqb (py_legacy v) (py_legacy w).

(* The modelled Alpine front end only builds structures on which the comparison cannot panic; with it
   totality, antisymmetry and reflexivity hold for all byte strings. *)
From Coq Require Import List ZArith NArith Bool Lia.
From Scalibr Require Import Semantic.Cmp Semantic.LexPad Semantic.Bytes Semantic.Generated_Tables.
From Scalibr Require Import Semantic.SemverProofs Semantic.PypiProofs Semantic.Alpine Semantic.AlpineProofs Semantic.AlpineParse.
Import ListNotations.

(* ------------------------------------------------------------------ digit runs *)
Lemma span_digits : forall s d r, span is_digit s = (d, r) -> forallb is_digit d = true.
Proof.
  induction s as [|c s IH]; intros d r H; simpl in H.
  - injection H as <- <-. reflexivity.
  - destruct (is_digit c) eqn:E.
    + destruct (span is_digit s) as [a b0] eqn:S. injection H as <- <-. simpl. rewrite E. eapply IH; reflexivity.
    + injection H as <- <-. reflexivity.
Qed.

Lemma span_digits_head : forall c s d r, is_digit c = true -> span is_digit (c :: s) = (d, r) -> exists d', d = c :: d'.
Proof. intros c s d r E H. simpl in H. rewrite E in H. destruct (span is_digit s). injection H as <- <-. eauto. Qed.

Definition run_ok (d : bytes) : bool := negb (is_nil d) && forallb is_digit d.

Lemma run_ok_big : forall d, run_ok d = true -> is_some (big_of_string d) = true.
Proof.
  intros [|c r] H; [discriminate|]. unfold run_ok in H. simpl in H. apply andb_true_iff in H as [H1 H2].
  apply big_of_digits; assumption.
Qed.

Lemma num_runs_ok : forall fuel s runs td rest, num_runs fuel s = (runs, td, rest) -> forallb run_ok runs = true.
Proof.
  induction fuel; intros s runs td rest H; cbn [num_runs] in H; [injection H as <- <- <-; reflexivity|].
  destruct s as [|c s']; [injection H as <- <- <-; reflexivity|].
  destruct (is_digit c) eqn:E; [|injection H as <- <- <-; reflexivity].
  destruct (span is_digit (c :: s')) as [d r] eqn:S.
  assert (run_ok d = true) as RD.
  { destruct (span_digits_head c s' d r E S) as [d' ->]. unfold run_ok. rewrite (span_digits _ _ _ S). reflexivity. }
  destruct r as [|c' r'].
  - injection H as <- <- <-. simpl. rewrite RD. reflexivity.
  - destruct (c' =? 46)%N.
    + destruct r' as [|c'' r''].
      * injection H as <- <- <-. simpl. rewrite RD. reflexivity.
      * destruct (is_digit c'').
        -- destruct (num_runs fuel (c'' :: r'')) as [[ds td'] rest'] eqn:R. injection H as <- <- <-.
           simpl. rewrite RD. eapply IHfuel; exact R.
        -- injection H as <- <- <-. simpl. rewrite RD. reflexivity.
    + injection H as <- <- <-. simpl. rewrite RD. reflexivity.
Qed.

(* ------------------------------------------------------------------ what the parser builds *)
Definition comp_parsed (c : anc) : bool := negb (is_nil (an_original c)) && is_some (an_value c).
Definition alpine_parsed (v : alpine) : bool :=
  forallb comp_parsed (al_components v) && forallb (fun s => is_some (as_number s)) (al_suffixes v).

Lemma mk_comps_parsed : forall ds i, forallb run_ok ds = true -> forallb comp_parsed (mk_comps i ds) = true.
Proof.
  induction ds as [|d r IH]; intros i H; [reflexivity|]. simpl in H. apply andb_true_iff in H as [H1 H2].
  cbn [mk_comps forallb]. rewrite (IH _ H2). unfold comp_parsed. cbn [an_original an_value].
  rewrite (run_ok_big d H1). unfold run_ok in H1. apply andb_true_iff in H1 as [H1 _]. rewrite H1. reflexivity.
Qed.

Lemma digits_or_zero_big : forall ds, forallb is_digit ds = true -> is_some (big_of_string (if is_nil ds then [48%N] else ds)) = true.
Proof.
  intros [|c r] H; [reflexivity|]. simpl in H. apply andb_true_iff in H as [H1 H2]. cbn [is_nil]. apply big_of_digits; assumption.
Qed.

Lemma find_suffixes_digits : forall fuel s m, In m (find_suffixes fuel s) -> forallb is_digit (snd m) = true.
Proof.
  induction fuel; intros s m H; cbn [find_suffixes] in H; [contradiction|].
  destruct s as [|c r]; [contradiction|].
  destruct (c =? 95)%N; [|eapply IHfuel; exact H].
  destruct (first_prefix suffix_alternatives r) as [name|]; [|eapply IHfuel; exact H].
  destruct (span is_digit (drop_n (length name) r)) as [ds rest] eqn:S.
  destruct H as [<-|H]; [exact (span_digits _ _ _ S) | eapply IHfuel; exact H].
Qed.

Theorem parse_alpine_parsed : forall s v, parse_alpine s = Ok v -> alpine_parsed v = true.
Proof.
  intros s v. unfold parse_alpine.
  destruct (num_runs (S (length s)) s) as [[runs td] s1] eqn:NR.
  destruct td; [discriminate|].
  destruct (match s1 with c :: r => if is_lower c then ([c], r) else ([], s1) | [] => ([], s1) end) as [letter s2].
  set (found := find_suffixes (length s2) s2).
  set (s3 := fold_left _ found s2).
  destruct (match s3 with c :: r => _ | [] => ([], s3) end) as [hash s4].
  destruct (match s4 with [] => _ | c :: r => _ end) as [[invalid build] s5].
  intros H. injection H as <-. unfold alpine_parsed. cbn [al_components al_suffixes].
  rewrite (mk_comps_parsed runs 0%Z (num_runs_ok _ _ _ _ _ NR)). cbn [andb].
  apply forallb_forall. intros x Hx. apply in_map_iff in Hx as (m & <- & Hm). cbn [as_number].
  apply digits_or_zero_big. eapply find_suffixes_digits. exact Hm.
Qed.

Lemma parse_alpine_no_panic : forall s, parse_alpine s <> Panic.
Proof.
  intros s. unfold parse_alpine.
  destruct (num_runs (S (length s)) s) as [[runs td] s1]. destruct td; [discriminate|].
  destruct (match s1 with c :: r => if is_lower c then ([c], r) else ([], s1) | [] => ([], s1) end) as [letter s2].
  set (found := find_suffixes (length s2) s2). set (s3 := fold_left _ found s2).
  destruct (match s3 with c :: r => _ | [] => ([], s3) end) as [hash s4].
  destruct (match s4 with [] => _ | c :: r => _ end) as [[invalid build] s5]. discriminate.
Qed.

(* ------------------------------------------------------------------ no panic on parsed structures *)
Definition cgoodp (c : anc) : bool := comp_parsed c.

Lemma anc_cmp_no_panic : forall a b, cgoodp a = true -> cgoodp b = true -> anc_cmp a b <> Panic.
Proof.
  intros a b Ha Hb. unfold cgoodp, comp_parsed in *.
  apply andb_true_iff in Ha as [Oa Va]. apply andb_true_iff in Hb as [Ob Vb].
  unfold anc_cmp. destruct (an_value a), (an_value b); try discriminate.
  destruct (an_original a) as [|x r]; [discriminate|]. destruct (an_original b) as [|y t]; [discriminate|].
  destruct (_ && _); [|discriminate]. destruct (x =? 48)%N; [discriminate|]. destruct (y =? 48)%N; discriminate.
Qed.

Lemma asuffix_cmp_no_panic : forall a b, sgood a = true -> sgood b = true -> asuffix_cmp a b <> Panic.
Proof. intros a b Ha Hb. rewrite (asuffix_cmp_pure a b Ha Hb). discriminate. Qed.

Lemma cmp_alpine_no_panic : forall v w, alpine_parsed v = true -> alpine_parsed w = true -> cmp_alpine v w <> Panic.
Proof.
  intros v w Hv Hw. unfold alpine_parsed in *.
  apply andb_true_iff in Hv as [Cv Sv]. apply andb_true_iff in Hw as [Cw Sw].
  unfold cmp_alpine. destruct (al_invalid v && al_invalid w); [discriminate|].
  pose proof (lexnO_no_panic_on anc_pad anc_cmp cgoodp eq_refl anc_cmp_no_panic
                (Nat.max (length (al_components v)) (length (al_components w))) _ _ Cv Cw) as P1.
  pose proof (lexnO_no_panic_on asuffix_pad asuffix_cmp sgood eq_refl asuffix_cmp_no_panic
                (Nat.max (length (al_suffixes v)) (length (al_suffixes w))) _ _ Sv Sw) as P2.
  unfold al_comps_cmp, al_suffixes_cmp, lexpadO.
  destruct (lexnO anc_pad anc_cmp _ _ _) as [[]| |]; try discriminate; [|contradiction]. cbn [thenO].
  destruct (al_letter_cmp v w); try discriminate. cbn [thenO].
  destruct (lexnO asuffix_pad asuffix_cmp _ _ _) as [[]| |]; try discriminate. contradiction.
Qed.

Lemma parsed_wf : forall v, alpine_parsed v = true -> alpine_wf v = true.
Proof.
  intros v H. unfold alpine_parsed in H. apply andb_true_iff in H as [H _]. unfold alpine_wf.
  apply forallb_forall. intros c Hc. rewrite forallb_forall in H. specialize (H c Hc).
  unfold comp_parsed in H. apply andb_true_iff in H. tauto.
Qed.

(* ------------------------------------------------------------------ string level *)
Lemma alpine_str_total : forall a b, compare_str_alpine a b <> Panic.
Proof.
  intros a b. unfold compare_str_alpine.
  destruct (parse_alpine a) as [v| |] eqn:Ea; cbn [obind]; try discriminate; [|exact (False_ind _ (parse_alpine_no_panic a Ea))].
  destruct (parse_alpine b) as [w| |] eqn:Eb; cbn [obind]; try discriminate; [|exact (False_ind _ (parse_alpine_no_panic b Eb))].
  apply cmp_alpine_no_panic; eapply parse_alpine_parsed; eassumption.
Qed.

Lemma alpine_str_antisym : forall a b, compare_str_alpine b a = oppO (compare_str_alpine a b).
Proof.
  intros a b. unfold compare_str_alpine.
  destruct (parse_alpine a) as [v| |] eqn:Ea; destruct (parse_alpine b) as [w| |] eqn:Eb; cbn [obind oppO]; try reflexivity;
    try (exfalso; eapply parse_alpine_no_panic; eassumption).
  apply cmp_alpine_antisym; apply parsed_wf; eapply parse_alpine_parsed; eassumption.
Qed.

Lemma alpine_str_refl : forall a, compare_str_alpine a a = Ok Eq \/ compare_str_alpine a a = Err.
Proof.
  intros a. unfold compare_str_alpine. destruct (parse_alpine a) as [v| |] eqn:Ea; cbn [obind].
  - left. apply cmp_alpine_refl. apply parsed_wf. eapply parse_alpine_parsed; eassumption.
  - right. reflexivity.
  - exfalso. eapply parse_alpine_no_panic; eassumption.
Qed.

Definition valid_alpine_string (s : bytes) : bool := match parse_alpine s with Ok v => valid_alpine v | _ => false end.

Lemma alpine_str_laws_on_D : forall a b c,
  valid_alpine_string a = true -> valid_alpine_string b = true -> valid_alpine_string c = true ->
  (leO (compare_str_alpine a b) = true -> leO (compare_str_alpine b c) = true -> leO (compare_str_alpine a c) = true) /\
  (compare_str_alpine a b = Ok Eq -> compare_str_alpine a c = compare_str_alpine b c).
Proof.
  intros a b c. unfold valid_alpine_string, compare_str_alpine.
  destruct (parse_alpine a) as [u| |]; try discriminate.
  destruct (parse_alpine b) as [v| |]; try discriminate.
  destruct (parse_alpine c) as [w| |]; try discriminate. cbn [obind]. intros Hu Hv Hw.
  split; [apply (proj1 cmp_alpine_laws_on_valid) | apply (proj2 cmp_alpine_laws_on_valid)]; assumption.
Qed.

From Coq Require Import List ZArith NArith Bool.
From Scalibr Require Import Semantic.Cmp Semantic.LexPad Semantic.Bytes Semantic.Semver Semantic.SemverProofs Semantic.Nuget.
Import ListNotations.

(* the NuGet comparison is the semver comparison of the structures with lower-cased Build *)
Definition lower_build (v : semver) : semver :=
  {| sv_leading_v := sv_leading_v v; sv_comps := sv_comps v; sv_build := to_lower (sv_build v); sv_original := sv_original v |}.

Lemma cmp_nuget_as_semver : forall v w, cmp_nuget v w = cmp_semver (lower_build v) (lower_build w).
Proof. reflexivity. Qed.

Lemma cmp_nuget_antisym : forall v w, cmp_nuget w v = oppO (cmp_nuget v w).
Proof. intros. rewrite !cmp_nuget_as_semver. apply cmp_semver_antisym. Qed.

Lemma cmp_nuget_refl : forall v, cmp_nuget v v = Ok Eq.
Proof. intros. rewrite cmp_nuget_as_semver. apply cmp_semver_refl. Qed.

Lemma cmp_nuget_laws_on_valid :
  trans_law_on valid_nuget cmp_nuget /\ eq_equiv_law_on valid_nuget cmp_nuget.
Proof.
  destruct cmp_semver_laws_on_valid as [T Q]. split.
  - intros x y z vx vy vz. rewrite !cmp_nuget_as_semver. apply T; assumption.
  - intros x y z vx vy vz. rewrite !cmp_nuget_as_semver. apply Q; assumption.
Qed.

Lemma parse_nuget_valid : forall s, valid_nuget (parse_semver_like_version s 4) = true.
Proof. intros. apply parse_semver_like_version_valid. Qed.

Lemma nuget_total_lemma : forall a b, exists c, compare_str_nuget a b = Ok c.
Proof.
  intros a b. unfold compare_str_nuget, parse_nuget. simpl. rewrite cmp_nuget_as_semver.
  rewrite cmp_semver_on_valid by apply parse_nuget_valid. eexists; reflexivity.
Qed.

Lemma nuget_str_antisym_lemma : forall a b, compare_str_nuget b a = oppO (compare_str_nuget a b).
Proof. intros. unfold compare_str_nuget, parse_nuget. simpl. apply cmp_nuget_antisym. Qed.

Lemma nuget_str_refl_lemma : forall a, compare_str_nuget a a = Ok Eq.
Proof. intros. unfold compare_str_nuget, parse_nuget. simpl. apply cmp_nuget_refl. Qed.

Lemma nuget_str_trans_lemma : forall a b c,
  leO (compare_str_nuget a b) = true -> leO (compare_str_nuget b c) = true -> leO (compare_str_nuget a c) = true.
Proof.
  intros a b c. unfold compare_str_nuget, parse_nuget. simpl.
  apply (proj1 cmp_nuget_laws_on_valid); apply parse_nuget_valid.
Qed.

Lemma nuget_str_eq_equiv_lemma : forall a b c,
  compare_str_nuget a b = Ok Eq -> compare_str_nuget a c = compare_str_nuget b c.
Proof.
  intros a b c. unfold compare_str_nuget, parse_nuget. simpl.
  apply (proj2 cmp_nuget_laws_on_valid); apply parse_nuget_valid.
Qed.

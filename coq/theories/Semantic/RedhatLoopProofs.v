(* compareRedHatComponents: the Go loop written out literally (Redhat.rh_loop) computes the same
   function as the tokenise-then-compare form (Redhat.rh_component_cmp) the order theorems are about. *)
From Coq Require Import List ZArith NArith Bool Lia Arith.
From Scalibr Require Import Semantic.Cmp Semantic.LexPad Semantic.Bytes Semantic.Redhat Semantic.RedhatProofs.
Import ListNotations.
Open Scope N_scope.

(* ================================================================== digit runs: strip zeros / length / strcmp = numeric order *)
Definition P10 (s : bytes) : N := 10 ^ N.of_nat (length s).

Lemma P10_cons : forall c s, P10 (c :: s) = 10 * P10 s.
Proof. intros. unfold P10. cbn [length]. rewrite Nat2N.inj_succ, N.pow_succ_r'. reflexivity. Qed.

Lemma P10_pos : forall s, 0 < P10 s.
Proof. intros. unfold P10. apply N.neq_0_lt_0. apply N.pow_nonzero. discriminate. Qed.

Lemma digits_val_acc : forall s acc, digits_val s acc = acc * P10 s + digits_val s 0.
Proof.
  induction s as [|c s IH]; intros acc; cbn [digits_val].
  - unfold P10. simpl. lia.
  - rewrite (IH (acc * 10 + (c - 48))), (IH (0 * 10 + (c - 48))), P10_cons. lia.
Qed.

Lemma digit_range : forall c, is_digit c = true -> c - 48 <= 9.
Proof. intros c H. unfold is_digit in H. apply andb_true_iff in H as [H1 H2]. apply N.leb_le in H1, H2. lia. Qed.

Lemma digits_val_bound : forall s, forallb is_digit s = true -> digits_val s 0 < P10 s.
Proof.
  induction s as [|c s IH]; intros H.
  - unfold P10. simpl. lia.
  - simpl in H. apply andb_true_iff in H as [Hc Hs]. cbn [digits_val]. rewrite digits_val_acc, P10_cons.
    pose proof (IH Hs). pose proof (digit_range c Hc). nia.
Qed.

Lemma strip0_val : forall s, digits_val (strip0 s) 0 = digits_val s 0.
Proof.
  induction s as [|c s IH]; [reflexivity|]. unfold strip0 in *. cbn [drop_while].
  destruct (N.eqb_spec c 48); [|reflexivity]. subst. rewrite IH. reflexivity.
Qed.

Lemma strip0_digits : forall s, forallb is_digit s = true -> forallb is_digit (strip0 s) = true.
Proof.
  induction s as [|c s IH]; intros H; [reflexivity|]. unfold strip0 in *. cbn [drop_while].
  simpl in H. apply andb_true_iff in H as [Hc Hs]. destruct (c =? 48); [apply IH; exact Hs|]. simpl. rewrite Hc, Hs. reflexivity.
Qed.

Definition no_lead0 (s : bytes) : Prop := match s with c :: _ => c <> 48 | [] => True end.

Lemma strip0_no_lead0 : forall s, no_lead0 (strip0 s).
Proof.
  induction s as [|c s IH]; [exact I|]. unfold strip0 in *. cbn [drop_while].
  destruct (N.eqb_spec c 48); [exact IH | exact n].
Qed.

(* a non-empty digit string without leading zero is at least 10^(length-1) *)
Lemma canon_lower : forall c s, is_digit c = true -> c <> 48 -> forallb is_digit s = true -> P10 s <= digits_val (c :: s) 0.
Proof.
  intros c s Hc Nc Hs. cbn [digits_val]. rewrite digits_val_acc.
  unfold is_digit in Hc. apply andb_true_iff in Hc as [H1 _]. apply N.leb_le in H1.
  assert (1 <= 0 * 10 + (c - 48)) by lia. pose proof (P10_pos s). nia.
Qed.

Lemma same_length_cmp : forall x y, length x = length y -> forallb is_digit x = true -> forallb is_digit y = true ->
  bytes_cmp x y = N.compare (digits_val x 0) (digits_val y 0).
Proof.
  induction x as [|c x IH]; intros [|d y] L Hx Hy; try discriminate; [reflexivity|].
  simpl in L. injection L as L. simpl in Hx, Hy.
  apply andb_true_iff in Hx as [Hc Hx]. apply andb_true_iff in Hy as [Hd Hy].
  unfold bytes_cmp in *. cbn [shortlex digits_val]. rewrite (digits_val_acc x), (digits_val_acc y).
  assert (P10 x = P10 y) as EP by (unfold P10; rewrite L; reflexivity).
  pose proof (digits_val_bound x Hx) as Bx. pose proof (digits_val_bound y Hy) as By. rewrite EP in *.
  assert (48 <= c /\ 48 <= d) as [Gc Gd].
  { unfold is_digit in Hc, Hd. apply andb_true_iff in Hc as [Hc _]. apply andb_true_iff in Hd as [Hd _]. apply N.leb_le in Hc, Hd. lia. }
  destruct (N.compare_spec c d) as [E|E|E].
  - subst d. rewrite (IH y L Hx Hy).
    destruct (N.compare_spec (digits_val x 0) (digits_val y 0)) as [F|F|F]; symmetry;
      [apply N.compare_eq_iff | apply N.compare_lt_iff | apply N.compare_gt_iff]; nia.
  - symmetry. apply N.compare_lt_iff. nia.
  - symmetry. apply N.compare_gt_iff. nia.
Qed.

Lemma shorter_is_smaller : forall x y, no_lead0 y -> forallb is_digit x = true -> forallb is_digit y = true ->
  (length x < length y)%nat -> digits_val x 0 < digits_val y 0.
Proof.
  intros x [|d y] NL Hx Hy L; [simpl in L; lia|].
  simpl in Hy. apply andb_true_iff in Hy as [Hd Hy]. simpl in NL.
  pose proof (canon_lower d y Hd NL Hy) as Lo. pose proof (digits_val_bound x Hx) as Up.
  assert (P10 x <= P10 y) as M.
  { unfold P10. apply N.pow_le_mono_r; [discriminate|]. simpl in L. lia. }
  lia.
Qed.

Theorem rh_num_cmp_numeric : forall x y, forallb is_digit x = true -> forallb is_digit y = true ->
  rh_num_cmp x y = N.compare (digits_val x 0) (digits_val y 0).
Proof.
  intros x y Hx Hy. unfold rh_num_cmp.
  rewrite <- (strip0_val x), <- (strip0_val y).
  pose proof (strip0_digits x Hx) as Dx. pose proof (strip0_digits y Hy) as Dy.
  pose proof (strip0_no_lead0 x) as Nx. pose proof (strip0_no_lead0 y) as Ny.
  destruct (Nat.compare_spec (length (strip0 x)) (length (strip0 y))) as [E|E|E].
  - apply same_length_cmp; assumption.
  - symmetry. apply N.compare_lt_iff. apply shorter_is_smaller; assumption.
  - symmetry. apply N.compare_gt_iff. apply shorter_is_smaller; assumption.
Qed.

(* ================================================================== the tokeniser, run by run *)
Lemma letter_not_digit : forall c, is_letter c = true -> is_digit c = false.
Proof.
  intros c H. unfold is_letter, is_upper, is_lower, is_digit in *.
  apply orb_true_iff in H as [H|H]; apply andb_true_iff in H as [H1 H2]; apply N.leb_le in H1, H2;
    apply andb_false_iff; right; apply N.leb_gt; lia.
Qed.

Lemma classify_digit : forall c, is_digit c = true -> classify c = CDigit.
Proof. intros c H. unfold classify. rewrite H. reflexivity. Qed.

Lemma classify_letter : forall c, is_letter c = true -> classify c = CLetter.
Proof. intros c H. unfold classify. rewrite (letter_not_digit c H), H. reflexivity. Qed.

Lemma classify_trim : forall c, rh_trim c = true -> classify c = CSep.
Proof.
  intros c H. unfold rh_trim in H. repeat (apply andb_true_iff in H as [H ?]).
  unfold classify. apply negb_true_iff in H, H0, H1, H2. rewrite H0, H, H1, H2. reflexivity.
Qed.

Lemma digit_not_special : forall c, is_digit c = true -> (c =? 126) = false /\ (c =? 94) = false /\ rh_trim c = false.
Proof.
  intros c H. unfold rh_trim. rewrite H. unfold is_digit in H. apply andb_true_iff in H as [H1 H2]. apply N.leb_le in H1, H2.
  repeat split; try (apply N.eqb_neq; lia). rewrite andb_false_r. reflexivity.
Qed.

Lemma letter_not_special : forall c, is_letter c = true -> (c =? 126) = false /\ (c =? 94) = false /\ rh_trim c = false.
Proof.
  intros c H. unfold rh_trim. rewrite H. split; [|split; [|reflexivity]];
    unfold is_letter, is_upper, is_lower in H; apply orb_true_iff in H as [H|H]; apply andb_true_iff in H as [H1 H2];
    apply N.leb_le in H1, H2; apply N.eqb_neq; lia.
Qed.

(* a byte that does not continue the current run closes it *)
Lemma scan_flush : forall c r cur,
  match classify c, cur with CDigit, Some (true, _) => False | CLetter, Some (false, _) => False | _, _ => True end ->
  rh_scan (c :: r) cur = rflush cur ++ rh_scan (c :: r) None.
Proof. intros c r cur H. cbn [rh_scan]. destruct (classify c); destruct cur as [[[|] acc]|]; try contradiction; reflexivity. Qed.

Lemma scan_digits : forall s acc, rh_scan s (Some (true, acc)) =
  RNum (digits_val (rev acc ++ fst (span is_digit s)) 0) :: rh_scan (snd (span is_digit s)) None.
Proof.
  induction s as [|c r IH]; intros acc.
  - simpl. rewrite app_nil_r. reflexivity.
  - cbn [span]. destruct (is_digit c) eqn:E.
    + cbn [rh_scan]. rewrite (classify_digit c E). rewrite IH. destruct (span is_digit r) as [d rest]. cbn [fst snd rev].
      rewrite <- app_assoc. reflexivity.
    + rewrite scan_flush; [cbn [fst snd rflush app]; rewrite app_nil_r; reflexivity|].
      unfold classify. rewrite E. destruct (is_letter c); [exact I|]. destruct (c =? 126); [exact I|]. destruct (c =? 94); exact I.
Qed.

Lemma scan_letters : forall s acc, rh_scan s (Some (false, acc)) =
  RAlpha (rev acc ++ fst (span is_letter s)) :: rh_scan (snd (span is_letter s)) None.
Proof.
  induction s as [|c r IH]; intros acc.
  - simpl. rewrite app_nil_r. reflexivity.
  - cbn [span]. destruct (is_letter c) eqn:E.
    + cbn [rh_scan]. rewrite (classify_letter c E). rewrite IH. destruct (span is_letter r) as [d rest]. cbn [fst snd rev].
      rewrite <- app_assoc. reflexivity.
    + rewrite scan_flush; [cbn [fst snd rflush app]; rewrite app_nil_r; reflexivity|].
      unfold classify. destruct (is_digit c); [exact I|]. rewrite E. destruct (c =? 126); [exact I|]. destruct (c =? 94); exact I.
Qed.

Lemma tokens_trim : forall s, rh_tokens (drop_while rh_trim s) = rh_tokens s.
Proof.
  induction s as [|c r IH]; [reflexivity|]. cbn [drop_while]. destruct (rh_trim c) eqn:E; [|reflexivity].
  rewrite IH. unfold rh_tokens. cbn [rh_scan]. rewrite (classify_trim c E). reflexivity.
Qed.

Lemma tokens_tilde : forall r, rh_tokens (126 :: r) = RTilde :: rh_tokens r. Proof. reflexivity. Qed.
Lemma tokens_caret : forall r, rh_tokens (94 :: r) = RCaret :: rh_tokens r. Proof. reflexivity. Qed.

Lemma tokens_digit_run : forall c r, is_digit c = true ->
  rh_tokens (c :: r) = RNum (digits_val (fst (span is_digit (c :: r))) 0) :: rh_tokens (snd (span is_digit (c :: r))).
Proof.
  intros c r E. unfold rh_tokens. cbn [rh_scan]. rewrite (classify_digit c E). cbn [rflush app].
  rewrite scan_digits. cbn [span]. rewrite E. destruct (span is_digit r). reflexivity.
Qed.

Lemma tokens_letter_run : forall c r, is_letter c = true ->
  rh_tokens (c :: r) = RAlpha (fst (span is_letter (c :: r))) :: rh_tokens (snd (span is_letter (c :: r))).
Proof.
  intros c r E. unfold rh_tokens. cbn [rh_scan]. rewrite (classify_letter c E). cbn [rflush app].
  rewrite scan_letters. cbn [span]. rewrite E. destruct (span is_letter r). reflexivity.
Qed.

(* what a trimmed string starts with *)
Inductive head_view (s : bytes) : Prop :=
| HV_end : s = [] -> head_view s
| HV_tilde : forall r, s = 126 :: r -> head_view s
| HV_caret : forall r, s = 94 :: r -> head_view s
| HV_digit : forall c r, s = c :: r -> is_digit c = true -> head_view s
| HV_letter : forall c r, s = c :: r -> is_letter c = true -> head_view s.

Lemma drop_while_head {A} (f : A -> bool) : forall l x r, drop_while f l = x :: r -> f x = false.
Proof.
  induction l as [|y l IH]; intros x r H; [discriminate|]. cbn [drop_while] in H.
  destruct (f y) eqn:E; [eapply IH; exact H | injection H as <- <-; exact E].
Qed.

Lemma trimmed_view : forall s, head_view (drop_while rh_trim s).
Proof.
  intros s. destruct (drop_while rh_trim s) as [|c r] eqn:D; [apply HV_end; reflexivity|].
  pose proof (drop_while_head _ _ _ _ D) as T. unfold rh_trim in T.
  destruct (is_letter c) eqn:L; [eapply HV_letter; [reflexivity | exact L]|].
  destruct (is_digit c) eqn:G; [eapply HV_digit; [reflexivity | exact G]|].
  destruct (N.eqb_spec c 126); [subst; eapply HV_tilde; reflexivity|].
  destruct (N.eqb_spec c 94); [subst; eapply HV_caret; reflexivity|]. discriminate.
Qed.

Lemma span_shrinks {A} (f : A -> bool) : forall l, (length (snd (span f l)) <= length l)%nat.
Proof. induction l as [|x l IH]; simpl; [lia|]. destruct (f x); [destruct (span f l); simpl in *; lia | simpl; lia]. Qed.

Lemma span_head_shrinks {A} (f : A -> bool) : forall x l, f x = true -> (length (snd (span f (x :: l))) < length (x :: l))%nat.
Proof. intros x l H. cbn [span]. rewrite H. pose proof (span_shrinks f l). destruct (span f l). simpl in *. lia. Qed.

Lemma drop_while_shrinks {A} (f : A -> bool) : forall l, (length (drop_while f l) <= length l)%nat.
Proof. induction l as [|x l IH]; simpl; [lia|]. destruct (f x); simpl; lia. Qed.

Lemma span_fst_nonempty {A} (f : A -> bool) : forall x l, f x = true -> is_nil (fst (span f (x :: l))) = false.
Proof. intros x l H. cbn [span]. rewrite H. destruct (span f l). reflexivity. Qed.

Lemma span_fst_all {A} (f : A -> bool) : forall l, forallb f (fst (span f l)) = true.
Proof. induction l as [|x l IH]; [reflexivity|]. cbn [span]. destruct (f x) eqn:E; [|reflexivity]. destruct (span f l). simpl in *. rewrite E, IH. reflexivity. Qed.

Lemma span_other_empty : forall (f g : N -> bool) x l, g x = false -> is_nil (fst (span g (x :: l))) = true.
Proof. intros f g x l H. cbn [span]. rewrite H. reflexivity. Qed.

(* ================================================================== the loop = padded comparison of the token lists *)
Lemma rtok_cmp_thenc : forall t1 t2 (l1 l2 : list rtok),
  lexpad REnd rtok_cmp (t1 :: l1) (t2 :: l2) = thenc (rtok_cmp t1 t2) (lexpad REnd rtok_cmp l1 l2).
Proof. intros. apply lexpad_cons_cons. Qed.

Ltac hd_facts :=
  repeat match goal with
         | H : is_digit ?c = true |- _ =>
           lazymatch goal with
           | _ : (c =? 126) = false |- _ => fail
           | _ => let A := fresh in let B := fresh in let C := fresh in
                  destruct (digit_not_special c H) as (A & B & C)
           end
         | H : is_letter ?c = true |- _ =>
           lazymatch goal with
           | _ : (c =? 126) = false |- _ => fail
           | _ => let A := fresh in let B := fresh in let C := fresh in
                  destruct (letter_not_special c H) as (A & B & C)
           end
         end.

Theorem rh_loop_equiv : forall f a b, (length a + length b < f)%nat ->
  rh_loop f a b = lexpad REnd rtok_cmp (rh_tokens a) (rh_tokens b).
Proof.
  induction f as [|f IH]; intros a b L; [lia|].
  cbn [rh_loop]. rewrite <- (tokens_trim a), <- (tokens_trim b).
  pose proof (drop_while_shrinks rh_trim a) as La. pose proof (drop_while_shrinks rh_trim b) as Lb.
  pose proof (trimmed_view a) as Va. pose proof (trimmed_view b) as Vb.
  remember (drop_while rh_trim a) as a' eqn:Ea. remember (drop_while rh_trim b) as b' eqn:Eb. clear Ea Eb.
  destruct Va as [E1|r1 E1|r1 E1|c1 r1 E1 D1|c1 r1 E1 D1]; subst a';
  destruct Vb as [E2|r2 E2|r2 E2|c2 r2 E2 D2|c2 r2 E2 D2]; subst b'; hd_facts;
  (* the token lists *)
  repeat rewrite tokens_tilde; repeat rewrite tokens_caret;
  try rewrite (tokens_digit_run c1 r1) by assumption; try rewrite (tokens_letter_run c1 r1) by assumption;
  try rewrite (tokens_digit_run c2 r2) by assumption; try rewrite (tokens_letter_run c2 r2) by assumption;
  change (rh_tokens []) with (@nil rtok);
  try rewrite rtok_cmp_thenc; try rewrite lexpad_nil_cons; try rewrite lexpad_cons_nil;
  (* the tests of the loop *)
  cbn [head_is tl is_nil hd andb orb];
  repeat match goal with H : (_ =? _) = false |- _ => rewrite H end;
  change (126 =? 126) with true; change (94 =? 94) with true; change (126 =? 94) with false; change (94 =? 126) with false;
  cbn [andb orb negb];
  try reflexivity.
  (* remaining: recursive cases and run comparisons *)
  all: try (apply IH; simpl in *; lia).
  all: try (rewrite (IH r1 r2) by (simpl in *; lia); reflexivity).
  - (* digit run against digit run *)
    rewrite D1.
    pose proof (span_fst_nonempty is_digit c2 r2 D2) as NE.
    pose proof (span_fst_all is_digit (c1 :: r1)) as A1. pose proof (span_fst_all is_digit (c2 :: r2)) as A2.
    pose proof (span_head_shrinks is_digit c1 r1 D1) as S1. pose proof (span_head_shrinks is_digit c2 r2 D2) as S2.
    destruct (span is_digit (c1 :: r1)) as [xs ra]. destruct (span is_digit (c2 :: r2)) as [ys rb]. cbn [fst snd] in *.
    rewrite NE, (rh_num_cmp_numeric xs ys A1 A2). cbn [rtok_cmp].
    destruct (digits_val xs 0 ?= digits_val ys 0); cbn [thenc]; try reflexivity.
    apply IH. simpl in *. lia.
  - (* digit run against letter run *)
    rewrite D1. assert (is_digit c2 = false) as ND by (apply letter_not_digit; exact D2).
    cbn [span]. rewrite ND, D1. destruct (span is_digit r1). reflexivity.
  - (* letter run against digit run *)
    assert (is_digit c1 = false) as ND by (apply letter_not_digit; exact D1). rewrite ND.
    assert (is_letter c2 = false) as NL.
    { destruct (is_letter c2) eqn:E; [|reflexivity]. rewrite (letter_not_digit c2 E) in D2. discriminate. }
    cbn [span]. rewrite NL, D1. destruct (span is_letter r1). reflexivity.
  - (* letter run against letter run *)
    assert (is_digit c1 = false) as ND by (apply letter_not_digit; exact D1). rewrite ND.
    pose proof (span_fst_nonempty is_letter c2 r2 D2) as NE.
    pose proof (span_head_shrinks is_letter c1 r1 D1) as S1. pose proof (span_head_shrinks is_letter c2 r2 D2) as S2.
    destruct (span is_letter (c1 :: r1)) as [xs ra]. destruct (span is_letter (c2 :: r2)) as [ys rb]. cbn [fst snd] in *.
    rewrite NE. cbn [rtok_cmp].
    destruct (bytes_cmp xs ys); cbn [thenc]; try reflexivity.
    apply IH. simpl in *. lia.
Qed.

Theorem rh_loop_component_equiv : forall a b, rh_loop_component_cmp a b = rh_component_cmp a b.
Proof.
  intros a b. unfold rh_loop_component_cmp, rh_component_cmp.
  destruct a as [|x a], b as [|y b]; try reflexivity; apply rh_loop_equiv; lia.
Qed.

(* Model of semantic/version-redhat.go (rpmvercmp). No proofs here.
   compareRedHatComponents walks both strings with two indices.  Each side is consumed
   independently of the other: separators (anything but [A-Za-z0-9~^]) are skipped, then one
   "token" is taken: '~', '^', a maximal digit run or a maximal letter run.  The model tokenises
   each string and compares the token lists with padding by an END token; the rank
   ~ < END < ^ < letters < digits reproduces every early return of the Go loop.  The correspondence
   checks this equivalence on every run. *)
From Coq Require Import List ZArith NArith Bool.
From Scalibr Require Import Semantic.Cmp Semantic.LexPad Semantic.Bytes.
Import ListNotations.
Open Scope N_scope.

(* type redHatVersion struct { epoch, version, release string } *)
Record redhat := { rh_epoch : bytes; rh_version : bytes; rh_release : bytes }.

Inductive rtok :=
| RTilde | REnd | RCaret
| RAlpha (s : bytes)
| RNum (n : N).          (* digit run; leading zeros stripped then length/strcmp = numeric value *)

Inductive rclass := CDigit | CLetter | CTilde | CCaret | CSep.
Definition classify (c : N) : rclass :=
  if is_digit c then CDigit else if is_letter c then CLetter
  else if c =? 126 then CTilde else if c =? 94 then CCaret else CSep.

(* cur: the run being read, reversed: (is_digit_run, bytes) *)
Definition rflush (cur : option (bool * bytes)) : list rtok :=
  match cur with
  | None => []
  | Some (true, acc) => [RNum (digits_val (rev acc) 0)]
  | Some (false, acc) => [RAlpha (rev acc)]
  end.

Fixpoint rh_scan (s : bytes) (cur : option (bool * bytes)) : list rtok :=
  match s with
  | [] => rflush cur
  | c :: r =>
    match classify c, cur with
    | CDigit, Some (true, acc) => rh_scan r (Some (true, c :: acc))
    | CLetter, Some (false, acc) => rh_scan r (Some (false, c :: acc))
    | CDigit, _ => rflush cur ++ rh_scan r (Some (true, [c]))
    | CLetter, _ => rflush cur ++ rh_scan r (Some (false, [c]))
    | CTilde, _ => rflush cur ++ RTilde :: rh_scan r None
    | CCaret, _ => rflush cur ++ RCaret :: rh_scan r None
    | CSep, _ => rflush cur ++ rh_scan r None
    end
  end.

Definition rh_tokens (s : bytes) : list rtok := rh_scan s None.

Definition rrank (t : rtok) : nat :=
  match t with RTilde => 0 | REnd => 1 | RCaret => 2 | RAlpha _ => 3 | RNum _ => 4 end.

Definition rtok_cmp (a b : rtok) : comparison :=
  match a, b with
  | RAlpha x, RAlpha y => bytes_cmp x y
  | RNum x, RNum y => N.compare x y
  | _, _ => Nat.compare (rrank a) (rrank b)
  end.

(* compareRedHatComponents *)
Definition rh_component_cmp (a b : bytes) : comparison :=
  match a, b with
  | [], _ :: _ => Lt
  | _ :: _, [] => Gt
  | _, _ => lexpad REnd rtok_cmp (rh_tokens a) (rh_tokens b)
  end.

(* redHatVersion.compare *)
Definition cmp_redhat_pure (v w : redhat) : comparison :=
  thenc (rh_component_cmp (rh_epoch v) (rh_epoch w))
        (thenc (rh_component_cmp (rh_version v) (rh_version w))
               (rh_component_cmp (rh_release v) (rh_release w))).
Definition cmp_redhat (v w : redhat) : outcome comparison := Ok (cmp_redhat_pure v w).

(* parseRedHatVersion *)
Definition parse_redhat (s : bytes) : outcome redhat :=
  let '(bf0, af0, has_colon) := cut_on 58 s in
  let (bf, af) := if has_colon then (bf0, af0) else (af0, bf0) in
  let '(name, ep, has_name) := cut_on 45 bf in
  let ep := if has_name then ep else name in
  let '(ver, rel, has_rel) := cut_on 45 af in
  let rel := if has_rel then 45 :: rel else rel in
  let ep := if is_nil ep then [48] else ep in
  Ok {| rh_epoch := ep; rh_version := ver; rh_release := rel |}.

Definition compare_str_redhat (a b : bytes) : outcome comparison :=
  obind (parse_redhat a) (fun v => obind (parse_redhat b) (fun w => cmp_redhat v w)).

Definition valid_redhat (v : redhat) : bool := true.

Definition redhat_eqb (v w : redhat) : bool :=
  bytes_eqb (rh_epoch v) (rh_epoch w) && bytes_eqb (rh_version v) (rh_version w) && bytes_eqb (rh_release v) (rh_release w).

(* ------------------------------------------------------------------ the Go loop of compareRedHatComponents, literally *)
(* [a] and [b] are the not yet consumed parts a[ai:] and b[bi:].  RedhatLoopProofs.v proves that this
   equals the tokenise-then-compare form used above. *)
Definition rh_trim (c : N) : bool := negb (is_letter c) && negb (is_digit c) && negb (c =? 126) && negb (c =? 94).  (* shouldBeTrimmed *)
Definition head_is (k : N) (s : bytes) : bool := match s with c :: _ => c =? k | [] => false end.
Definition strip0 (s : bytes) : bytes := drop_while (fun c => c =? 48) s.       (* strings.TrimLeft(s, "0") *)

(* steps 9 and 10 for two digit runs: discard leading zeros, the longer one wins, then strcmp *)
Definition rh_num_cmp (x y : bytes) : comparison :=
  let x := strip0 x in let y := strip0 y in
  match Nat.compare (length x) (length y) with
  | Eq => bytes_cmp x y
  | c => c
  end.

Fixpoint rh_loop (fuel : nat) (a b : bytes) : comparison :=
  match fuel with
  | O => Eq
  | S f =>
    let a := drop_while rh_trim a in                                  (* 1. trim *)
    let b := drop_while rh_trim b in
    if head_is 126 a && head_is 126 b then rh_loop f (tl a) (tl b)    (* 2. both tilde *)
    else if head_is 126 a then Lt                                      (* 3. *)
    else if head_is 126 b then Gt
    else if head_is 94 a && head_is 94 b then rh_loop f (tl a) (tl b)  (* 4. both caret *)
    else if head_is 94 a then (if is_nil b then Gt else Lt)            (* 5. *)
    else if head_is 94 b then (if is_nil a then Lt else Gt)
    else if is_nil a || is_nil b then Nat.compare (length a) (length b)   (* 6. + the comparison of what is left *)
    else
      let isd := is_digit (hd 0 a) in                                  (* 7. *)
      let ty := if isd then is_digit else is_letter in
      let (xs, ra) := span ty a in
      let (ys, rb) := span ty b in
      if is_nil ys then (if isd then Gt else Lt)                       (* 8. *)
      else match (if isd then rh_num_cmp xs ys else bytes_cmp xs ys) with   (* 9. 10. *)
           | Eq => rh_loop f ra rb
           | c => c
           end
  end.

Definition rh_loop_component_cmp (a b : bytes) : comparison :=
  match a, b with
  | [], _ :: _ => Lt
  | _ :: _, [] => Gt
  | _, _ => rh_loop (S (length a + length b)) a b
  end.

From Coq Require Import List ZArith NArith Bool Lia Arith.
From Scalibr Require Import Semantic.Cmp Semantic.LexPad Semantic.Bytes Semantic.Packagist.
Import ListNotations.

(* ------------------------------------------------------------------ all structures: antisymmetry, reflexivity *)
Lemma pk_elem_cmp_antisym : forall x y, pk_elem_cmp y x = CompOpp (pk_elem_cmp x y).
Proof.
  intros x y. unfold pk_elem_cmp. destruct (big_of_string x), (big_of_string y);
    first [apply Z.compare_antisym | apply Nat.compare_antisym].
Qed.

Lemma pk_elem_cmp_refl : forall x, pk_elem_cmp x x = Eq.
Proof. intros x. unfold pk_elem_cmp. destruct (big_of_string x); [apply Z.compare_refl | apply Nat.compare_refl]. Qed.

Lemma pk_cmp_antisym : forall a b, pk_cmp b a = CompOpp (pk_cmp a b).
Proof.
  induction a as [|x a IH]; destruct b as [|y b]; simpl; try reflexivity.
  - change (pk_tail_cmp (y :: b) = CompOpp (CompOpp (pk_tail_cmp (y :: b)))).
    destruct (pk_tail_cmp (y :: b)); reflexivity.
  - rewrite (pk_elem_cmp_antisym x y). destruct (pk_elem_cmp x y); simpl; try reflexivity. apply IH.
Qed.

Lemma pk_cmp_refl : forall a, pk_cmp a a = Eq.
Proof. induction a; simpl; [reflexivity|]. rewrite pk_elem_cmp_refl. exact IHa. Qed.

Lemma cmp_packagist_antisym : forall v w, cmp_packagist w v = oppO (cmp_packagist v w).
Proof. intros. unfold cmp_packagist. simpl. rewrite pk_cmp_antisym. reflexivity. Qed.

Lemma cmp_packagist_refl : forall v, cmp_packagist v v = Ok Eq.
Proof. intros. unfold cmp_packagist. rewrite pk_cmp_refl. reflexivity. Qed.

(* ------------------------------------------------------------------ on valid components: a padded lexicographic order of keys *)
(* key: numbers are (4, Some value), qualifiers (weight, None); the padding is (4, None) *)
Definition pk_key (x : bytes) : nat * option Z :=
  match big_of_string x with Some z => (hash_weight, Some z) | None => (pk_weight x, None) end.
Definition pk_pad : nat * option Z := (hash_weight, None).

Definition optz_low_cmp (a b : option Z) : comparison :=
  match a, b with
  | None, None => Eq | None, Some _ => Lt | Some _, None => Gt
  | Some x, Some y => Z.compare x y
  end.

Lemma optz_low_cmp_tp : TotalPreorder optz_low_cmp.
Proof.
  apply TotalPreorder_intro.
  - intros [x|]; simpl; [apply Z.compare_refl | reflexivity].
  - intros [x|] [y|]; simpl; try reflexivity. apply Z.compare_antisym.
  - intros [x|] [y|] [z|]; simpl; intros H; try discriminate; try reflexivity.
    apply Z.compare_eq in H. subst. reflexivity.
  - intros [x|] [y|] [z|]; simpl; intros H1 H2; try discriminate; try reflexivity.
    rewrite Z.compare_lt_iff in *. lia.
Qed.

Definition pk_key_cmp : nat * option Z -> nat * option Z -> comparison := lexprod Nat.compare optz_low_cmp.

Lemma pk_key_cmp_tp : TotalPreorder pk_key_cmp.
Proof. apply lexprod_tp; [apply Natcompare_tp | apply optz_low_cmp_tp]. Qed.

Lemma pk_elem_cmp_as_key : forall x y, pk_comp_ok x = true -> pk_comp_ok y = true ->
  pk_elem_cmp x y = pk_key_cmp (pk_key x) (pk_key y).
Proof.
  intros x y Hx Hy. unfold pk_elem_cmp, pk_key_cmp, pk_key, lexprod, pk_comp_ok in *.
  destruct (big_of_string x), (big_of_string y); cbn [fst snd thenc optz_low_cmp].
  - rewrite Nat.compare_refl. reflexivity.
  - apply negb_true_iff, Nat.eqb_neq in Hy.
    destruct (Nat.compare hash_weight (pk_weight y)) eqn:E; try reflexivity.
    apply Nat.compare_eq in E. congruence.
  - apply negb_true_iff, Nat.eqb_neq in Hx.
    destruct (Nat.compare (pk_weight x) hash_weight) eqn:E; try reflexivity.
    apply Nat.compare_eq in E. congruence.
  - destruct (Nat.compare (pk_weight x) (pk_weight y)); reflexivity.
Qed.

(* a valid component never ties with the padding *)
Lemma pk_tail_cmp_valid : forall x r, pk_comp_ok x = true ->
  pk_tail_cmp (x :: r) = pk_key_cmp (pk_key x) pk_pad /\ pk_key_cmp (pk_key x) pk_pad <> Eq.
Proof.
  intros x r Hx. unfold pk_comp_ok, pk_key_cmp, pk_key, pk_pad, lexprod in *. cbn [pk_tail_cmp].
  destruct (big_of_string x) eqn:E; cbn [fst snd thenc optz_low_cmp].
  - rewrite Nat.compare_refl. split; [reflexivity | discriminate].
  - apply negb_true_iff, Nat.eqb_neq in Hx.
    destruct (Nat.compare (pk_weight x) hash_weight) eqn:C.
    + apply Nat.compare_eq in C. congruence.
    + split; [reflexivity | discriminate].
    + split; [reflexivity | discriminate].
Qed.

Lemma pk_cmp_as_lexpad : forall a b, forallb pk_comp_ok a = true -> forallb pk_comp_ok b = true ->
  pk_cmp a b = lexpad pk_pad pk_key_cmp (map pk_key a) (map pk_key b).
Proof.
  induction a as [|x a IH]; destruct b as [|y b]; intros Ha Hb; simpl in Ha, Hb.
  - reflexivity.
  - apply andb_true_iff in Hb as [Hy Hb].
    destruct (pk_tail_cmp_valid y b Hy) as [T NE].
    change (pk_cmp [] (y :: b)) with (CompOpp (pk_tail_cmp (y :: b))). rewrite T.
    unfold lexpad. simpl.
    rewrite (tp_antisym _ pk_key_cmp_tp (pk_key y) pk_pad).
    destruct (pk_key_cmp (pk_key y) pk_pad); simpl; try reflexivity. congruence.
  - apply andb_true_iff in Ha as [Hx Ha].
    destruct (pk_tail_cmp_valid x a Hx) as [T NE].
    change (pk_cmp (x :: a) []) with (pk_tail_cmp (x :: a)). rewrite T.
    unfold lexpad. simpl.
    destruct (pk_key_cmp (pk_key x) pk_pad); try reflexivity. congruence.
  - apply andb_true_iff in Ha as [Hx Ha]. apply andb_true_iff in Hb as [Hy Hb].
    simpl. rewrite (pk_elem_cmp_as_key x y Hx Hy).
    unfold lexpad. simpl.
    destruct (pk_key_cmp (pk_key x) (pk_key y)); try reflexivity.
    rewrite !map_length in *. rewrite (IH b Ha Hb). unfold lexpad. rewrite !map_length. reflexivity.
Qed.

Definition cmp_packagist_pure (v w : packagist) : comparison :=
  by_key (fun v => map pk_key (pk_components v)) (lexpad pk_pad pk_key_cmp) v w.

Lemma cmp_packagist_pure_tp : TotalPreorder cmp_packagist_pure.
Proof. apply by_key_tp. apply lexpad_total_preorder. apply pk_key_cmp_tp. Qed.

Lemma cmp_packagist_on_valid : forall v w, valid_packagist v = true -> valid_packagist w = true ->
  cmp_packagist v w = Ok (cmp_packagist_pure v w).
Proof. intros v w Hv Hw. unfold cmp_packagist, cmp_packagist_pure, by_key. rewrite (pk_cmp_as_lexpad _ _ Hv Hw). reflexivity. Qed.

Lemma cmp_packagist_laws_on_valid :
  trans_law_on valid_packagist cmp_packagist /\ eq_equiv_law_on valid_packagist cmp_packagist.
Proof. apply (laws_of_tp _ _ cmp_packagist_pure); [apply cmp_packagist_pure_tp | apply cmp_packagist_on_valid]. Qed.

(* ------------------------------------------------------------------ string level *)
Lemma packagist_str_total : forall a b, exists c, compare_str_packagist a b = Ok c.
Proof. intros. unfold compare_str_packagist, parse_packagist. cbn [obind]. eexists; reflexivity. Qed.

Lemma packagist_str_antisym : forall a b, compare_str_packagist b a = oppO (compare_str_packagist a b).
Proof. intros. unfold compare_str_packagist, parse_packagist. cbn [obind]. apply cmp_packagist_antisym. Qed.

Lemma packagist_str_refl : forall a, compare_str_packagist a a = Ok Eq.
Proof. intros. unfold compare_str_packagist, parse_packagist. cbn [obind]. apply cmp_packagist_refl. Qed.

Lemma packagist_str_laws_on_valid : forall a b c,
  valid_packagist_string a = true -> valid_packagist_string b = true -> valid_packagist_string c = true ->
  (leO (compare_str_packagist a b) = true -> leO (compare_str_packagist b c) = true -> leO (compare_str_packagist a c) = true) /\
  (compare_str_packagist a b = Ok Eq -> compare_str_packagist a c = compare_str_packagist b c).
Proof.
  intros a b c. unfold valid_packagist_string, compare_str_packagist, parse_packagist. cbn [obind]. intros Ha Hb Hc.
  split; [apply (proj1 cmp_packagist_laws_on_valid) | apply (proj2 cmp_packagist_laws_on_valid)]; assumption.
Qed.

(* Model of semantic/version-packagist.go: canonicalisation + split (front end) and the comparison of
   the dot-separated components.  No proofs here. *)
From Coq Require Import List ZArith NArith Bool.
From Scalibr Require Import Semantic.Cmp Semantic.LexPad Semantic.Bytes Semantic.Generated_Tables.
Import ListNotations.
Open Scope N_scope.

(* type packagistVersion struct { Original string; Components []string } *)
Record packagist := { pk_original : bytes; pk_components : list bytes }.

(* weighPackagistBuildCharacter: the first matching prefix of the generated table
   ("RC" 3, then dev 0, a 1, b 2, rc 3, # 4, p 5), else the default (0) *)
Fixpoint first_prefix_weight (tbl : list (bytes * nat)) (s : bytes) : nat :=
  match tbl with
  | [] => gen_packagist_default_weight
  | (p, w) :: r => if has_prefix p s then w else first_prefix_weight r s
  end.
Definition pk_weight (s : bytes) : nat := first_prefix_weight gen_packagist_prefix_weights s.

(* weight of "#", the stand-in for a number: computed by the same function, as the Go code does *)
Definition hash_weight : nat := pk_weight [35].

(* one loop iteration of comparePackagistComponents *)
Definition pk_elem_cmp (x y : bytes) : comparison :=
  match big_of_string x, big_of_string y with
  | Some a, Some b => Z.compare a b
  | None, None => Nat.compare (pk_weight x) (pk_weight y)
  | Some _, None => Nat.compare hash_weight (pk_weight y)
  | None, Some _ => Nat.compare (pk_weight x) hash_weight
  end.

(* the longer side's remaining components against an implicit "#" (after fix cefe0305):
     next := a[len(b)]; if convertToBigInt(next) succeeds -> +1
     else comparePackagistComponents(a[len(b):], {"#"})  (one element comparison, then the same again) *)
Fixpoint pk_tail_cmp (rest : list bytes) : comparison :=
  match rest with
  | [] => Eq
  | x :: r =>
    match big_of_string x with
    | Some _ => Gt
    | None => match Nat.compare (pk_weight x) hash_weight with     (* special(x, "#") *)
              | Eq => pk_tail_cmp r
              | c => c
              end
    end
  end.

Fixpoint pk_cmp (a b : list bytes) {struct a} : comparison :=
  match a, b with
  | [], [] => Eq
  | _ :: _, [] => pk_tail_cmp a
  | [], _ :: _ => CompOpp (pk_tail_cmp b)
  | x :: a', y :: b' => match pk_elem_cmp x y with Eq => pk_cmp a' b' | c => c end
  end.

(* ------------------------------------------------------------------ front end *)
(* canonicalizePackagistVersion:
     TrimPrefix "v" then TrimPrefix "V";  [-_+] -> ".";
     ([^\d.])(\d) -> "$1.$2"  and then  (\d)([^\d.]) -> "$1.$2".
   The two insertion passes match non-overlapping two-character windows and a window never ends in a
   character that could start the next one, so together they put a '.' at EVERY boundary between a
   digit and a character that is neither a digit nor '.', in either order.  Those classes are decided
   by single bytes (the last byte of a rune before a digit, the first byte of a rune after one), so
   this is a byte scan; unmatched bytes (also invalid UTF-8) are copied unchanged. *)
Definition pk_sep_byte (c : N) : N := if (c =? 45) || (c =? 95) || (c =? 43) then 46 else c.
Definition pk_other (c : N) : bool := negb (is_digit c) && negb (c =? 46).       (* [^\d.] *)

Fixpoint pk_insert_dots (s : bytes) : bytes :=
  match s with
  | a :: ((c :: _) as r) =>
    if (is_digit a && pk_other c) || (pk_other a && is_digit c) then a :: 46 :: pk_insert_dots r
    else a :: pk_insert_dots r
  | _ => s
  end.

Definition canonicalize_packagist (v : bytes) : bytes :=
  pk_insert_dots (map pk_sep_byte (trim_prefix [86] (trim_prefix [118] v))).

(* parsePackagistVersion *)
Definition parse_packagist (s : bytes) : outcome packagist :=
  Ok {| pk_original := s; pk_components := split_on 46 (canonicalize_packagist s) |}.

Definition cmp_packagist (v w : packagist) : outcome comparison :=
  Ok (pk_cmp (pk_components v) (pk_components w)).

(* valid component (domain D): a number, or a qualifier that is not '#...' ('#' is the stand-in for
   "a number": it ties with EVERY number, so equality is not transitive through it) *)
Definition pk_comp_ok (x : bytes) : bool :=
  match big_of_string x with
  | Some _ => true
  | None => negb (Nat.eqb (pk_weight x) hash_weight)
  end.
Definition valid_packagist (v : packagist) : bool := forallb pk_comp_ok (pk_components v).

Definition packagist_eqb (v w : packagist) : bool :=
  bytes_eqb (pk_original v) (pk_original w) && list_eqb bytes_eqb (pk_components v) (pk_components w).

Definition compare_str_packagist (a b : bytes) : outcome comparison :=
  obind (parse_packagist a) (fun v => obind (parse_packagist b) (fun w => cmp_packagist v w)).
Definition valid_packagist_string (s : bytes) : bool :=
  match parse_packagist s with Ok v => valid_packagist v | _ => false end.

(* Model of the comparison in semantic/version-packagist.go, on the parsed structure (the list of
   dot-separated components).  No proofs here.  The canonicalisation regexes (front end) are NOT
   modelled: component lists are taken from the implementation through the hook. *)
From Coq Require Import List ZArith NArith Bool.
From Scalibr Require Import Semantic.Cmp Semantic.LexPad Semantic.Bytes Semantic.Generated_Tables.
Import ListNotations.
Open Scope N_scope.

(* type packagistVersion struct { Original string; Components []string } *)
Record packagist := { pk_original : bytes; pk_components : list bytes }.

(* weighPackagistBuildCharacter: the first matching prefix of the generated table
   ("RC" 3, then dev 0, a 1, b 2, rc 3, # 4, p 5), else the default (0) *)
Fixpoint first_prefix_weight (tbl : list (bytes * nat)) (s : bytes) : nat :=
  match tbl with
  | [] => gen_packagist_default_weight
  | (p, w) :: r => if has_prefix p s then w else first_prefix_weight r s
  end.
Definition pk_weight (s : bytes) : nat := first_prefix_weight gen_packagist_prefix_weights s.

(* weight of "#", the stand-in for a number: computed by the same function, as the Go code does *)
Definition hash_weight : nat := pk_weight [35].

(* one loop iteration of comparePackagistComponents *)
Definition pk_elem_cmp (x y : bytes) : comparison :=
  match big_of_string x, big_of_string y with
  | Some a, Some b => Z.compare a b
  | None, None => Nat.compare (pk_weight x) (pk_weight y)
  | Some _, None => Nat.compare hash_weight (pk_weight y)
  | None, Some _ => Nat.compare (pk_weight x) hash_weight
  end.

(* the longer side's remaining components against an implicit "#" (after fix cefe0305):
     next := a[len(b)]; if convertToBigInt(next) succeeds -> +1
     else comparePackagistComponents(a[len(b):], {"#"})  (one element comparison, then the same again) *)
Fixpoint pk_tail_cmp (rest : list bytes) : comparison :=
  match rest with
  | [] => Eq
  | x :: r =>
    match big_of_string x with
    | Some _ => Gt
    | None => match Nat.compare (pk_weight x) hash_weight with     (* special(x, "#") *)
              | Eq => pk_tail_cmp r
              | c => c
              end
    end
  end.

Fixpoint pk_cmp (a b : list bytes) {struct a} : comparison :=
  match a, b with
  | [], [] => Eq
  | _ :: _, [] => pk_tail_cmp a
  | [], _ :: _ => CompOpp (pk_tail_cmp b)
  | x :: a', y :: b' => match pk_elem_cmp x y with Eq => pk_cmp a' b' | c => c end
  end.

Definition cmp_packagist (v w : packagist) : outcome comparison :=
  Ok (pk_cmp (pk_components v) (pk_components w)).

(* valid component (domain D): a number, or a qualifier that is not '#...' ('#' is the stand-in for
   "a number": it ties with EVERY number, so equality is not transitive through it) *)
Definition pk_comp_ok (x : bytes) : bool :=
  match big_of_string x with
  | Some _ => true
  | None => negb (Nat.eqb (pk_weight x) hash_weight)
  end.
Definition valid_packagist (v : packagist) : bool := forallb pk_comp_ok (pk_components v).

Definition packagist_eqb (v w : packagist) : bool :=
  bytes_eqb (pk_original v) (pk_original w) && list_eqb bytes_eqb (pk_components v) (pk_components w).

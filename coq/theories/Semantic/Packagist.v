(* Model of the comparison in semantic/version-packagist.go, on the parsed structure (the list of
   dot-separated components).  No proofs here.  The canonicalisation regexes (front end) are NOT
   modelled: component lists are taken from the implementation through the hook. *)
From Coq Require Import List ZArith NArith Bool.
From Scalibr Require Import Semantic.Cmp Semantic.LexPad Semantic.Bytes.
Import ListNotations.
Open Scope N_scope.

(* type packagistVersion struct { Original string; Components []string } *)
Record packagist := { pk_original : bytes; pk_components : list bytes }.

(* weighPackagistBuildCharacter: "RC" -> 3; first matching prefix of dev,a,b,rc,#,p -> its index; else 0 *)
Definition pk_weight (s : bytes) : nat :=
  if has_prefix [82; 67] s then 3%nat
  else if has_prefix [100; 101; 118] s then 0%nat
  else if has_prefix [97] s then 1%nat
  else if has_prefix [98] s then 2%nat
  else if has_prefix [114; 99] s then 3%nat
  else if has_prefix [35] s then 4%nat
  else if has_prefix [112] s then 5%nat
  else 0%nat.

Definition hash_weight : nat := 4%nat.      (* weight of "#", the stand-in for a number *)

(* one loop iteration of comparePackagistComponents *)
Definition pk_elem_cmp (x y : bytes) : comparison :=
  match big_of_string x, big_of_string y with
  | Some a, Some b => Z.compare a b
  | None, None => Nat.compare (pk_weight x) (pk_weight y)
  | Some _, None => Nat.compare hash_weight (pk_weight y)
  | None, Some _ => Nat.compare (pk_weight x) hash_weight
  end.

(* the longer side's remaining components against an implicit "#" (after fix cefe0305):
     next := a[len(b)]; if convertToBigInt(next) succeeds -> +1
     else comparePackagistComponents(a[len(b):], {"#"})  (one element comparison, then the same again) *)
Fixpoint pk_tail_cmp (rest : list bytes) : comparison :=
  match rest with
  | [] => Eq
  | x :: r =>
    match big_of_string x with
    | Some _ => Gt
    | None => match Nat.compare (pk_weight x) hash_weight with     (* special(x, "#") *)
              | Eq => pk_tail_cmp r
              | c => c
              end
    end
  end.

Fixpoint pk_cmp (a b : list bytes) {struct a} : comparison :=
  match a, b with
  | [], [] => Eq
  | _ :: _, [] => pk_tail_cmp a
  | [], _ :: _ => CompOpp (pk_tail_cmp b)
  | x :: a', y :: b' => match pk_elem_cmp x y with Eq => pk_cmp a' b' | c => c end
  end.

Definition cmp_packagist (v w : packagist) : outcome comparison :=
  Ok (pk_cmp (pk_components v) (pk_components w)).

(* valid component (domain D): a number, or a qualifier that is not '#...' ('#' is the stand-in for
   "a number": it ties with EVERY number, so equality is not transitive through it) *)
Definition pk_comp_ok (x : bytes) : bool :=
  match big_of_string x with
  | Some _ => true
  | None => negb (Nat.eqb (pk_weight x) hash_weight)
  end.
Definition valid_packagist (v : packagist) : bool := forallb pk_comp_ok (pk_components v).

Definition packagist_eqb (v w : packagist) : bool :=
  bytes_eqb (pk_original v) (pk_original w) && list_eqb bytes_eqb (pk_components v) (pk_components w).

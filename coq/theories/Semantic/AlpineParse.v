(* Model of the FRONT END of semantic/version-alpine.go (parseAlpineVersion and its five steps).
   No proofs here.  All character classes of its regular expressions are ASCII: a byte scanner.

     parseAlpineNumberComponents   ^((\d+)\.?)*     longest prefix of digit runs each optionally followed by '.';
                                   split on '.', every piece must be a number (a trailing '.' leaves an empty piece: error)
     parseAlpineLetter             ^[a-z]
     parseAlpineSuffixes           _(alpha|beta|pre|rc|cvs|svn|git|hg|p)(\d{0,})  NOT anchored: FindAll finds the
                                   suffixes ANYWHERE in the rest; each is recorded, but removed only if it is a prefix
     parseAlpineHash               ^~([0-9a-f]+)
     parseAlpineBuildComponent     ^-r(\d{0,})   otherwise a non-empty rest makes the version invalid *)
From Coq Require Import List ZArith NArith Bool.
From Scalibr Require Import Semantic.Cmp Semantic.LexPad Semantic.Bytes Semantic.Generated_Tables Semantic.Alpine.
Import ListNotations.
Open Scope N_scope.

(* ^((\d+)\.?)* : digit runs (in order), whether the match ended right after a '.', and the rest *)
Fixpoint num_runs (fuel : nat) (s : bytes) : list bytes * bool * bytes :=
  match fuel with
  | O => ([], false, s)
  | S f =>
    match s with
    | c :: _ =>
      if is_digit c then
        let (d, r) := span is_digit s in
        match r with
        | c' :: r' => if c' =? 46 then
                        match r' with
                        | c'' :: _ => if is_digit c'' then let '(ds, td, rest) := num_runs f r' in (d :: ds, td, rest)
                                      else ([d], true, r')
                        | [] => ([d], true, r')
                        end
                      else ([d], false, r)
        | [] => ([d], false, r)
        end
      else ([], false, s)
    | [] => ([], false, s)
    end
  end.

Fixpoint mk_comps (i : Z) (ds : list bytes) : list anc :=
  match ds with
  | [] => []
  | d :: r => {| an_original := d; an_value := big_of_string d; an_index := i |} :: mk_comps (i + 1) r
  end.

(* the suffix names in the order of the regular expression's alternation *)
Definition suffix_alternatives : list bytes :=
  [[97; 108; 112; 104; 97]; [98; 101; 116; 97]; [112; 114; 101]; [114; 99]; [99; 118; 115]; [115; 118; 110]; [103; 105; 116]; [104; 103]; [112]].

Fixpoint first_prefix (alts : list bytes) (s : bytes) : option bytes :=
  match alts with
  | [] => None
  | a :: r => if has_prefix a s then Some a else first_prefix r s
  end.

(* FindAllStringSubmatch: (whole match, name, digits) for every non-overlapping leftmost match *)
Fixpoint find_suffixes (fuel : nat) (s : bytes) : list (bytes * bytes * bytes) :=
  match fuel with
  | O => []
  | S f =>
    match s with
    | [] => []
    | c :: r =>
      if c =? 95 then
        match first_prefix suffix_alternatives r with
        | Some name =>
          let (ds, rest) := span is_digit (drop_n (length name) r) in
          (c :: name ++ ds, name, ds) :: find_suffixes f rest
        | None => find_suffixes f r
        end
      else find_suffixes f r
    end
  end.

Definition is_hex_lower (c : N) : bool := is_digit c || ((97 <=? c) && (c <=? 102)).

Definition parse_alpine (str : bytes) : outcome alpine :=
  (* number components *)
  let '(runs, trailing_dot, s1) := num_runs (S (length str)) str in
  if trailing_dot then Err
  else
    let comps := mk_comps 0 runs in
    (* letter *)
    let (letter, s2) := match s1 with c :: r => if is_lower c then ([c], r) else ([], s1) | [] => ([], s1) end in
    (* suffixes: all of them are recorded; the text is only consumed while they are prefixes *)
    let found := find_suffixes (length s2) s2 in
    let sufs := map (fun m : bytes * bytes * bytes =>
                       {| as_weight := suffix_weight (snd (fst m));
                          as_number := big_of_string (if is_nil (snd m) then [48] else snd m) |}) found in
    let s3 := fold_left (fun s (m : bytes * bytes * bytes) => trim_prefix (fst (fst m)) s) found s2 in
    (* hash *)
    let (hash, s4) := match s3 with
                      | c :: r => if c =? 126 then
                                    let (h, rest) := span is_hex_lower r in
                                    if is_nil h then ([], s3) else (c :: h, rest)
                                  else ([], s3)
                      | [] => ([], s3)
                      end in
    (* build component *)
    let '(invalid, build, s5) :=
      match s4 with
      | [] => (false, Some 0%Z, s4)
      | c :: r => if (c =? 45) && has_prefix [114] r then
                    let (ds, rest) := span is_digit (drop_n 1 r) in
                    (false, big_of_string (if is_nil ds then [48] else ds), rest)
                  else (true, Some 0%Z, s4)
      end in
    Ok {| al_original := str; al_invalid := invalid; al_remainder := s5; al_components := comps;
          al_letter := letter; al_suffixes := sufs; al_hash := hash; al_build := build |}.

Definition compare_str_alpine (a b : bytes) : outcome comparison :=
  obind (parse_alpine a) (fun v => obind (parse_alpine b) (fun w => cmp_alpine v w)).

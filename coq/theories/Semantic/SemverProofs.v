(* Proofs about the semver-family model (Semver.v). *)
From Coq Require Import List ZArith NArith Bool Lia.
From Scalibr Require Import Semantic.Cmp Semantic.LexPad Semantic.Bytes Semantic.Semver.
Import ListNotations.
Open Scope N_scope.

(* ------------------------------------------------------------------ build / prerelease comparison *)
Definition pre_cmp (a b : bytes) : comparison :=
  match a, b with
  | [], _ :: _ => Gt
  | _ :: _, [] => Lt
  | _, _ => shortlex ident_cmp (split_on 46 a) (split_on 46 b)
  end.

Lemma pre_cmp_as_lex2 : forall a b,
  pre_cmp a b = lex2 (by_key is_nil bool_cmp) (by_key (split_on 46) (shortlex ident_cmp)) a b.
Proof. intros [|x a] [|y b]; reflexivity. Qed.

Lemma ident_cmp_tp : TotalPreorder ident_cmp.
Proof. apply numstr_cmp_tp. Qed.

Lemma pre_cmp_tp : TotalPreorder pre_cmp.
Proof.
  eapply tp_ext; [apply pre_cmp_as_lex2|].
  apply lex2_tp; apply by_key_tp; [apply bool_cmp_tp | apply shortlex_total_preorder; apply ident_cmp_tp].
Qed.

Lemma build_cmp_tp : TotalPreorder build_cmp.
Proof.
  apply (tp_ext _ (by_key build_norm pre_cmp)); [reflexivity|].
  apply by_key_tp. apply pre_cmp_tp.
Qed.

(* ------------------------------------------------------------------ structure-level laws *)
Definition cmp_semver_pure (v w : semver) : comparison :=
  lex2 (by_key sv_comps comps_cmp_pure) (by_key sv_build build_cmp) v w.

Lemma cmp_semver_pure_tp : TotalPreorder cmp_semver_pure.
Proof. apply lex2_tp; apply by_key_tp; [apply comps_cmp_pure_tp | apply build_cmp_tp]. Qed.

Lemma cmp_semver_antisym : forall v w, cmp_semver w v = oppO (cmp_semver v w).
Proof.
  intros v w. unfold cmp_semver. rewrite (comps_cmp_antisym (sv_comps v) (sv_comps w)).
  destruct (comps_cmp (sv_comps v) (sv_comps w)) as [[]| |]; simpl; try reflexivity.
  rewrite (tp_antisym _ build_cmp_tp (sv_build v) (sv_build w)). reflexivity.
Qed.

Lemma cmp_semver_refl : forall v, cmp_semver v v = Ok Eq.
Proof.
  intros v. unfold cmp_semver. rewrite comps_cmp_refl. simpl.
  rewrite (tp_refl _ build_cmp_tp). reflexivity.
Qed.

Lemma cmp_semver_on_valid : forall v w, valid_semver v = true -> valid_semver w = true ->
  cmp_semver v w = Ok (cmp_semver_pure v w).
Proof.
  intros v w Hv Hw. unfold cmp_semver, cmp_semver_pure, lex2, by_key, valid_semver in *.
  rewrite (comps_cmp_is_pure _ _ Hv Hw). simpl.
  destruct (comps_cmp_pure (sv_comps v) (sv_comps w)); reflexivity.
Qed.

Lemma cmp_semver_laws_on_valid :
  trans_law_on valid_semver cmp_semver /\ eq_equiv_law_on valid_semver cmp_semver.
Proof. apply (laws_of_tp _ _ cmp_semver_pure); [apply cmp_semver_pure_tp | apply cmp_semver_on_valid]. Qed.

(* ------------------------------------------------------------------ the parser only produces valid structures *)
Lemma digit_not_sign : forall c, is_digit c = true -> (c =? 45) = false /\ (c =? 43) = false.
Proof.
  intros c H. unfold is_digit in H. apply andb_true_iff in H as [H _]. apply N.leb_le in H.
  split; apply N.eqb_neq; lia.
Qed.

Lemma big_of_digits : forall c r, is_digit c = true -> forallb is_digit r = true ->
  is_some (big_of_string (c :: r)) = true.
Proof.
  intros c r Hc Hr. unfold big_of_string. destruct (digit_not_sign c Hc) as [-> ->].
  unfold unsigned_of_string, all_digits. simpl. rewrite Hc, Hr. reflexivity.
Qed.

Lemma flush_valid : forall cur comps, forallb is_digit cur = true -> forallb is_some comps = true ->
  forallb is_some (flush cur comps) = true.
Proof.
  intros [|c r] comps Hc Hs; unfold flush; simpl; [exact Hs|].
  simpl in Hc. apply andb_true_iff in Hc as [H1 H2].
  change (is_some (big_of_string (c :: r)) && forallb is_some comps = true).
  rewrite (big_of_digits c r H1 H2), Hs. reflexivity.
Qed.

Lemma forallb_rev {A} (f : A -> bool) : forall l, forallb f l = true -> forallb f (rev l) = true.
Proof.
  intros l H. apply forallb_forall. intros x Hx. apply in_rev in Hx.
  rewrite forallb_forall in H. apply H; exact Hx.
Qed.

Lemma sv_scan_valid : forall s comps cur, forallb is_some comps = true -> forallb is_digit cur = true ->
  forallb is_some (fst (sv_scan s comps cur)) = true.
Proof.
  induction s as [|c r IH]; intros comps cur Hs Hc; simpl.
  - apply forallb_rev. apply flush_valid; assumption.
  - destruct (is_digit c) eqn:Ed.
    + apply IH; [exact Hs|]. rewrite forallb_app, Hc. simpl. rewrite Ed. reflexivity.
    + destruct (c =? 46).
      * apply IH; [apply flush_valid; assumption | reflexivity].
      * simpl. apply forallb_rev. apply flush_valid; assumption.
Qed.

Lemma forallb_firstn {A} (f : A -> bool) : forall n l, forallb f l = true -> forallb f (firstn n l) = true.
Proof.
  induction n; intros [|x l] H; simpl in *; try reflexivity.
  apply andb_true_iff in H as [H1 H2]. rewrite H1. apply IHn; exact H2.
Qed.

Lemma parse_semver_like_valid : forall line, valid_semver (parse_semver_like line) = true.
Proof.
  intros line. unfold parse_semver_like, valid_semver.
  pose proof (sv_scan_valid (sanitize (trim_prefix [118] line)) [] [] eq_refl eq_refl) as H.
  destruct (sv_scan (sanitize (trim_prefix [118] line)) [] []) as [comps build]. exact H.
Qed.

Lemma parse_semver_like_version_valid : forall line n, valid_semver (parse_semver_like_version line n) = true.
Proof.
  intros line n. unfold parse_semver_like_version, limit_components.
  pose proof (parse_semver_like_valid line) as H.
  destruct (Nat.leb (length (sv_comps (parse_semver_like line))) n); [exact H|].
  unfold valid_semver in *. simpl. apply forallb_firstn; exact H.
Qed.

(* ------------------------------------------------------------------ string-level theorems *)
Lemma semver_total_lemma : forall a b, compare_str_semver a b <> Panic.
Proof.
  intros a b. unfold compare_str_semver, parse_semver. simpl.
  rewrite cmp_semver_on_valid by apply parse_semver_like_version_valid. discriminate.
Qed.

Lemma semver_never_errors_lemma : forall a b, exists c, compare_str_semver a b = Ok c.
Proof.
  intros a b. unfold compare_str_semver, parse_semver. simpl.
  rewrite cmp_semver_on_valid by apply parse_semver_like_version_valid. eexists; reflexivity.
Qed.

Lemma semver_str_antisym_lemma : forall a b, compare_str_semver b a = oppO (compare_str_semver a b).
Proof. intros a b. unfold compare_str_semver, parse_semver. simpl. apply cmp_semver_antisym. Qed.

Lemma semver_str_refl_lemma : forall a, compare_str_semver a a = Ok Eq.
Proof. intros a. unfold compare_str_semver, parse_semver. simpl. apply cmp_semver_refl. Qed.

Lemma semver_str_trans_lemma : forall a b c,
  leO (compare_str_semver a b) = true -> leO (compare_str_semver b c) = true -> leO (compare_str_semver a c) = true.
Proof.
  intros a b c. unfold compare_str_semver, parse_semver. simpl.
  apply (proj1 cmp_semver_laws_on_valid); apply parse_semver_like_version_valid.
Qed.

Lemma semver_str_eq_equiv_lemma : forall a b c,
  compare_str_semver a b = Ok Eq -> compare_str_semver a c = compare_str_semver b c.
Proof.
  intros a b c. unfold compare_str_semver, parse_semver. simpl.
  apply (proj2 cmp_semver_laws_on_valid); apply parse_semver_like_version_valid.
Qed.

(* Model of semantic/version-nuget.go: semver-like with 4 components; Build compared after strings.ToLower. *)
From Coq Require Import List ZArith NArith Bool.
From Scalibr Require Import Semantic.Cmp Semantic.LexPad Semantic.Bytes Semantic.Semver.
Import ListNotations.

Definition parse_nuget (s : bytes) : outcome semver := Ok (parse_semver_like_version s 4).

(* nuGetVersion.compare *)
Definition cmp_nuget (v w : semver) : outcome comparison :=
  thenO (comps_cmp (sv_comps v) (sv_comps w))
        (Ok (build_cmp (to_lower (sv_build v)) (to_lower (sv_build w)))).

Definition compare_str_nuget (a b : bytes) : outcome comparison :=
  obind (parse_nuget a) (fun v => obind (parse_nuget b) (fun w => cmp_nuget v w)).

Definition valid_nuget : semver -> bool := valid_semver.

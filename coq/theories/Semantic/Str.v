(* String literals as byte lists, and the "published ordering chain" test used by the
   E_agrees_canonical examples. Executable definitions only. *)
From Coq Require Import List ZArith NArith Bool String Ascii.
From Scalibr Require Import Semantic.Cmp Semantic.Bytes.
Import ListNotations.

Fixpoint b (s : string) : bytes :=
  match s with EmptyString => [] | String c r => N_of_ascii c :: b r end.

Definition is_lt (o : outcome comparison) : bool := match o with Ok Lt => true | _ => false end.
Definition is_gt (o : outcome comparison) : bool := match o with Ok Gt => true | _ => false end.
Definition is_eq (o : outcome comparison) : bool := match o with Ok Eq => true | _ => false end.

(* every earlier element is strictly below every later one, in both argument orders *)
Fixpoint ascending (c : bytes -> bytes -> outcome comparison) (l : list bytes) : bool :=
  match l with
  | [] => true
  | x :: r => forallb (fun y => is_lt (c x y) && is_gt (c y x)) r && ascending c r
  end.

(* all elements compare equal to each other, in both argument orders *)
Fixpoint all_equal (c : bytes -> bytes -> outcome comparison) (l : list bytes) : bool :=
  match l with
  | [] => true
  | x :: r => forallb (fun y => is_eq (c x y) && is_eq (c y x)) r && all_equal c r
  end.

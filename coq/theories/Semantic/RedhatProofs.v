From Coq Require Import List ZArith NArith Bool.
From Scalibr Require Import Semantic.Cmp Semantic.LexPad Semantic.Bytes Semantic.Redhat.
Import ListNotations.

(* token order = order induced by the key (rank, letters, number) *)
Definition rkey (t : rtok) : nat * (bytes * N) :=
  (rrank t, (match t with RAlpha s => s | _ => [] end, match t with RNum n => n | _ => 0%N end)).

Lemma rtok_cmp_as_key : forall a b,
  rtok_cmp a b = by_key rkey (lexprod Nat.compare (lexprod bytes_cmp N.compare)) a b.
Proof.
  intros a b. unfold by_key, lexprod, rkey.
  destruct a, b; simpl; try reflexivity;
    try (destruct (bytes_cmp s s0); reflexivity);
    try (rewrite (tp_refl _ bytes_cmp_tp); reflexivity).
Qed.

Lemma rtok_cmp_tp : TotalPreorder rtok_cmp.
Proof.
  eapply tp_ext; [apply rtok_cmp_as_key|].
  apply by_key_tp. apply lexprod_tp; [apply Natcompare_tp|].
  apply lexprod_tp; [apply bytes_cmp_tp | apply Ncompare_tp].
Qed.

Lemma rh_component_cmp_as_lex2 : forall a b,
  rh_component_cmp a b =
  lex2 (by_key (fun s : bytes => negb (is_nil s)) bool_cmp) (by_key rh_tokens (lexpad REnd rtok_cmp)) a b.
Proof. intros [|x a] [|y b]; reflexivity. Qed.

Lemma rh_component_cmp_tp : TotalPreorder rh_component_cmp.
Proof.
  eapply tp_ext; [apply rh_component_cmp_as_lex2|].
  apply lex2_tp; apply by_key_tp; [apply bool_cmp_tp | apply lexpad_total_preorder; apply rtok_cmp_tp].
Qed.

Lemma cmp_redhat_pure_tp : TotalPreorder cmp_redhat_pure.
Proof.
  apply (tp_ext _ (lex2 (by_key rh_epoch rh_component_cmp)
                        (lex2 (by_key rh_version rh_component_cmp) (by_key rh_release rh_component_cmp))));
    [reflexivity|].
  apply lex2_tp; [|apply lex2_tp]; apply by_key_tp; apply rh_component_cmp_tp.
Qed.

Lemma cmp_redhat_antisym : forall v w, cmp_redhat w v = oppO (cmp_redhat v w).
Proof. intros. unfold cmp_redhat. simpl. rewrite (tp_antisym _ cmp_redhat_pure_tp v w). reflexivity. Qed.

Lemma cmp_redhat_refl : forall v, cmp_redhat v v = Ok Eq.
Proof. intros. unfold cmp_redhat. rewrite (tp_refl _ cmp_redhat_pure_tp). reflexivity. Qed.

Lemma cmp_redhat_laws : trans_law_on valid_redhat cmp_redhat /\ eq_equiv_law_on valid_redhat cmp_redhat.
Proof. apply (laws_of_tp _ _ cmp_redhat_pure); [apply cmp_redhat_pure_tp | reflexivity]. Qed.

Lemma parse_redhat_ok : forall s, exists v, parse_redhat s = Ok v.
Proof.
  intros s. unfold parse_redhat.
  destruct (cut_on 58 s) as [[bf0 af0] hc].
  destruct (if hc then (bf0, af0) else (af0, bf0)) as [bf af].
  destruct (cut_on 45 bf) as [[name ep] hn].
  destruct (cut_on 45 af) as [[ver rel] hr].
  eexists; reflexivity.
Qed.

Lemma redhat_total_lemma : forall a b, exists c, compare_str_redhat a b = Ok c.
Proof.
  intros a b. unfold compare_str_redhat.
  destruct (parse_redhat_ok a) as [v ->]. destruct (parse_redhat_ok b) as [w ->]. simpl.
  eexists; reflexivity.
Qed.

Lemma redhat_str_antisym_lemma : forall a b, compare_str_redhat b a = oppO (compare_str_redhat a b).
Proof.
  intros a b. unfold compare_str_redhat.
  destruct (parse_redhat_ok a) as [v ->]. destruct (parse_redhat_ok b) as [w ->]. cbn [obind].
  apply cmp_redhat_antisym.
Qed.

Lemma redhat_str_refl_lemma : forall a, compare_str_redhat a a = Ok Eq.
Proof.
  intros a. unfold compare_str_redhat. destruct (parse_redhat_ok a) as [v ->]. cbn [obind]. apply cmp_redhat_refl.
Qed.

Lemma redhat_str_trans_lemma : forall a b c,
  leO (compare_str_redhat a b) = true -> leO (compare_str_redhat b c) = true -> leO (compare_str_redhat a c) = true.
Proof.
  intros a b c. unfold compare_str_redhat.
  destruct (parse_redhat_ok a) as [u ->]. destruct (parse_redhat_ok b) as [v ->]. destruct (parse_redhat_ok c) as [w ->].
  cbn [obind]. apply (proj1 cmp_redhat_laws); reflexivity.
Qed.

Lemma redhat_str_eq_equiv_lemma : forall a b c,
  compare_str_redhat a b = Ok Eq -> compare_str_redhat a c = compare_str_redhat b c.
Proof.
  intros a b c. unfold compare_str_redhat.
  destruct (parse_redhat_ok a) as [u ->]. destruct (parse_redhat_ok b) as [v ->]. destruct (parse_redhat_ok c) as [w ->].
  cbn [obind]. apply (proj2 cmp_redhat_laws); reflexivity.
Qed.

From Coq Require Import List ZArith NArith Bool Lia.
From Scalibr Require Import Semantic.Cmp Semantic.LexPad Semantic.Bytes Semantic.Pypi.
Import ListNotations.

(* ------------------------------------------------------------------ generic: antisymmetry through thenO *)
Lemma thenO_opp : forall r1 r2 s1 s2, s1 = oppO r1 -> s2 = oppO r2 -> thenO s1 s2 = oppO (thenO r1 r2).
Proof. intros r1 r2 s1 s2 -> ->. destruct r1 as [[]| |]; reflexivity. Qed.

Lemma thenc_opp : forall a b, thenc (CompOpp a) (CompOpp b) = CompOpp (thenc a b).
Proof. intros [] b; reflexivity. Qed.

(* ------------------------------------------------------------------ the pieces as key-induced orders *)
Lemma legacy_cmp_as_lex2 : forall v w,
  legacy_cmp v w = lex2 (by_key (fun v => is_nil (py_legacy v)) bool_cmp)
                        (by_key (fun v => concat (py_legacy v)) bytes_cmp) v w.
Proof. intros v w. unfold legacy_cmp, lex2, by_key. destruct (py_legacy v), (py_legacy w); reflexivity. Qed.

Lemma legacy_cmp_tp : TotalPreorder legacy_cmp.
Proof. eapply tp_ext; [apply legacy_cmp_as_lex2|]. apply lex2_tp; apply by_key_tp; [apply bool_cmp_tp | apply bytes_cmp_tp]. Qed.

Definition post_key (v : pypi) : nat * Z :=
  match ln_number (py_post v) with None => (0%nat, 0%Z) | Some x => (1%nat, x) end.
Lemma post_cmp_as_key : forall v w, post_cmp v w = by_key post_key (lexprod Nat.compare Z.compare) v w.
Proof. intros v w. unfold post_cmp, by_key, post_key, lexprod. destruct (ln_number (py_post v)), (ln_number (py_post w)); reflexivity. Qed.
Lemma post_cmp_tp : TotalPreorder post_cmp.
Proof. eapply tp_ext; [apply post_cmp_as_key|]. apply by_key_tp, lexprod_tp; [apply Natcompare_tp | apply Zcompare_tp]. Qed.

Definition dev_key (v : pypi) : nat * Z :=
  match ln_number (py_dev v) with None => (1%nat, 0%Z) | Some x => (0%nat, x) end.
Lemma dev_cmp_as_key : forall v w, dev_cmp v w = by_key dev_key (lexprod Nat.compare Z.compare) v w.
Proof. intros v w. unfold dev_cmp, by_key, dev_key, lexprod. destruct (ln_number (py_dev v)), (ln_number (py_dev w)); reflexivity. Qed.
Lemma dev_cmp_tp : TotalPreorder dev_cmp.
Proof. eapply tp_ext; [apply dev_cmp_as_key|]. apply by_key_tp, lexprod_tp; [apply Natcompare_tp | apply Zcompare_tp]. Qed.

Lemma local_cmp_tp : TotalPreorder local_cmp.
Proof. apply (by_key_tp py_local). apply shortlex_total_preorder. apply numstr_cmp_tp. Qed.

(* pre: dev-only versions first, then real pre-releases by (first letter, number), then no pre-release *)
Definition pre_key (v : pypi) : nat * (N * Z) :=
  if pre_trick v then (0%nat, (0%N, 0%Z))
  else match ln_number (py_pre v) with
       | None => (2%nat, (0%N, 0%Z))
       | Some x => (1%nat, (hd 0%N (ln_letter (py_pre v)), x))
       end.
Definition pre_cmp_pure : pypi -> pypi -> comparison :=
  by_key pre_key (lexprod Nat.compare (lexprod N.compare Z.compare)).

Lemma pre_cmp_pure_tp : TotalPreorder pre_cmp_pure.
Proof. apply by_key_tp, lexprod_tp; [apply Natcompare_tp|]. apply lexprod_tp; [apply Ncompare_tp | apply Zcompare_tp]. Qed.

Lemma pre_cmp_on_ok : forall v w, pre_ok v = true -> pre_ok w = true -> pre_cmp v w = Ok (pre_cmp_pure v w).
Proof.
  intros v w Hv Hw. unfold pre_cmp, pre_cmp_pure, by_key, pre_key, lexprod, pre_ok in *.
  destruct (pre_trick v), (pre_trick w); simpl; try reflexivity;
    destruct (ln_number (py_pre v)), (ln_number (py_pre w)); simpl in *; try reflexivity.
  destruct (ln_letter (py_pre v)), (ln_letter (py_pre w)); simpl in *; try discriminate. reflexivity.
Qed.

Lemma pre_cmp_antisym : forall v w, pre_cmp w v = oppO (pre_cmp v w).
Proof.
  intros v w. unfold pre_cmp.
  destruct (pre_trick v), (pre_trick w); simpl; try reflexivity.
  destruct (ln_number (py_pre v)), (ln_number (py_pre w)); simpl; try reflexivity.
  destruct (ln_letter (py_pre v)), (ln_letter (py_pre w)); simpl; try reflexivity.
  rewrite (N.compare_antisym n n0), (Z.compare_antisym z z0). rewrite thenc_opp. reflexivity.
Qed.

(* ------------------------------------------------------------------ the whole comparison *)
Definition cmp_pypi_pure : pypi -> pypi -> comparison :=
  lex2 legacy_cmp
 (lex2 (by_key py_epoch (by_key oval Z.compare))
 (lex2 (by_key py_release comps_cmp_pure)
 (lex2 pre_cmp_pure
 (lex2 post_cmp (lex2 dev_cmp local_cmp))))).

Lemma cmp_pypi_pure_tp : TotalPreorder cmp_pypi_pure.
Proof.
  apply lex2_tp; [apply legacy_cmp_tp|].
  apply lex2_tp; [apply by_key_tp, by_key_tp, Zcompare_tp|].
  apply lex2_tp; [apply by_key_tp, comps_cmp_pure_tp|].
  apply lex2_tp; [apply pre_cmp_pure_tp|].
  apply lex2_tp; [apply post_cmp_tp|].
  apply lex2_tp; [apply dev_cmp_tp | apply local_cmp_tp].
Qed.

Lemma cmp_pypi_on_valid : forall v w, valid_pypi v = true -> valid_pypi w = true ->
  cmp_pypi v w = Ok (cmp_pypi_pure v w).
Proof.
  intros v w Hv Hw. unfold valid_pypi in *.
  apply andb_true_iff in Hv as [Hv Pv]. apply andb_true_iff in Hv as [Ev Rv].
  apply andb_true_iff in Hw as [Hw Pw]. apply andb_true_iff in Hw as [Ew Rw].
  unfold cmp_pypi, cmp_pypi_pure, lex2, by_key.
  rewrite (ocmp_pure _ _ Ev Ew), (comps_cmp_is_pure _ _ Rv Rw), (pre_cmp_on_ok _ _ Pv Pw). unfold by_key.
  destruct (legacy_cmp v w); simpl; try reflexivity.
  destruct (oval (py_epoch v) ?= oval (py_epoch w))%Z; simpl; try reflexivity.
  destruct (comps_cmp_pure (py_release v) (py_release w)); simpl; try reflexivity.
  destruct (pre_cmp_pure v w); reflexivity.
Qed.

Lemma cmp_pypi_laws_on_valid : trans_law_on valid_pypi cmp_pypi /\ eq_equiv_law_on valid_pypi cmp_pypi.
Proof. apply (laws_of_tp _ _ cmp_pypi_pure); [apply cmp_pypi_pure_tp | apply cmp_pypi_on_valid]. Qed.

Lemma cmp_pypi_total_on_valid : forall v w, valid_pypi v = true -> valid_pypi w = true -> exists c, cmp_pypi v w = Ok c.
Proof. intros v w Hv Hw. rewrite (cmp_pypi_on_valid v w Hv Hw). eexists; reflexivity. Qed.

(* antisymmetry on ALL structures (nil epochs, nil components, empty letters included) *)
Lemma cmp_pypi_antisym : forall v w, cmp_pypi w v = oppO (cmp_pypi v w).
Proof.
  intros v w. unfold cmp_pypi.
  apply thenO_opp; [simpl; rewrite (tp_antisym _ legacy_cmp_tp v w); reflexivity|].
  apply thenO_opp; [apply ocmp_antisym|].
  apply thenO_opp; [apply comps_cmp_antisym|].
  apply thenO_opp; [apply pre_cmp_antisym|].
  simpl. rewrite (tp_antisym _ post_cmp_tp v w), (tp_antisym _ dev_cmp_tp v w), (tp_antisym _ local_cmp_tp v w).
  rewrite !thenc_opp. reflexivity.
Qed.

(* reflexivity: every structure whose pre-release (if any) has a letter *)
Lemma cmp_pypi_refl : forall v, pre_ok v = true -> cmp_pypi v v = Ok Eq.
Proof.
  intros v P. unfold cmp_pypi.
  rewrite (tp_refl _ legacy_cmp_tp), ocmp_refl, comps_cmp_refl, (pre_cmp_on_ok v v P P), (tp_refl _ pre_cmp_pure_tp).
  simpl. rewrite (tp_refl _ post_cmp_tp), (tp_refl _ dev_cmp_tp), (tp_refl _ local_cmp_tp). reflexivity.
Qed.
